//go:build cw

package verifharness

import (
	"fmt"
	"strings"
)

// Scenario generators of work package cw.

func hop(c int, h HOp) Step { return Step{Op: "h", C: c, H: &h} }

// tok: payload token of the i-th of n messages; in a burst of two or more the last one is the EMPTY message
// (token 0: it marshals to a zero-length body), so that zero-length bodies occur at every kind of position
func tok(base, i, n int) int64 {
	if n >= 2 && i == n-1 {
		return 0
	}
	return int64(base + i)
}

// A base trace: a complete fault-free conversation on one stream (call index c),
// as a schedule: user operations, handler operations and wire deliveries.
type baseTrace struct {
	Name  string
	Kind  string
	Steps func(c int) []Step
}

func bidiTrace(n, m int, eagerRead bool, retCode int) baseTrace {
	name := fmt.Sprintf("bidi-n%d-m%d", n, m)
	if eagerRead {
		name += "-eager"
	}
	if retCode != 0 {
		name += fmt.Sprintf("-err%d", retCode)
	}
	return baseTrace{Name: name, Kind: "Bidi", Steps: func(c int) []Step {
		s := []Step{{Op: "c2s"}}
		for i := 0; i < n; i++ {
			s = append(s, Step{Op: "send", C: c, B: tok(10, i, n)}, Step{Op: "c2s"}, hop(c, HOp{Op: "recv"}))
		}
		for j := 0; j < m; j++ {
			s = append(s, hop(c, HOp{Op: "send", B: tok(20, j, m)}), Step{Op: "s2c"})
			if eagerRead {
				s = append(s, Step{Op: "recv", C: c})
			}
		}
		if !eagerRead {
			for j := 0; j < m; j++ {
				s = append(s, Step{Op: "recv", C: c})
			}
		}
		s = append(s, Step{Op: "closesend", C: c}, Step{Op: "c2s"}, hop(c, HOp{Op: "recv"}),
			hop(c, HOp{Op: "return", Code: retCode, Msg: 7}), Step{Op: "s2c"}, Step{Op: "recv", C: c})
		return s
	}}
}

// ping-pong with the Recv issued before the response exists (pending receives)
func pingPongTrace(n int) baseTrace {
	return baseTrace{Name: fmt.Sprintf("bidi-pingpong%d", n), Kind: "Bidi", Steps: func(c int) []Step {
		s := []Step{{Op: "c2s"}}
		for i := 0; i < n; i++ {
			s = append(s, Step{Op: "recv", C: c}, Step{Op: "send", C: c, B: int64(10 + i)}, Step{Op: "c2s"},
				hop(c, HOp{Op: "recv"}), hop(c, HOp{Op: "send", B: int64(20 + i)}), Step{Op: "s2c"})
		}
		s = append(s, Step{Op: "recv", C: c}, Step{Op: "closesend", C: c}, Step{Op: "c2s"}, hop(c, HOp{Op: "recv"}),
			hop(c, HOp{Op: "return"}), Step{Op: "s2c"})
		return s
	}}
}

// the handler ends the stream while the client is still sending
func handlerFirstTrace() baseTrace {
	return baseTrace{Name: "bidi-handler-closes-first", Kind: "Bidi", Steps: func(c int) []Step {
		return []Step{{Op: "c2s"}, {Op: "send", C: c, B: 10}, {Op: "c2s"}, hop(c, HOp{Op: "recv"}),
			hop(c, HOp{Op: "send", B: 20}), hop(c, HOp{Op: "return"}), {Op: "s2c"}, {Op: "s2c"},
			{Op: "recv", C: c}, {Op: "recv", C: c}, {Op: "closesend", C: c}, {Op: "c2s"}}
	}}
}

func headerTrace() baseTrace {
	return baseTrace{Name: "bidi-headers", Kind: "Bidi", Steps: func(c int) []Step {
		return []Step{{Op: "c2s"}, {Op: "header", C: c}, hop(c, HOp{Op: "setheader", B: 3}), hop(c, HOp{Op: "sendheader", B: 0}), {Op: "s2c"},
			{Op: "send", C: c, B: 10}, {Op: "c2s"}, hop(c, HOp{Op: "recv"}), hop(c, HOp{Op: "send", B: 20}), {Op: "s2c"}, {Op: "recv", C: c},
			hop(c, HOp{Op: "settrailer", B: 5}), {Op: "closesend", C: c}, {Op: "c2s"}, hop(c, HOp{Op: "recv"}), hop(c, HOp{Op: "return"}),
			{Op: "s2c"}, {Op: "recv", C: c}, {Op: "trailer", C: c}}
	}}
}

// server stream: one request, m responses; unread = how many responses are on the client before the first Recv
func sstreamTrace(m int, lazy bool) baseTrace {
	name := fmt.Sprintf("sstream-m%d", m)
	if lazy {
		name += "-unread"
	}
	return baseTrace{Name: name, Kind: "SStream", Steps: func(c int) []Step {
		s := []Step{{Op: "c2s"}, {Op: "send", C: c, B: 10}, {Op: "closesend", C: c}, {Op: "c2s"}, {Op: "c2s"}, hop(c, HOp{Op: "recv"})}
		for j := 0; j < m; j++ {
			s = append(s, hop(c, HOp{Op: "send", B: tok(20, j, m)}), Step{Op: "s2c"})
			if !lazy {
				s = append(s, Step{Op: "recv", C: c})
			}
		}
		s = append(s, hop(c, HOp{Op: "return"}), Step{Op: "s2c"})
		if lazy {
			for j := 0; j < m; j++ {
				s = append(s, Step{Op: "recv", C: c})
			}
		}
		s = append(s, Step{Op: "recv", C: c})
		return s
	}}
}

func cstreamTrace(n int, retCode int) baseTrace {
	name := fmt.Sprintf("cstream-n%d", n)
	if retCode != 0 {
		name += fmt.Sprintf("-err%d", retCode)
	}
	return baseTrace{Name: name, Kind: "CStream", Steps: func(c int) []Step {
		s := []Step{{Op: "c2s"}}
		for i := 0; i < n; i++ {
			s = append(s, Step{Op: "send", C: c, B: tok(10, i, n)}, Step{Op: "c2s"}, hop(c, HOp{Op: "recv"}))
		}
		s = append(s, Step{Op: "closesend", C: c}, Step{Op: "c2s"}, hop(c, HOp{Op: "recv"}))
		if retCode == 0 {
			s = append(s, hop(c, HOp{Op: "send", B: 30}), Step{Op: "s2c"})
		}
		s = append(s, hop(c, HOp{Op: "return", Code: retCode, Msg: 8}), Step{Op: "s2c"}, Step{Op: "recv", C: c})
		if retCode == 0 {
			s = append(s, Step{Op: "recv", C: c})
		}
		return s
	}}
}

// client stream whose sends are all in flight before the server sees any (queued requests)
func cstreamBurstTrace(n int) baseTrace {
	return baseTrace{Name: fmt.Sprintf("cstream-burst%d", n), Kind: "CStream", Steps: func(c int) []Step {
		s := []Step{}
		for i := 0; i < n; i++ {
			s = append(s, Step{Op: "send", C: c, B: tok(10, i, n)})
		}
		s = append(s, Step{Op: "closesend", C: c}, Step{Op: "c2s"})
		for i := 0; i < n; i++ {
			s = append(s, Step{Op: "c2s"}, hop(c, HOp{Op: "recv"}))
		}
		s = append(s, Step{Op: "c2s"}, hop(c, HOp{Op: "recv"}), hop(c, HOp{Op: "send", B: 30}), hop(c, HOp{Op: "return"}),
			Step{Op: "s2c"}, Step{Op: "s2c"}, Step{Op: "recv", C: c}, Step{Op: "recv", C: c})
		return s
	}}
}

// the kinds of caller context (newCtx); every one of them must give the Canceled / DeadlineExceeded status
var ctxKindsCancel = []string{"cancel", "cause", "parent", "errgroup", "grandparent"}
var ctxKindsDeadline = []string{"cancel", "timeout", "cause", "timeoutcause", "parent", "errgroup", "grandparent"}

func ctxKindFor(withDeadline bool, n int) string {
	if n < 0 {
		n = -n
	}
	if withDeadline {
		return ctxKindsDeadline[n%len(ctxKindsDeadline)]
	}
	return ctxKindsCancel[n%len(ctxKindsCancel)]
}

func c07BaseTraces() []baseTrace {
	var ts []baseTrace
	// bidirectional
	for _, nm := range [][2]int{{0, 0}, {1, 1}, {2, 2}, {1, 3}, {0, 5}, {2, 0}, {0, 4}} {
		ts = append(ts, bidiTrace(nm[0], nm[1], false, 0))
	}
	ts = append(ts, bidiTrace(1, 2, true, 0), bidiTrace(1, 1, false, 5), bidiTrace(0, 2, false, 13),
		pingPongTrace(1), pingPongTrace(2), handlerFirstTrace(), headerTrace())
	// server streaming: 0..5 responses, read as they come / all queued unread
	for m := 0; m <= 5; m++ {
		ts = append(ts, sstreamTrace(m, false))
		if m > 0 {
			ts = append(ts, sstreamTrace(m, true))
		}
	}
	// client streaming
	for n := 0; n <= 3; n++ {
		ts = append(ts, cstreamTrace(n, 0))
	}
	ts = append(ts, cstreamTrace(1, 5), cstreamTrace(2, 9), cstreamBurstTrace(2), cstreamBurstTrace(3))
	return ts
}

// c07Scenario: base trace [0..p), then the cancellation (explicit, or the deadline on the virtual clock),
// then the tail that observes what the property speaks of.
//
//	other: 0 = no other call; 1 = another bidi stream with one exchange done, checked alive afterwards;
//	       2 = a unary call in flight whose handler is parked, released afterwards
func c07Scenario(bt baseTrace, p int, deadline bool, other int) cwScenario {
	var steps []Step
	c := 0
	switch other {
	case 1:
		steps = append(steps, Step{Op: "open", Kind: "Bidi"}, Step{Op: "c2s"}, Step{Op: "send", C: 0, B: 90}, Step{Op: "c2s"},
			hop(0, HOp{Op: "recv"}), hop(0, HOp{Op: "send", B: 91}), Step{Op: "s2c"}, Step{Op: "recv", C: 0})
		c = 1
	case 2:
		steps = append(steps, Step{Op: "unary", B: 95, Gate: true}, Step{Op: "c2s"})
		c = 1
	}
	open := Step{Op: "open", Kind: bt.Kind}
	if deadline {
		open.D = 5000
	} else if p%2 == 1 {
		// an explicit cancel of a call that also carries a (distant) deadline: the handler's context is a timeout context
		open.D = 600000
	}
	open.Ctx = ctxKindFor(open.D > 0, p+3*other+len(bt.Name)+len(bt.Kind))
	steps = append(steps, open)
	base := bt.Steps(c)
	steps = append(steps, base[:p]...)
	if deadline {
		steps = append(steps, Step{Op: "tick", D: 5000})
	} else {
		steps = append(steps, Step{Op: "cancel", C: c})
	}
	// tail: settle the wires, then the caller keeps using the stream, the handler finishes
	steps = append(steps, Step{Op: "drain"}, Step{Op: "recv", C: c}, Step{Op: "send", C: c, B: 40}, Step{Op: "recv", C: c},
		Step{Op: "closesend", C: c}, Step{Op: "drain"},
		hop(c, HOp{Op: "await"}), hop(c, HOp{Op: "send", B: 41}), hop(c, HOp{Op: "return", Ctx: true}), Step{Op: "drain"})
	switch other {
	case 1:
		steps = append(steps, Step{Op: "send", C: 0, B: 92}, Step{Op: "c2s"}, hop(0, HOp{Op: "recv"}), hop(0, HOp{Op: "send", B: 93}),
			Step{Op: "s2c"}, Step{Op: "recv", C: 0}, Step{Op: "closesend", C: 0}, Step{Op: "c2s"}, hop(0, HOp{Op: "recv"}),
			hop(0, HOp{Op: "return"}), Step{Op: "s2c"}, Step{Op: "recv", C: 0})
	case 2:
		steps = append(steps, Step{Op: "hu", B: 95}, Step{Op: "drain"})
	}
	how := "cancel"
	if deadline {
		how = "deadline"
	}
	return cwScenario{Mode: "e2e", Steps: steps, Cancel: p,
		Tags: []string{"c07", "kind:" + bt.Kind, "trace:" + bt.Name, "how:" + how, fmt.Sprintf("other:%d", other), fmt.Sprintf("prefix:%d", p), "ctx:" + open.Ctx}}
}

// c07FaultScenario: as c07Scenario, but exactly the Write of the RST_STREAM fails (a per-message failure, the
// connection stays healthy): the caller's side of the property must hold all the same - its pending operations
// return, every later operation reports the context's status; the handler is not judged (it never learns).
func c07FaultScenario(bt baseTrace, p int, deadline bool, other int) cwScenario {
	sc := c07Scenario(bt, p, deadline, other)
	var steps []Step
	cut := -1
	c := 0
	if other != 0 {
		c = 1
	}
	for i, st := range sc.Steps {
		if cut < 0 && ((deadline && st.Op == "tick" && st.D == 5000) || (!deadline && st.Op == "cancel")) {
			steps = append(steps, Step{Op: "wfail", B: 1}, st, Step{Op: "drain"}, Step{Op: "wfail", B: 0})
			cut = i
			continue
		}
		if cut >= 0 && st.Op == "h" && st.H != nil && st.C == c && (st.H.Op == "await" || st.H.Ctx) {
			// the handler of the cancelled call cannot wait for a cancellation that never reaches it
			if st.H.Op == "await" {
				continue
			}
			h := *st.H
			h.Ctx = false
			st.H = &h
		}
		steps = append(steps, st)
	}
	sc.Steps = steps
	sc.Tags = append(sc.Tags, "fault:rst-write-fails")
	return sc
}

// c07OpenCancel: the cancellation lands INSIDE NewStream's transport Write ("prefix one half"): right after the transport
// accepted the opener (explicit cancel / the deadline passing there), or while that Write is held up by back-pressure.
// Expected: the reset reaches the server, or the opener never does. Not a state of Model/Client.v (mode e2efree:
// judged by the predicates only, c07_open_cancel).
func c07OpenCancel(kind, at string, other int, ctxk string) cwScenario {
	var steps []Step
	c := 0
	switch other {
	case 1:
		steps = append(steps, Step{Op: "open", Kind: "Bidi"}, Step{Op: "c2s"}, Step{Op: "send", C: 0, B: 90}, Step{Op: "c2s"},
			hop(0, HOp{Op: "recv"}), hop(0, HOp{Op: "send", B: 91}), Step{Op: "s2c"}, Step{Op: "recv", C: 0})
		c = 1
	case 2:
		steps = append(steps, Step{Op: "unary", B: 95, Gate: true}, Step{Op: "c2s"})
		c = 1
	}
	open := Step{Op: "open", Kind: kind, At: at, Ctx: ctxk}
	if at == "after-write-deadline" || at == "blocked-deadline" {
		open.D = 800
	}
	steps = append(steps, open, Step{Op: "drain"}, Step{Op: "recv", C: c}, Step{Op: "send", C: c, B: 40}, Step{Op: "drain"})
	switch other {
	case 1:
		steps = append(steps, Step{Op: "send", C: 0, B: 92}, Step{Op: "c2s"}, hop(0, HOp{Op: "recv"}), hop(0, HOp{Op: "send", B: 93}),
			Step{Op: "s2c"}, Step{Op: "recv", C: 0}, Step{Op: "closesend", C: 0}, Step{Op: "c2s"}, hop(0, HOp{Op: "recv"}),
			hop(0, HOp{Op: "return"}), Step{Op: "s2c"}, Step{Op: "recv", C: 0})
	case 2:
		steps = append(steps, Step{Op: "hu", B: 95}, Step{Op: "drain"})
	}
	return cwScenario{Mode: "e2efree", Steps: steps, Tags: []string{"c07", "kind:" + kind, "cancel-inside-open-write:" + at,
		fmt.Sprintf("other:%d", other), "ctx:" + ctxk}}
}

// c07StalledSend: the cancellation lands while the handler is parked in SendMsg behind the connection's stalled writer
// (the server's transport accepts no Write: the writer goroutine sits in its Write with one envelope, the handler's
// next SendMsg waits for the writer). After the reset has reached the server that SendMsg must have returned with the
// context's error ("handler reads / writes unblock on its context") and the handler must be able to return.
func c07StalledSend(kind string, k int, deadline bool, clientRecv bool, other int) cwScenario {
	var steps []Step
	c := 0
	switch other {
	case 1:
		steps = append(steps, Step{Op: "open", Kind: "Bidi"}, Step{Op: "c2s"}, Step{Op: "send", C: 0, B: 90}, Step{Op: "c2s"},
			hop(0, HOp{Op: "recv"}), hop(0, HOp{Op: "send", B: 91}), Step{Op: "s2c"}, Step{Op: "recv", C: 0})
		c = 1
	case 2:
		steps = append(steps, Step{Op: "unary", B: 95, Gate: true}, Step{Op: "c2s"})
		c = 1
	}
	open := Step{Op: "open", Kind: kind}
	if deadline {
		open.D = 5000
	}
	open.Ctx = ctxKindFor(deadline, k+other+len(kind))
	steps = append(steps, open, Step{Op: "c2s"}, Step{Op: "send", C: c, B: 10}, Step{Op: "c2s"}, hop(c, HOp{Op: "recv"}))
	for j := 0; j < k; j++ {
		steps = append(steps, hop(c, HOp{Op: "send", B: int64(20 + j)}), Step{Op: "s2c"}, Step{Op: "recv", C: c})
	}
	steps = append(steps, Step{Op: "sblock", B: 1}, hop(c, HOp{Op: "send", B: 30}), hop(c, HOp{Op: "send", B: 31}))
	if clientRecv {
		steps = append(steps, Step{Op: "recv", C: c})
	}
	if deadline {
		steps = append(steps, Step{Op: "tick", D: 5000})
	} else {
		steps = append(steps, Step{Op: "cancel", C: c})
	}
	steps = append(steps, Step{Op: "drain"}, Step{Op: "recv", C: c}, hop(c, HOp{Op: "return", Ctx: true}), Step{Op: "drain"},
		Step{Op: "sblock", B: 0}, Step{Op: "drain"})
	switch other {
	case 1:
		steps = append(steps, Step{Op: "send", C: 0, B: 92}, Step{Op: "c2s"}, hop(0, HOp{Op: "recv"}), hop(0, HOp{Op: "send", B: 93}),
			Step{Op: "s2c"}, Step{Op: "recv", C: 0}, Step{Op: "closesend", C: 0}, Step{Op: "c2s"}, hop(0, HOp{Op: "recv"}),
			hop(0, HOp{Op: "return"}), Step{Op: "s2c"}, Step{Op: "recv", C: 0})
	case 2:
		steps = append(steps, Step{Op: "hu", B: 95}, Step{Op: "drain"})
	}
	how := "cancel"
	if deadline {
		how = "deadline"
	}
	return cwScenario{Mode: "e2e", Steps: steps, Tags: []string{"c07", "kind:" + kind, "handler:parked-in-send-behind-stalled-writer", "how:" + how,
		fmt.Sprintf("sent-before:%d", k), fmt.Sprintf("client-recv-pending:%v", clientRecv), fmt.Sprintf("other:%d", other), "ctx:" + open.Ctx}}
}

func c07StalledSendScenarios(full bool) []cwScenario {
	var out []cwScenario
	for ki, kind := range []string{"Bidi", "SStream"} {
		for k := 0; k <= 2; k++ {
			for dl := 0; dl < 2; dl++ {
				for cr := 0; cr < 2; cr++ {
					for other := 0; other <= 2; other++ {
						if !full && (ki+k+dl+cr+other)%2 == 1 {
							continue
						}
						out = append(out, c07StalledSend(kind, k, dl == 1, cr == 1, other))
					}
				}
			}
		}
	}
	return out
}

// c07Scale: n concurrent streams on one connection (kinds and caller contexts mixed) whose handlers only end on
// cancellation (they wait for their contexts); then all of them are cancelled (or the oldest one, with all the others
// active). Every cancelled call's handler context is done once its reset has reached the server, and the handler
// returns. n ranges over the resource numbers of the code (8 workers, queue capacities 1 and 16) and the round numbers
// a limit might be set to, plus one (quick: 9, 17, 33, 101; thorough: also 2, 65, 129, 257). Not compared with the model (mode e2efree): predicates only.
func c07Scale(n int, how string) cwScenario {
	var s []Step
	kinds := []string{"Bidi", "CStream", "SStream"}
	for i := 0; i < n; i++ {
		s = append(s, Step{Op: "open", Kind: kinds[i%3], Ctx: ctxKindFor(false, i)}, Step{Op: "c2s"})
	}
	for i := 0; i < n; i++ {
		s = append(s, hop(i, HOp{Op: "await"}))
	}
	m := n
	if how == "oldest" {
		m = 1
	}
	for i := 0; i < m; i++ {
		s = append(s, Step{Op: "cancel", C: i})
	}
	s = append(s, Step{Op: "drain"})
	for i := 0; i < m; i++ {
		s = append(s, hop(i, HOp{Op: "return", Ctx: true}))
	}
	s = append(s, Step{Op: "drain"})
	return cwScenario{Mode: "e2efree", Steps: s, Tags: []string{"c07", "family:scale", fmt.Sprintf("streams:%d", n), "cancel:" + how}}
}

func c07ScaleScenarios(full bool) []cwScenario {
	var out []cwScenario
	// (one observation per step, each listing every live handler: 1000 streams would be 7 million entries; not run)
	ns := []int{9, 17, 33, 101}
	if full {
		ns = []int{2, 9, 17, 33, 65, 101, 129, 257}
	}
	for _, n := range ns {
		out = append(out, c07Scale(n, "all"), c07Scale(n, "oldest"))
	}
	return out
}

// c07SendParked: a SendMsg of the caller is parked in the transport (client-side back-pressure) when the cancellation
// (or the deadline) lands; then the back-pressure ends. The SendMsg returns the context's error (never EOF: no terminal
// envelope was delivered), later operations report the status, exactly one reset, the handler's context ends. Client.v's
// Writes are atomic: mode e2efree (predicates only).
func c07SendParked(kind string, deadline bool, other int, ctxk string) cwScenario {
	var steps []Step
	c := 0
	switch other {
	case 1:
		steps = append(steps, Step{Op: "open", Kind: "Bidi"}, Step{Op: "c2s"}, Step{Op: "send", C: 0, B: 90}, Step{Op: "c2s"},
			hop(0, HOp{Op: "recv"}), hop(0, HOp{Op: "send", B: 91}), Step{Op: "s2c"}, Step{Op: "recv", C: 0})
		c = 1
	case 2:
		steps = append(steps, Step{Op: "unary", B: 95, Gate: true}, Step{Op: "c2s"})
		c = 1
	}
	open := Step{Op: "open", Kind: kind, Ctx: ctxk}
	cu := Step{Op: "cancelunblock", C: c}
	if deadline {
		open.D = 5000
		cu.D = 5000
	}
	steps = append(steps, open, Step{Op: "c2s"}, Step{Op: "send", C: c, B: 10}, Step{Op: "c2s"}, hop(c, HOp{Op: "recv"}),
		Step{Op: "cblock", B: 1}, Step{Op: "send", C: c, B: 11}, cu, Step{Op: "drain"},
		Step{Op: "recv", C: c}, Step{Op: "send", C: c, B: 40}, Step{Op: "closesend", C: c}, Step{Op: "drain"},
		hop(c, HOp{Op: "await"}), hop(c, HOp{Op: "return", Ctx: true}), Step{Op: "drain"})
	switch other {
	case 1:
		steps = append(steps, Step{Op: "send", C: 0, B: 92}, Step{Op: "c2s"}, hop(0, HOp{Op: "recv"}), hop(0, HOp{Op: "send", B: 93}),
			Step{Op: "s2c"}, Step{Op: "recv", C: 0}, Step{Op: "closesend", C: 0}, Step{Op: "c2s"}, hop(0, HOp{Op: "recv"}),
			hop(0, HOp{Op: "return"}), Step{Op: "s2c"}, Step{Op: "recv", C: 0})
	case 2:
		steps = append(steps, Step{Op: "hu", B: 95}, Step{Op: "drain"})
	}
	how := "cancel"
	if deadline {
		how = "deadline"
	}
	return cwScenario{Mode: "e2efree", Steps: steps, Tags: []string{"c07", "kind:" + kind, "caller:parked-in-send-under-backpressure", "how:" + how,
		fmt.Sprintf("other:%d", other), "ctx:" + ctxk}}
}

func c07SendParkedScenarios() []cwScenario {
	var out []cwScenario
	for ki, kind := range []string{"Bidi", "CStream"} {
		for dl := 0; dl < 2; dl++ {
			for other := 0; other <= 2; other++ {
				out = append(out, c07SendParked(kind, dl == 1, other, ctxKindFor(dl == 1, ki+dl+other)))
			}
		}
	}
	return out
}

// c07ScaleBlocked: n concurrent streams, all cancelled back to back (as under one cancelled parent) while the client's
// transport takes no Write; then the back-pressure ends: EVERY cancelled stream's reset reaches the wire, every handler's
// context ends. n around the sizes a reset queue might have (16: 17, 18, 24, 33).
func c07ScaleBlocked(n int, blocked bool) cwScenario {
	var s []Step
	kinds := []string{"Bidi", "CStream", "SStream"}
	for i := 0; i < n; i++ {
		s = append(s, Step{Op: "open", Kind: kinds[i%3], Ctx: ctxKindFor(false, i)}, Step{Op: "c2s"})
	}
	for i := 0; i < n; i++ {
		s = append(s, hop(i, HOp{Op: "await"}))
	}
	ca := Step{Op: "cancelall"}
	if blocked {
		ca.B = 1
	}
	s = append(s, ca, Step{Op: "drain"})
	for i := 0; i < n; i++ {
		s = append(s, hop(i, HOp{Op: "return", Ctx: true}))
	}
	s = append(s, Step{Op: "drain"})
	return cwScenario{Mode: "e2efree", Steps: s, Tags: []string{"c07", "family:scale", fmt.Sprintf("streams:%d", n), "cancel:all-at-once",
		fmt.Sprintf("client-writes-blocked:%v", blocked)}}
}

func c07ScaleBlockedScenarios(full bool) []cwScenario {
	out := []cwScenario{c07ScaleBlocked(17, true), c07ScaleBlocked(18, true), c07ScaleBlocked(24, true), c07ScaleBlocked(33, true), c07ScaleBlocked(33, false)}
	if full {
		out = append(out, c07ScaleBlocked(9, true), c07ScaleBlocked(65, true), c07ScaleBlocked(101, true), c07ScaleBlocked(129, true), c07ScaleBlocked(101, false))
	}
	return out
}

// c07ResetWriteSlow: as c07Scenario with an explicit cancel, but the client's transport takes no Write for d ms of
// virtual time after the cancellation (d below the reset Write's 30 s bound: 300 ms, 1 s, 5 s, 29.9 s) and is then
// released: the reset must still reach the wire and the handler's context end. For the model a plain cancellation.
func c07ResetWriteSlow(bt baseTrace, p int, other int, d int64) cwScenario {
	sc := c07Scenario(bt, p, false, other)
	for i, st := range sc.Steps {
		if st.Op == "cancel" {
			sc.Steps[i] = Step{Op: "cancelblk", C: st.C, D: d}
			break
		}
	}
	sc.Tags = append(sc.Tags, fmt.Sprintf("reset-write-held-ms:%d", d))
	return sc
}

func c07ResetWriteSlowScenarios(full bool) []cwScenario {
	var out []cwScenario
	ds := []int64{300, 1000, 5000, 29900}
	for ti, bt := range c07BaseTraces() {
		if strings.Contains(bt.Name, "pingpong") || strings.Contains(bt.Name, "headers") {
			// a RecvMsg (or Header()) PENDING at the cancellation: the stream loop's teardown holds the stream's mutex across the reset
			// Write, the woken RecvMsg waits for that mutex (readErrorIfDone) until the Write has finished or given up
			// (<= 30 s: bounded, see notes-cw "observation, round 8"); a goroutine waiting for a mutex stops the bubble's
			// virtual clock, so the hold cannot be played here (the watchdog reports a wedge that real time would resolve)
			continue
		}
		n := len(bt.Steps(0))
		for p := 0; p <= n; p++ {
			if !full && p != 0 && p != n/2 && p != n {
				continue
			}
			out = append(out, c07ResetWriteSlow(bt, p, (ti+p)%3, ds[(ti+p)%len(ds)]))
		}
	}
	return out
}

func c07OpenCancelScenarios() []cwScenario {
	var out []cwScenario
	for _, kind := range []string{"Bidi", "CStream", "SStream"} {
		for _, at := range []string{"after-write", "after-write-deadline", "blocked", "blocked-deadline"} {
			for other := 0; other <= 2; other++ {
				for _, ctxk := range []string{"cancel", "cause", "parent"} {
					if (at == "after-write-deadline" || at == "blocked-deadline") && ctxk == "parent" {
						ctxk = "timeoutcause"
					}
					out = append(out, c07OpenCancel(kind, at, other, ctxk))
				}
			}
		}
	}
	return out
}

// ---------------------------------------------------------------- C11

func bodyEnv(call int, b int64) *EnvSpec {
	return &EnvSpec{Call: call, Hdr: "ok:0", Body: i64(b), Trl: "none"}
}
func trlEnv(call int, code int64) *EnvSpec {
	return &EnvSpec{Call: call, Hdr: "ok:0", Status: &[2]int64{code, 7}, Trl: "ok:0"}
}
func replyEnv(call int, b int64) *EnvSpec {
	return &EnvSpec{Call: call, Hdr: "ok:0", Body: i64(b), Trl: "ok:0"}
}

// others in flight: 1 = a gated unary call; 2 = that and an idle bidi stream with one exchange done
func c11Others(o int) (pre, post []Step, next int) {
	if o >= 1 {
		pre = append(pre, Step{Op: "unary", B: 95, Gate: true}, Step{Op: "c2s"})
		post = append(post, Step{Op: "hu", B: 95}, Step{Op: "drain"})
		next = 1
	}
	if o >= 2 {
		c := next
		pre = append(pre, Step{Op: "open", Kind: "Bidi"}, Step{Op: "c2s"}, Step{Op: "send", C: c, B: 90}, Step{Op: "c2s"},
			hop(c, HOp{Op: "recv"}), hop(c, HOp{Op: "send", B: 91}), Step{Op: "s2c"}, Step{Op: "recv", C: c})
		post = append(post, Step{Op: "send", C: c, B: 92}, Step{Op: "c2s"}, hop(c, HOp{Op: "recv"}), hop(c, HOp{Op: "send", B: 93}),
			Step{Op: "s2c"}, Step{Op: "recv", C: c}, Step{Op: "closesend", C: c}, Step{Op: "c2s"}, hop(c, HOp{Op: "recv"}),
			hop(c, HOp{Op: "return"}), Step{Op: "s2c"}, Step{Op: "recv", C: c})
		next++
	}
	return
}

func probeSteps(withDeadline bool) []Step {
	p := Step{Op: "unary", B: 77}
	s := []Step{}
	if withDeadline {
		p.D = 1000
	}
	s = append(s, p, Step{Op: "drain"})
	if withDeadline {
		// a probe that has not been answered by now gets DeadlineExceeded
		s = append(s, Step{Op: "tick", D: 1000}, Step{Op: "drain"})
	}
	return s
}

// handler abandons: the client sends n messages, r of them reach the server before the handler, having read k
// of them, returns (k <= r <= n); the rest arrives afterwards.
func c11HandlerAbandons(kind string, n, k, r, others int, probeDl bool, retCode int) cwScenario {
	pre, post, c := c11Others(others)
	s := append([]Step{}, pre...)
	s = append(s, Step{Op: "open", Kind: kind}, Step{Op: "c2s"})
	for i := 0; i < n; i++ {
		b := int64(10 + i)
		if (i+n)%2 == 1 {
			b = 0 // the empty message: a zero-length body
		}
		s = append(s, Step{Op: "send", C: c, B: b})
	}
	for i := 0; i < r; i++ {
		s = append(s, Step{Op: "c2s"})
		if i < k {
			s = append(s, hop(c, HOp{Op: "recv"}))
		}
	}
	if kind != "CStream" {
		s = append(s, hop(c, HOp{Op: "send", B: 20}))
	}
	s = append(s, hop(c, HOp{Op: "return", Code: retCode, Msg: 7}), Step{Op: "drain"},
		Step{Op: "send", C: c, B: int64(50 * (k % 2))}, Step{Op: "closesend", C: c}, Step{Op: "drain"},
		Step{Op: "recv", C: c}, Step{Op: "recv", C: c}, Step{Op: "recv", C: c})
	s = append(s, probeSteps(probeDl)...)
	s = append(s, post...)
	return cwScenario{Mode: "e2e", Steps: s, Tags: []string{"c11", "abandon:handler", "kind:" + kind, fmt.Sprintf("n:%d", n), fmt.Sprintf("k:%d", k),
		fmt.Sprintf("arrived:%d", r), fmt.Sprintf("others:%d", others), fmt.Sprintf("probe-deadline:%v", probeDl)}}
}

// caller abandons: the handler sends m+extra responses, all of them reach the client, none is read; the caller
// cancels (or its deadline expires, or it simply never reads again and the handler finishes).
func c11CallerAbandons(kind string, m, extra int, how string, others int, probeDl bool) cwScenario {
	if how == "stop-reading" {
		// a LIVE caller that is not reading holds the read loop legitimately (back-pressure): a probe with a deadline
		// would expire although its reply was delivered; spec_c11 counts that as a failure (unary_ok), so no deadline here
		probeDl = false
	}
	pre, post, c := c11Others(others)
	s := append([]Step{}, pre...)
	open := Step{Op: "open", Kind: kind}
	if how == "deadline" || how == "deadline-rstfail" {
		open.D = 3000
	}
	open.Ctx = ctxKindFor(open.D > 0, m+2*others+len(how))
	s = append(s, open, Step{Op: "c2s"}, Step{Op: "send", C: c, B: 10}, Step{Op: "c2s"}, hop(c, HOp{Op: "recv"}))
	for j := 0; j < m+extra; j++ {
		s = append(s, hop(c, HOp{Op: "send", B: int64(20 + j)}))
	}
	for j := 0; j < extra; j++ {
		s = append(s, Step{Op: "s2c"}, Step{Op: "recv", C: c})
	}
	s = append(s, Step{Op: "drain"})
	switch how {
	case "cancel":
		s = append(s, Step{Op: "cancel", C: c})
	case "deadline":
		s = append(s, Step{Op: "tick", D: 3000})
	case "stop-reading":
		// the caller never reads again; the handler finishes
	case "cancel-rstfail":
		// exactly the Write of the RST_STREAM fails (a per-message failure: the connection stays healthy); the handler
		// never learns of the cancellation and keeps sending
		s = append(s, Step{Op: "wfail", B: 1}, Step{Op: "cancel", C: c}, Step{Op: "drain"}, Step{Op: "wfail", B: 0})
	case "cancel-rstblocked":
		// the RST_STREAM Write blocks (back-pressure) until its 30 s deadline, then fails
		s = append(s, Step{Op: "cancelblk", C: c}, Step{Op: "drain"}, Step{Op: "wfail", B: 0})
	case "deadline-rstfail":
		s = append(s, Step{Op: "wfail", B: 1}, Step{Op: "tick", D: 3000}, Step{Op: "drain"}, Step{Op: "wfail", B: 0})
	}
	s = append(s, Step{Op: "drain"}, hop(c, HOp{Op: "send", B: 40}), hop(c, HOp{Op: "return"}), Step{Op: "drain"})
	s = append(s, probeSteps(probeDl)...)
	s = append(s, post...)
	if how == "stop-reading" {
		// back-pressure by a live caller is not abandonment: it reads at the end
		for j := 0; j < m+2; j++ {
			s = append(s, Step{Op: "recv", C: c}, Step{Op: "drain"})
		}
		s = append(s, Step{Op: "closesend", C: c}, Step{Op: "drain"}, Step{Op: "recv", C: c}, Step{Op: "recv", C: c})
	}
	return cwScenario{Mode: "e2e", Steps: s, Tags: []string{"c11", "abandon:caller", "kind:" + kind, fmt.Sprintf("unread:%d", m), "how:" + how,
		fmt.Sprintf("others:%d", others), fmt.Sprintf("probe-deadline:%v", probeDl)}}
}

// the trailer of an abandoned stream is in the connection writer's hands while the transport Write is held up by
// back-pressure; the caller cancels (or its deadline expires) and the reset reaches the server; then the back-pressure
// ends. The connection's writer must survive: a probe is answered.
func c11TrailerBlocked(kind string, how string, exchanged int, others int, probeDl bool) cwScenario {
	pre, post, c := c11Others(others)
	s := append([]Step{}, pre...)
	open := Step{Op: "open", Kind: kind}
	if how == "deadline" {
		open.D = 3000
	}
	s = append(s, open, Step{Op: "c2s"}, Step{Op: "send", C: c, B: 10}, Step{Op: "c2s"}, hop(c, HOp{Op: "recv"}))
	if kind != "CStream" {
		for j := 0; j < exchanged; j++ {
			s = append(s, hop(c, HOp{Op: "send", B: int64(20 + j)}), Step{Op: "s2c"}, Step{Op: "recv", C: c})
		}
	}
	s = append(s, Step{Op: "sblock", B: 1}, hop(c, HOp{Op: "return", Code: 5 * (exchanged % 2), Msg: 7}))
	if how == "deadline" {
		s = append(s, Step{Op: "tick", D: 3000})
	} else {
		s = append(s, Step{Op: "cancel", C: c})
	}
	s = append(s, Step{Op: "c2s"}, Step{Op: "sblock", B: 0}, Step{Op: "drain"})
	s = append(s, probeSteps(probeDl)...)
	s = append(s, post...)
	s = append(s, Step{Op: "recv", C: c})
	return cwScenario{Mode: "e2e", Steps: s, Tags: []string{"c11", "abandon:caller", "kind:" + kind, "how:" + how, "fault:trailer-write-blocked",
		fmt.Sprintf("exchanged:%d", exchanged), fmt.Sprintf("others:%d", others), fmt.Sprintf("probe-deadline:%v", probeDl)}}
}

// back-pressure all the way: a unary call's reply travels BEHIND m >= 3 unread responses of a stream whose caller
// then cancels while the client's transport accepts no Write: the client's read loop is parked on the dead stream's
// full queue until the teardown has unregistered it, and the teardown is inside its RST_STREAM Write. That Write is
// bounded (30 s): once the virtual clock has passed the bound the stream is unregistered, the read loop goes on and
// the unary call gets its reply - with the back-pressure on the Writes still in place.
func c11ResetWriteBound(kind string, m int, advanceMs int64, second bool) cwScenario {
	s := []Step{{Op: "unary", B: 95, Gate: true}, {Op: "c2s"}}
	c := 1
	if second {
		// a second unary call whose reply is also behind the unread responses
		s = append(s, Step{Op: "unary", B: 96, Gate: true}, Step{Op: "c2s"})
		c = 2
	}
	s = append(s, Step{Op: "open", Kind: kind}, Step{Op: "c2s"}, Step{Op: "send", C: c, B: 10}, Step{Op: "c2s"}, hop(c, HOp{Op: "recv"}))
	for j := 0; j < m; j++ {
		s = append(s, hop(c, HOp{Op: "send", B: int64(20 + j)}))
	}
	s = append(s, Step{Op: "hu", B: 95})
	if second {
		s = append(s, Step{Op: "hu", B: 96})
	}
	s = append(s, Step{Op: "drain"}, Step{Op: "cancelblk", C: c, B: 1, D: advanceMs}, Step{Op: "drain"},
		hop(c, HOp{Op: "return"}), Step{Op: "drain"}, Step{Op: "recv", C: c})
	return cwScenario{Mode: "e2e", Steps: s, Tags: []string{"c11", "abandon:caller", "kind:" + kind, "fault:reset-write-blocked-for-good",
		fmt.Sprintf("unread:%d", m), fmt.Sprintf("advance-ms:%d", advanceMs), fmt.Sprintf("second:%v", second)}}
}

// as c11TrailerBlocked, with a MESSAGE of the stream (not its trailer) in the connection writer's hands while the
// transport Write is held up: the caller, with responses unread, cancels (or its deadline expires), the reset is
// processed by the server while the writer is parked in that Write, then the back-pressure ends. The Endpoint's blocked
// Write observes the context it was GIVEN (it returns that context's error). The connection must survive: the other
// RPCs in flight and a probe complete, Serve is still serving.
func c11BodyBlocked(kind string, how string, unread, parked int, others int, probeDl bool) cwScenario {
	pre, post, c := c11Others(others)
	s := append([]Step{}, pre...)
	open := Step{Op: "open", Kind: kind}
	if how == "deadline" {
		open.D = 3000
	}
	open.Ctx = ctxKindFor(open.D > 0, unread+parked+others)
	s = append(s, open, Step{Op: "c2s"}, Step{Op: "send", C: c, B: 10}, Step{Op: "c2s"}, hop(c, HOp{Op: "recv"}))
	for j := 0; j < unread; j++ {
		s = append(s, hop(c, HOp{Op: "send", B: int64(20 + j)}), Step{Op: "s2c"})
	}
	s = append(s, Step{Op: "sblock", B: 1}, hop(c, HOp{Op: "send", B: 30}))
	for j := 0; j < parked; j++ {
		s = append(s, hop(c, HOp{Op: "send", B: int64(31 + j)}))
	}
	if how == "deadline" {
		s = append(s, Step{Op: "tick", D: 3000})
	} else {
		s = append(s, Step{Op: "cancel", C: c})
	}
	s = append(s, Step{Op: "c2s"}, Step{Op: "sblock", B: 0}, Step{Op: "drain"}, hop(c, HOp{Op: "return", Ctx: true}), Step{Op: "drain"})
	s = append(s, probeSteps(probeDl)...)
	s = append(s, post...)
	s = append(s, Step{Op: "recv", C: c})
	return cwScenario{Mode: "e2e", Steps: s, Tags: []string{"c11", "abandon:caller", "kind:" + kind, "how:" + how, "fault:body-write-blocked",
		fmt.Sprintf("unread:%d", unread), fmt.Sprintf("parked-sends:%d", parked), fmt.Sprintf("others:%d", others), fmt.Sprintf("probe-deadline:%v", probeDl)}}
}

// the client's HALF-CLOSE is the envelope that waits in the server's forwarding select (the stream's one-slot queue is
// occupied by an unread message) when the handler returns: n messages and CloseSend are all delivered, the handler has
// read k of them (k = n-1: the half-close is the parked envelope; k < n-1: a message is, the half-close behind it) and
// returns. Then a probe unary call and a NEW stream.
func c11HalfCloseParked(kind string, n, k, others int, probeDl bool, retCode int) cwScenario {
	pre, post, c := c11Others(others)
	s := append([]Step{}, pre...)
	s = append(s, Step{Op: "open", Kind: kind}, Step{Op: "c2s"})
	for i := 0; i < n; i++ {
		s = append(s, Step{Op: "send", C: c, B: int64((10 + i) * ((i + n) % 2))})
	}
	s = append(s, Step{Op: "closesend", C: c})
	for i := 0; i < k; i++ {
		s = append(s, Step{Op: "c2s"}, hop(c, HOp{Op: "recv"}))
	}
	s = append(s, Step{Op: "drain"}, hop(c, HOp{Op: "return", Code: retCode, Msg: 7}), Step{Op: "drain"},
		Step{Op: "recv", C: c}, Step{Op: "recv", C: c})
	s = append(s, probeSteps(probeDl)...)
	s = append(s, post...)
	// a new stream on the same connection
	nc := c + 2
	s = append(s, Step{Op: "open", Kind: "Bidi"}, Step{Op: "c2s"}, Step{Op: "send", C: nc, B: 60}, Step{Op: "c2s"}, hop(nc, HOp{Op: "recv"}),
		hop(nc, HOp{Op: "send", B: 61}), Step{Op: "s2c"}, Step{Op: "recv", C: nc}, Step{Op: "closesend", C: nc}, Step{Op: "c2s"},
		hop(nc, HOp{Op: "recv"}), hop(nc, HOp{Op: "return"}), Step{Op: "s2c"}, Step{Op: "recv", C: nc})
	return cwScenario{Mode: "e2e", Steps: s, Tags: []string{"c11", "abandon:handler", "half-close:delivered-before-return", "kind:" + kind,
		fmt.Sprintf("n:%d", n), fmt.Sprintf("k:%d", k), fmt.Sprintf("others:%d", others), fmt.Sprintf("probe-deadline:%v", probeDl)}}
}

// c11UnarySurplus: a peer that answers ONE unary call n times (2..5), the replies handed to the client's transport in
// one burst (before the caller has returned: reply 1 is taken, reply 2 fills the call's slot, the read loop offers
// reply 3) and, optionally, one more after the caller has returned; then a probe unary call and a stream.
func c11UnarySurplus(n int, late bool, probeDl bool) cwScenario {
	s := []Step{{Op: "unary", B: 60}, {Op: "peer", Env: replyEnv(0, 60), B: int64(n)}}
	if late {
		s = append(s, Step{Op: "peer", Env: replyEnv(0, 60)})
	}
	p := Step{Op: "unary", B: 77}
	if probeDl {
		p.D = 1000
	}
	s = append(s, p, Step{Op: "peer", Env: replyEnv(1, 77)})
	if probeDl {
		s = append(s, Step{Op: "tick", D: 1000})
	}
	s = append(s, Step{Op: "open", Kind: "Bidi"}, Step{Op: "send", C: 2, B: 10}, Step{Op: "peer", Env: bodyEnv(2, 20)}, Step{Op: "recv", C: 2},
		Step{Op: "peer", Env: trlEnv(2, 0)}, Step{Op: "recv", C: 2})
	return cwScenario{Mode: "client", Steps: s, Tags: []string{"c11", "abandon:peer-oversends", "shape:unary-surplus-burst", fmt.Sprintf("replies:%d", n),
		fmt.Sprintf("one-more-later:%v", late), fmt.Sprintf("probe-deadline:%v", probeDl)}}
}

// c11DeadlineFreesLoop: a streaming call WITH a deadline whose handler stopped consuming (k read) and does not return;
// the caller has sent k+extra messages (extra >= 2: one fills the stream's queue, the next parks the server's read loop
// under the registry lock); then the deadline passes: the hold must end at the server's OWN timer (the handler's context
// carries the GRPC-Timeout); a probe completes, the other calls finish.
func c11DeadlineFreesLoop(kind string, k, extra, others int, closeToo bool) cwScenario {
	pre, post, c := c11Others(others)
	s := append([]Step{}, pre...)
	s = append(s, Step{Op: "open", Kind: kind, D: 3000, Ctx: ctxKindFor(true, k+extra+others)}, Step{Op: "c2s"})
	for i := 0; i < k; i++ {
		s = append(s, Step{Op: "send", C: c, B: int64(10 + i)}, Step{Op: "c2s"}, hop(c, HOp{Op: "recv"}))
	}
	for i := 0; i < extra; i++ {
		s = append(s, Step{Op: "send", C: c, B: int64((20 + i) * (i % 2))})
	}
	if closeToo {
		s = append(s, Step{Op: "closesend", C: c})
	}
	s = append(s, Step{Op: "drain"}, Step{Op: "tick", D: 3000}, Step{Op: "drain"})
	// the handler does NOT return within the scenario (its return would cancel the stream and end any hold): the probe and
	// the other calls must complete with the handler still there
	s = append(s, probeSteps(false)...)
	s = append(s, Step{Op: "recv", C: c})
	s = append(s, post...)
	return cwScenario{Mode: "e2e", Steps: s, Tags: []string{"c11", "abandon:handler-stops-consuming", "hold-ends-at:handler-deadline", "kind:" + kind,
		fmt.Sprintf("read:%d", k), fmt.Sprintf("unread:%d", extra), fmt.Sprintf("others:%d", others), fmt.Sprintf("half-close:%v", closeToo)}}
}

// c11SecondOpener: a peer (goat's client never does) sends a SECOND stream-opening envelope for an id that is still
// registered, after 0..2 messages; then a probe. Scripted client. The connection must survive: no registry lock held at
// the end (reason 4), no wedge (reason 3).
func c11SecondOpener(kind string, msgs int, read int, ret string) cwScenario {
	m := "/verif.Echo/" + kind
	s := []Step{{Op: "cli", M: m, Env: &EnvSpec{Call: 0, Hdr: "ok:0", Trl: "none"}}}
	for i := 0; i < msgs; i++ {
		s = append(s, Step{Op: "cli", M: m, Env: bodyEnv(0, int64(10+i))})
		if i < read {
			s = append(s, hop(0, HOp{Op: "recv"}))
		}
	}
	s = append(s, Step{Op: "cli", M: m, Env: &EnvSpec{Call: 0, Hdr: "ok:0", Trl: "none"}})
	if ret == "before-probe" {
		s = append(s, hop(0, HOp{Op: "return", Ctx: true}))
	}
	s = append(s, Step{Op: "cli", M: "/verif.Echo/Unary", Env: &EnvSpec{Call: 1, Hdr: "ok:0", Body: i64(77), Trl: "none"}})
	if ret == "after-probe" {
		s = append(s, hop(0, HOp{Op: "return"}))
	}
	s = append(s, Step{Op: "cli", M: "/verif.Echo/Unary", Env: &EnvSpec{Call: 2, Hdr: "ok:0", Body: i64(78), Trl: "none"}})
	return cwScenario{Mode: "server", Steps: s, Tags: []string{"c11", "peer:second-opener-on-a-live-id", "kind:" + kind, fmt.Sprintf("msgs:%d", msgs),
		fmt.Sprintf("read:%d", read), "handler-returns:" + ret}}
}

// a peer that sends more than expected (client against a scripted peer)
func c11OverSending(shape string, d int, probeDl bool) cwScenario {
	var s []Step
	switch shape {
	case "unary-gone":
		// the caller of a unary call has gone (deadline); the peer answers d times
		s = append(s, Step{Op: "unary", B: 60, D: 500}, Step{Op: "tick", D: 500})
		for i := 0; i < d; i++ {
			s = append(s, Step{Op: "peer", Env: replyEnv(0, 60)})
		}
	case "unary-dup":
		// the peer answers a unary call d+1 times
		s = append(s, Step{Op: "unary", B: 60})
		for i := 0; i <= d; i++ {
			s = append(s, Step{Op: "peer", Env: replyEnv(0, 60)})
		}
	case "stream-after-trailer":
		s = append(s, Step{Op: "open", Kind: "Bidi"}, Step{Op: "peer", Env: bodyEnv(0, 20)}, Step{Op: "recv", C: 0},
			Step{Op: "peer", Env: trlEnv(0, 0)})
		for i := 0; i < d; i++ {
			s = append(s, Step{Op: "peer", Env: bodyEnv(0, int64(30+i))})
		}
		s = append(s, Step{Op: "recv", C: 0})
	case "stream-unread-cancel":
		// d bodies nobody reads, then the caller cancels
		s = append(s, Step{Op: "open", Kind: "Bidi"})
		for i := 0; i < d; i++ {
			s = append(s, Step{Op: "peer", Env: bodyEnv(0, int64(30+i))})
		}
		s = append(s, Step{Op: "cancel", C: 0})
		for i := 0; i < 2; i++ {
			s = append(s, Step{Op: "peer", Env: bodyEnv(0, int64(40+i))})
		}
	case "stream-unread-cancel-rstfail", "stream-unread-deadline-rstfail", "stream-unread-badmd-rstfail", "stream-unread-cancel-rstblocked":
		// d%4 bodies nobody reads; the call is cancelled / its deadline expires / the peer's first response carries
		// undecodable metadata (the client aborts the stream with a reset); exactly the Write of that RST_STREAM fails,
		// reads and later writes work; then the peer, which never learnt of it, sends 2 + d/4 further envelopes
		// (the last one a trailer when d is odd)
		open := Step{Op: "open", Kind: "Bidi"}
		if shape == "stream-unread-deadline-rstfail" {
			open.D = 700
		}
		s = append(s, open)
		unread := d % 4
		if shape == "stream-unread-badmd-rstfail" {
			// the undecodable metadata must be on the FIRST response (only then the client aborts): the unread bodies follow it
			s = append(s, Step{Op: "peer", Env: &EnvSpec{Call: 0, Hdr: "bad", Body: i64(35), Trl: "none"}})
		}
		for i := 0; i < unread; i++ {
			s = append(s, Step{Op: "peer", Env: bodyEnv(0, int64(30+i))})
		}
		if shape != "stream-unread-cancel-rstblocked" {
			s = append(s, Step{Op: "wfail", B: 1})
		}
		switch shape {
		case "stream-unread-cancel-rstblocked":
			s = append(s, Step{Op: "cancelblk", C: 0})
		case "stream-unread-cancel-rstfail":
			s = append(s, Step{Op: "cancel", C: 0})
		case "stream-unread-deadline-rstfail":
			s = append(s, Step{Op: "tick", D: 700})
		case "stream-unread-badmd-rstfail":
			s = append(s, Step{Op: "recv", C: 0})
		}
		s = append(s, Step{Op: "wfail", B: 0})
		further := 2 + d/4
		for i := 0; i < further; i++ {
			if i == further-1 && d%2 == 1 {
				s = append(s, Step{Op: "peer", Env: trlEnv(0, 0)})
			} else {
				s = append(s, Step{Op: "peer", Env: bodyEnv(0, int64(40+i))})
			}
		}
		s = append(s, Step{Op: "recv", C: 0})
	}
	p := Step{Op: "unary", B: 77}
	if probeDl {
		p.D = 1000
	}
	s = append(s, p, Step{Op: "peer", Env: replyEnv(1, 77)})
	if probeDl {
		s = append(s, Step{Op: "tick", D: 1000})
	}
	return cwScenario{Mode: "client", Steps: s, Tags: []string{"c11", "abandon:peer-oversends", "shape:" + shape, fmt.Sprintf("extra:%d", d),
		fmt.Sprintf("probe-deadline:%v", probeDl)}}
}

func c11Scenarios(full bool) []cwScenario {
	var out []cwScenario
	N := 4
	if full {
		N = 8
	}
	for ki, kind := range []string{"Bidi", "CStream", "SStream"} {
		for n := 1; n <= N; n++ {
			for k := 0; k < n; k++ {
				for r := k; r <= n; r++ {
					for others := 0; others <= 2; others++ {
						for pd := 0; pd < 2; pd++ {
							if !full && (n+k+r+others+pd+ki)%2 == 1 && n > 2 {
								continue // quick: half of the larger configurations
							}
							if full && n > 4 && (r != k && r != n && r != k+2) {
								continue
							}
							code := 0
							if (n+k+r)%3 == 0 {
								code = 5
							}
							out = append(out, c11HandlerAbandons(kind, n, k, r, others, pd == 1, code))
						}
					}
				}
			}
		}
	}
	for _, kind := range []string{"Bidi", "SStream"} {
		for m := 0; m <= N; m++ {
			for _, how := range []string{"cancel", "deadline", "stop-reading"} {
				for others := 0; others <= 2; others++ {
					for pd := 0; pd < 2; pd++ {
						out = append(out, c11CallerAbandons(kind, m, (m+others)%2, how, others, pd == 1))
					}
				}
			}
		}
	}
	for _, shape := range []string{"unary-gone", "unary-dup", "stream-after-trailer", "stream-unread-cancel"} {
		for d := 1; d <= N; d++ {
			for pd := 0; pd < 2; pd++ {
				out = append(out, c11OverSending(shape, d, pd == 1))
			}
		}
	}
	// per-envelope write faults on the teardown paths: exactly the RST_STREAM of the abandoned stream is refused
	for _, shape := range []string{"stream-unread-cancel-rstfail", "stream-unread-deadline-rstfail", "stream-unread-badmd-rstfail"} {
		for d := 0; d < 2*N; d++ {
			out = append(out, c11OverSending(shape, d, d%2 == 0))
		}
	}
	for _, kind := range []string{"Bidi", "SStream"} {
		for m := 0; m <= N; m++ {
			for _, how := range []string{"cancel-rstfail", "deadline-rstfail"} {
				for others := 0; others <= 2; others++ {
					out = append(out, c11CallerAbandons(kind, m, (m+others)%2, how, others, (m+others)%2 == 1))
				}
			}
		}
	}
	// the reply of a unary call behind the unread responses of a stream whose reset Write is blocked for good
	for _, kind := range []string{"Bidi", "SStream"} {
		for m := 3; m <= N+2; m++ {
			for ai, adv := range []int64{30001, 31000, 3600000} {
				if !full && (m+ai)%2 == 1 {
					continue
				}
				out = append(out, c11ResetWriteBound(kind, m, adv, (m+ai)%4 == 0))
			}
		}
	}
	// the trailer taken by the server's writer, its transport Write held up, the caller cancels, the Write is released
	for ki, kind := range []string{"Bidi", "SStream", "CStream"} {
		for _, how := range []string{"cancel", "deadline"} {
			for others := 0; others <= 2; others++ {
				for ex := 0; ex < 2; ex++ {
					if !full && (ki+others+ex)%2 == 1 {
						continue
					}
					out = append(out, c11TrailerBlocked(kind, how, ex, others, (ki+others+ex)%4 == 0))
				}
			}
		}
	}
	// a second opener for a live stream id (scripted client)
	for _, kind := range []string{"Bidi", "CStream", "SStream"} {
		for msgs := 0; msgs <= 2; msgs++ {
			for _, ret := range []string{"never", "before-probe", "after-probe"} {
				read := msgs
				if msgs == 2 {
					read = 1
				}
				if msgs == 2 && ret == "never" {
					continue // the opener would wait behind the full queue of a live handler that is not reading: a legitimate hold
				}
				out = append(out, c11SecondOpener(kind, msgs, read, ret))
			}
		}
	}
	// surplus replies to one unary call in a burst; a hold of the server's read loop that ends at the handler's deadline
	for n := 2; n <= 5; n++ {
		for l := 0; l < 2; l++ {
			out = append(out, c11UnarySurplus(n, l == 1, (n+l)%2 == 0))
		}
	}
	for ki, kind := range []string{"Bidi", "CStream"} {
		for k := 0; k <= 1; k++ {
			for extra := 2; extra <= 3; extra++ {
				for others := 0; others <= 2; others++ {
					if !full && (ki+k+extra+others)%2 == 1 {
						continue
					}
					out = append(out, c11DeadlineFreesLoop(kind, k, extra, others, (k+extra+others)%2 == 0))
				}
			}
		}
	}
	// the half-close delivered (parked in the forwarding select or behind the parked message) before the handler returns
	for ki, kind := range []string{"CStream", "Bidi"} {
		for n := 1; n <= N-1; n++ {
			for k := 0; k < n; k++ {
				for others := 0; others <= 2; others++ {
					if !full && (ki+n+k+others)%2 == 1 && k != n-1 {
						continue
					}
					out = append(out, c11HalfCloseParked(kind, n, k, others, (n+k+others)%3 == 0, 5*((n+k)%2)))
				}
			}
		}
	}
	// a message of the stream in the writer's hands, its transport Write held up, the caller cancels, the Write is released
	for ki, kind := range []string{"Bidi", "SStream"} {
		for _, how := range []string{"cancel", "deadline"} {
			for others := 0; others <= 2; others++ {
				for unread := 0; unread <= 2; unread++ {
					for parked := 0; parked < 2; parked++ {
						if !full && (ki+others+unread+parked)%2 == 1 {
							continue
						}
						out = append(out, c11BodyBlocked(kind, how, unread, parked, others, (ki+others+unread)%3 == 0))
					}
				}
			}
		}
	}
	// ... and the variant in which that Write first blocks (back-pressure) and fails at its own 30 s deadline
	for d := 0; d < 2*N; d++ {
		out = append(out, c11OverSending("stream-unread-cancel-rstblocked", d, d%2 == 0))
	}
	for _, kind := range []string{"Bidi", "SStream"} {
		for m := 0; m <= N; m++ {
			out = append(out, c11CallerAbandons(kind, m, m%2, "cancel-rstblocked", m%3, false))
		}
	}
	return out
}

// ---------------------------------------------------------------- C06: scripted-peer families

// client words: the real client against a scripted peer; one stream (call 0) is opened, then every word over
// the alphabet below, API-conformant (no Send after CloseSend, one CloseSend), cancel at every position
var clientLetters = []string{"send", "closesend", "recv", "cancel", "expire", "pbody", "ptrailer", "unary", "wfail", "sendbad"}

func clientWord(w []int) (cwScenario, bool) {
	h := len(w)
	for _, x := range w {
		h = h*7 + x
	}
	s := []Step{{Op: "open", Kind: "Bidi", D: 4000, Ctx: ctxKindFor(true, h)}}
	closed := false
	nUnary := 0
	name := ""
	for i, x := range w {
		l := clientLetters[x]
		name += l[:2]
		switch l {
		case "send":
			if closed {
				return cwScenario{}, false
			}
			s = append(s, Step{Op: "send", C: 0, B: int64((10 + i) * (i % 2))})
		case "sendbad":
			// a message the codec rejects (not a send after CloseSend either)
			if closed {
				return cwScenario{}, false
			}
			s = append(s, Step{Op: "send", C: 0, B: -1})
		case "closesend":
			if closed {
				return cwScenario{}, false
			}
			closed = true
			s = append(s, Step{Op: "closesend", C: 0})
		case "recv":
			s = append(s, Step{Op: "recv", C: 0})
		case "cancel":
			s = append(s, Step{Op: "cancel", C: 0})
		case "expire":
			s = append(s, Step{Op: "tick", D: 4000})
		case "pbody":
			if (i+len(w))%3 == 2 {
				// a response BODY that does not decode as the response type (bytes 0xff 0xff 0xff)
				s = append(s, Step{Op: "peer", Env: bodyEnv(0, -1)})
			} else {
				s = append(s, Step{Op: "peer", Env: bodyEnv(0, int64((20+i)*((i+1)%2)))})
			}
		case "ptrailer":
			s = append(s, Step{Op: "peer", Env: trlEnv(0, int64(5*(i%2)))})
		case "unary":
			nUnary++
			s = append(s, Step{Op: "unary", B: int64(60 + i)}, Step{Op: "peer", Env: replyEnv(nUnary, int64(60+i))})
		case "wfail":
			s = append(s, Step{Op: "wfail", B: 1})
		}
	}
	return cwScenario{Mode: "client", Steps: s, Tags: []string{"c06", "family:client-words", fmt.Sprintf("len:%d", len(w)+1)}}, true
}

// server words: the real server against a scripted, protocol-conformant client; one stream (scripted call 0)
// is opened, then every word over client envelopes {body, close, reset} and handler operations
var serverLetters = []string{"cb", "cc", "cr", "hr", "hs", "hh", "h0", "he", "hx"}

func serverWord(w []int, kind string) (cwScenario, bool) {
	m := "/verif.Echo/" + kind
	s := []Step{{Op: "cli", M: m, Env: &EnvSpec{Call: 0, Hdr: "ok:0", Trl: "none"}}}
	closed, reset, returned := false, false, false
	for i, x := range w {
		switch serverLetters[x] {
		case "cb":
			if closed || reset {
				return cwScenario{}, false
			}
			s = append(s, Step{Op: "cli", M: m, Env: bodyEnv(0, int64((10+i)*(i%2)))})
		case "cc":
			if closed || reset {
				return cwScenario{}, false
			}
			closed = true
			s = append(s, Step{Op: "cli", M: m, Env: trlEnv(0, 0)})
		case "cr":
			if reset {
				return cwScenario{}, false
			}
			reset = true
			s = append(s, Step{Op: "cli", M: m, Env: &EnvSpec{Call: 0, Hdr: "ok:0", Trl: "none", Rst: true}})
		case "hr":
			if returned {
				return cwScenario{}, false
			}
			s = append(s, hop(0, HOp{Op: "recv"}))
		case "hs":
			if returned {
				return cwScenario{}, false
			}
			s = append(s, hop(0, HOp{Op: "send", B: int64(20 + i)}))
		case "hx":
			// SendMsg of a message the codec rejects (Marshal fails, nothing is written); the handler goes on
			if returned {
				return cwScenario{}, false
			}
			s = append(s, hop(0, HOp{Op: "send", B: -1}))
		case "hh":
			if returned {
				return cwScenario{}, false
			}
			// (metadata classes a stricter library would refuse, at a third of the positions)
			hb := int64(4)
			if (i+2*len(w))%3 == 0 {
				hb = mdClasses[(i+len(w))%len(mdClasses)]
			}
			s = append(s, hop(0, HOp{Op: "setheader", B: 3}), hop(0, HOp{Op: "sendheader", B: hb}))
		case "h0":
			if returned {
				return cwScenario{}, false
			}
			returned = true
			s = append(s, hop(0, HOp{Op: "settrailer", B: mdClasses[(i+len(w))%len(mdClasses)]}), hop(0, HOp{Op: "return"}))
		case "he":
			if returned {
				return cwScenario{}, false
			}
			returned = true
			s = append(s, hop(0, HOp{Op: "return", Code: []int{1, 4, 9, 10, 13, 14}[(i+len(w))%6], Msg: 7}))
		}
	}
	// whatever state the word leaves: a probe unary call is still answered, then the handler (if any) finishes
	s = append(s, Step{Op: "cli", M: "/verif.Echo/Unary", Env: &EnvSpec{Call: 1, Hdr: "ok:0", Body: i64(77), Trl: "none"}})
	if !returned {
		s = append(s, hop(0, HOp{Op: "return"}))
	}
	return cwScenario{Mode: "server", Steps: s, Tags: []string{"c06", "family:server-words", "kind:" + kind, fmt.Sprintf("len:%d", len(w)+1)}}, true
}

// the return window: the handler function has returned, the trailer is not yet in the writer's hands (held in the
// OutTrailer stats event, or in the stream interceptor's part after the handler); envelopes of the client arrive in
// that window; then the return path goes on. Server mode (scripted client) and end to end.
func c06ReturnWindow() []cwScenario {
	var out []cwScenario
	for _, kind := range []string{"Bidi", "CStream", "SStream"} {
		m := "/verif.Echo/" + kind
		for _, hold := range []string{"trailer", "post"} {
			for ex := 0; ex < 2; ex++ {
				for _, late := range []string{"body", "body-body", "close", "reset", "body-reset"} {
					s := []Step{{Op: "cli", M: m, Env: &EnvSpec{Call: 0, Hdr: "ok:0", Trl: "none"}}}
					if ex == 1 {
						s = append(s, Step{Op: "cli", M: m, Env: bodyEnv(0, 10)}, hop(0, HOp{Op: "recv"}))
						if kind != "CStream" {
							s = append(s, hop(0, HOp{Op: "send", B: 20}))
						}
					}
					s = append(s, hop(0, HOp{Op: "return", Code: 5 * ex, Msg: 7, Hold: hold}))
					for i, l := range strings.Split(late, "-") {
						switch l {
						case "body":
							s = append(s, Step{Op: "cli", M: m, Env: bodyEnv(0, int64(30*i))})
						case "close":
							s = append(s, Step{Op: "cli", M: m, Env: trlEnv(0, 0)})
						case "reset":
							s = append(s, Step{Op: "cli", M: m, Env: &EnvSpec{Call: 0, Hdr: "ok:0", Trl: "none", Rst: true}})
						}
					}
					s = append(s, Step{Op: "hrelease"},
						Step{Op: "cli", M: "/verif.Echo/Unary", Env: &EnvSpec{Call: 1, Hdr: "ok:0", Body: i64(77), Trl: "none"}})
					out = append(out, cwScenario{Mode: "server", Steps: s, Tags: []string{"c06", "family:return-window", "kind:" + kind,
						"hold:" + hold, "late:" + late, fmt.Sprintf("exchanged:%d", ex)}})
				}
				// end to end: the real client sends into the window
				for late := 1; late <= 2; late++ {
					s := []Step{{Op: "open", Kind: kind}, {Op: "c2s"}}
					if ex == 1 {
						s = append(s, Step{Op: "send", C: 0, B: 10}, Step{Op: "c2s"}, hop(0, HOp{Op: "recv"}))
						if kind != "CStream" {
							s = append(s, hop(0, HOp{Op: "send", B: 20}), Step{Op: "s2c"}, Step{Op: "recv", C: 0})
						}
					}
					s = append(s, hop(0, HOp{Op: "return", Code: 5 * ex, Msg: 7, Hold: hold}))
					for i := 0; i < late; i++ {
						s = append(s, Step{Op: "send", C: 0, B: int64(30 * i)}, Step{Op: "c2s"})
					}
					s = append(s, Step{Op: "hrelease"}, Step{Op: "drain"}, Step{Op: "recv", C: 0}, Step{Op: "recv", C: 0})
					s = append(s, probeSteps(false)...)
					out = append(out, cwScenario{Mode: "e2e", Steps: s, Tags: []string{"c06", "family:return-window", "kind:" + kind,
						"hold:" + hold, fmt.Sprintf("late:%d", late), fmt.Sprintf("exchanged:%d", ex)}})
				}
			}
		}
	}
	return out
}

// metadata the handler hands to SetHeader / SendHeader / SetTrailer in the classes a stricter library refuses (non-ASCII
// UTF-8, control characters, upper-case key, empty key, illegal key characters, DEL, empty value): whatever
// the server makes of them, the stream still ends with its trailer envelope
func c06MetadataClasses() []cwScenario {
	var out []cwScenario
	for ki, kind := range []string{"Bidi", "CStream", "SStream"} {
		m := "/verif.Echo/" + kind
		for _, cl := range mdClasses[1:] {
			for _, where := range []string{"settrailer", "setheader", "sendheader", "setheader+settrailer"} {
				for ret := 0; ret < 2; ret++ {
					s := []Step{{Op: "cli", M: m, Env: &EnvSpec{Call: 0, Hdr: "ok:0", Trl: "none"}},
						{Op: "cli", M: m, Env: bodyEnv(0, 10)}, hop(0, HOp{Op: "recv"})}
					for _, w := range strings.Split(where, "+") {
						s = append(s, hop(0, HOp{Op: w, B: cl}))
					}
					if kind != "CStream" {
						s = append(s, hop(0, HOp{Op: "send", B: 20}))
					}
					s = append(s, hop(0, HOp{Op: "return", Code: 5 * ret, Msg: 7}),
						Step{Op: "cli", M: "/verif.Echo/Unary", Env: &EnvSpec{Call: 1, Hdr: "ok:0", Body: i64(77), Trl: "none"}})
					_ = ki
					out = append(out, cwScenario{Mode: "server", Steps: s, Tags: []string{"c06", "family:metadata-classes", "kind:" + kind,
						fmt.Sprintf("class:%d", cl), "where:" + where, fmt.Sprintf("ret:%d", ret)}})
				}
			}
		}
	}
	return out
}

// unary calls with a deadline (GRPC-Timeout) whose method is still running when it expires: one that ends on its context
// and one that ignores it and answers later; the connection stays up, more traffic follows: every unary request whose
// method has returned has exactly one response (spec_c06 reason 7). Scripted client and end to end.
func c06UnaryDeadline() []cwScenario {
	var out []cwScenario
	for _, deaf := range []bool{false, true} {
		for _, late := range []bool{false, true} { // the method returns before (late = false: released first) or after the deadline
			s := []Step{{Op: "cli", M: "/verif.Echo/Unary", Env: &EnvSpec{Call: 0, Hdr: "ok:0", Body: i64(95), Trl: "none"}, D: 500, Gate: true, Deaf: deaf}}
			if late {
				s = append(s, Step{Op: "tick", D: 500}, Step{Op: "hu", B: 95})
			} else {
				s = append(s, Step{Op: "hu", B: 95}, Step{Op: "tick", D: 500})
			}
			s = append(s, Step{Op: "cli", M: "/verif.Echo/Unary", Env: &EnvSpec{Call: 1, Hdr: "ok:0", Body: i64(77), Trl: "none"}},
				Step{Op: "cli", M: "/verif.Echo/Unary", Env: &EnvSpec{Call: 2, Hdr: "ok:0", Body: i64(78), Trl: "none"}, D: 300}, Step{Op: "tick", D: 300})
			out = append(out, cwScenario{Mode: "server", Steps: s, Tags: []string{"c06", "family:unary-deadline", fmt.Sprintf("deaf:%v", deaf), fmt.Sprintf("returns-after-deadline:%v", late)}})
			// end to end: the real client's call carries the deadline
			e := []Step{{Op: "unary", B: 95, D: 500, Gate: true, Deaf: deaf}, {Op: "c2s"}}
			if late {
				e = append(e, Step{Op: "tick", D: 500}, Step{Op: "hu", B: 95})
			} else {
				e = append(e, Step{Op: "hu", B: 95}, Step{Op: "tick", D: 500})
			}
			e = append(e, Step{Op: "drain"})
			e = append(e, probeSteps(false)...)
			out = append(out, cwScenario{Mode: "e2e", Steps: e, Tags: []string{"c06", "family:unary-deadline", fmt.Sprintf("deaf:%v", deaf), fmt.Sprintf("returns-after-deadline:%v", late)}})
		}
	}
	return out
}

// streaming calls to a method / a service the server has not registered (a client built against a newer version of the
// service): opener, 0..2 messages, half-close / reset on the wire before the client has seen the answer to its opener;
// scripted client and the real client; then a probe. The id gets at most one trailer and nothing but resets after it.
func c06UnknownMethod() []cwScenario {
	var out []cwScenario
	for _, m := range []string{"/verif.Echo/Missing", "/verif.Nobody/Bidi", "/verif.Echo/"} {
		for bodies := 0; bodies <= 2; bodies++ {
			for _, end := range []string{"close", "reset", "none", "close-body"} {
				s := []Step{{Op: "cli", M: m, Env: &EnvSpec{Call: 0, Hdr: "ok:0", Trl: "none"}}}
				for i := 0; i < bodies; i++ {
					s = append(s, Step{Op: "cli", M: m, Env: bodyEnv(0, int64(10*i))})
				}
				switch end {
				case "close":
					s = append(s, Step{Op: "cli", M: m, Env: trlEnv(0, 0)})
				case "reset":
					s = append(s, Step{Op: "cli", M: m, Env: &EnvSpec{Call: 0, Hdr: "ok:0", Trl: "none", Rst: true}})
				case "close-body":
					s = append(s, Step{Op: "cli", M: m, Env: trlEnv(0, 0)}, Step{Op: "cli", M: m, Env: bodyEnv(0, 33)})
				}
				s = append(s, Step{Op: "cli", M: "/verif.Echo/Unary", Env: &EnvSpec{Call: 1, Hdr: "ok:0", Body: i64(77), Trl: "none"}})
				out = append(out, cwScenario{Mode: "server", Steps: s, Tags: []string{"c06", "family:unknown-method", "method:" + m,
					fmt.Sprintf("bodies:%d", bodies), "end:" + end}})
			}
		}
	}
	for _, kind := range []string{"Missing", "NoService"} {
		for bodies := 0; bodies <= 2; bodies++ {
			for _, eager := range []bool{false, true} {
				// eager: everything is on the wire before the server's answer to the opener reaches the client
				s := []Step{{Op: "open", Kind: kind}}
				if !eager {
					s = append(s, Step{Op: "c2s"})
				}
				for i := 0; i < bodies; i++ {
					s = append(s, Step{Op: "send", C: 0, B: int64(10 * i)})
				}
				s = append(s, Step{Op: "closesend", C: 0}, Step{Op: "drain"}, Step{Op: "recv", C: 0}, Step{Op: "recv", C: 0})
				s = append(s, probeSteps(false)...)
				out = append(out, cwScenario{Mode: "e2e", Steps: s, Tags: []string{"c06", "family:unknown-method", "kind:" + kind,
					fmt.Sprintf("bodies:%d", bodies), fmt.Sprintf("eager:%v", eager)}})
			}
		}
	}
	return out
}

func words(alpha, maxLen int, f func(w []int)) {
	var rec func(w []int)
	rec = func(w []int) {
		if len(w) > 0 {
			f(w)
		}
		if len(w) == maxLen {
			return
		}
		for x := 0; x < alpha; x++ {
			rec(append(append([]int{}, w...), x))
		}
	}
	rec(nil)
}

// further server-side conversations: unary exchanges, undecodable metadata, unknown ids, the handler's own deadline
func serverSpecials() []cwScenario {
	var out []cwScenario
	u := func(call int, b int64) Step {
		return Step{Op: "cli", M: "/verif.Echo/Unary", Env: &EnvSpec{Call: call, Hdr: "ok:0", Body: i64(b), Trl: "none"}}
	}
	out = append(out, cwScenario{Mode: "server", Steps: []Step{u(0, 61), u(1, 62), u(2, 0)}, Tags: []string{"c06", "family:server-special", "what:unary"}})
	out = append(out, cwScenario{Mode: "server", Steps: []Step{
		{Op: "cli", M: "/verif.Echo/Unary", Env: &EnvSpec{Call: 0, Hdr: "bad", Body: i64(61), Trl: "none"}}, u(1, 62)},
		Tags: []string{"c06", "family:server-special", "what:unary-bad-metadata"}})
	out = append(out, cwScenario{Mode: "server", Steps: []Step{
		{Op: "cli", M: "/verif.Echo/Bidi", Env: &EnvSpec{Call: 0, Hdr: "bad", Trl: "none"}}, u(1, 62)},
		Tags: []string{"c06", "family:server-special", "what:open-bad-metadata"}})
	for d := 1; d <= 3; d++ {
		for v := 0; v < 2; v++ {
			// bodies for a stream the server does not know: its open was refused (undecodable metadata) / its handler has returned
			var s []Step
			what := "bodies-for-refused-open"
			if v == 0 {
				s = append(s, Step{Op: "cli", M: "/verif.Echo/Bidi", Env: &EnvSpec{Call: 0, Hdr: "bad", Trl: "none"}})
			} else {
				what = "bodies-after-handler-return"
				s = append(s, Step{Op: "cli", M: "/verif.Echo/Bidi", Env: &EnvSpec{Call: 0, Hdr: "ok:0", Trl: "none"}}, hop(0, HOp{Op: "return"}))
			}
			for i := 0; i < d; i++ {
				s = append(s, Step{Op: "cli", M: "/verif.Echo/Bidi", Env: bodyEnv(0, int64((10+i)*((i+d)%2)))})
			}
			s = append(s, Step{Op: "cli", M: "/verif.Echo/Bidi", Env: trlEnv(0, 0)},
				Step{Op: "cli", M: "/verif.Echo/Bidi", Env: &EnvSpec{Call: 0, Hdr: "ok:0", Trl: "none", Rst: true}}, u(1, 62))
			out = append(out, cwScenario{Mode: "server", Steps: s, Tags: []string{"c06", "family:server-special", "what:" + what}})
		}
	}
	// handlers that fail with errors of their own making while the caller is still there: the trailer must be written
	for v, raw := range []string{"canceled", "deadline", "plain", "eof"} {
		for _, kind := range []string{"Bidi", "SStream", "CStream"} {
			m := "/verif.Echo/" + kind
			s := []Step{{Op: "cli", M: m, Env: &EnvSpec{Call: 0, Hdr: "ok:0", Trl: "none"}}}
			if v%2 == 0 {
				s = append(s, Step{Op: "cli", M: m, Env: bodyEnv(0, 10)}, hop(0, HOp{Op: "recv"}), hop(0, HOp{Op: "send", B: 20}))
			}
			s = append(s, hop(0, HOp{Op: "return", Raw: raw}), u(1, 62))
			out = append(out, cwScenario{Mode: "server", Steps: s, Tags: []string{"c06", "family:server-special", "what:handler-raw-error-" + raw}})
		}
	}
	// the handler's own deadline (GRPC-Timeout from a caller that never resets): D-06b
	for v := 0; v < 12; v++ {
		kind := []string{"Bidi", "SStream", "CStream"}[v%3]
		m := "/verif.Echo/" + kind
		s := []Step{{Op: "cli", M: m, D: 1000, Env: &EnvSpec{Call: 0, Hdr: "ok:0", Trl: "none"}}}
		if v%2 == 0 {
			s = append(s, Step{Op: "cli", M: m, Env: bodyEnv(0, 10)}, hop(0, HOp{Op: "recv"}), hop(0, HOp{Op: "send", B: 20}))
		}
		s = append(s, Step{Op: "tick", D: 1000}, hop(0, HOp{Op: "await"}))
		if v%4 < 2 {
			s = append(s, hop(0, HOp{Op: "return", Ctx: true}))
		} else {
			s = append(s, hop(0, HOp{Op: "return"}))
		}
		s = append(s, u(1, 62))
		out = append(out, cwScenario{Mode: "server", Steps: s, Tags: []string{"c06", "family:server-special", "what:handler-deadline"}})
	}
	return out
}

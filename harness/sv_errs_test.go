//go:build sv

package verifharness

import "testing"

// TestSvErrKinds shows the error values the read-failure family injects (and fails if the real websocket sentinel or
// a genuine protobuf decode error could not be obtained).
func TestSvErrKinds(t *testing.T) {
	for _, k := range svReadErrKinds {
		e := svReadErr(k)
		t.Logf("%-16q %T %v", k, e, e)
		if (k == "ws" || k == "proto") && e == errInjected {
			t.Errorf("error kind %q not available", k)
		}
	}
}

//go:build sv

package verifharness

import (
	"bytes"
	"encoding/json"
	"fmt"
	"os"
	"os/exec"
	"sync"
	"testing"
)

// svSharded runs a rig as n child processes of this test binary (SV_SHARD=i/n), each doing the scenarios with
// idx % n == i, and merges their output into -out. A child that dies (process death = crash; exit status 3 = the
// watchdog declared a wedge) is re-run on that scenario alone; if it dies again the scenario is recorded as a case
// of its own (dead(idx, wedged) gives its Coq term: a failing input) and the shard resumes after it.
// Returns (shard, n, true) in a child - the caller runs its share - and (0, 0, false) in the parent when done.
func svSharded(t *testing.T, testName string, n int, dead func(idx int, wedged bool) string) (int, int, bool) {
	if s := os.Getenv("SV_SHARD"); s != "" {
		var i, k int
		fmt.Sscanf(s, "%d/%d", &i, &k)
		return i, k, true
	}
	if *flagOut == "" || *flagOnly >= 0 || n <= 1 {
		return 0, 1, true
	}
	run := func(i int, out string, extra ...string) (int, []byte) {
		args := append([]string{"-test.run", "^" + testName + "$", "-test.timeout", "0", "-out", out,
			"-seed", fmt.Sprint(*flagSeed), "-tier", *flagTier}, extra...)
		cmd := exec.Command(os.Args[0], args...)
		cmd.Env = append(os.Environ(), fmt.Sprintf("SV_SHARD=%d/%d", i, n))
		b, err := cmd.CombinedOutput()
		if err == nil {
			return 0, b
		}
		if ee, ok := err.(*exec.ExitError); ok {
			return ee.ExitCode(), b
		}
		return -1, b
	}
	outs := make([]string, n)
	errs := make([]error, n)
	var wg sync.WaitGroup
	var solo sync.Mutex
	for i := 0; i < n; i++ {
		outs[i] = fmt.Sprintf("%s.shard%d", *flagOut, i)
		os.Remove(outs[i])
		wg.Add(1)
		go func(i int) {
			defer wg.Done()
			from := *flagFrom
			deadN := 0
			for {
				rc, out := run(i, outs[i], "-from", fmt.Sprint(from))
				if rc == 0 {
					return
				}
				idx := svLastOpenBegin(outs[i])
				if idx < from && rc == 3 {
					// the watchdog reports the wedged scenario itself (record + end marker) before it leaves
					idx = svLastBegin(outs[i])
				}
				if idx < from {
					errs[i] = fmt.Errorf("shard %d: exit %d outside a scenario: %s", i, rc, svTail(string(out), 1500))
					return
				}
				// a wedge is tried again, alone (a loaded machine can make the real-time watchdog misfire); a process
				// death is taken as it is
				rc2, out2, b := rc, out, []byte(nil)
				if rc == 3 && deadN == 0 {
					// (only the first wedge of a shard: a change that wedges many scenarios must not cost a retry each)
					solo.Lock()
					retry := outs[i] + ".retry"
					os.Remove(retry)
					rc2, out2 = run(i, retry, "-only", fmt.Sprint(idx))
					b, _ = os.ReadFile(retry)
					os.Remove(retry)
					solo.Unlock()
				}
				f, e := os.OpenFile(outs[i], os.O_WRONLY|os.O_APPEND, 0o644)
				if e != nil {
					errs[i] = e
					return
				}
				if rc2 == 0 {
					f.Write(b)
				} else {
					kind := "process-crashed"
					if rc2 == 3 {
						kind = "process-wedged"
					}
					rec := Rec{Idx: idx, Kind: kind, Desc: map[string]any{"exit": rc2, "tail": svTail(string(out2), 3000), "partial": json.RawMessage(svLastRecord(b))},
						Coq: dead(idx, rc2 == 3), Tags: []string{kind}}
					jb, _ := json.Marshal(rec)
					f.Write(append(jb, '\n'))
					fmt.Fprintf(f, "{\"marker\":\"end\",\"idx\":%d}\n", idx)
				}
				f.Close()
				from = idx + 1
				if rc2 != 0 {
					if deadN++; deadN >= 3 {
						// enough failing cases from this shard: its remaining scenarios are not run
						return
					}
				}
			}
		}(i)
	}
	wg.Wait()
	f, err := os.OpenFile(*flagOut, os.O_CREATE|os.O_WRONLY|os.O_APPEND, 0o644)
	if err != nil {
		t.Fatal(err)
	}
	for i := 0; i < n; i++ {
		if b, err := os.ReadFile(outs[i]); err == nil {
			f.Write(b)
		}
		os.Remove(outs[i])
	}
	f.Close()
	for _, e := range errs {
		if e != nil {
			t.Errorf("%v", e)
		}
	}
	return 0, 0, false
}

func svTail(s string, n int) string {
	if len(s) > n {
		return s[len(s)-n:]
	}
	return s
}

// the last complete record line of a (partial) output, "null" if none
func svLastRecord(b []byte) []byte {
	last := []byte("null")
	for _, line := range bytes.Split(b, []byte("\n")) {
		if len(line) > 0 && !bytes.HasPrefix(line, []byte(`{"marker"`)) && json.Valid(line) {
			last = line
		}
	}
	return last
}

func svLastBegin(path string) int {
	b, err := os.ReadFile(path)
	if err != nil {
		return -1
	}
	last := -1
	for _, line := range bytes.Split(b, []byte("\n")) {
		var m struct {
			Marker string `json:"marker"`
			Idx    int    `json:"idx"`
		}
		if bytes.HasPrefix(line, []byte(`{"marker"`)) && json.Unmarshal(line, &m) == nil && m.Marker == "begin" {
			last = m.Idx
		}
	}
	return last
}

func svLastOpenBegin(path string) int {
	b, err := os.ReadFile(path)
	if err != nil {
		return -1
	}
	open := -1
	for _, line := range bytes.Split(b, []byte("\n")) {
		if !bytes.HasPrefix(line, []byte(`{"marker"`)) {
			continue
		}
		var m struct {
			Marker string `json:"marker"`
			Idx    int    `json:"idx"`
		}
		if json.Unmarshal(line, &m) != nil {
			continue
		}
		switch m.Marker {
		case "begin":
			open = m.Idx
		case "end":
			if m.Idx == open {
				open = -1
			}
		}
	}
	return open
}

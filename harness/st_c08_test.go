//go:build st

package verifharness

import (
	"context"
	"fmt"
	"io"
	"strings"
	"testing"
	"testing/synctest"
	"time"

	goat "github.com/avos-io/goat"
	"github.com/avos-io/goat/gen/goatorepo"
	"google.golang.org/grpc"
	"google.golang.org/grpc/metadata"
	"google.golang.org/grpc/stats"
	"google.golang.org/protobuf/types/known/wrapperspb"
)

// End-to-end half of C08 on the virtual clock: caller deadline -> handler
// ctx.Deadline(), compared exactly with Model/Timeout.v sys_deadline, for
// unary and the three streaming kinds; and header values put on the wire by a
// scripted peer -> handler deadline.

type c08Kind struct {
	name   string
	stream bool
	desc   *grpc.StreamDesc
	path   string
}

var c08Kinds = []c08Kind{
	{"unary", false, nil, "/verif.Echo/Unary"},
	{"client-stream", true, descCStream, "/verif.Echo/CStream"},
	{"server-stream", true, descSStream, "/verif.Echo/SStream"},
	{"bidi", true, descBidi, "/verif.Echo/Bidi"},
}

type c08Obs struct {
	ran         bool
	has         bool
	rem         int64 // ctx.Deadline() - now, at handler invocation
	checkExpiry bool
	done        chan struct{}
}

func c08Impl(o *c08Obs) *echoImpl {
	rec := func(ctx context.Context) {
		defer close(o.done)
		o.ran = true
		dl, has := ctx.Deadline()
		o.has = has
		if has {
			o.rem = int64(dl.Sub(time.Now()))
			// the deadline is live: not expired one nanosecond before it, DeadlineExceeded at it (virtual clock)
			if o.rem > int64(time.Millisecond) && o.rem < int64(48*time.Hour) && o.checkExpiry {
				time.Sleep(time.Duration(o.rem) - 1)
				early := ctx.Err()
				time.Sleep(1)
				<-ctx.Done()
				if early != nil || ctx.Err() != context.DeadlineExceeded {
					o.rem = -7 // never a legitimate value: reported as a failing input
				}
			}
		}
	}
	return &echoImpl{
		unary:  func(ctx context.Context, req []byte) ([]byte, bool, error) { rec(ctx); return req, true, nil },
		stream: func(kind string, ss grpc.ServerStream) error { rec(ss.Context()); return nil },
	}
}

// a client stats handler whose TagRPC and Begin handling take (virtual) time
type slowStats struct{ d time.Duration }

func (s slowStats) TagRPC(ctx context.Context, _ *stats.RPCTagInfo) context.Context {
	time.Sleep(s.d)
	return ctx
}
func (s slowStats) HandleRPC(ctx context.Context, ev stats.RPCStats) {
	if _, ok := ev.(*stats.Begin); ok {
		time.Sleep(s.d)
	}
}
func (s slowStats) TagConn(ctx context.Context, _ *stats.ConnTagInfo) context.Context { return ctx }
func (s slowStats) HandleConn(context.Context, stats.ConnStats)                       {}

func kvTerms(kvs []*goatorepo.KeyValue) string {
	var t []string
	for _, h := range kvs {
		t = append(t, coqPair(coqStr(h.Key), coqStr(h.Value)))
	}
	return coqList(t)
}

func TestC08Sys(t *testing.T) {
	em := NewEmitter()
	defer em.Close()
	idx := 0

	type sysCase struct {
		k       c08Kind
		hasDl   bool
		r       int64
		transit time.Duration
		md      metadata.MD
		tag     string
		delay   time.Duration // each client stats handler sleeps this long in TagRPC and again in HandleRPC(Begin)
		nstats  int
	}
	var cases []sysCase
	rems := c08Remainings()
	for ki, k := range c08Kinds {
		for i, r := range rems {
			var md metadata.MD
			if i%5 == 1 {
				md = metadata.Pairs("x-trace", "abc")
			}
			cases = append(cases, sysCase{k: k, hasDl: true, r: r, md: md, tag: "transit=0"})
			if i%4 == ki%4 || i < 12 {
				// the request stays in flight while the clocks advance
				cases = append(cases, sysCase{k: k, hasDl: true, r: r, transit: 2500 * time.Microsecond, md: md, tag: "transit=2.5ms"})
			}
			if i%16 == 0 {
				cases = append(cases, sysCase{k: k, hasDl: true, r: r, transit: 3 * time.Second, md: md, tag: "transit=3s"})
			}
		}
		// client stats handlers that take time: the announced timeout must still be counted from the deadline
		for _, d := range []time.Duration{time.Millisecond, 300 * time.Millisecond} {
			for _, ns := range []int{1, 2} {
				for _, r := range []int64{int64(time.Second), int64(2500 * time.Millisecond), int64(time.Hour), int64(700 * time.Millisecond)} {
					cases = append(cases, sysCase{k: k, hasDl: true, r: r, tag: "client-stats-handlers-take-time", delay: d, nstats: ns})
				}
			}
		}
		// no caller deadline: with and without metadata
		cases = append(cases, sysCase{k: k, tag: "no-deadline"}, sysCase{k: k, transit: time.Second, md: metadata.Pairs("x-a", "1", "Grpc-Timeou", "5S"), tag: "no-deadline"})
		// caller metadata that uses the reserved key itself (first match wins: model only)
		cases = append(cases, sysCase{k: k, hasDl: true, r: int64(10 * time.Second), md: metadata.Pairs("grpc-timeout", "1S"), tag: "reserved-key-in-metadata"},
			sysCase{k: k, md: metadata.Pairs("GRPC-Timeout", "7M"), tag: "reserved-key-in-metadata"},
			sysCase{k: k, hasDl: true, r: int64(10 * time.Second), md: metadata.Pairs("grpc-timeout", "soon"), tag: "reserved-key-in-metadata"})
	}
	for _, c := range cases {
		if !want(idx) {
			idx++
			continue
		}
		stBegin(em, idx)
		var o c08Obs
		o.checkExpiry = c.transit == 0 && idx%3 == 0
		var t0, t1 int64
		var mdT string
		bubble(t, func(t *testing.T) {
			epoch := time.Now()
			o.done = make(chan struct{}) // made inside the bubble: waiting on it is a durable block
			l := NewLink(false)
			srv := newEchoServer("dst", c08Impl(&o))
			ret := make(chan error, 1)
			go func() { ret <- srv.Serve(context.Background(), l.S) }()
			var dopts []goat.DialOption
			for i := 0; i < c.nstats; i++ {
				dopts = append(dopts, goat.WithStatsHandler(slowStats{c.delay}))
			}
			cc := goat.NewClientConn(l.C, "src", "dst", dopts...)
			ctx, cancel := context.WithCancel(context.Background())
			defer cancel()
			if c.md != nil {
				ctx = metadata.NewOutgoingContext(ctx, c.md)
			}
			if c.hasDl {
				var c2 context.CancelFunc
				ctx, c2 = context.WithDeadline(ctx, time.Now().Add(time.Duration(c.r)))
				defer c2()
			}
			t0 = int64(time.Since(epoch))
			if !c.k.stream {
				go func() {
					var out wrapperspb.BytesValue
					cc.Invoke(ctx, c.k.path, bv([]byte("q")), &out)
				}()
			} else {
				go cc.NewStream(ctx, c.k.desc, c.k.path)
			}
			// the client's stats handlers run first (TagRPC, Begin: 2 x delay each), then the header is built
			hdrDelay := time.Duration(2*c.nstats) * c.delay
			time.Sleep(hdrDelay)
			synctest.Wait()
			t0 += int64(hdrDelay)
			w := l.C.WrittenCopy()
			if len(w) == 0 {
				t.Errorf("nothing written")
				return
			}
			hs := w[0].GetHeader().GetHeaders()
			if c.hasDl && len(hs) > 0 {
				hs = hs[:len(hs)-1] // the pair headersFromContext appended for the deadline
			}
			mdT = kvTerms(hs)
			time.Sleep(c.transit)
			t1 = int64(time.Since(epoch))
			l.StepC2S()
			<-o.done // the handler may be watching its deadline expire: let it finish before the caller goes away
			synctest.Wait()
			cancel()
			synctest.Wait()
			l.mu.Lock()
			l.Auto = true
			l.mu.Unlock()
			for l.StepC2S() {
			}
			for l.StepS2C() {
			}
			synctest.Wait()
			l.C.FailRead(io.EOF)
			l.S.FailRead(io.EOF)
			synctest.Wait()
			<-ret
		})
		if !o.ran {
			t.Errorf("case %d: handler did not run", idx)
		}
		remT := "None"
		class := "no-deadline"
		if c.hasDl {
			remT = "(Some " + coqZ(c.r-int64(time.Duration(2*c.nstats)*c.delay)) + ")" // what is left of the caller's deadline when the header is built
			switch {
			case c.r <= 0:
				class = "expired"
			case c.r < int64(time.Millisecond):
				class = "sub-ms"
			case c.r < int64(time.Second):
				class = "ms"
			case c.r < int64(time.Hour):
				class = "s..h"
			default:
				class = ">=1h"
			}
		}
		em.Emit(Rec{Idx: idx, Kind: "sys", Desc: map[string]any{"kind": c.k.name, "has": c.hasDl, "remaining_ns": c.r, "transit": int64(c.transit), "md": c.md},
			Obs:  map[string]any{"has": o.has, "rem": o.rem, "t0": t0, "t1": t1},
			Tags: []string{"sys:kind=" + c.k.name, "sys:" + c.tag, "sys:remaining=" + class},
			Coq:  fmt.Sprintf("CSys %s %s %s %s %s %s", coqBool(c.k.stream), coqZ(t0), coqZ(t1), mdT, remT, coqOpt(o.has, coqZ(o.rem)))})
		stEnd(em, idx)
		idx++
	}

	// ---- header values put on the wire by a scripted peer, served by a real server
	var lists [][]kv
	lists = append(lists, c08HeaderLists()...)
	keys := []string{"grpc-timeout", "GRPC-Timeout", "Grpc-TimeOut", "gRPC-TIMEOUT"}
	vals := c08ParseInputs()
	stride := 5
	if thorough() {
		stride = 1
	}
	allDigits := func(s string) bool {
		for i := 0; i < len(s); i++ {
			if s[i] < '0' || s[i] > '9' {
				return false
			}
		}
		return len(s) > 0
	}
	for i, v := range vals {
		// every unsigned digit string of any length with a unit: the grammar, 9+ digit values, zero values, the
		// saturation boundary of every unit (around 2^63 ns) and the int64 boundary of the number itself
		numeric := len(v) >= 2 && strings.ContainsAny(v[len(v)-1:], "HMSmun") && allDigits(v[:len(v)-1])
		if i%stride != 0 && !numeric && i%2 != 0 {
			continue
		}
		lists = append(lists, []kv{{"x-before", "1S"}, {keys[i%len(keys)], v}})
	}
	body, _ := protoMarshal(bv([]byte("q")))
	for li, hl := range lists {
		for _, k := range []c08Kind{c08Kinds[0], c08Kinds[1+li%3]} {
			if !want(idx) {
				idx++
				continue
			}
			stBegin(em, idx)
			var o c08Obs
			var hs []*goatorepo.KeyValue
			for _, h := range hl {
				hs = append(hs, &goatorepo.KeyValue{Key: h.K, Value: h.V})
			}
			bubble(t, func(t *testing.T) {
				o.done = make(chan struct{})
				ep := NewEndpoint("s")
				srv := newEchoServer("dst", c08Impl(&o))
				ret := make(chan error, 1)
				go func() { ret <- srv.Serve(context.Background(), ep) }()
				hh := hdr(k.path, "src", "dst")
				hh.Headers = hs
				env := &Rpc{Id: 1, Header: hh}
				if !k.stream {
					env.Body = &goatorepo.Body{Data: body}
				}
				ep.Deliver(env)
				<-o.done
				synctest.Wait()
				ep.FailRead(io.EOF)
				synctest.Wait()
				<-ret
			})
			if !o.ran {
				t.Errorf("case %d: handler did not run", idx)
			}
			em.Emit(Rec{Idx: idx, Kind: "srv", Desc: map[string]any{"kind": k.name, "headers": hl},
				Obs:  map[string]any{"has": o.has, "rem": o.rem},
				Tags: []string{"srv:kind=" + k.name, fmt.Sprintf("srv:deadline=%v", o.has)},
				Coq:  fmt.Sprintf("CSrv %s %s %s", coqBool(k.stream), kvTerms(hs), coqOpt(o.has, coqZ(o.rem)))})
			stEnd(em, idx)
			idx++
		}
	}
}

package verifharness

import (
	"context"
	"encoding/base64"
	"fmt"
	"math/rand"
	"sort"
	"strings"
	"testing"

	"github.com/avos-io/goat/gen/goatorepo"
	"github.com/avos-io/goat/internal"
	"github.com/avos-io/goat/internal/server"
	"google.golang.org/grpc/codes"
	"google.golang.org/grpc/metadata"
	"google.golang.org/grpc/status"
	"google.golang.org/protobuf/types/known/wrapperspb"
)

// Rig D for C04: the metadata codec (ToKeyValue / ToMetadata / base64), the
// server stream object's header/trailer flushing and the unary collector.

const keyAlphabet = "abcdefghijklmnopqrstuvwxyzABCDEFGHIJKLMNOPQRSTUVWXYZ0123456789-_."

func randKey(r *rand.Rand, bin bool) string {
	n := 1 + r.Intn(10)
	b := make([]byte, n)
	for i := range b {
		b[i] = keyAlphabet[r.Intn(len(keyAlphabet))]
	}
	k := string(b)
	if bin {
		suffix := []string{"-bin", "-Bin", "-BIN", "-biN"}[r.Intn(4)]
		k += suffix
	}
	return k
}

func randBinValue(r *rand.Rand) string {
	switch r.Intn(8) {
	case 0:
		return ""
	case 1:
		return "\x00"
	case 2:
		return "\xff\xfe\xfd"
	case 3:
		return "\xfb\xff\xbf" // encodes to characters 62/63 of the alphabet
	case 4:
		b := make([]byte, 100+r.Intn(200))
		r.Read(b)
		return string(b)
	default:
		b := make([]byte, r.Intn(9))
		r.Read(b)
		return string(b)
	}
}

func randTextValue(r *rand.Rand) string {
	n := r.Intn(12)
	b := make([]byte, n)
	for i := range b {
		b[i] = byte(0x20 + r.Intn(0x5f))
	}
	return string(b)
}

func randMD(r *rand.Rand, maxKeys int) metadata.MD {
	md := metadata.MD{}
	n := r.Intn(maxKeys + 1)
	for i := 0; i < n; i++ {
		bin := r.Intn(3) == 0
		k := randKey(r, bin)
		if r.Intn(6) == 0 && len(md) > 0 {
			// case variant of an existing key (collides after lower-casing)
			for ek := range md {
				if r.Intn(2) == 0 {
					k = strings.ToUpper(ek)
				} else {
					k = strings.ToLower(ek)
				}
				bin = strings.HasSuffix(strings.ToLower(k), "-bin")
				break
			}
		}
		nv := 1 + r.Intn(4)
		var vs []string
		for j := 0; j < nv; j++ {
			if bin {
				vs = append(vs, randBinValue(r))
			} else {
				vs = append(vs, randTextValue(r))
			}
		}
		md[k] = append(md[k], vs...)
	}
	return md
}

func coqMD(md metadata.MD) string {
	var es []string
	for _, k := range sortedKeys(md) {
		var vs []string
		for _, v := range md[k] {
			vs = append(vs, coqStr(v))
		}
		es = append(es, coqPair(coqStr(k), coqList(vs)))
	}
	return coqList(es)
}

func coqKVs(kvs []*goatorepo.KeyValue) string {
	var es []string
	for _, h := range kvs {
		es = append(es, coqPair(coqStr(h.Key), coqStr(h.Value)))
	}
	return coqList(es)
}

func keyOrder(kvs []*goatorepo.KeyValue) []string {
	var order []string
	seen := map[string]bool{}
	for _, h := range kvs {
		if !seen[h.Key] {
			seen[h.Key] = true
			order = append(order, h.Key)
		}
	}
	return order
}

type recRW struct {
	written []*Rpc
	fail    bool
}

func (r *recRW) Read(ctx context.Context) (*Rpc, error) { <-ctx.Done(); return nil, ctx.Err() }
func (r *recRW) Write(ctx context.Context, rpc *Rpc) error {
	if r.fail {
		return errInjected
	}
	r.written = append(r.written, clone(rpc))
	return nil
}

func tokenMD(i int) metadata.MD {
	return metadata.MD{fmt.Sprintf("k%03d", i): []string{fmt.Sprintf("v%d", i)}}
}

func tokensOf(kvs []*goatorepo.KeyValue) []string {
	var ks []string
	for _, h := range kvs {
		ks = append(ks, h.Key)
	}
	sort.Strings(ks)
	var out []string
	for _, k := range ks {
		var n int
		fmt.Sscanf(k, "k%d", &n)
		out = append(out, fmt.Sprintf("%d", n))
	}
	return out
}

func TestC04(t *testing.T) {
	em := NewEmitter()
	defer em.Close()
	r := newRand(4)
	idx := 0

	// ---- codec round trips, 1..3 argument maps
	n := 400
	if thorough() {
		n = 6000
	}
	for i := 0; i < n; i++ {
		nm := 1 + r.Intn(3)
		var mds []metadata.MD
		var terms []string
		maxKeys := 6
		if i%10 == 0 {
			maxKeys = 16
		}
		for j := 0; j < nm; j++ {
			md := randMD(r, maxKeys)
			if j > 0 && r.Intn(2) == 0 && len(mds[0]) > 0 {
				// repeat a key of the first map so that Join has something to merge
				for k := range mds[0] {
					bin := strings.HasSuffix(strings.ToLower(k), "-bin")
					if bin {
						md[k] = append(md[k], randBinValue(r))
					} else {
						md[k] = append(md[k], randTextValue(r))
					}
					break
				}
			}
			mds = append(mds, md)
			terms = append(terms, coqMD(md))
		}
		kvs := internal.ToKeyValue(mds...)
		back, err := internal.ToMetadata(kvs)
		var orderT []string
		for _, k := range keyOrder(kvs) {
			orderT = append(orderT, coqStr(k))
		}
		nkeys, nbin, nvals := 0, 0, 0
		for _, md := range mds {
			for k, vs := range md {
				nkeys++
				nvals += len(vs)
				if strings.HasSuffix(strings.ToLower(k), "-bin") {
					nbin++
				}
			}
		}
		em.Emit(Rec{Idx: idx, Kind: "codec", Desc: map[string]any{"mds": mds},
			Obs:  map[string]any{"kvs": len(kvs), "err": fmt.Sprint(err)},
			Tags: []string{fmt.Sprintf("maps=%d", nm), fmt.Sprintf("keys<=%d", (nkeys+3)/4*4), fmt.Sprintf("binkeys=%d", min(nbin, 3))},
			Coq: fmt.Sprintf("CCodec %s %s %s %s", coqList(terms), coqList(orderT), coqKVs(kvs),
				coqOpt(err == nil, coqMD(back)))})
		idx++
	}

	// ---- base64 alone, and the decoder on malformed input
	for i := 0; i < n/2; i++ {
		raw := randBinValue(r)
		enc := base64.URLEncoding.EncodeToString([]byte(raw))
		kv := []*goatorepo.KeyValue{{Key: "x-bin", Value: enc}}
		md, err := internal.ToMetadata(kv)
		var dec string
		if err == nil {
			dec = md["x-bin"][0]
		}
		em.Emit(Rec{Idx: idx, Kind: "b64", Desc: map[string]any{"raw": []byte(raw)},
			Coq: fmt.Sprintf("CB64 %s %s %s", coqStr(raw), coqStr(enc), coqOpt(err == nil, coqStr(dec)))})
		idx++
	}
	b64chars := []byte("ABCDEFGHIJKLMNOPQRSTUVWXYZabcdefghijklmnopqrstuvwxyz0123456789-_=+/\r\n .")
	fixed := []string{"", "=", "==", "a", "ab", "abc", "abcd", "ab==", "abc=", "a===", "ab=", "ab=c", "abc=d", "ab==cd", "abcd=",
		"abcd==", "ab\n==", "ab=\n=", "ab=\r\n=", "a\nb\rc\nd", "\n", "\r\n\r\n", "ab==\n", "abc=\n\n", "ab== ", "ab+/", "ab-_",
		"YWJj", "YWJjZA==", "YWJjZA=", "YWJjZA", "YWJjZB==", "YWJjZP==", "YWJ=", "YWJjZGU=", "YW\nJjZGU=", "!!!!", "ab\x00d"}
	for i := 0; i < n; i++ {
		var s string
		if i < len(fixed) {
			s = fixed[i]
		} else {
			l := r.Intn(14)
			b := make([]byte, l)
			for j := range b {
				if r.Intn(6) == 0 {
					b[j] = b64chars[r.Intn(len(b64chars))]
				} else {
					b[j] = b64chars[r.Intn(64)]
				}
			}
			if l >= 2 && r.Intn(3) == 0 {
				b[l-1] = '='
				if r.Intn(2) == 0 {
					b[l-2] = '='
				}
			}
			s = string(b)
		}
		md, err := internal.ToMetadata([]*goatorepo.KeyValue{{Key: "X-BIN", Value: s}})
		var dec string
		if err == nil {
			dec = md["x-bin"][0]
		}
		em.Emit(Rec{Idx: idx, Kind: "b64dec", Desc: map[string]any{"s": s}, Obs: map[string]any{"ok": err == nil},
			Tags: []string{fmt.Sprintf("decodes=%v", err == nil)},
			Coq:  fmt.Sprintf("CB64Dec %s %s", coqStr(s), coqOpt(err == nil, coqStr(dec)))})
		idx++
	}

	// ---- ToMetadata on arbitrary lists (mixed valid / invalid)
	for i := 0; i < n/2; i++ {
		l := r.Intn(6)
		var kvs []*goatorepo.KeyValue
		for j := 0; j < l; j++ {
			bin := r.Intn(2) == 0
			k := randKey(r, bin)
			if j > 0 && r.Intn(3) == 0 {
				k = kvs[r.Intn(len(kvs))].Key
				if r.Intn(2) == 0 {
					k = strings.ToUpper(k)
				}
				bin = strings.HasSuffix(strings.ToLower(k), "-bin")
			}
			v := randTextValue(r)
			if bin && r.Intn(4) > 0 {
				v = base64.URLEncoding.EncodeToString([]byte(randBinValue(r)))
				if r.Intn(8) == 0 {
					v = base64.StdEncoding.EncodeToString([]byte("\xfb\xff\xbf" + randBinValue(r)))
				}
				if r.Intn(8) == 0 {
					v = base64.RawURLEncoding.EncodeToString([]byte(randBinValue(r)))
				}
			}
			kvs = append(kvs, &goatorepo.KeyValue{Key: k, Value: v})
		}
		md, err := internal.ToMetadata(kvs)
		em.Emit(Rec{Idx: idx, Kind: "tomd", Desc: map[string]any{"kvs": kvs}, Obs: map[string]any{"ok": err == nil},
			Tags: []string{fmt.Sprintf("tomd_ok=%v", err == nil)},
			Coq:  fmt.Sprintf("CToMd %s %s", coqKVs(kvs), coqOpt(err == nil, coqMD(md)))})
		idx++
	}

	// ---- server stream object: all programs up to length 4 over 5 op kinds (+ random longer)
	opKinds := []string{"SetHeader", "SendHeader", "SetTrailer", "SendMsg", "SendTrailer", "SendTrailerErr"}
	var progs [][]int
	var gen func(prefix []int, depth int)
	gen = func(prefix []int, depth int) {
		if len(prefix) > 0 {
			progs = append(progs, append([]int(nil), prefix...))
		}
		if depth == 0 {
			return
		}
		for k := range opKinds {
			gen(append(prefix, k), depth-1)
		}
	}
	maxLen := 4
	if thorough() {
		maxLen = 5
	}
	gen(nil, maxLen)
	for i := 0; i < n/2; i++ {
		l := maxLen + 1 + r.Intn(6)
		p := make([]int, l)
		for j := range p {
			p[j] = r.Intn(len(opKinds))
		}
		progs = append(progs, p)
	}
	for _, prog := range progs {
		rw := &recRW{}
		ss, _ := server.NewServerStream(context.Background(), 9, "/verif.Echo/Bidi", "srv", "cli", rw, nil)
		var opT, resT []string
		for j, k := range prog {
			tok := j + 1
			var err error
			switch opKinds[k] {
			case "SetHeader":
				err = ss.SetHeader(tokenMD(tok))
			case "SendHeader":
				err = ss.SendHeader(tokenMD(tok))
			case "SetTrailer":
				ss.SetTrailer(tokenMD(tok))
			case "SendMsg":
				err = ss.SendMsg(&wrapperspb.BytesValue{Value: []byte{byte(tok)}})
			case "SendTrailer":
				err = ss.SendTrailer(nil)
			case "SendTrailerErr":
				err = ss.SendTrailer(status.Error(codes.NotFound, "handler failed"))
			}
			opT = append(opT, fmt.Sprintf("%s %d", strings.TrimSuffix(opKinds[k], "Err"), tok))
			code := 0
			if err != nil {
				switch {
				case strings.Contains(err.Error(), "headers already sent"):
					code = 1
				case strings.Contains(err.Error(), "wrote trailers"):
					code = 2
				default:
					code = 3
				}
			}
			resT = append(resT, fmt.Sprint(code))
		}
		var envT []string
		for _, w := range rw.written {
			kind := 0
			if w.GetTrailer() != nil {
				kind = 2
			} else if w.GetBody() != nil {
				kind = 1
			}
			envT = append(envT, fmt.Sprintf("(%d, %s, %s)", kind, coqList(tokensOf(w.GetHeader().GetHeaders())),
				coqList(tokensOf(w.GetTrailer().GetMetadata()))))
		}
		em.Emit(Rec{Idx: idx, Kind: "stream-ops", Desc: map[string]any{"ops": opT}, Obs: map[string]any{"res": resT, "envs": len(rw.written)},
			Tags: []string{fmt.Sprintf("oplen=%d", min(len(prog), 6))},
			Coq:  fmt.Sprintf("CStream %s %s %s", coqList(opT), coqList(resT), coqList(envT))})
		idx++
	}

	// ---- unary collector
	uKinds := []string{"USetHeader", "USendHeader", "USetTrailer"}
	var uprogs [][]int
	var ugen func(prefix []int, depth int)
	ugen = func(prefix []int, depth int) {
		uprogs = append(uprogs, append([]int(nil), prefix...))
		if depth == 0 {
			return
		}
		for k := range uKinds {
			ugen(append(prefix, k), depth-1)
		}
	}
	ugen(nil, 5)
	for _, prog := range uprogs {
		sts := server.NewUnaryServerTransportStream("/verif.Echo/Unary")
		var opT, resT []string
		for j, k := range prog {
			tok := j + 1
			var err error
			switch uKinds[k] {
			case "USetHeader":
				err = sts.SetHeader(tokenMD(tok))
			case "USendHeader":
				err = sts.SendHeader(tokenMD(tok))
			case "USetTrailer":
				err = sts.SetTrailer(tokenMD(tok))
			}
			opT = append(opT, fmt.Sprintf("%s %d", uKinds[k], tok))
			resT = append(resT, coqBool(err == nil))
		}
		h := tokensOf(internal.ToKeyValue(sts.GetHeaders()))
		tr := tokensOf(internal.ToKeyValue(sts.GetTrailers()))
		em.Emit(Rec{Idx: idx, Kind: "unary-ops", Desc: map[string]any{"ops": opT}, Obs: map[string]any{"res": resT, "h": h, "t": tr},
			Coq: fmt.Sprintf("CUnary %s %s %s %s", coqList(opT), coqList(resT), coqList(h), coqList(tr))})
		idx++
	}
}

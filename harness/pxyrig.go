//go:build px

package verifharness

// Rig for C16 / C17: the real goat.Proxy driven lock-step in a synctest bubble
// with scripted peer transports (Endpoint): one group of environment actions,
// synctest.Wait, snapshot. Every case is emitted as a Coq term of type pxcase
// (Check/C16c.v).

import (
	"bytes"
	"context"
	"encoding/json"
	"fmt"
	"io"
	"os"
	"os/exec"
	"regexp"
	"runtime"
	"sort"
	"strconv"
	"strings"
	"sync"
	"sync/atomic"
	"testing"
	"testing/synctest"
	"time"

	goat "github.com/avos-io/goat"
	"github.com/avos-io/goat/gen/goatorepo"
	"github.com/avos-io/goat/internal/verifhook"
	"google.golang.org/protobuf/proto"
	"google.golang.org/protobuf/types/known/anypb"
)

const pxProxyName = 99
const pxCancelMethod = "/x/cancel"

// names <-> tokens: "n<k>" <-> k (0 < k < 99), "px" <-> 99, "x-n<k>" <-> 100+k
func pxName(tok int64) string {
	switch {
	case tok == pxProxyName:
		return "px"
	case tok >= 100:
		return "x-" + pxName(tok-100)
	case tok < 0:
		return fmt.Sprintf("?%d", -tok)
	default:
		return fmt.Sprintf("n%d", tok)
	}
}

func pxTok(name string) int64 {
	if name == "px" {
		return pxProxyName
	}
	if strings.HasPrefix(name, "x-") {
		t := pxTok(name[2:])
		if t < 0 {
			return -5
		}
		return 100 + t
	}
	if len(name) >= 2 && name[0] == 'n' {
		if n, err := strconv.ParseInt(name[1:], 10, 64); err == nil && pxName(n) == name {
			return n
		}
	}
	return -5
}

// the interceptor family (Check/C16c.v icp_of)
func pxInterceptor(code int) goat.RpcIntercepter {
	switch code {
	case 0:
		return func(h *goatorepo.RequestHeader) error { return nil }
	case 1:
		return func(h *goatorepo.RequestHeader) error { h.Destination = pxName(2); return nil }
	case 2:
		return func(h *goatorepo.RequestHeader) error {
			h.Destination = strings.TrimPrefix(h.Destination, "x-")
			return nil
		}
	case 3:
		return func(h *goatorepo.RequestHeader) error {
			if h.Destination == pxName(3) {
				return errInjected
			}
			return nil
		}
	case 4:
		return func(h *goatorepo.RequestHeader) error {
			if h.Source == pxName(1) {
				return errInjected
			}
			return nil
		}
	}
	return nil // 5: no interceptor installed
}

// ---------------------------------------------------------------- scenario

type PAct struct {
	Op   string  `json:"op"`            // attach | deliver | failread | setw | dial | cancel
	N    int64   `json:"n,omitempty"`   // name of the record the action addresses
	Gen  int     `json:"gen,omitempty"` // 0: the newest record of that name, 1: the one before, ...
	Deaf bool    `json:"deaf,omitempty"`
	M    string  `json:"m,omitempty"` // setw: ok | fail | block; dial: ok | fail
	Src  int64   `json:"src,omitempty"`
	Bad  string  `json:"bad,omitempty"` // deliver: "" honest source | spoof (Src) | nohdr | nilrpc
	Dst  int64   `json:"dst,omitempty"`
	Rec  []int64 `json:"rec,omitempty"`
	Next []int64 `json:"next,omitempty"`
	HasN bool    `json:"hasn,omitempty"` // the return route is non-nil (possibly empty)
	V    int64   `json:"v,omitempty"`
	// deliver: the proxy context is cancelled while the forwarding loop is inside this envelope's forward
	// (from the interceptor); if the envelope never gets there, at the end of the step
	CancelOn bool `json:"cancelon,omitempty"`
	// deliver: which sub-messages the envelope carries besides the header (pxShape); 0 = a body with the token
	Shape int `json:"shape,omitempty"`
	// failread / setw fail / setw failafter / dial fail: the error value (mkErr)
	Err int `json:"err,omitempty"`
}

type pxScenario struct {
	Icp   int      `json:"icp"`
	ByRef bool     `json:"byref,omitempty"`
	Steps [][]PAct `json:"steps"`
	Tags  []string `json:"tags,omitempty"`
}

type pxEnv struct {
	Hdr  bool
	Src  int64
	Dst  int64
	Rec  []int64
	Next []int64
	HasN bool
	Pay  int64
}

func zList(l []int64) string {
	s := make([]string, len(l))
	for i, v := range l {
		s[i] = coqZ(v)
	}
	return coqList(s)
}

func (e pxEnv) coq() string {
	if !e.Hdr {
		return fmt.Sprintf("(mkEnv false 0 0 [] None %s)", coqZ(e.Pay))
	}
	next := "None"
	if e.HasN {
		next = "(Some " + zList(e.Next) + ")"
	}
	return fmt.Sprintf("(mkEnv true %s %s %s %s %s)", coqZ(e.Src), coqZ(e.Dst), zList(e.Rec), next, coqZ(e.Pay))
}

type pxErr struct {
	rec   int
	kind  string
	inner error // what the error wraps (errors.Is / errors.As see it)
	tmo   bool  // net.Error-style: Timeout() and Temporary() report true
}

func (e *pxErr) Error() string {
	if e.inner != nil {
		return fmt.Sprintf("injected %s failure of record %d: %v", e.kind, e.rec, e.inner)
	}
	return fmt.Sprintf("injected %s failure of record %d", e.kind, e.rec)
}
func (e *pxErr) Unwrap() error   { return e.inner }
func (e *pxErr) Timeout() bool   { return e.tmo }
func (e *pxErr) Temporary() bool { return e.tmo }

// the error VALUE of an injected read / write / dial failure: 0 an error of the harness's own, 1 wrapping
// context.Canceled, 2 wrapping context.DeadlineExceeded, 3 wrapping io.EOF, 4 a net.Error-style timeout, and the bare
// values 5 context.Canceled, 6 context.DeadlineExceeded, 7 io.EOF (a bare value carries no identity: the record it was
// injected into is remembered per name)
const pxNumErrKinds = 8

func (r *pxRig) mkErr(rec *pxRec, kind string, ek int) error {
	switch ek % pxNumErrKinds {
	case 1:
		return &pxErr{rec: rec.idx, kind: kind, inner: context.Canceled}
	case 2:
		return &pxErr{rec: rec.idx, kind: kind, inner: context.DeadlineExceeded}
	case 3:
		return &pxErr{rec: rec.idx, kind: kind, inner: io.EOF}
	case 4:
		return &pxErr{rec: rec.idx, kind: kind, tmo: true}
	case 5:
		r.bare(context.Canceled, rec)
		return context.Canceled
	case 6:
		r.bare(context.DeadlineExceeded, rec)
		return context.DeadlineExceeded
	case 7:
		r.bare(io.EOF, rec)
		return io.EOF
	}
	return &pxErr{rec: rec.idx, kind: kind}
}

func (r *pxRig) bare(e error, rec *pxRec) {
	r.mu.Lock()
	if r.bareOwner == nil {
		r.bareOwner = map[error]*pxRec{}
	}
	r.bareOwner[e] = rec
	r.mu.Unlock()
}

// pxConn is what the proxy gets as a peer connection: the scripted Endpoint plus
//   - deaf: blocked Read / Write ignore their context;
//   - a record of every Write call that returned an error (the model's EvWFail), and whether the envelope had
//     reached the peer before the error ("delivers, then fails": setw failafter);
type pxFailedWrite struct {
	rpc     *Rpc
	reached bool
}

type pxConn struct {
	ep        *Endpoint
	deaf      bool
	mu        sync.Mutex
	failAfter error
	failed    []pxFailedWrite
	skip      map[int]bool // indices of ep.Written that are failed-after-delivery writes, not successes
}

func (c *pxConn) Read(ctx context.Context) (*Rpc, error) {
	if c.deaf {
		ctx = context.Background()
	}
	return c.ep.Read(ctx)
}

func (c *pxConn) Write(ctx context.Context, r *Rpc) error {
	if c.deaf {
		ctx = context.Background()
	}
	err := c.ep.Write(ctx, r)
	c.mu.Lock()
	defer c.mu.Unlock()
	if err == nil && c.failAfter != nil {
		// the envelope is with the peer; the Write reports an error all the same
		c.skip[len(c.ep.WrittenCopy())-1] = true
		c.failed = append(c.failed, pxFailedWrite{r, true})
		return c.failAfter
	}
	if err != nil {
		c.failed = append(c.failed, pxFailedWrite{r, false})
	}
	return err
}

func (c *pxConn) setFailAfter(err error) {
	c.mu.Lock()
	c.failAfter = err
	c.mu.Unlock()
}

type dialRes struct {
	ok   bool
	deaf bool
	err  error
}

type pxRec struct {
	name    int64
	ep      *Endpoint
	cn      *pxConn
	lastF   int
	dialled bool
	dialCh  chan dialRes
	pending bool // the dial has not been answered
	lastW   int
	idx     int
}

type pxObs struct {
	Outs  []string `json:"outs"`
	Dials []int64  `json:"dials"`
	Disc  []string `json:"disc"`
	Reg   []int64  `json:"reg"`
	Fw    bool     `json:"fw"`
	Nrd   int      `json:"nrd"`
	Nwr   int      `json:"nwr"`
	Nrw   int      `json:"nrw"`
	Ndl   int      `json:"ndl"`
	Ngoat int      `json:"ngoat"`
	Drops int64    `json:"drops"`
	Crash bool     `json:"crash"`
	WFail []string `json:"wfail"`
}

func (o pxObs) coq() string {
	return fmt.Sprintf("(mkPObs %s %s %s %s %s %d %d %d %d %d %d %s %s)", coqList(o.Outs), zList(o.Dials), coqList(o.Disc), zList(o.Reg),
		coqBool(o.Fw), o.Nrd, o.Nwr, o.Nrw, o.Ndl, o.Ngoat, o.Drops, coqBool(o.Crash), coqList(o.WFail))
}

type pxRig struct {
	sc       pxScenario
	p        *goat.Proxy
	cancel   context.CancelFunc
	ctx      context.Context
	cancelW  bool // a CancelOn envelope was delivered
	mu       sync.Mutex
	recs     []*pxRec
	newDials []*pxRec
	discs    []string
	crash    bool
	orig     map[int64]*Rpc
	byId     map[uint64]int64
	bareOwner map[error]*pxRec
	onFail    map[int64]int64 // disconnect callback for name k calls AddClient(onFail[k]) from inside the callback
	extra     []string        // terms of actions performed from inside callbacks during the current step
	hterms    bool          // emit the held-model terms (HHold / HRelease / HWait / HA ...)
	holdName  int64         // the disconnect callback for this name blocks ...
	holdCh    chan struct{} // ... until this is closed
	lastDrop int64
	nDel     uint64
}

// pxShape gives an envelope its content besides the routing fields: every combination of present / absent
// sub-messages the protocol has. shape = body + 4*status + 12*trailer + 36*reset + 144*headers:
//
//	body    0 data = token payload | 1 no Body | 2 Body with empty data | 3 large data (64 KiB)
//	status  0 none | 1 code only | 2 code, message and details
//	trailer 0 none | 1 empty Trailer | 2 Trailer with metadata
//	reset   0 none | 1 RST_STREAM | 2 Reset with empty type | 3 Reset of another type
//	headers 0 none | 1 request headers (metadata)
const pxNumShapes = 4 * 3 * 3 * 4 * 2

func pxShape(rpc *Rpc, shape int, tok int64) {
	if shape < 0 {
		shape = -shape
	}
	shape %= pxNumShapes
	switch shape % 4 {
	case 0:
		rpc.Body = &goatorepo.Body{Data: payloadOf(tok)}
	case 1:
		rpc.Body = nil
	case 2:
		rpc.Body = &goatorepo.Body{}
	case 3:
		big := make([]byte, 64<<10)
		x := uint64(tok)
		for i := range big {
			x = x*6364136223846793005 + 1442695040888963407
			big[i] = byte(x >> 56)
		}
		rpc.Body = &goatorepo.Body{Data: big}
	}
	switch shape / 4 % 3 {
	case 1:
		rpc.Status = &goatorepo.ResponseStatus{Code: int32(tok % 17)}
	case 2:
		rpc.Status = &goatorepo.ResponseStatus{Code: 9, Message: fmt.Sprintf("status of %d", tok),
			Details: []*anypb.Any{{TypeUrl: "type.googleapis.com/x.Y", Value: payloadOf(tok + 1)}, {TypeUrl: "t", Value: nil}}}
	}
	switch shape / 12 % 3 {
	case 1:
		rpc.Trailer = &goatorepo.Trailer{}
	case 2:
		rpc.Trailer = &goatorepo.Trailer{Metadata: []*goatorepo.KeyValue{{Key: "k", Value: fmt.Sprint(tok)}, {Key: "k-bin", Value: "AAEC"}, {Key: "k", Value: ""}}}
	}
	switch shape / 36 % 4 {
	case 1:
		rpc.Reset_ = &goatorepo.Reset{Type: "RST_STREAM"}
	case 2:
		rpc.Reset_ = &goatorepo.Reset{}
	case 3:
		rpc.Reset_ = &goatorepo.Reset{Type: "GOAWAY"}
	}
	if shape/144%2 == 1 && rpc.Header != nil {
		rpc.Header.Headers = []*goatorepo.KeyValue{{Key: "grpc-timeout", Value: "5S"}, {Key: "x", Value: fmt.Sprint(tok)}}
	}
}

func blankRouting(r *Rpc) *Rpc {
	c := clone(r)
	if c.Header != nil {
		c.Header.Destination = ""
		c.Header.ProxyRecord = nil
		c.Header.ProxyNext = nil
	}
	return c
}

func tokList(l []string) []int64 {
	out := make([]int64, len(l))
	for i, s := range l {
		out[i] = pxTok(s)
	}
	return out
}

// envOf describes an envelope that came out of the proxy; the payload token is
// -777 unless everything but the routing fields equals the original.
func (r *pxRig) envOf(x *Rpc) pxEnv {
	if x == nil || x.Header == nil {
		return pxEnv{Pay: -777}
	}
	e := pxEnv{Hdr: true, Src: pxTok(x.Header.Source), Dst: pxTok(x.Header.Destination), Rec: tokList(x.Header.ProxyRecord),
		HasN: x.Header.ProxyNext != nil, Next: tokList(x.Header.ProxyNext), Pay: -777}
	// the envelope is identified by its id (the harness's are unique); the token is reported only when the WHOLE
	// envelope - id, method, headers, source, status, body, trailer, reset - equals the original but for the three
	// routing fields (destination, route record, return route)
	if v, ok := r.byId[x.Id]; ok {
		if o, ok := r.orig[v]; ok && proto.Equal(blankRouting(o), blankRouting(x)) {
			e.Pay = v
		}
	}
	return e
}

func (r *pxRig) find(name int64, gen int) *pxRec {
	for i := len(r.recs) - 1; i >= 0; i-- {
		if r.recs[i].name == name {
			if gen == 0 {
				return r.recs[i]
			}
			gen--
		}
	}
	return nil
}

func (r *pxRig) conn(rec *pxRec, deaf bool) goat.RpcReadWriter {
	rec.cn = &pxConn{ep: rec.ep, deaf: deaf, skip: map[int]bool{}}
	return rec.cn
}

// do performs one action; "" when the action does not apply (it is then left out of the case)
func (r *pxRig) do(a PAct) string {
	switch a.Op {
	case "attach":
		rec := &pxRec{name: a.N, ep: NewEndpoint(pxName(a.N)), idx: len(r.recs)}
		rec.ep.ByRef = r.sc.ByRef
		r.recs = append(r.recs, rec)
		r.p.AddClient(pxName(a.N), r.conn(rec, a.Deaf))
		return fmt.Sprintf("AAttach %s %s", coqZ(a.N), coqBool(!a.Deaf))
	case "deliver":
		rec := r.find(a.N, a.Gen)
		if rec == nil {
			return ""
		}
		r.nDel++
		e := pxEnv{Hdr: true, Src: a.N, Dst: a.Dst, Rec: a.Rec, Next: a.Next, HasN: a.HasN || len(a.Next) > 0, Pay: a.V}
		if a.Bad == "spoof" {
			e.Src = a.Src
		}
		h := &goatorepo.RequestHeader{Method: "/x/y", Source: pxName(e.Src), Destination: pxName(e.Dst)}
		for _, x := range e.Rec {
			h.ProxyRecord = append(h.ProxyRecord, pxName(x))
		}
		if e.HasN {
			h.ProxyNext = []string{}
			for _, x := range e.Next {
				h.ProxyNext = append(h.ProxyNext, pxName(x))
			}
		}
		if a.CancelOn {
			h.Method = pxCancelMethod
			r.cancelW = true
		}
		rpc := &Rpc{Id: 1000 + r.nDel, Header: h}
		pxShape(rpc, a.Shape, a.V)
		switch a.Bad {
		case "nohdr":
			rpc.Header = nil
			e.Hdr = false
		case "nilrpc":
			rpc = nil
			e.Hdr = false
		}
		if rpc != nil {
			r.orig[a.V] = clone(rpc)
			r.byId[rpc.Id] = a.V
		}
		rec.ep.Deliver(rpc)
		if a.CancelOn {
			return fmt.Sprintf("ADeliver %d %s; ACancel", rec.idx, e.coq())
		}
		return fmt.Sprintf("ADeliver %d %s", rec.idx, e.coq())
	case "failread":
		rec := r.find(a.N, a.Gen)
		if rec == nil {
			return ""
		}
		rec.ep.FailRead(r.mkErr(rec, "read", a.Err))
		return fmt.Sprintf("AFailRead %d", rec.idx)
	case "setw":
		rec := r.find(a.N, a.Gen)
		if rec == nil {
			return ""
		}
		switch a.M {
		case "ok":
			if rec.cn != nil {
				rec.cn.setFailAfter(nil)
			}
			rec.ep.FailWrites(nil)
			rec.ep.UnblockWrites()
			return fmt.Sprintf("ASetWrite %d WOk", rec.idx)
		case "fail":
			if rec.cn != nil {
				rec.cn.setFailAfter(nil)
			}
			rec.ep.FailWrites(r.mkErr(rec, "write", a.Err))
			rec.ep.UnblockWrites()
			return fmt.Sprintf("ASetWrite %d WFail", rec.idx)
		case "failafter":
			// the Write hands the envelope to the peer and THEN returns an error (for the proxy: a failed Write)
			if rec.cn == nil {
				return "" // the dial has not been answered: there is no connection yet
			}
			rec.cn.setFailAfter(r.mkErr(rec, "write", a.Err))
			rec.ep.FailWrites(nil)
			rec.ep.UnblockWrites()
			return fmt.Sprintf("ASetWrite %d WFail", rec.idx)
		default:
			if rec.cn != nil {
				rec.cn.setFailAfter(nil)
			}
			rec.ep.FailWrites(nil)
			rec.ep.BlockWrites()
			return fmt.Sprintf("ASetWrite %d WBlock", rec.idx)
		}
	case "dial":
		// answers the oldest unanswered dial for the name
		var rec *pxRec
		for _, x := range r.recs {
			if x.name == a.N && x.dialled && x.pending {
				rec = x
				break
			}
		}
		if rec == nil {
			return ""
		}
		rec.pending = false
		if a.M == "fail" {
			rec.dialCh <- dialRes{ok: false, err: r.mkErr(rec, "dial", a.Err)}
			return fmt.Sprintf("ADialFail %d", rec.idx)
		}
		rec.dialCh <- dialRes{ok: true, deaf: a.Deaf}
		return fmt.Sprintf("ADialOk %d %s", rec.idx, coqBool(!a.Deaf))
	case "cancel":
		r.cancel()
		return "ACancel"
	case "hold": // the next disconnect callback for name N does not return until "release" (no model action)
		r.mu.Lock()
		r.holdName, r.holdCh = a.N, make(chan struct{})
		r.mu.Unlock()
		if rec := r.find(a.N, 0); rec != nil && r.hterms {
			return fmt.Sprintf("HHold %d", rec.idx)
		}
		return ""
	case "release":
		r.mu.Lock()
		if r.holdCh != nil {
			close(r.holdCh)
			r.holdCh = nil
		}
		r.mu.Unlock()
		if r.hterms {
			return "HRelease"
		}
		return ""
	case "onfail-attach": // arm: the disconnect callback for name N calls AddClient(Dst) (no model action by itself)
		r.mu.Lock()
		if r.onFail == nil {
			r.onFail = map[int64]int64{}
		}
		r.onFail[a.N] = a.Dst
		r.mu.Unlock()
		return ""
	case "tick": // a step of its own without any action: D milliseconds of virtual time go by
		time.Sleep(time.Duration(a.V) * time.Millisecond)
		synctest.Wait()
		return "TICK"
	case "wait": // inside a group: let the proxy settle before the next action of the group (no step boundary)
		synctest.Wait()
		if r.hterms {
			return "HWait"
		}
		return ""
	}
	panic("unknown op " + a.Op)
}

func (r *pxRig) snapshot() pxObs {
	o := pxObs{Outs: []string{}, Dials: []int64{}, Disc: []string{}, Reg: []int64{}}
	r.mu.Lock()
	nd := r.newDials
	r.newDials = nil
	o.Disc = append(o.Disc, r.discs...)
	r.discs = r.discs[:0]
	o.Crash = r.crash
	r.mu.Unlock()
	sort.SliceStable(nd, func(i, j int) bool { return nd[i].name < nd[j].name })
	for _, rec := range nd {
		rec.idx = len(r.recs)
		r.recs = append(r.recs, rec)
		o.Dials = append(o.Dials, rec.name)
	}
	sort.Strings(o.Disc)
	o.WFail = []string{}
	for _, rec := range r.recs {
		ws := rec.ep.WrittenCopy()
		var skip map[int]bool
		var failed []pxFailedWrite
		if rec.cn != nil {
			rec.cn.mu.Lock()
			skip = rec.cn.skip
			failed = append(failed, rec.cn.failed[rec.lastF:]...)
			rec.lastF = len(rec.cn.failed)
			rec.cn.mu.Unlock()
		}
		for k, w := range ws[rec.lastW:] {
			if skip[rec.lastW+k] {
				continue // a Write that delivered and then failed: listed below, not a success
			}
			o.Outs = append(o.Outs, coqPair(strconv.Itoa(rec.idx), r.envOf(w).coq()))
		}
		rec.lastW = len(ws)
		for _, f := range failed {
			o.WFail = append(o.WFail, fmt.Sprintf("(%d, %s, %s)", rec.idx, r.envOf(f.rpc).coq(), coqBool(f.reached)))
		}
	}
	for _, k := range r.p.VerifProxyClients() {
		o.Reg = append(o.Reg, pxTok(k))
	}
	sort.Slice(o.Reg, func(i, j int) bool { return o.Reg[i] < o.Reg[j] })
	cs := pxCensus("goat.(*Proxy).serveClients(", "goat.(*proxyClient).readLoop(", "goat.(*proxyClient).writeLoop(",
		"goat.(*proxyClient).readWrite(", "goat.(*proxyClient).connect(", "github.com/avos-io/goat.")
	o.Fw, o.Nrd, o.Nwr, o.Nrw, o.Ndl, o.Ngoat = cs[0] > 0, cs[1], cs[2], cs[3], cs[4], cs[5]
	d := verifhook.Counter("proxy.drop")
	o.Drops = d - r.lastDrop
	r.lastDrop = d
	return o
}

// pxStart creates the proxy of a scenario and starts its forwarding loop.
func (r *pxRig) start() {
	ctx, cancel := context.WithCancel(context.Background())
	r.cancel = cancel
	r.ctx = ctx
	r.orig = map[int64]*Rpc{}
	r.byId = map[uint64]int64{}
	icp := pxInterceptor(r.sc.Icp)
	if icp != nil {
		inner := icp
		icp = func(h *goatorepo.RequestHeader) error {
			if h.Method == pxCancelMethod {
				// let the other goroutines get to their offers, then cancel from inside the forwarding loop
				for i := 0; i < 40; i++ {
					runtime.Gosched()
				}
				cancel()
			}
			return inner(h)
		}
	}
	verifhook.ResetCounters()
	r.lastDrop = 0
	r.p = goat.NewProxy(ctx, pxName(pxProxyName),
		func(id string) (goat.RpcReadWriter, error) {
			rec := &pxRec{name: pxTok(id), ep: NewEndpoint(id), dialled: true, dialCh: make(chan dialRes, 1), pending: true}
			rec.ep.ByRef = r.sc.ByRef
			r.mu.Lock()
			r.newDials = append(r.newDials, rec)
			r.mu.Unlock()
			res := <-rec.dialCh
			if !res.ok {
				if res.err != nil {
					return nil, res.err
				}
				return nil, &pxErr{rec: rec.idx, kind: "dial"}
			}
			return r.conn(rec, res.deaf), nil
		},
		icp,
		func(id string, reason error) {
			who := int64(-1)
			r.mu.Lock()
			if pe, ok := reason.(*pxErr); ok {
				who = int64(pe.rec)
			} else if rec := r.bareOwner[reason]; rec != nil && pxName(rec.name) == id {
				who = int64(rec.idx)
			}
			r.discs = append(r.discs, coqPair(coqZ(pxTok(id)), coqZ(who)))
			var attach *pxRec
			if n, ok := r.onFail[pxTok(id)]; ok {
				// the callback re-attaches a peer: AddClient from inside the disconnect callback
				delete(r.onFail, pxTok(id))
				attach = &pxRec{name: n, ep: NewEndpoint(pxName(n)), idx: len(r.recs)}
				attach.ep.ByRef = r.sc.ByRef
				r.recs = append(r.recs, attach)
				r.extra = append(r.extra, fmt.Sprintf("AAttach %s true", coqZ(n)))
			}
			var hold chan struct{}
			if r.holdCh != nil && r.holdName == pxTok(id) {
				hold, r.holdName = r.holdCh, 0 // a slow callback: the serve loop stays in here until "release"
			}
			r.mu.Unlock()
			if attach != nil {
				r.p.AddClient(pxName(attach.name), r.conn(attach, false))
			}
			if hold != nil {
				<-hold
			}
		})
	go func() {
		defer func() {
			if p := recover(); p != nil {
				r.mu.Lock()
				r.crash = true
				r.mu.Unlock()
			}
		}()
		r.p.Serve()
	}()
}

func (r *pxRig) cleanup() {
	r.mu.Lock()
	if r.holdCh != nil {
		close(r.holdCh)
		r.holdCh = nil
	}
	r.mu.Unlock()
	r.cancel()
	r.mu.Lock()
	all := append(append([]*pxRec{}, r.recs...), r.newDials...)
	r.mu.Unlock()
	for _, rec := range all {
		if rec.dialled && rec.pending {
			rec.pending = false
			rec.dialCh <- dialRes{ok: false}
		}
		rec.ep.FailWrites(nil)
		rec.ep.UnblockWrites()
		rec.ep.FailRead(errInjected)
	}
}

// pxBuf is the per-destination buffer size measured on the running code: a destination whose connection blocks
// in Write holds one envelope in its write loop and the buffer's worth behind it before the drop counter moves.
var (
	pxBufOnce sync.Once
	pxBufSize int
)

func pxMeasureBuf(t *testing.T) int {
	pxBufOnce.Do(func() {
		bubble(t, func(t *testing.T) {
			r := &pxRig{sc: pxScenario{Icp: 5}}
			r.start()
			r.do(PAct{Op: "attach", N: 1})
			r.do(PAct{Op: "attach", N: 2})
			synctest.Wait()
			r.do(PAct{Op: "setw", N: 2, M: "block"})
			n := 0
			for n < 4096 {
				r.do(PAct{Op: "deliver", N: 1, Dst: 2, V: int64(500 + n)})
				synctest.Wait()
				if verifhook.Counter("proxy.drop") > 0 {
					break
				}
				n++
			}
			pxBufSize = n - 1 // one envelope sits in the blocked Write
			synctest.Wait()
			r.snapshot()
			r.cleanup()
			synctest.Wait()
		})
	})
	return pxBufSize
}

func runPxScenario(t *testing.T, idx int, kind string, sc pxScenario, em *Emitter) {
	buf := pxMeasureBuf(t)
	var coqSteps, coqObs []string
	var obsList []pxObs
	var drops int64
	tickEvents := false
	em.Marker("begin", idx)
	// a goroutine waiting for a sync.Mutex is not durably blocked: a lock held across a blocking call in the proxy
	// makes synctest.Wait hang; the watcher reports the scenario as wedged (exit 3) and the run resumes after it
	wstep, wstop := pxGuardWedge(em, idx, kind, sc, sc.Tags)
	defer wstop()
	leaked := bubble(t, func(t *testing.T) {
		rig := &pxRig{sc: sc, hterms: kind == "proxy-held"}
		rig.start()
		synctest.Wait()
		for _, group := range sc.Steps {
			wstep()
			var terms []string
			for _, a := range group {
				if term := rig.do(a); term != "" {
					if term == "TICK" {
						terms = append(terms, term)
						continue
					}
					if rig.hterms && !strings.HasPrefix(term, "H") {
						term = "HA (" + term + ")"
					}
					terms = append(terms, term)
				}
			}
			if len(terms) == 0 {
				continue
			}
			synctest.Wait()
			rig.mu.Lock()
			terms = append(terms, rig.extra...) // AddClient calls made from inside callbacks during this step
			rig.extra = nil
			rig.mu.Unlock()
			if rig.cancelW && rig.ctx.Err() == nil {
				// the envelope that was to trigger the cancellation never reached the interceptor
				rig.cancel()
				synctest.Wait()
			}
			// the observation is made WITHOUT letting virtual time pass: whatever the step causes must have happened
			o := rig.snapshot()
			drops += o.Drops
			obsList = append(obsList, o)
			if len(terms) == 1 && terms[0] == "TICK" {
				terms = nil // the step has no action
			}
			coqSteps = append(coqSteps, coqList(terms))
			coqObs = append(coqObs, o.coq())
			// then a tick of virtual time: the proxy has no timer, nothing may happen. If something does (a retry
			// loop, a grace period inside the forwarding loop), it is recorded as a step of its own without any
			// action: the model predicts that nothing happens there, and the predicates see the delay
			time.Sleep(150 * time.Millisecond)
			synctest.Wait()
			o2 := rig.snapshot()
			if len(o2.Outs)+len(o2.Dials)+len(o2.Disc)+len(o2.WFail) > 0 || o2.Drops != 0 || o2.Fw != o.Fw || o2.Nrd != o.Nrd ||
				o2.Nwr != o.Nwr || o2.Nrw != o.Nrw || o2.Ndl != o.Ndl || o2.Ngoat != o.Ngoat || fmt.Sprint(o2.Reg) != fmt.Sprint(o.Reg) || o2.Crash != o.Crash {
				drops += o2.Drops
				obsList = append(obsList, o2)
				coqSteps = append(coqSteps, "[]")
				coqObs = append(coqObs, o2.coq())
				tickEvents = true
			}
		}
		wstep()
		rig.cleanup()
		synctest.Wait()
	})
	tags := append([]string{}, sc.Tags...)
	tags = append(tags, fmt.Sprintf("icp=%d", sc.Icp))
	if drops > 0 {
		tags = append(tags, "sig:proxy-overflow>buf", "drops>0")
	}
	if leaked {
		tags = append(tags, "leaked-at-end")
	}
	if tickEvents {
		tags = append(tags, "something-happened-while-only-time-passed")
	}
	em.Emit(Rec{Idx: idx, Kind: kind, Desc: sc, Obs: obsList, Tags: tags,
		Coq: fmt.Sprintf("%s %d %d %d %s %s", map[string]string{"proxy": "CProxy", "proxy-loose": "CProxyLoose", "proxy-red": "CProxyRed", "proxy-held": "CProxyHeld"}[kind],
			pxProxyName, buf, sc.Icp, coqList(coqSteps), coqList(coqObs))})
	em.Marker("end", idx)
}

// ---------------------------------------------------------------- sharding

// pxSharded re-executes the current test binary as nShards child processes, each running the jobs whose index
// is congruent to its shard number, and merges their output files into -out (same scheme as cl_common.go's
// sharded). It returns (shard, n, true) in a child - and in an unsharded run - and (0, 0, false) in the parent
// once the children are done. Case indices are global, so a replay (-only idx) runs unsharded.
func pxSharded(t *testing.T, testName string, nShards int) (int, int, bool) {
	if s := os.Getenv("PX_SHARD"); s != "" {
		var i, n int
		fmt.Sscanf(s, "%d/%d", &i, &n)
		return i, n, true
	}
	if *flagOut == "" || *flagOnly >= 0 {
		return 0, 1, true
	}
	var wg sync.WaitGroup
	outs := make([]string, nShards)
	errs := make([]error, nShards)
	rcs := make([]int, nShards)
	for i := 0; i < nShards; i++ {
		outs[i] = fmt.Sprintf("%s.shard%d", *flagOut, i)
		os.Remove(outs[i])
		wg.Add(1)
		go func(i int) {
			defer wg.Done()
			cmd := exec.Command(os.Args[0], "-test.run", "^"+testName+"$", "-test.timeout", "0", "-out", outs[i],
				"-seed", fmt.Sprint(*flagSeed), "-tier", *flagTier, "-from", fmt.Sprint(*flagFrom))
			cmd.Env = append(os.Environ(), fmt.Sprintf("PX_SHARD=%d/%d", i, nShards))
			out, err := cmd.CombinedOutput()
			if err != nil {
				o := string(out)
				if len(o) > 1500 {
					o = o[len(o)-1500:]
				}
				errs[i] = fmt.Errorf("shard %d: %v: %s", i, err, o)
				rcs[i] = 1
				if ee, ok := err.(*exec.ExitError); ok {
					rcs[i] = ee.ExitCode()
				}
			}
		}(i)
	}
	wg.Wait()
	// A shard that died (panic in the code under test) or reported a wedge (exit 3, record + end marker written)
	// stopped at its scenario k. ./check's run_rig attributes a non-zero exit to the last begin marker of the
	// output and resumes with -from k+1: keep everything up to the smallest such k (the other shards' work beyond
	// it is redone by the resumed run), put k's lines last, leave with the shard's exit status.
	type line struct {
		idx  int
		text []byte
	}
	var lines []line
	failIdx, failRc := -1, 0
	for i := 0; i < nShards; i++ {
		b, _ := os.ReadFile(outs[i])
		os.Remove(outs[i])
		lastBegin := -1
		for _, l := range bytes.Split(b, []byte("\n")) {
			if len(l) == 0 {
				continue
			}
			var m struct {
				Marker string `json:"marker"`
				Idx    int    `json:"idx"`
			}
			if json.Unmarshal(l, &m) != nil {
				continue
			}
			if m.Marker == "begin" {
				lastBegin = m.Idx
			}
			lines = append(lines, line{m.Idx, l})
		}
		if rcs[i] != 0 && lastBegin >= 0 && (failIdx < 0 || lastBegin < failIdx) {
			failIdx, failRc = lastBegin, rcs[i]
		}
	}
	f, err := os.OpenFile(*flagOut, os.O_CREATE|os.O_WRONLY|os.O_APPEND, 0o644)
	if err != nil {
		t.Fatal(err)
	}
	for _, l := range lines {
		if failIdx < 0 || l.idx < failIdx {
			f.Write(append(l.text, '\n'))
		}
	}
	for _, l := range lines {
		if failIdx >= 0 && l.idx == failIdx {
			f.Write(append(l.text, '\n'))
		}
	}
	f.Close()
	if failIdx >= 0 {
		fmt.Fprintf(os.Stderr, "shard stopped at scenario %d with exit status %d\n", failIdx, failRc)
		os.Exit(failRc)
	}
	for _, e := range errs {
		if e != nil {
			t.Errorf("%v", e)
		}
	}
	return 0, 0, false
}

// pxRunJobs runs the jobs (one per case index) of a test, sharded.
func pxRunJobs(t *testing.T, testName string, jobs []func(idx int, em *Emitter)) {
	shard, n, run := pxSharded(t, testName, 8)
	if !run {
		return
	}
	em := NewEmitter()
	defer em.Close()
	for idx, job := range jobs {
		if idx%n != shard || !want(idx) {
			continue
		}
		job(idx, em)
	}
}

// ---------------------------------------------------------------- wedge watcher (stricter than wedge.go's)

// pxGuardWedge watches one scenario from outside its bubble in real time, like guardWedge, but reports a wedge only
// on evidence that cannot be produced by a slow machine: no step for at least 3 s AND two goroutine dumps one second
// apart in which (a) the goroutines of the bubble are the same, in the same wait states, at the same top frames,
// (b) at least one of them waits for a sync.Mutex / RWMutex, and (c) none of them is running, runnable, preempted, in
// a syscall or doing GC work (a lock holder that can still move shows up as one of these). A mutex held across a
// blocking call in the code under test gives exactly that picture for ever; a scheduling delay does not give it twice.
func pxGuardWedge(em *Emitter, idx int, kind string, desc any, tags []string) (step func(), stop func()) {
	var progress, done atomic.Int64
	hdrRe := regexp.MustCompile(`^goroutine (\d+) \[([^\],]+)[^\]]*synctest bubble`)
	picture := func() (pic string, waiters int, busy bool) {
		buf := make([]byte, 8<<20)
		dump := string(buf[:runtime.Stack(buf, true)])
		var lines []string
		for _, g := range strings.Split(dump, "\n\n") {
			m := hdrRe.FindStringSubmatch(g)
			if m == nil {
				continue // not a goroutine of a bubble
			}
			state := m[2]
			switch {
			case strings.HasPrefix(state, "sync.Mutex") || strings.HasPrefix(state, "sync.RWMutex"):
				waiters++
			case state == "running" || state == "runnable" || state == "preempted" || state == "syscall" ||
				strings.HasPrefix(state, "GC ") || state == "sleep" || state == "copystack" || state == "waiting":
				busy = true
			}
			top := ""
			if ls := strings.SplitN(g, "\n", 3); len(ls) > 1 {
				top = ls[1]
			}
			lines = append(lines, m[1]+" "+state+" "+top)
		}
		sort.Strings(lines)
		return strings.Join(lines, "\n"), waiters, busy
	}
	go func() {
		last, stuck := int64(-1), 0
		prev := ""
		for done.Load() == 0 {
			time.Sleep(250 * time.Millisecond)
			p := progress.Load()
			if p != last {
				last, stuck, prev = p, 0, ""
				continue
			}
			stuck++
			if stuck < 12 || stuck%4 != 0 { // from 3 s without a step on, one picture per second
				continue
			}
			pic, waiters, busy := picture()
			if waiters == 0 || busy {
				prev = ""
				if stuck < 4800 { // 20 minutes without any step: give up anyway
					continue
				}
			} else if pic != prev {
				prev = pic
				continue
			}
			if done.Load() != 0 || progress.Load() != p {
				return
			}
			em.Emit(Rec{Idx: idx, Kind: kind + "-wedged", Desc: desc,
				Obs:  map[string]any{"lock_waiters": waiters, "steps_done": p, "picture": pic},
				Tags: append(append([]string{}, tags...), "wedged")})
			em.Marker("end", idx)
			em.Close()
			os.Exit(3)
		}
	}()
	return func() { progress.Add(1) }, func() { done.Store(1) }
}

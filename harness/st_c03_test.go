//go:build st

package verifharness

import (
	"context"
	"fmt"
	"testing"

	"github.com/avos-io/goat/gen/goatorepo"
	"github.com/avos-io/goat/internal/server"
	"google.golang.org/grpc"
	"google.golang.org/grpc/status"
)

// Rig D + Rig A for C03: the status pipeline through the real functions.
func TestC03Pure(t *testing.T) {
	em := NewEmitter()
	defer em.Close()
	reg := newTokReg()
	idx := 0
	grid := stGrid()

	// ---- grpc's conversions (the premises of the theorems, the instance used by the model)
	for _, k := range grid {
		if want(idx) {
			err := k.err()
			st, ok := status.FromError(err)
			cst := status.FromContextError(err)
			p, cp := st.Proto(), cst.Proto()
			em.Emit(Rec{Idx: idx, Kind: "grpc-conv", Desc: map[string]any{"err": k.desc()}, Tags: append(k.tags(), "part=conv"),
				Coq: fmt.Sprintf("CConv %s %s %s %s", k.coq(reg)[6:len(k.coq(reg))-1],
					st3Coq(int64(uint32(st.Code())), reg.tok(p.GetMessage()), reg.dets(p.GetDetails())), coqBool(ok),
					st3Coq(int64(uint32(cst.Code())), reg.tok(cp.GetMessage()), reg.dets(cp.GetDetails())))})
		}
		idx++
	}

	// ---- unary pipeline: real processUnaryRpc, then the real Invoke on its reply
	type ucase struct {
		k     *hkind
		reply []byte // nil = handler returns no reply
		has   bool
	}
	var ucases []ucase
	ucases = append(ucases, ucase{nil, []byte("pong"), true}, ucase{nil, nil, false}, ucase{nil, []byte{}, true})
	for i, k := range grid {
		ucases = append(ucases, ucase{k, nil, false})
		if i%3 == 0 || k.kind == "okstatus" || k.kind == "eof" || k.kind == "canceled" {
			ucases = append(ucases, ucase{k, []byte("partial reply"), true}) // a reply AND an error
		}
	}
	for _, uc := range ucases {
		if !want(idx) {
			idx++
			continue
		}
		stBegin(em, idx)
		impl := &echoImpl{unary: func(ctx context.Context, req []byte) ([]byte, bool, error) {
			return uc.reply, uc.has, uc.k.err()
		}}
		srv := newEchoServer("dst", impl)
		body, _ := protoMarshal(bv([]byte("q")))
		rep, err := srv.VerifProcessUnaryRpc(context.Background(), &Rpc{Id: 7, Header: hdr("/verif.Echo/Unary", "src", "dst"), Body: &goatorepo.Body{Data: body}})
		if err != nil {
			t.Fatal(err)
		}
		rep = clone(rep) // what the transport carries
		obs := stClientUnary(t, reg, rep)
		replyT := "None"
		if uc.has {
			replyT = fmt.Sprintf("(Some %d)", reg.payloadTok(uc.reply))
		}
		em.Emit(Rec{Idx: idx, Kind: "pipe-unary", Desc: map[string]any{"err": uc.k.desc(), "reply": uc.has},
			Tags: append(uc.k.tags(), "part=pipe-unary", fmt.Sprintf("reply=%v", uc.has)),
			Coq:  fmt.Sprintf("CPipeU %s %s %s %s", uc.k.coq(reg), replyT, reg.envCoq(rep), obs)})
		stEnd(em, idx)
		idx++
	}

	// ---- stream pipeline: real server stream object (0..2 messages, then the trailer), real client stream
	for i, k := range append([]*hkind{nil}, grid...) {
		for nm := 0; nm <= 2; nm++ {
			if nm != i%3 && k != nil && k.kind != "okstatus" && k.kind != "eof" {
				continue // every kind at one position, the special kinds at every position
			}
			if !want(idx) {
				idx++
				continue
			}
			stBegin(em, idx)
			rw := &recRW{}
			ss, _ := server.NewServerStream(context.Background(), 9, "/verif.Echo/Bidi", "dst", "src", rw, nil)
			var msgs []int64
			for j := 0; j < nm; j++ {
				p := []byte(fmt.Sprintf("msg-%d", j))
				ss.SendMsg(bv(p))
				msgs = append(msgs, reg.payloadTok(p))
			}
			ss.SendTrailer(k.err())
			var envT []string
			for _, w := range rw.written {
				envT = append(envT, reg.envCoq(w))
			}
			obs := stClientStream(t, reg, rw.written)
			em.Emit(Rec{Idx: idx, Kind: "pipe-stream", Desc: map[string]any{"err": k.desc(), "msgs": nm},
				Tags: append(k.tags(), "part=pipe-stream", fmt.Sprintf("position=after-%d-msgs", nm)),
				Coq:  fmt.Sprintf("CPipeS %s %s %s %s", k.coq(reg), zs(msgs), coqList(envT), obs)})
			stEnd(em, idx)
			idx++
		}
	}

	// ---- foreign finals: real client against a scripted peer
	okBody, _ := protoMarshal(bv([]byte("foreign reply")))
	garbage := []byte{0xff, 0xff, 0xff}
	stOf := func(code int32, msg string, nd int) *goatorepo.ResponseStatus {
		return &goatorepo.ResponseStatus{Code: code, Message: msg, Details: stDetails(nd)}
	}
	statuses := []*goatorepo.ResponseStatus{nil, stOf(0, "OK", 0), stOf(0, "", 1), stOf(5, "not found", 2), stOf(16, "", 0),
		stOf(17, "out of range", 0), stOf(99, "way out", 1), stOf(-1, "negative", 0), stOf(-2147483648, "min", 0), stOf(2147483647, "max", 0)}
	bodies := []*goatorepo.Body{nil, {Data: okBody}, {Data: garbage}, {}}
	trailers := []*goatorepo.Trailer{nil, {}, {Metadata: []*goatorepo.KeyValue{{Key: "k", Value: "v"}}}}
	resets := []*goatorepo.Reset{nil, {Type: "RST_STREAM"}, {Type: "something else"}}
	for si, s := range statuses {
		for bi, b := range bodies {
			for ti, tr := range trailers {
				for ri, rs := range resets {
					env := &Rpc{Id: 1, Header: hdr("/verif.Echo/Unary", "dst", "src"), Status: s, Body: b, Trailer: tr, Reset_: rs}
					tags := []string{"part=foreign", fmt.Sprintf("f:status=%v", map[bool]string{true: "none", false: map[bool]string{true: "ok", false: "nonok"}[s.GetCode() == 0]}[s == nil]),
						fmt.Sprintf("f:body=%d", bi), fmt.Sprintf("f:trailer=%v", tr != nil), fmt.Sprintf("f:reset=%v", rs != nil)}
					if want(idx) {
						stBegin(em, idx)
						obs := stClientUnary(t, reg, env)
						em.Emit(Rec{Idx: idx, Kind: "foreign-unary", Desc: map[string]any{"status": si, "body": bi, "trailer": ti, "reset": ri},
							Tags: append(tags, "f:kind=unary"), Coq: fmt.Sprintf("CCliUnary %s %s", reg.envCoq(env), obs)})
						stEnd(em, idx)
					}
					idx++
					// as the only response of a stream, and after one ordinary message
					for _, pre := range []int{0, 1} {
						if bi == 2 {
							break // an undecodable message is RecvMsg's codec error, not a terminal state: left out
						}
						if want(idx) {
							stBegin(em, idx)
							var seq []*Rpc
							if pre == 1 {
								mb, _ := protoMarshal(bv([]byte("first")))
								seq = append(seq, &Rpc{Id: 1, Header: hdr("/verif.Echo/Bidi", "dst", "src"), Body: &goatorepo.Body{Data: mb}})
							}
							e2 := clone(env)
							e2.Header.Method = "/verif.Echo/Bidi"
							seq = append(seq, e2)
							// and a clean trailer behind it: must not turn an earlier failure into success
							seq = append(seq, &Rpc{Id: 1, Header: hdr("/verif.Echo/Bidi", "dst", "src"),
								Status: &goatorepo.ResponseStatus{Code: 0, Message: "OK"}, Trailer: &goatorepo.Trailer{}})
							var envT []string
							for _, w := range seq {
								envT = append(envT, reg.envCoq(w))
							}
							obs := stClientStream(t, reg, seq)
							em.Emit(Rec{Idx: idx, Kind: "foreign-stream", Desc: map[string]any{"status": si, "body": bi, "trailer": ti, "reset": ri, "pre": pre},
								Tags: append(tags, "f:kind=stream"), Coq: fmt.Sprintf("CCliStream %s %s", coqList(envT), obs)})
							stEnd(em, idx)
						}
						idx++
					}
				}
			}
		}
	}
}

var _ grpc.ServerStream

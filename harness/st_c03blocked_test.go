//go:build st

package verifharness

import (
	"context"
	"fmt"
	"io"
	"sync/atomic"
	"testing"
	"time"

	goat "github.com/avos-io/goat"
	"github.com/avos-io/goat/internal/verifhook"
	"google.golang.org/grpc"
	"google.golang.org/protobuf/types/known/wrapperspb"
)

// A RecvMsg that is ALREADY BLOCKED when the trailer arrives must report the
// handler's status (or io.EOF), also when the read loop is held up between
// cancelling the stream context and publishing the terminal state. The read
// loop's own cancel() calls Value() on the caller's context (context package:
// removeChild) after it has closed Done: gateCtx parks that call. Free-running
// (no bubble): a goroutine waiting for the stream's mutex is not durably
// blocked, so a bubble could not be waited on here. Real time is only used to
// let the woken RecvMsg run; it is never an oracle (on correct code every
// schedule gives the right answer).
type gateCtx struct {
	context.Context
	armed  *atomic.Bool
	parked chan struct{}
	gate   chan struct{}
}

func (c gateCtx) Value(key any) any {
	if c.armed.CompareAndSwap(true, false) {
		c.parked <- struct{}{}
		<-c.gate
	}
	return c.Context.Value(key)
}

func runStBlockedRecv(t *testing.T, reg *tokReg, rk int, nfirst int, k *hkind) (sent []int64, obs string) {
	finish := make(chan struct{})
	impl := &echoImpl{stream: func(kind string, ss grpc.ServerStream) error {
		for i := 0; i < nfirst; i++ {
			ss.SendMsg(bv([]byte(fmt.Sprintf("reply-%d", i))))
		}
		<-finish
		return k.err()
	}}
	l := NewLink(false)
	l.Auto = true
	srv := newEchoServer("dst", impl)
	ret := make(chan error, 1)
	go func() { ret <- srv.Serve(context.Background(), l.S) }()
	cc := goat.NewClientConn(l.C, "src", "dst")
	base, cancel := context.WithCancel(context.Background())
	defer cancel()
	g := gateCtx{Context: base, armed: &atomic.Bool{}, parked: make(chan struct{}, 1), gate: make(chan struct{})}
	desc, method := descBidi, "/verif.Echo/Bidi"
	switch rk {
	case 1:
		desc, method = descCStream, "/verif.Echo/CStream"
	case 2:
		desc, method = descSStream, "/verif.Echo/SStream"
	}
	cs, err := cc.NewStream(g, desc, method)
	if err != nil {
		t.Fatal(err)
	}
	if rk != 3 {
		cs.SendMsg(bv([]byte("req")))
		cs.CloseSend()
	}
	var bodies []int64
	for i := 0; i < nfirst; i++ {
		var m wrapperspb.BytesValue
		if err := cs.RecvMsg(&m); err != nil {
			t.Fatalf("first RecvMsg: %v", err)
		}
		bodies = append(bodies, reg.payloadTok(m.Value))
		sent = append(sent, reg.payloadTok([]byte(fmt.Sprintf("reply-%d", i))))
	}
	// the next RecvMsg blocks: nothing more comes until the handler returns
	inRecv := make(chan struct{}, 1)
	verifhook.SetYield(func(pt string) {
		if pt == "cs.recv.checked" {
			select {
			case inRecv <- struct{}{}:
			default:
			}
		}
	})
	res := make(chan error, 1)
	go func() { var m wrapperspb.BytesValue; res <- cs.RecvMsg(&m) }()
	<-inRecv
	verifhook.SetYield(nil)
	time.Sleep(5 * time.Millisecond) // past the done-check: let it reach its select
	g.armed.Store(true)
	close(finish) // the handler returns; the trailer reaches the read loop, whose cancel() parks in Value()
	var rerr error
	got := false
	select {
	case <-g.parked:
		time.Sleep(20 * time.Millisecond) // the read loop is held up: a RecvMsg woken by ctx.Done runs now
		select {
		case rerr = <-res:
			got = true
		default:
		}
	case rerr = <-res:
		got = true
	case <-time.After(3 * time.Second):
	}
	close(g.gate)
	if !got {
		select {
		case rerr = <-res:
			got = true
		case <-time.After(3 * time.Second):
		}
	}
	term := "None"
	if got {
		term = reg.termCoq(rerr)
	}
	obs = reg.sobsCoq(bodies, term)
	cancel()
	l.C.FailRead(io.EOF)
	l.S.FailRead(io.EOF)
	<-ret
	return
}

//go:build px

package verifharness

import (
	"context"
	"fmt"
	"math/rand"
	"strings"
	"sync"
	"testing"
	"time"

	goat "github.com/avos-io/goat"
	"github.com/avos-io/goat/gen/goatorepo"
)

// Scenario generators for C18 (quantifier: all envelope sequences over 1..8
// keys with arbitrary interleaving, all consumption orders, Cancel(key) and
// Stop at each step, concurrent with reads and writes).

var dmxKeyFns = []string{"src", "dst", "id", "const", "names"}

var dmxShapes = []string{"", "", "", "nobody", "emptybody", "reset", "trailer", "status", "bodyonly"}
var dmxReadErrs = []string{"", "eof", "wrapeof", "canceled", "wrapcanceled"}
var dmxCtxErrs = []string{"", "", "deadline", "wrapdeadline", "wrapcanceled"}

// words: every action sequence of length <= n over a small alphabet (2 keys, 2 instances)
func dmxWords(n int) []dmxScenario {
	alpha := []DAct{
		{Op: "deliver", K: 1}, {Op: "deliver", K: 2},
		{Op: "read", C: 0}, {Op: "read", C: 1},
		{Op: "write", C: 0, K: 1},
		{Op: "cancelkey", K: 1},
		{Op: "stop"},
		{Op: "cancelcall", I: 0},
	}
	var out []dmxScenario
	var rec func(prefix []DAct)
	rec = func(prefix []DAct) {
		if len(prefix) > 0 {
			acts := make([]DAct, len(prefix))
			copy(acts, prefix)
			for i := range acts {
				acts[i].V = int64(100 + i) // unique payload tokens
			}
			out = append(out, dmxScenario{KeyFn: "src", Acts: acts, Tags: []string{"words", fmt.Sprintf("len=%d", len(acts))}})
		}
		if len(prefix) == n {
			return
		}
		for _, a := range alpha {
			rec(append(prefix, a))
		}
	}
	rec(nil)
	return out
}

// words that contain a tick of the virtual clock (the model has no timer: nothing may happen in it)
func dmxTickWords(n int) []dmxScenario {
	alpha := []DAct{
		{Op: "tick", D: 100}, {Op: "deliver", K: 1}, {Op: "deliver", K: 2},
		{Op: "read", C: 0}, {Op: "write", C: 0, K: 1},
		{Op: "cancelkey", K: 1}, {Op: "stop"}, {Op: "setw", M: "block"}, {Op: "cancelcall", I: 0},
	}
	var out []dmxScenario
	var rec func(prefix []DAct, ticks int)
	rec = func(prefix []DAct, ticks int) {
		if len(prefix) > 0 && ticks > 0 {
			acts := make([]DAct, len(prefix))
			copy(acts, prefix)
			for i := range acts {
				acts[i].V = int64(100 + i)
			}
			// a long tick at the end: a timer started by the last action fires, if there is one
			acts = append(acts, DAct{Op: "tick", D: 60000})
			out = append(out, dmxScenario{KeyFn: "src", Acts: acts, Tags: []string{"tick-words", fmt.Sprintf("len=%d", len(prefix))}})
		}
		if len(prefix) == n {
			return
		}
		for _, a := range alpha {
			t := ticks
			if a.Op == "tick" {
				if len(prefix) == 0 {
					continue // a tick before anything happened says nothing
				}
				t++
			}
			rec(append(prefix, a), t)
		}
	}
	rec(nil, 0)
	return out
}

// every key sequence of length n over nk keys
func keySeqs(n, nk int) [][]int64 {
	var out [][]int64
	var rec func(p []int64)
	rec = func(p []int64) {
		if len(p) == n {
			out = append(out, append([]int64(nil), p...))
			return
		}
		for k := 1; k <= nk; k++ {
			rec(append(p, int64(k)))
		}
	}
	rec(nil)
	return out
}

// consumption: deliver the whole sequence, then read the instances in the given
// order of keys until everything is consumed ("drain"), or read each envelope
// right after its delivery ("eager"), or issue the reads first ("readers-first")
func dmxSeqScenario(keys []int64, mode string, perm []int, keyfn string, byref bool) dmxScenario {
	var acts []DAct
	inst := map[int64]int{} // key -> instance index (no cancel in the base scenario)
	count := map[int64]int{}
	tok := int64(100)
	for _, k := range keys {
		if _, ok := inst[k]; !ok {
			inst[k] = len(inst)
		}
		count[k]++
	}
	switch mode {
	case "eager":
		for _, k := range keys {
			tok++
			acts = append(acts, DAct{Op: "deliver", K: k, V: tok}, DAct{Op: "read", C: inst[k]})
		}
	case "drain":
		for _, k := range keys {
			tok++
			acts = append(acts, DAct{Op: "deliver", K: k, V: tok})
		}
		// instances exist only once the run loop reached their first envelope: read in rounds
		order := make([]int64, 0, len(inst))
		ks := make([]int64, 0, len(inst))
		for k := range inst {
			ks = append(ks, k)
		}
		for i := range ks { // stable order of keys by instance index
			for _, k := range ks {
				if inst[k] == i {
					order = append(order, k)
				}
			}
		}
		left := len(keys)
		for round := 0; left > 0 && round < 4*len(keys); round++ {
			for _, pi := range perm {
				if pi >= len(order) {
					continue
				}
				k := order[pi]
				if count[k] > 0 {
					acts = append(acts, DAct{Op: "read", C: inst[k]})
					count[k]--
					left--
				}
			}
		}
	}
	return dmxScenario{KeyFn: keyfn, ByRef: byref, Acts: acts, Tags: []string{"seq-" + mode, fmt.Sprintf("n=%d", len(keys))}}
}

// insert one action at every position of a base scenario
func dmxInsertEach(base dmxScenario, a DAct, tag string) []dmxScenario {
	var out []dmxScenario
	for pos := 0; pos <= len(base.Acts); pos++ {
		acts := append([]DAct{}, base.Acts[:pos]...)
		acts = append(acts, a)
		acts = append(acts, base.Acts[pos:]...)
		out = append(out, dmxScenario{KeyFn: base.KeyFn, ByRef: base.ByRef, Acts: acts, Tags: append(append([]string{}, base.Tags...), tag)})
	}
	return out
}

var perms3 = [][]int{{0, 1, 2}, {0, 2, 1}, {1, 0, 2}, {1, 2, 0}, {2, 0, 1}, {2, 1, 0}}

func dmxRandomWalk(r *rand.Rand, n, nk int) dmxScenario {
	var acts []DAct
	tok := int64(1000)
	nInst, nCalls := 0, 0
	seen := map[int64]bool{}
	for len(acts) < n {
		x := r.Intn(100)
		tok++
		switch {
		case x < 30:
			k := int64(1 + r.Intn(nk))
			acts = append(acts, DAct{Op: "deliver", K: k, V: tok, S: dmxShapes[r.Intn(len(dmxShapes))]})
			if !seen[k] {
				seen[k] = true
				nInst++
			}
		case x < 55 && nInst > 0:
			acts = append(acts, DAct{Op: "read", C: r.Intn(nInst + 1)})
			nCalls++
		case x < 70 && nInst > 0:
			acts = append(acts, DAct{Op: "write", C: r.Intn(nInst + 1), K: int64(1 + r.Intn(nk)), V: tok, S: dmxShapes[r.Intn(len(dmxShapes))]})
			nCalls++
		case x < 78:
			k := int64(1 + r.Intn(nk))
			acts = append(acts, DAct{Op: "cancelkey", K: k})
			if seen[k] {
				delete(seen, k) // a later envelope creates a new instance
			}
		case x < 84 && nCalls > 0:
			acts = append(acts, DAct{Op: "cancelcall", I: r.Intn(nCalls), M: dmxCtxErrs[r.Intn(len(dmxCtxErrs))]})
		case x < 92:
			acts = append(acts, DAct{Op: "setw", M: []string{"ok", "fail", "block", "ok"}[r.Intn(4)]})
		case x < 95 && len(acts) > n/2:
			acts = append(acts, DAct{Op: "stop"})
		case x < 97 && len(acts) > n/2:
			acts = append(acts, DAct{Op: "failread", M: dmxReadErrs[r.Intn(len(dmxReadErrs))]})
		case x >= 97:
			acts = append(acts, DAct{Op: "tick", D: []int{1, 50, 1000, 61000}[r.Intn(4)]})
		}
	}
	return dmxScenario{KeyFn: dmxKeyFns[r.Intn(len(dmxKeyFns))], ByRef: r.Intn(2) == 0, Acts: acts,
		Tags: []string{"walk", fmt.Sprintf("keys=%d", nk)}}
}

func dmxScenarios() []dmxScenario {
	var out []dmxScenario
	r := newRand(1800)
	// 1. all words
	wl := 4
	if thorough() {
		wl = 5
	}
	out = append(out, dmxWords(wl)...)
	// 2. all key sequences x consumption orders, and Cancel / Stop / write-mode at every step
	n, nk := 5, 3
	if thorough() {
		n = 6
	}
	for l := 1; l <= n; l++ {
		for si, ks := range keySeqs(l, nk) {
			for mi, mode := range []string{"eager", "drain"} {
				perms := perms3
				if mode == "eager" {
					perms = perms3[:1]
				}
				for pi, perm := range perms {
					if !thorough() && l >= 4 && (si+pi+mi)%5 != 0 {
						continue // quick tier: a fifth of the longer ones
					}
					kf := dmxKeyFns[(si+pi)%3] // src, dst, id (const collapses the keys: covered by the walks)
					base := dmxSeqScenario(ks, mode, perm, kf, (si+pi)%2 == 0)
					out = append(out, base)
					if l <= 4 && (thorough() || (si+pi)%7 == 0) {
						out = append(out, dmxInsertEach(base, DAct{Op: "cancelkey", K: ks[0]}, "cancel-each-step")...)
						out = append(out, dmxInsertEach(base, DAct{Op: "stop"}, "stop-each-step")...)
					}
				}
			}
		}
	}
	// 3. concurrent writers on one instance, with the shared transport blocked / failing
	for _, m := range []string{"ok", "block", "fail"} {
		for nw := 1; nw <= 3; nw++ {
			acts := []DAct{{Op: "deliver", K: 1, V: 50}, {Op: "setw", M: m}}
			for w := 0; w < nw; w++ {
				acts = append(acts, DAct{Op: "write", C: 0, K: 1, V: int64(60 + w)})
			}
			base := dmxScenario{KeyFn: "src", Acts: append(acts, DAct{Op: "setw", M: "ok"}, DAct{Op: "write", C: 0, K: 1, V: 70}),
				Tags: []string{"writers", "wmode=" + m}}
			out = append(out, base)
			out = append(out, dmxInsertEach(base, DAct{Op: "cancelkey", K: 1}, "cancel-each-step")...)
			out = append(out, dmxInsertEach(base, DAct{Op: "stop"}, "stop-each-step")...)
			// the context of each Write call ends at every position - also AFTER the call has returned nil, while the
			// shared transport is still blocked: what was accepted must reach the shared transport all the same
			for w := 0; w <= nw; w++ {
				for _, ce := range []string{"", "deadline"} {
					out = append(out, dmxInsertEach(base, DAct{Op: "cancelcall", I: w, M: ce}, "cancelcall-each-step")...)
				}
			}
		}
	}
	// 5. ticks of the virtual clock inside short words
	tl := 3
	if thorough() {
		tl = 4
	}
	out = append(out, dmxTickWords(tl)...)
	// 6. one key's consumer is not reading (the run loop is parked in the hand-off of its second envelope) while
	// other keys have traffic: Cancel of either key, Stop, a write on either connection, a blocked shared
	// transport and a tick at EVERY position. Cancel / Stop must return (o_ctl), the other key must flow again
	// once the parked key is cancelled.
	for _, kf := range []string{"src", "names"} {
		base := dmxScenario{KeyFn: kf, Acts: []DAct{{Op: "deliver", K: 1, V: 201}, {Op: "deliver", K: 1, V: 202}, {Op: "deliver", K: 2, V: 203},
			{Op: "read", C: 0}, {Op: "deliver", K: 2, V: 204}, {Op: "deliver", K: 1, V: 205}, {Op: "read", C: 1}, {Op: "read", C: 1}, {Op: "read", C: 0}},
			Tags: []string{"parked-handoff"}}
		out = append(out, base)
		for _, ins := range []struct {
			a   DAct
			tag string
		}{{DAct{Op: "cancelkey", K: 1}, "cancel-parked-key"}, {DAct{Op: "cancelkey", K: 2}, "cancel-other-key"}, {DAct{Op: "stop"}, "stop-each-step"},
			{DAct{Op: "write", C: 0, K: 1, V: 290}, "write-parked-key"}, {DAct{Op: "write", C: 1, K: 2, V: 291}, "write-other-key"},
			{DAct{Op: "tick", D: 1000}, "tick-each-step"}, {DAct{Op: "setw", M: "block"}, "wblock-each-step"}} {
			out = append(out, dmxInsertEach(base, ins.a, ins.tag)...)
		}
		// Cancel of the other key AND a blocked shared write at once, around the parked hand-off
		for _, sc := range dmxInsertEach(base, DAct{Op: "cancelkey", K: 2}, "cancel-other-key") {
			acts := append([]DAct{{Op: "setw", M: "block"}}, sc.Acts[:3]...)
			acts = append(acts, DAct{Op: "write", C: 0, K: 1, V: 292}, DAct{Op: "write", C: 1, K: 2, V: 293})
			acts = append(acts, sc.Acts[3:]...)
			acts = append(acts, DAct{Op: "setw", M: "ok"}, DAct{Op: "tick", D: 1000})
			out = append(out, dmxScenario{KeyFn: kf, Acts: acts, Tags: []string{"parked-handoff", "wblock+cancel-other-key"}})
		}
	}
	// 7. keys whose NAMES collide under concatenation / are prefixes of one another / are empty: all sequences of
	// length <= 3 over five of them, eager and drained, with Cancel of the first key at every step
	for l := 1; l <= 3; l++ {
		for si, ks := range keySeqs(l, 5) {
			for i := range ks {
				ks[i] = []int64{1, 2, 5, 0, 8}[ks[i]-1] // "c-1" "c-11" "12" "" "c-112"
			}
			mode := []string{"eager", "drain"}[si%2]
			base := dmxSeqScenario(ks, mode, perms3[si%6], "names", si%2 == 0)
			base.Tags = append(base.Tags, "colliding-names")
			out = append(out, base)
			if thorough() || si%5 == 0 {
				out = append(out, dmxInsertEach(base, DAct{Op: "cancelkey", K: ks[0]}, "cancel-each-step")...)
			}
		}
	}
	// 8. envelope shapes: no body, a body of zero bytes, the all-default envelope, on every key function
	for _, kf := range dmxKeyFns {
		for _, shape := range []string{"nobody", "emptybody", "zero", "reset", "trailer", "status", "bodyonly"} {
			wshape := shape
			if shape == "zero" { // the all-default envelope has no identity: once per scenario
				wshape = "nobody"
			}
			acts := []DAct{{Op: "deliver", K: 1, V: 301, S: shape}, {Op: "read", C: 0}, {Op: "deliver", K: 1, V: 302}, {Op: "deliver", K: 2, V: 303, S: "nobody"},
				{Op: "read", C: 0}, {Op: "read", C: 1}, {Op: "write", C: 0, K: 1, V: 304, S: wshape}, {Op: "write", C: 1, K: 2, V: 305, S: "emptybody"}, {Op: "read", C: 1}}
			base := dmxScenario{KeyFn: kf, Acts: acts, Tags: []string{"shapes", "shape=" + shape}}
			out = append(out, base)
			out = append(out, dmxInsertEach(base, DAct{Op: "cancelkey", K: 1}, "cancel-each-step")...)
			// the shaped envelope as the FIRST envelope of a key that was used and cancelled, and of a key never used
			// (every envelope read for a key without a live connection opens and announces one and is handed over)
			if shape != "zero" {
				out = append(out, dmxScenario{KeyFn: kf, Acts: []DAct{{Op: "deliver", K: 1, V: 311}, {Op: "read", C: 0}, {Op: "cancelkey", K: 1},
					{Op: "deliver", K: 1, V: 312, S: shape}, {Op: "read", C: 1}, {Op: "deliver", K: 2, V: 313, S: shape}, {Op: "read", C: 2},
					{Op: "deliver", K: 1, V: 314, S: wshape}, {Op: "read", C: 1}},
					Tags: []string{"shapes", "shape=" + shape, "first-after-cancel"}})
			}
		}
	}
	// 9. the shared Read failing with each kind of error (plain, io.EOF, wrapped), calls ending with each kind of context error
	for _, re := range dmxReadErrs {
		for _, ce := range dmxCtxErrs[1:] {
			out = append(out, dmxScenario{KeyFn: "src", Acts: []DAct{{Op: "deliver", K: 1, V: 401}, {Op: "read", C: 0}, {Op: "read", C: 0}, {Op: "write", C: 0, K: 1, V: 402},
				{Op: "setw", M: "block"}, {Op: "write", C: 0, K: 1, V: 403}, {Op: "cancelcall", I: 1, M: ce}, {Op: "cancelcall", I: 3, M: ce},
				{Op: "failread", M: re}, {Op: "deliver", K: 2, V: 404}, {Op: "read", C: 0}, {Op: "tick", D: 1000}, {Op: "setw", M: "ok"}, {Op: "read", C: 1}},
				Tags: []string{"error-kinds", "readerr=" + re, "ctxerr=" + ce}})
		}
	}
	// 4. seeded random walks, up to 8 keys
	nw := 250
	if thorough() {
		nw = 3000
	}
	for i := 0; i < nw; i++ {
		nk := 1 + r.Intn(4)
		if thorough() || i%4 == 0 {
			nk = 1 + r.Intn(8)
		}
		out = append(out, dmxRandomWalk(r, 6+r.Intn(16), nk))
	}
	return out
}

func TestC18(t *testing.T) {
	em := NewEmitter()
	defer em.Close()
	scs := dmxScenarios()
	for idx, sc := range scs {
		if !want(idx) {
			continue
		}
		runDmxScenario(t, idx, "demux", sc, em)
	}
	// end-to-end: several real clients, one shared transport, one Demux keyed by source, one server object
	base := len(scs)
	for i := 0; i < demuxE2ECount(); i++ {
		if !want(base + i) {
			continue
		}
		runDemuxE2E(t, base+i, i, em)
	}
	// free-running stress: concurrent Cancel(k) x Cancel(k) x first use of k
	base += demuxE2ECount()
	for v := 0; v < 2; v++ {
		if want(base + v) {
			runDemuxStress(t, base+v, v, em)
		}
	}
}

// runDemuxStress: real concurrency (no bubble). Every round delivers the FIRST envelope of a key (its previous connection,
// if any, was cancelled in the round before) while four goroutines call Cancel on that very key. The lock-step model treats
// lookup-or-create and check-close-forget as one critical section each; this is where an implementation that splits them
// goes wrong: two Cancels closing the same done channel (panic: the process dies, ./check attributes it to this scenario), or
// a connection created and announced and then forgotten without being cancelled. After the rounds the demultiplexer is left
// to settle, every key is cancelled once more, and every connection that was ever announced must then fail a Read with the
// cancellation error - one that returns an envelope, or does not return, is alive and unregistered: an orphan.
func runDemuxStress(t *testing.T, idx, variant int, em *Emitter) {
	em.Marker("begin", idx)
	rounds := 300
	nkeys := 1 + 2*variant // one key only / three keys
	ep := NewEndpoint("shared")
	var mu sync.Mutex
	var conns []goat.RpcReadWriter
	d := goat.NewDemux(context.Background(), ep, func(r *Rpc) string { return r.GetHeader().GetSource() },
		func(rw goat.RpcReadWriter) { mu.Lock(); conns = append(conns, rw); mu.Unlock() })
	go d.Run()
	key := func(r int) string { return fmt.Sprintf("k%d", r%nkeys) }
	for r := 0; r < rounds; r++ {
		k := key(r)
		start := make(chan struct{})
		var wg sync.WaitGroup
		for g := 0; g < 4; g++ {
			wg.Add(1)
			go func() { defer wg.Done(); <-start; d.Cancel(k) }()
		}
		wg.Add(1)
		go func() {
			defer wg.Done()
			<-start
			ep.Deliver(&Rpc{Id: uint64(r + 1), Header: &goatorepo.RequestHeader{Method: "/x/y", Source: k, Destination: "srv"}})
		}()
		close(start)
		wg.Wait()
		if r%3 == 2 { // let the run loop catch up now and then, and unpark it
			d.Cancel(k)
		}
	}
	// settle: everything delivered has been taken (or the run loop is parked for good), every key cancelled once more
	announced := func() int { mu.Lock(); defer mu.Unlock(); return len(conns) }
	stable, last := 0, -1
	for pass := 0; pass < 600 && stable < 5; pass++ {
		for i := 0; i < nkeys; i++ {
			d.Cancel(key(i))
		}
		time.Sleep(2 * time.Millisecond)
		if n := announced(); ep.Pending() == 0 && n == last {
			stable++
		} else {
			stable, last = 0, n
		}
	}
	mu.Lock()
	all := append([]goat.RpcReadWriter(nil), conns...)
	mu.Unlock()
	orphans := 0
	var what []string
	for i, rw := range all {
		ctx, cancel := context.WithTimeout(context.Background(), 10*time.Second)
		x, err := rw.Read(ctx)
		cancel()
		if err == nil || !strings.Contains(err.Error(), "demux connection cancelled") {
			orphans++
			if len(what) < 5 {
				what = append(what, fmt.Sprintf("connection %d: Read returned (%v, %v)", i, x != nil, err))
			}
		}
	}
	extra := len(all) - rounds
	d.Stop()
	ep.FailRead(errInjected)
	em.Emit(Rec{Idx: idx, Kind: "demux-stress", Desc: map[string]any{"rounds": rounds, "keys": nkeys, "cancellers": 4},
		Obs:  map[string]any{"announced": len(all), "orphans": orphans, "what": what, "left_in_inbox": ep.Pending()},
		Coq:  fmt.Sprintf("CDemuxStress %d %d %d", rounds, orphans, extra),
		Tags: []string{"stress", fmt.Sprintf("keys=%d", nkeys)}})
	em.Marker("end", idx)
}

//go:build cl

package verifharness

import (
	"context"
	"fmt"
	"io"
	"sort"
	"strings"
	"sync"
	"sync/atomic"
	"testing"
	"testing/synctest"
	"time"

	goat "github.com/avos-io/goat"
	"github.com/avos-io/goat/gen/goatorepo"
	"google.golang.org/grpc/codes"
	"google.golang.org/grpc/status"
	"google.golang.org/protobuf/proto"
	"google.golang.org/protobuf/types/known/wrapperspb"
)

// ---------------------------------------------------------------- C05: write faults while other calls are in flight

func reqToken(r *Rpc) int64 {
	var v wrapperspb.BytesValue
	if r.GetBody() == nil || proto.Unmarshal(r.GetBody().GetData(), &v) != nil {
		return -1
	}
	return tokenOf(v.Value)
}

// TestC05Fault: in a bubble, against a scripted peer whose transport can hold
// writes: a unary call A whose Write fails cleanly (its context ends while the
// write waits in the transport; nothing of A reaches the wire) while k calls
// started after A are in flight, then m new calls. The peer answers every
// request it receives with the request's token + 1 under the request's id.
// Judged like the free-running histories: ids of all first envelopes pairwise
// distinct, every caller got the reply to ITS OWN request, nobody hangs.
func TestC05Fault(t *testing.T) {
	em := NewEmitter()
	defer em.Close()
	idx := 0
	for _, k := range []int{1, 2, 3} {
		for _, m := range []int{1, 2} {
			for _, mode := range []string{"cancel-in-write", "cancel-in-write-twice", "write-error"} {
				if !want(idx) {
					idx++
					continue
				}
				em.Marker("begin", idx)
				var ids []int64
				var pairs []string
				leaked := bubble(t, func(t *testing.T) {
					ep := NewEndpoint("client")
					ep.CheckCtx = true
					cc := goat.NewClientConn(ep, "src", "dst")
					type res struct {
						tok  int64
						done atomic.Bool
						out  int64
					}
					var all []*res
					start := func(tok int64, ctx context.Context) *res {
						r := &res{tok: tok, out: -2}
						go func() {
							var out wrapperspb.BytesValue
							err := cc.Invoke(ctx, "/verif.Echo/Unary", &wrapperspb.BytesValue{Value: payloadOf(tok)}, &out)
							if err != nil {
								r.out = -3
							} else {
								r.out = tokenOf(out.Value)
							}
							r.done.Store(true)
						}()
						return r
					}
					faulty := 1
					if mode == "cancel-in-write-twice" {
						faulty = 2
					}
					var fctx []context.CancelFunc
					var fres []*res
					if mode == "write-error" {
						// A fails at once (no overlap possible in lock-step): the harmless sequential case
						ep.FailWrites(errWriteInjected)
						fres = append(fres, start(900, context.Background()))
						synctest.Wait()
						ep.FailWrites(nil)
					} else {
						ep.BlockWrites()
						for i := 0; i < faulty; i++ {
							ctx, cancel := context.WithCancel(context.Background())
							fctx = append(fctx, cancel)
							fres = append(fres, start(int64(900+i), ctx))
							synctest.Wait()
						}
					}
					for i := 0; i < k; i++ { // calls started after A, in flight
						all = append(all, start(int64(100+i), context.Background()))
						synctest.Wait()
					}
					for _, c := range fctx { // A's write fails cleanly
						c()
						synctest.Wait()
					}
					ep.UnblockWrites()
					synctest.Wait()
					for i := 0; i < m; i++ { // new calls while the others are still unanswered
						all = append(all, start(int64(200+i), context.Background()))
						synctest.Wait()
					}
					// the peer answers every request it received
					for _, w := range ep.WrittenCopy() {
						ids = append(ids, int64(w.Id))
						b, _ := proto.Marshal(&wrapperspb.BytesValue{Value: payloadOf(reqToken(w) + 1)})
						ep.Deliver(&Rpc{Id: w.Id, Header: hdr("/verif.Echo/Unary", "dst", "src"), Body: &goatorepo.Body{Data: b}, Trailer: &goatorepo.Trailer{}})
						synctest.Wait()
					}
					for _, r := range fres {
						if r.done.Load() && r.out >= 0 {
							pairs = append(pairs, fmt.Sprintf("(%d, %d)", r.tok, r.out)) // a call whose write failed must not succeed
						}
					}
					for _, r := range all {
						pairs = append(pairs, fmt.Sprintf("(%d, %s)", r.tok, coqZ(r.out)))
					}
					ep.FailRead(errInjected)
					synctest.Wait()
				})
				sort.Slice(ids, func(a, b int) bool { return ids[a] < ids[b] })
				terms := make([]string, len(ids))
				for i, v := range ids {
					terms[i] = fmt.Sprint(v)
				}
				tags := []string{"write-fault:" + mode, fmt.Sprintf("in-flight=%d", k), fmt.Sprintf("new=%d", m)}
				if leaked {
					tags = append(tags, "leaked-at-end")
				}
				em.Emit(Rec{Idx: idx, Kind: "c05-fault", Desc: map[string]any{"mode": mode, "in_flight": k, "new": m, "ids": ids, "pairs": pairs},
					Tags: tags, Coq: fmt.Sprintf("C05FaultM %d %d %d %s %s", map[string]int{"cancel-in-write": 0, "cancel-in-write-twice": 1, "write-error": 2}[mode], k, m, coqList(terms), coqList(pairs))})
				em.Marker("end", idx)
				idx++
			}
		}
	}
}

// ---------------------------------------------------------------- C09: error values of the transport

type wsLikeErr struct{ inner error }

func (e wsLikeErr) Error() string { return "failed to get reader: failed to read frame header: " + e.inner.Error() }
func (e wsLikeErr) Unwrap() error { return e.inner }

func c09ErrVariants() []struct {
	name string
	err  error
} {
	return []struct {
		name string
		err  error
	}{
		{"plain", errInjected},
		{"io.EOF", io.EOF},
		{"wrapped-EOF", fmt.Errorf("read: %w", io.EOF)},
		{"websocket-EOF", wsLikeErr{io.EOF}},
		{"io.ErrUnexpectedEOF", io.ErrUnexpectedEOF},
		{"context.Canceled", context.Canceled},
		{"context.DeadlineExceeded", fmt.Errorf("transport: %w", context.DeadlineExceeded)},
		{"grpc-status", status.Error(codes.Unavailable, "peer gone")},
		// the transport's decoder fails: the protobuf decoder's own error (errors.Is(err, proto.Error)), raw and wrapped
		{"proto-decode", protoDecodeErr()},
		{"wrapped-proto-decode", fmt.Errorf("transport: cannot decode envelope: %w", protoDecodeErr())},
		{"proto-decode-once", protoDecodeErr()},
		{"wrapped-proto-decode-once", fmt.Errorf("transport: cannot decode envelope: %w", protoDecodeErr())},
	}
}

func protoDecodeErr() error {
	err := proto.Unmarshal([]byte{0x0a, 0xff, 0xff, 0xff}, &goatorepo.Rpc{})
	if err == nil {
		panic("garbage decoded")
	}
	return err
}

// failingReads is the transport of TestC09Errors: once its Read has begun to fail it fails `limit` times (a persistent
// failure returns the same error to every Read; a reader that does not stop at the first one would spin for ever, so
// after `limit` failed reads - 1 for the "-once" variants: a failure that does not repeat - the next Read waits for its
// context like a healthy idle transport). The connection has to be given up at the FIRST failed Read.
type failingReads struct {
	*Endpoint
	limit  int64
	failed atomic.Int64
}

func (f *failingReads) Read(ctx context.Context) (*Rpc, error) {
	r, err := f.Endpoint.Read(ctx)
	if err != nil && ctx.Err() == nil && f.failed.Add(1) > f.limit {
		<-ctx.Done()
		return nil, ctx.Err()
	}
	return r, err
}

func resCode(err error) int {
	switch {
	case err == nil:
		return 0
	case err == io.EOF: // only RecvMsg's errors are passed in unwrapped: io.EOF there = "completed with status OK"
		return 1
	default:
		return 2
	}
}

// TestC09Errors: a stream (Header + RecvMsg) and a unary call in flight; the
// transport's Read fails with each error VALUE after 0..2 response envelopes
// and before any trailer. Whatever the value, nothing may report a message, a
// clean end of stream (io.EOF) or stay pending.
func TestC09Errors(t *testing.T) {
	em := NewEmitter()
	defer em.Close()
	idx := 0
	for vi, v := range c09ErrVariants() {
		for prefix := 0; prefix <= 2; prefix++ {
			for _, withStats := range []bool{false, true} {
				if !want(idx) {
					idx++
					continue
				}
				em.Marker("begin", idx)
				var results []string
				leaked := bubble(t, func(t *testing.T) {
					ep := NewEndpoint("client")
					var opts []goat.DialOption
					if withStats {
						opts = append(opts, goat.WithStatsHandler(&recStats{}))
					}
					rw := &failingReads{Endpoint: ep, limit: 3000}
					if strings.HasSuffix(v.name, "-once") {
						rw.limit = 1
					}
					cc := goat.NewClientConn(rw, "src", "dst", opts...)
					defer cc.Close()
					cs, err := cc.NewStream(context.Background(), descBidi, "/verif.Echo/Bidi")
					if err != nil {
						t.Fatal(err)
					}
					var uerr error
					var udone atomic.Bool
					go func() {
						var out wrapperspb.BytesValue
						uerr = cc.Invoke(context.Background(), "/verif.Echo/Unary", &wrapperspb.BytesValue{Value: payloadOf(7)}, &out)
						udone.Store(true)
					}()
					synctest.Wait()
					sid := ep.WrittenCopy()[0].Id
					for i := 0; i < prefix; i++ {
						b, _ := proto.Marshal(&wrapperspb.BytesValue{Value: payloadOf(int64(100 + i))})
						ep.Deliver(&Rpc{Id: sid, Header: hdr("/verif.Echo/Bidi", "dst", "src"), Body: &goatorepo.Body{Data: b}})
						var m wrapperspb.BytesValue
						if err := cs.RecvMsg(&m); err != nil {
							t.Errorf("message %d before the failure: %v", i, err)
						}
					}
					ep.FailRead(v.err)
					synctest.Wait()
					op := func(f func() error) {
						var done atomic.Bool
						var err error
						go func() { err = f(); done.Store(true) }()
						synctest.Wait()
						if !done.Load() {
							results = append(results, "3")
							return
						}
						results = append(results, fmt.Sprint(resCode(err)))
					}
					op(func() error { var m wrapperspb.BytesValue; return cs.RecvMsg(&m) })
					op(func() error { var m wrapperspb.BytesValue; return cs.RecvMsg(&m) })
					op(func() error {
						if _, err := cs.Header(); err != nil {
							return fmt.Errorf("header: %w", err)
						}
						return nil
					})
					if prefix > 0 && results[len(results)-1] == "0" {
						results[len(results)-1] = "4" // the metadata arrived with the first envelope: Header() legitimately has it
					}
					if !udone.Load() {
						results = append(results, "3")
					} else {
						if uerr != nil {
							uerr = fmt.Errorf("invoke: %w", uerr)
						}
						results = append(results, fmt.Sprint(resCode(uerr)))
					}
					op(func() error { // a call started after the failure
						var out wrapperspb.BytesValue
						if err := cc.Invoke(context.Background(), "/verif.Echo/Unary", &wrapperspb.BytesValue{Value: payloadOf(8)}, &out); err != nil {
							return fmt.Errorf("invoke: %w", err)
						}
						return nil
					})
					op(func() error {
						s2, err := cc.NewStream(context.Background(), descBidi, "/verif.Echo/Bidi")
						if err != nil {
							return fmt.Errorf("open: %w", err)
						}
						var m wrapperspb.BytesValue
						return s2.RecvMsg(&m)
					})
				})
				tags := []string{"read-error:" + v.name, fmt.Sprintf("prefix=%d", prefix), fmt.Sprintf("stats=%v", withStats)}
				if leaked {
					tags = append(tags, "leaked-at-end")
				}
				em.Emit(Rec{Idx: idx, Kind: "c09-errors", Desc: map[string]any{"error": v.name, "prefix": prefix, "results": results},
					Tags: tags, Coq: fmt.Sprintf("C09Err %d %d %s", vi, prefix, coqList(results))})
				em.Marker("end", idx)
				idx++
			}
		}
	}
}

// ---------------------------------------------------------------- C09: retry storm

// TestC09Storm: inside a bubble (real parallelism, exact quiescence): n calls
// in flight on one connection whose write side stays writable; the read fails;
// every caller retries once the moment its call fails - i.e. while closeError
// is still waking the other calls. At quiescence no retry may be pending and
// none may have succeeded.
func TestC09Storm(t *testing.T) {
	em := NewEmitter()
	defer em.Close()
	rounds := 4
	n := 3000
	if thorough() {
		rounds = 12
	}
	for idx := 0; idx < rounds; idx++ {
		if !want(idx) {
			continue
		}
		em.Marker("begin", idx)
		var pending, succ int64
		streams := idx%2 == 1
		leaked := bubble(t, func(t *testing.T) {
			ep := NewEndpoint("client")
			ep.ByRef = true
			cc := goat.NewClientConn(ep, "src", "dst")
			var wg sync.WaitGroup
			var retryDone, retryOK atomic.Int64
			var ctxs []context.CancelFunc
			for i := 0; i < n; i++ {
				ctx, cancel := context.WithCancel(context.Background())
				ctxs = append(ctxs, cancel)
				wg.Add(1)
				go func(i int) {
					defer wg.Done()
					call := func() error {
						if streams && i%4 == 0 {
							cs, err := cc.NewStream(ctx, descBidi, "/verif.Echo/Bidi")
							if err != nil {
								return err
							}
							var m wrapperspb.BytesValue
							return cs.RecvMsg(&m)
						}
						var out wrapperspb.BytesValue
						return cc.Invoke(ctx, "/verif.Echo/Unary", &wrapperspb.BytesValue{Value: payloadOf(int64(1 + i%300))}, &out)
					}
					if err := call(); err == nil {
						retryOK.Add(1)
					}
					// the caller's retry loop: one immediate retry
					if err := call(); err == nil {
						retryOK.Add(1)
					}
					retryDone.Add(1)
				}(i)
			}
			synctest.Wait()
			ep.FailRead(errInjected)
			synctest.Wait()
			pending = int64(n) - retryDone.Load()
			succ = retryOK.Load()
			for _, c := range ctxs {
				c()
			}
			synctest.Wait()
			wg.Wait()
		})
		tags := []string{fmt.Sprintf("storm=%d", n), fmt.Sprintf("streams=%v", streams)}
		if leaked {
			tags = append(tags, "leaked-at-end")
		}
		em.Emit(Rec{Idx: idx, Kind: "c09-storm", Desc: map[string]any{"calls": n, "pending": pending, "successes": succ, "streams": streams},
			Tags: tags, Coq: fmt.Sprintf("C09Storm %d %d %d", n, pending, succ)})
		em.Marker("end", idx)
	}
}

// ---------------------------------------------------------------- C13 / C05: surplus replies, then later calls

type surplusResult struct {
	ids   []int64
	pairs [][3]int64 // request token, what the caller got (-3 error, -2 pending), answered (1) or not (0)
}

// surplusScenario: a unary call gets dup replies in ONE burst (the read loop is
// parked on the full queue when the caller takes the first: the second lands in
// the queue between the caller's receive and its unregistration), optionally a
// stream gets messages nobody reads; THEN later calls are started on the same
// connection, each answered by its own reply (token + 1) or not answered at all;
// finally the read fails. Every reply token is distinct, so a stale reply
// delivered to a later call is recognisable.
func surplusScenario(t *testing.T, dup int, later []string, answered []bool, withStats, withStream bool) (res surplusResult, leaked bool) {
	leaked = bubble(t, func(t *testing.T) {
		ep := NewEndpoint("client")
		var opts []goat.DialOption
		if withStats {
			opts = append(opts, goat.WithStatsHandler(&recStats{}))
		}
		cc := goat.NewClientConn(ep, "src", "dst", opts...)
		reply := func(id uint64, tok int64, trailer bool) *Rpc {
			b, _ := proto.Marshal(&wrapperspb.BytesValue{Value: payloadOf(tok)})
			r := &Rpc{Id: id, Header: hdr("/verif.Echo/Unary", "dst", "src"), Body: &goatorepo.Body{Data: b}}
			if trailer {
				r.Trailer = &goatorepo.Trailer{}
			}
			return r
		}
		type pend struct {
			tok  int64
			out  atomic.Int64
			done atomic.Bool
		}
		invoke := func(tok int64) *pend {
			p := &pend{tok: tok}
			p.out.Store(-2)
			go func() {
				var out wrapperspb.BytesValue
				if err := cc.Invoke(context.Background(), "/verif.Echo/Unary", &wrapperspb.BytesValue{Value: payloadOf(tok)}, &out); err != nil {
					p.out.Store(-3)
				} else {
					p.out.Store(tokenOf(out.Value))
				}
				p.done.Store(true)
			}()
			return p
		}
		if withStream {
			if _, err := cc.NewStream(context.Background(), descBidi, "/verif.Echo/Bidi"); err != nil {
				t.Fatal(err)
			}
			synctest.Wait()
			sid := ep.WrittenCopy()[0].Id
			for i := 0; i < 2; i++ { // unread stream messages: one offered by the stream loop, one queued (the read loop stays free)
				ep.Deliver(reply(sid, int64(7001+i), false))
			}
			synctest.Wait()
		}
		first := invoke(500)
		synctest.Wait()
		ws := ep.WrittenCopy()
		fid := ws[len(ws)-1].Id
		for i := 0; i < dup; i++ { // one burst: no quiescence in between
			ep.Deliver(reply(fid, int64(9001+i), true))
		}
		synctest.Wait()
		var all []*pend
		var ans []bool
		for i, kind := range later {
			tok := int64(600 + 10*i)
			n0 := len(ep.WrittenCopy())
			if kind == "unary" {
				p := invoke(tok)
				synctest.Wait()
				all = append(all, p)
				ans = append(ans, answered[i])
				if answered[i] {
					w := ep.WrittenCopy()[n0]
					ep.Deliver(reply(w.Id, tok+1, true))
					synctest.Wait()
				}
			} else {
				p := &pend{tok: tok}
				p.out.Store(-2)
				cs, err := cc.NewStream(context.Background(), descBidi, "/verif.Echo/Bidi")
				if err != nil {
					p.out.Store(-3)
					all = append(all, p)
					ans = append(ans, answered[i])
					continue
				}
				go func() {
					var m wrapperspb.BytesValue
					if err := cs.RecvMsg(&m); err != nil {
						p.out.Store(-3)
					} else {
						p.out.Store(tokenOf(m.Value))
					}
					p.done.Store(true)
				}()
				synctest.Wait()
				all = append(all, p)
				ans = append(ans, answered[i])
				if answered[i] {
					w := ep.WrittenCopy()[n0]
					ep.Deliver(reply(w.Id, tok+1, false))
					synctest.Wait()
				}
			}
		}
		ep.FailRead(errInjected)
		synctest.Wait()
		for _, w := range ep.WrittenCopy() {
			if w.GetReset_() == nil {
				res.ids = append(res.ids, int64(w.Id))
			}
		}
		a := int64(0)
		if dup > 0 {
			a = 1
		}
		res.pairs = append(res.pairs, [3]int64{first.tok, first.out.Load(), a})
		for i, p := range all {
			a := int64(0)
			if ans[i] {
				a = 1
			}
			res.pairs = append(res.pairs, [3]int64{p.tok, p.out.Load(), a})
		}
	})
	return
}

func surplusCases(f func(idx, dup int, later []string, answered []bool, withStats, withStream bool)) {
	idx := 0
	laters := [][]string{{"unary"}, {"unary", "unary"}, {"stream", "unary"}, {"unary", "stream", "unary"}}
	for dup := 1; dup <= 3; dup++ {
		for _, later := range laters {
			for mask := 0; mask < 1<<len(later); mask++ {
				ans := make([]bool, len(later))
				for i := range later {
					ans[i] = mask&(1<<i) != 0
				}
				for _, st := range []bool{false, true} {
					for _, ws := range []bool{false, true} {
						f(idx, dup, later, ans, st, ws)
						idx++
					}
				}
			}
		}
	}
}

// TestC13Surplus: honesty after surplus replies. The first call got `dup`
// replies (9001..; it must report the first), a later answered call must report
// exactly its own reply (token + 1), an unanswered one must fail at the read
// failure: never a success with data addressed to another id.
func TestC13Surplus(t *testing.T) {
	em := NewEmitter()
	defer em.Close()
	surplusCases(func(idx, dup int, later []string, answered []bool, withStats, withStream bool) {
		if !want(idx) {
			return
		}
		em.Marker("begin", idx)
		res, leaked := surplusScenario(t, dup, later, answered, withStats, withStream)
		var terms []string
		for i, p := range res.pairs {
			want := p[0] + 1
			if i == 0 {
				want = 9001
			}
			terms = append(terms, fmt.Sprintf("(%d, %s, %d)", want, coqZ(p[1]), p[2]))
		}
		tags := []string{fmt.Sprintf("surplus-replies=%d", dup), fmt.Sprintf("later=%v", later), fmt.Sprintf("stats=%v", withStats), fmt.Sprintf("unread-stream=%v", withStream)}
		if leaked {
			tags = append(tags, "leaked-at-end")
		}
		em.Emit(Rec{Idx: idx, Kind: "c13-surplus", Desc: map[string]any{"dup": dup, "later": later, "answered": answered, "pairs": res.pairs},
			Tags: tags, Coq: "C13Surplus " + coqList(terms)})
		em.Marker("end", idx)
	})
}

// TestC05Surplus: the same histories judged as isolation: ids pairwise distinct,
// every answered caller got the reply to ITS OWN request.
func TestC05Surplus(t *testing.T) {
	em := NewEmitter()
	defer em.Close()
	surplusCases(func(idx, dup int, later []string, answered []bool, withStats, withStream bool) {
		if !want(idx) {
			return
		}
		em.Marker("begin", idx)
		res, leaked := surplusScenario(t, dup, later, answered, withStats, withStream)
		sort.Slice(res.ids, func(a, b int) bool { return res.ids[a] < res.ids[b] })
		// distinct ids only: a stream writes nothing but its open envelope here
		var ids []string
		for i, v := range res.ids {
			if i == 0 || v != res.ids[i-1] {
				ids = append(ids, fmt.Sprint(v))
			}
		}
		var pairs []string
		for i, p := range res.pairs {
			if i == 0 || p[2] == 0 {
				continue // the first call's reply tokens are the peer's own numbering; unanswered calls have no reply
			}
			pairs = append(pairs, fmt.Sprintf("(%d, %s)", p[0], coqZ(p[1])))
		}
		tags := []string{fmt.Sprintf("surplus-replies=%d", dup), fmt.Sprintf("later=%v", later)}
		if leaked {
			tags = append(tags, "leaked-at-end")
		}
		em.Emit(Rec{Idx: idx, Kind: "c05-surplus", Desc: map[string]any{"dup": dup, "later": later, "answered": answered, "pairs": res.pairs, "ids": res.ids},
			Tags: tags, Coq: fmt.Sprintf("C05Free %d %s %s", len(ids), coqList(ids), coqList(pairs))})
		em.Marker("end", idx)
	})
}

// ---------------------------------------------------------------- C05: slow readers and the virtual clock

// TestC05Slow: call A (a stream) takes no response while the peer sends it n >= 4
// envelopes (and some to call B); the virtual clock is advanced (time.Sleep in
// the bubble: any timer a change introduces fires only when time passes) by
// 10 ms / 100 ms / 1 s at several points; then A is drained completely. What A
// receives must be, position by position, what was sent to A.
func TestC05Slow(t *testing.T) {
	em := NewEmitter()
	defer em.Close()
	idx := 0
	// far behind: round limits of a per-call backlog (16, 64, 128) + 1, 2 more and beyond; the transport's own queue is
	// unbounded, so everything is in flight inside the client or the transport when A starts to drain
	for _, n := range []int{4, 5, 7, 17, 18, 65, 66, 67, 68, 70, 129, 130, 131, 200} {
		for _, d := range []time.Duration{10 * time.Millisecond, 100 * time.Millisecond, time.Second} {
			for pat := 0; pat < 4; pat++ { // where the clock advances: after every delivery / after the 2nd / before the drain only / during the drain
				for _, withB := range []bool{false, true} {
					if n > 7 && (d != 100*time.Millisecond || pat == 1) {
						continue
					}
					if !want(idx) {
						idx++
						continue
					}
					em.Marker("begin", idx)
					var sentA, gotA, sentB, gotB []string
					leaked := bubble(t, func(t *testing.T) {
						ep := NewEndpoint("client")
						cc := goat.NewClientConn(ep, "src", "dst")
						csA, err := cc.NewStream(context.Background(), descBidi, "/verif.Echo/Bidi")
						if err != nil {
							t.Fatal(err)
						}
						synctest.Wait()
						idA := ep.WrittenCopy()[0].Id
						var csB interface {
							RecvMsg(any) error
						}
						var idB uint64
						if withB {
							b, err := cc.NewStream(context.Background(), descBidi, "/verif.Echo/Bidi")
							if err != nil {
								t.Fatal(err)
							}
							csB = b
							synctest.Wait()
							idB = ep.WrittenCopy()[1].Id
						}
						msg := func(id uint64, tok int64, last bool) *Rpc {
							b, _ := proto.Marshal(&wrapperspb.BytesValue{Value: payloadOf(tok)})
							r := &Rpc{Id: id, Header: hdr("/verif.Echo/Bidi", "dst", "src"), Body: &goatorepo.Body{Data: b}}
							if last {
								r = &Rpc{Id: id, Header: hdr("/verif.Echo/Bidi", "dst", "src"), Status: &goatorepo.ResponseStatus{Code: 0}, Trailer: &goatorepo.Trailer{}}
							}
							return r
						}
						for i := 0; i < n; i++ {
							last := i == n-1
							ep.Deliver(msg(idA, int64(1000+i), last))
							if !last {
								sentA = append(sentA, fmt.Sprint(1000+i))
							}
							synctest.Wait()
							if withB && i%2 == 1 {
								ep.Deliver(msg(idB, int64(2000+i), false))
								sentB = append(sentB, fmt.Sprint(2000+i))
								synctest.Wait()
							}
							if pat == 0 || (pat == 1 && i == 1) {
								time.Sleep(d)
								synctest.Wait()
							}
						}
						sentA = append(sentA, "-1") // the clean end after the trailer
						if pat == 2 {
							time.Sleep(d)
							synctest.Wait()
						}
						drain := func(cs interface{ RecvMsg(any) error }, limit int, out *[]string) {
							for i := 0; i < limit; i++ {
								var done atomic.Bool
								var m wrapperspb.BytesValue
								var rerr error
								go func() { rerr = cs.RecvMsg(&m); done.Store(true) }()
								synctest.Wait()
								if pat == 3 {
									time.Sleep(d)
									synctest.Wait()
								}
								if !done.Load() {
									*out = append(*out, "-2")
									return
								}
								if rerr == io.EOF {
									*out = append(*out, "-1")
									return
								}
								if rerr != nil {
									*out = append(*out, "-3")
									return
								}
								*out = append(*out, fmt.Sprint(tokenOf(m.Value)))
							}
						}
						var bMu sync.Mutex
						if withB { // B keeps up: a reader is always waiting (its envelopes may be stuck behind A's unread ones on the
							// shared transport until A drains: they must then arrive, in order)
							nb := len(sentB)
							go func() {
								for i := 0; i < nb; i++ {
									var m wrapperspb.BytesValue
									if err := csB.RecvMsg(&m); err != nil {
										bMu.Lock()
										gotB = append(gotB, "-3")
										bMu.Unlock()
										return
									}
									bMu.Lock()
									gotB = append(gotB, fmt.Sprint(tokenOf(m.Value)))
									bMu.Unlock()
								}
							}()
							synctest.Wait()
						}
						drain(csA, n+1, &gotA)
						synctest.Wait()
						bMu.Lock()
						for len(gotB) < len(sentB) {
							gotB = append(gotB, "-2")
						}
						bMu.Unlock()
						ep.FailRead(errInjected)
						synctest.Wait()
					})
					tags := []string{fmt.Sprintf("unread=%d", n), "clock+" + d.String(), fmt.Sprintf("advance-pattern=%d", pat), fmt.Sprintf("other-call=%v", withB)}
					if leaked {
						tags = append(tags, "leaked-at-end")
					}
					neg := func(l []string) []string {
						o := make([]string, len(l))
						for i, v := range l {
							if strings.HasPrefix(v, "-") {
								o[i] = "(" + v + ")"
							} else {
								o[i] = v
							}
						}
						return o
					}
					em.Emit(Rec{Idx: idx, Kind: "c05-slow", Desc: map[string]any{"sentA": sentA, "gotA": gotA, "sentB": sentB, "gotB": gotB},
						Tags: tags, Coq: fmt.Sprintf("C05Order %s %s %s %s", coqList(neg(sentA)), coqList(neg(gotA)), coqList(neg(sentB)), coqList(neg(gotB)))})
					em.Marker("end", idx)
					idx++
				}
			}
		}
	}
}

// ---------------------------------------------------------------- C05 (server side, cheap to host here): stream keys

// TestC05ServerKeys: ONE server connection (scripted peer) carrying bidi streams
// of several sources whose names and ids collide under naive concatenation
// ("client-1"/12 vs "client-11"/2 ...), alive at the same time: every stream's
// handler must see its own messages only, every reply must go back under its
// own id to its own source.
func TestC05ServerKeys(t *testing.T) {
	em := NewEmitter()
	defer em.Close()
	sets := [][][2]any{
		{{"client-1", 12}, {"client-11", 2}},
		{{"client-1", 10}, {"client-11", 0}, {"client-110", 7}},
		{{"a", 11}, {"a1", 1}, {"a11", 5}},
		{{"p2", 34}, {"p23", 4}, {"p", 234}},
	}
	for idx, set := range sets {
		if !want(idx) {
			continue
		}
		em.Marker("begin", idx)
		var pairs []string
		leaked := bubble(t, func(t *testing.T) {
			ep := NewEndpoint("server")
			ctx, cancel := context.WithCancel(context.Background())
			srv := newEchoServer("srv", plusOneEcho())
			go srv.Serve(ctx, ep)
			for _, sk := range set {
				ep.Deliver(&Rpc{Id: uint64(sk[1].(int)), Header: hdr("/verif.Echo/Bidi", sk[0].(string), "srv")})
				synctest.Wait()
			}
			for round := 0; round < 2; round++ {
				for i, sk := range set {
					tok := int64(100*(i+1) + round)
					b, _ := proto.Marshal(&wrapperspb.BytesValue{Value: payloadOf(tok)})
					n0 := len(ep.WrittenCopy())
					ep.Deliver(&Rpc{Id: uint64(sk[1].(int)), Header: hdr("/verif.Echo/Bidi", sk[0].(string), "srv"), Body: &goatorepo.Body{Data: b}})
					synctest.Wait()
					got := int64(-2)
					for _, w := range ep.WrittenCopy()[n0:] {
						if w.GetBody() == nil {
							continue
						}
						if w.Id == uint64(sk[1].(int)) && w.GetHeader().GetDestination() == sk[0].(string) {
							got = reqToken(w)
						} else {
							got = -4 // an answer under another stream's id / to another source
						}
					}
					pairs = append(pairs, fmt.Sprintf("(%d, %s)", tok, coqZ(got)))
				}
			}
			cancel()
			ep.FailRead(io.EOF)
			synctest.Wait()
		})
		tags := []string{fmt.Sprintf("sources=%d", len(set)), "colliding-source+id"}
		if leaked {
			tags = append(tags, "leaked-at-end")
		}
		var ids []int
		for _, sk := range set {
			ids = append(ids, sk[1].(int))
		}
		sort.Ints(ids)
		var idTerms []string
		for _, v := range ids {
			idTerms = append(idTerms, fmt.Sprint(v+1)) // ids may be 0 here: shift so that the positivity check of C05Free holds
		}
		em.Emit(Rec{Idx: idx, Kind: "c05-server-keys", Desc: map[string]any{"streams": set, "pairs": pairs},
			Tags: tags, Coq: fmt.Sprintf("C05Free %d %s %s", len(ids), coqList(idTerms), coqList(pairs))})
		em.Marker("end", idx)
	}
}

//go:build st

package verifharness

import (
	"context"
	"fmt"
	"io"
	"testing"
	"testing/synctest"

	goat "github.com/avos-io/goat"
	"google.golang.org/grpc"
	"google.golang.org/protobuf/types/known/wrapperspb"
)

// all lists of length 1..n over the given behaviours
func allBehLists(alpha []beh, n int) [][]beh {
	var out [][]beh
	var gen func(prefix []beh, depth int)
	gen = func(prefix []beh, depth int) {
		if len(prefix) > 0 {
			out = append(out, append([]beh(nil), prefix...))
		}
		if depth == 0 {
			return
		}
		for _, b := range alpha {
			gen(append(prefix, b), depth-1)
		}
	}
	gen(nil, n)
	return out
}

var behAll = []beh{{k: bPass}, {k: bModCtx}, {k: bModReq}, {k: bModRep}, {k: bModErr}, {k: bShort, e: 3}, {k: bTwice}}
var behStream = []beh{{k: bPass}, {k: bModCtx}, {k: bModReq}, {k: bModErr}, {k: bShort, e: 3}, {k: bTwice}}

func chainTags(stream bool, bs []beh, herr int64) []string {
	tags := []string{fmt.Sprintf("chainlen=%d", len(bs)), fmt.Sprintf("stream=%v", stream), fmt.Sprintf("herr=%d", herr)}
	seen := map[string]bool{}
	for _, b := range bs {
		if !seen[behNames[b.k]] {
			seen[behNames[b.k]] = true
			tags = append(tags, "beh="+behNames[b.k])
		}
	}
	return tags
}

// stE2E runs body against a real client joined to a real server by a Link.
func stE2E(t *testing.T, impl *echoImpl, sopts []goat.ServerOption, dopts []goat.DialOption, body func(cc *goat.ClientConn)) {
	bubble(t, func(t *testing.T) {
		l := NewLink(false)
		l.Auto = true
		srv := newEchoServer("dst", impl, sopts...)
		ret := make(chan error, 1)
		go func() { ret <- srv.Serve(context.Background(), l.S) }()
		cc := goat.NewClientConn(l.C, "src", "dst", dopts...)
		body(cc)
		synctest.Wait()
		l.C.FailRead(io.EOF)
		l.S.FailRead(io.EOF)
		synctest.Wait()
		<-ret
	})
}

func TestC20Chain(t *testing.T) {
	em := NewEmitter()
	defer em.Close()
	r := newRand(20)
	idx := 0

	randList := func(alpha []beh, lo, hi int) []beh {
		n := lo + r.Intn(hi-lo+1)
		bs := make([]beh, n)
		for i := range bs {
			bs[i] = alpha[r.Intn(len(alpha))]
			if bs[i].k == bShort {
				bs[i].e = int64(1 + r.Intn(16))
			}
		}
		return bs
	}

	// ---- the installed interceptor of a real server, called directly
	runInstalled := func(stream bool, bs []beh, herr int64) string {
		log := &chainLog{}
		if !stream {
			var is []grpc.UnaryServerInterceptor
			for j, b := range bs {
				is = append(is, recUnary(log, int64(j+1), b))
			}
			srv := goat.NewServer("dst", goat.ChainUnaryInterceptor(is...))
			final := func(ctx context.Context, req any) (any, error) {
				log.add(fmt.Sprintf("EHandler %s %s", zs(ctxToks(ctx)), zs(msgToks(req))))
				return &wrapperspb.BytesValue{Value: append([]byte(nil), req.(*wrapperspb.BytesValue).Value...)}, codeErr(herr)
			}
			rep, err := srv.VerifUnaryInterceptor()(context.Background(), bv([]byte{7}), &grpc.UnaryServerInfo{FullMethod: "/verif.Echo/Unary"}, final)
			return cresCoq(msgToks(rep), errCode(err), log.take())
		}
		var is []grpc.StreamServerInterceptor
		for j, b := range bs {
			is = append(is, recStream(log, int64(j+1), b))
		}
		srv := goat.NewServer("dst", goat.ChainStreamInterceptor(is...))
		final := func(s any, ss grpc.ServerStream) error {
			log.add(fmt.Sprintf("EHandler %s %s", zs(ctxToks(ss.Context())), zs(marksOf(ss))))
			return codeErr(herr)
		}
		err := srv.VerifStreamInterceptor()(nil, &markStream{ctx: context.Background()}, &grpc.StreamServerInfo{FullMethod: "/verif.Echo/Bidi"}, final)
		return cresCoq(nil, errCode(err), log.take())
	}

	for _, stream := range []bool{false, true} {
		alpha := behAll
		if stream {
			alpha = behStream
		}
		lists := allBehLists(alpha, 3)
		nrand := 150
		if thorough() {
			nrand = 1500 // (all lists of length 4 would be 2401 more per kind: the cases files are kept below ~25k cases)
		}
		for i := 0; i < nrand; i++ {
			lists = append(lists, randList(alpha, 4, 6))
		}
		// all-pass chains of every length 1..6: the plain "exactly once, in order" shape
		for n := 1; n <= 6; n++ {
			lists = append(lists, make([]beh, n))
		}
		for _, bs := range lists {
			for _, herr := range []int64{0, 5} {
				if want(idx) {
					obs := runInstalled(stream, bs, herr)
					em.Emit(Rec{Idx: idx, Kind: "chain-installed", Desc: map[string]any{"stream": stream, "bs": behsDesc(bs), "herr": herr},
						Tags: chainTags(stream, bs, herr),
						Coq:  fmt.Sprintf("CChain %s %s %d %s", coqBool(stream), behsCoq(bs), herr, obs)})
				}
				idx++
			}
		}
	}

	// ---- option lists that mix a single-interceptor option and a chain option (the last one wins), and the SAME
	//      option values applied to 2..3 NewServer calls: every server runs exactly the interceptors of the last option,
	//      each once per RPC, whatever was installed before and however often the options were applied
	for _, stream := range []bool{false, true} {
		for _, order := range []string{"single-then-chain", "chain-then-single", "single-chain-single", "chain-then-chain"} {
			for nsrv := 1; nsrv <= 3; nsrv++ {
				log := &chainLog{}
				// x is the single interceptor (number 9 when it must not run), a, b the chain (1, 2)
				var opts []goat.ServerOption
				var bs []beh
				mkU := func(j int64) grpc.UnaryServerInterceptor { return recUnary(log, j, beh{}) }
				mkS := func(j int64) grpc.StreamServerInterceptor { return recStream(log, j, beh{}) }
				single := func(j int64) goat.ServerOption {
					if stream {
						return goat.StreamInterceptor(mkS(j))
					}
					return goat.UnaryInterceptor(mkU(j))
				}
				chainOf := func(js ...int64) goat.ServerOption {
					if stream {
						var is []grpc.StreamServerInterceptor
						for _, j := range js {
							is = append(is, mkS(j))
						}
						return goat.ChainStreamInterceptor(is...)
					}
					var is []grpc.UnaryServerInterceptor
					for _, j := range js {
						is = append(is, mkU(j))
					}
					return goat.ChainUnaryInterceptor(is...)
				}
				switch order {
				case "single-then-chain":
					opts, bs = []goat.ServerOption{single(9), chainOf(1, 2)}, make([]beh, 2)
				case "chain-then-single":
					opts, bs = []goat.ServerOption{chainOf(8, 9), single(1)}, make([]beh, 1)
				case "single-chain-single":
					opts, bs = []goat.ServerOption{single(8), chainOf(9, 7), single(1)}, make([]beh, 1)
				case "chain-then-chain":
					opts, bs = []goat.ServerOption{chainOf(8, 9), chainOf(1, 2, 3)}, make([]beh, 3)
				}
				var servers []*goat.Server
				for i := 0; i < nsrv; i++ {
					servers = append(servers, goat.NewServer("dst", opts...)) // the same option values every time
				}
				for si, srv := range servers {
					for round := 0; round < 2; round++ {
						if want(idx) {
							var obs string
							if !stream {
								final := func(ctx context.Context, req any) (any, error) {
									log.add(fmt.Sprintf("EHandler %s %s", zs(ctxToks(ctx)), zs(msgToks(req))))
									return &wrapperspb.BytesValue{Value: append([]byte(nil), req.(*wrapperspb.BytesValue).Value...)}, nil
								}
								rep, err := srv.VerifUnaryInterceptor()(context.Background(), bv([]byte{7}), &grpc.UnaryServerInfo{FullMethod: "/verif.Echo/Unary"}, final)
								obs = cresCoq(msgToks(rep), errCode(err), log.take())
							} else {
								final := func(s any, ss grpc.ServerStream) error {
									log.add(fmt.Sprintf("EHandler %s %s", zs(ctxToks(ss.Context())), zs(marksOf(ss))))
									return nil
								}
								err := srv.VerifStreamInterceptor()(nil, &markStream{ctx: context.Background()}, &grpc.StreamServerInfo{FullMethod: "/verif.Echo/Bidi"}, final)
								obs = cresCoq(nil, errCode(err), log.take())
							}
							em.Emit(Rec{Idx: idx, Kind: "chain-options", Desc: map[string]any{"stream": stream, "options": order, "servers": nsrv, "server": si, "rpc": round},
								Tags: []string{"options=" + order, fmt.Sprintf("options:same-values-for-servers=%d", nsrv), fmt.Sprintf("stream=%v", stream)},
								Coq:  fmt.Sprintf("CChain %s %s 0 %s", coqBool(stream), behsCoq(bs), obs)})
						}
						idx++
					}
				}
			}
		}
	}

	// ---- the exported recursion at every index
	nAt := 120
	if thorough() {
		nAt = 500
	}
	for i := 0; i < nAt; i++ {
		stream := i%2 == 1
		alpha := behAll
		if stream {
			alpha = behStream
		}
		bs := randList(alpha, 1, 6)
		herr := int64(5 * r.Intn(2))
		for curr := 0; curr < len(bs); curr++ {
			if want(idx) {
				log := &chainLog{}
				var obs string
				if !stream {
					var is []grpc.UnaryServerInterceptor
					for j, b := range bs {
						is = append(is, recUnary(log, int64(j+1), b))
					}
					final := func(ctx context.Context, req any) (any, error) {
						log.add(fmt.Sprintf("EHandler %s %s", zs(ctxToks(ctx)), zs(msgToks(req))))
						return &wrapperspb.BytesValue{Value: append([]byte(nil), req.(*wrapperspb.BytesValue).Value...)}, codeErr(herr)
					}
					h := goat.VerifChainUnaryHandler(is, curr, &grpc.UnaryServerInfo{}, final)
					rep, err := h(context.Background(), bv([]byte{7}))
					obs = cresCoq(msgToks(rep), errCode(err), log.take())
				} else {
					var is []grpc.StreamServerInterceptor
					for j, b := range bs {
						is = append(is, recStream(log, int64(j+1), b))
					}
					final := func(s any, ss grpc.ServerStream) error {
						log.add(fmt.Sprintf("EHandler %s %s", zs(ctxToks(ss.Context())), zs(marksOf(ss))))
						return codeErr(herr)
					}
					h := goat.VerifChainStreamHandler(is, curr, &grpc.StreamServerInfo{}, final)
					err := h(nil, &markStream{ctx: context.Background()})
					obs = cresCoq(nil, errCode(err), log.take())
				}
				em.Emit(Rec{Idx: idx, Kind: "chain-at", Desc: map[string]any{"stream": stream, "bs": behsDesc(bs), "curr": curr, "herr": herr},
					Tags: []string{fmt.Sprintf("at:len=%d", len(bs)), fmt.Sprintf("at:curr=%d", curr)},
					Coq:  fmt.Sprintf("CChainAt %s %s %d %d %s", coqBool(stream), behsCoq(bs), curr, herr, obs)})
			}
			idx++
		}
	}

	// ---- end to end: client interceptor (0 or 1), wire, server chain (0..6)
	type e2e struct {
		stream bool
		cbeh   *beh
		bs     []beh
		herr   int64
	}
	var cases []e2e
	srvLists := func(alpha []beh) [][]beh {
		ls := [][]beh{nil}
		ls = append(ls, allBehLists(alpha, 1)...)
		for n := 2; n <= 6; n++ {
			ls = append(ls, make([]beh, n)) // all pass
			ls = append(ls, randList(alpha, n, n))
		}
		if thorough() {
			ls = append(ls, allBehLists(alpha, 2)...)
			for i := 0; i < 200; i++ {
				ls = append(ls, randList(alpha, 3, 6))
			}
		}
		return ls
	}
	cliU := []*beh{nil}
	for i := range behAll {
		cliU = append(cliU, &behAll[i])
	}
	for _, cb := range cliU {
		for _, bs := range srvLists(behAll) {
			for _, herr := range []int64{0, 5} {
				cases = append(cases, e2e{false, cb, bs, herr})
			}
		}
	}
	cliS := []*beh{nil, {k: bPass}, {k: bModCtx}, {k: bShort, e: 3}}
	for _, cb := range cliS {
		for _, bs := range srvLists(behStream) {
			for _, herr := range []int64{0, 5} {
				cases = append(cases, e2e{true, cb, bs, herr})
			}
		}
	}
	for _, c := range cases {
		if !want(idx) {
			idx++
			continue
		}
		stBegin(em, idx)
		log := &chainLog{}
		slog := &chainLog{}
		var sopts []goat.ServerOption
		var dopts []goat.DialOption
		if len(c.bs) > 0 {
			if !c.stream {
				var is []grpc.UnaryServerInterceptor
				for j, b := range c.bs {
					is = append(is, recUnary(log, int64(j+1), b))
				}
				if len(is) == 1 {
					sopts = append(sopts, goat.UnaryInterceptor(is[0]))
				} else {
					sopts = append(sopts, goat.ChainUnaryInterceptor(is...))
				}
			} else {
				var is []grpc.StreamServerInterceptor
				for j, b := range c.bs {
					is = append(is, recStream(slog, int64(j+1), b))
				}
				if len(is) == 1 {
					sopts = append(sopts, goat.StreamInterceptor(is[0]))
				} else {
					sopts = append(sopts, goat.ChainStreamInterceptor(is...))
				}
			}
		}
		if c.cbeh != nil {
			if !c.stream {
				dopts = append(dopts, goat.WithUnaryInterceptor(recClientUnary(log, 100, *c.cbeh)))
			} else {
				dopts = append(dopts, goat.WithStreamInterceptor(recClientStream(log, 100, *c.cbeh)))
			}
		}
		impl := &echoImpl{
			unary: func(ctx context.Context, req []byte) ([]byte, bool, error) {
				log.add(fmt.Sprintf("EHandler %s %s", zs(ctxToks(ctx)), zs(msgToks(bv(req)))))
				return req, true, codeErr(c.herr)
			},
			stream: func(kind string, ss grpc.ServerStream) error {
				slog.add(fmt.Sprintf("EHandler %s %s", zs(ctxToks(ss.Context())), zs(marksOf(ss))))
				return codeErr(c.herr)
			},
		}
		var rep []int64
		var ecode int64
		stE2E(t, impl, sopts, dopts, func(cc *goat.ClientConn) {
			if !c.stream {
				var out wrapperspb.BytesValue
				err := cc.Invoke(context.Background(), "/verif.Echo/Unary", bv([]byte{7}), &out)
				ecode = errCode(err)
				if err == nil {
					rep = msgToks(&out)
				}
				return
			}
			sm := []struct {
				d *grpc.StreamDesc
				p string
			}{{descBidi, "/verif.Echo/Bidi"}, {descCStream, "/verif.Echo/CStream"}, {descSStream, "/verif.Echo/SStream"}}[idx%3]
			stExpectMethod = sm.p // every interceptor must be shown the method that was called
			defer func() { stExpectMethod = "" }()
			cs, err := cc.NewStream(context.Background(), sm.d, sm.p)
			if err != nil {
				ecode = errCode(err)
				return
			}
			cs.CloseSend()
			var m wrapperspb.BytesValue
			err = cs.RecvMsg(&m)
			if err != io.EOF {
				ecode = errCode(err)
				if err == nil {
					ecode = -1
				}
			}
		})
		evs := append(log.take(), slog.take()...)
		cb := "None"
		cbd := "none"
		if c.cbeh != nil {
			cb = "(Some " + c.cbeh.coq() + ")"
			cbd = c.cbeh.String()
		}
		tags := append(chainTags(c.stream, c.bs, c.herr), "e2e:client="+cbd)
		em.Emit(Rec{Idx: idx, Kind: "chain-e2e", Desc: map[string]any{"stream": c.stream, "client": cbd, "bs": behsDesc(c.bs), "herr": c.herr},
			Tags: tags,
			Coq:  fmt.Sprintf("CChainE2E %s %s %s %d %s", coqBool(c.stream), cb, behsCoq(c.bs), c.herr, cresCoq(rep, ecode, evs))})
		stEnd(em, idx)
		idx++
	}
}

// stQuiesce ends a client-link-server scenario inside its bubble.
func stQuiesce(l *Link, ret chan error) {
	synctest.Wait()
	l.C.FailRead(io.EOF)
	l.S.FailRead(io.EOF)
	synctest.Wait()
	<-ret
}

//go:build px

package verifharness

// End-to-end parts of C16 / C18: real clients, real servers, real Demux (and
// real Proxy) over in-memory wires; RPC workloads of every kind whose outcomes
// must equal those of the same workload on a direct connection.

import (
	"context"
	"fmt"
	"io"
	"sync"
	"testing"
	"testing/synctest"

	goat "github.com/avos-io/goat"
	"google.golang.org/grpc"
	"google.golang.org/grpc/codes"
	"google.golang.org/grpc/status"
	"google.golang.org/protobuf/types/known/wrapperspb"
)

func e2eEcho() *echoImpl {
	return &echoImpl{
		unary: func(ctx context.Context, req []byte) ([]byte, bool, error) {
			tok := tokenOf(req)
			if tok%5 == 0 {
				return nil, false, status.Error(codes.Code(7), fmt.Sprintf("m%d", tok))
			}
			return req, true, nil
		},
		stream: func(kind string, s grpc.ServerStream) error {
			switch kind {
			case "Bidi":
				for {
					var m wrapperspb.BytesValue
					if err := s.RecvMsg(&m); err != nil {
						if err == io.EOF {
							return nil
						}
						return err
					}
					if err := s.SendMsg(&wrapperspb.BytesValue{Value: m.Value}); err != nil {
						return err
					}
				}
			case "CStream":
				var sum int64
				for {
					var m wrapperspb.BytesValue
					if err := s.RecvMsg(&m); err != nil {
						if err == io.EOF {
							break
						}
						return err
					}
					sum += tokenOf(m.Value)
				}
				return s.SendMsg(&wrapperspb.BytesValue{Value: payloadOf(sum)})
			default: // SStream
				var m wrapperspb.BytesValue
				if err := s.RecvMsg(&m); err != nil {
					return err
				}
				v := tokenOf(m.Value)
				n := int(v%8) + 1
				for i := 1; i <= n; i++ {
					if err := s.SendMsg(&wrapperspb.BytesValue{Value: payloadOf(v + int64(i))}); err != nil {
						return err
					}
				}
				if v%3 == 0 {
					return status.Error(codes.Code(9), "m9")
				}
				return nil
			}
		},
	}
}

func errTok(err error) int64 {
	if err == nil {
		return 0
	}
	if err == io.EOF {
		return -1
	}
	if st, ok := status.FromError(err); ok {
		return -100 - int64(st.Code())
	}
	return -99
}

// e2eWorkload runs, sequentially, unary calls, a ping-pong bidi stream, a
// client stream and a server stream (never more than 4 envelopes in flight
// towards the server, at most 9 towards the client) and returns the outcome
// tokens.
func e2eWorkload(cc grpc.ClientConnInterface, base int64) []int64 {
	var out []int64
	ctx := context.Background()
	for i := int64(1); i <= 5; i++ {
		var rep wrapperspb.BytesValue
		err := cc.Invoke(ctx, "/verif.Echo/Unary", bv(payloadOf(base+i)), &rep)
		if err != nil {
			out = append(out, errTok(err))
		} else {
			out = append(out, tokenOf(rep.Value))
		}
	}
	// bidi ping-pong
	if cs, err := cc.NewStream(ctx, descBidi, "/verif.Echo/Bidi"); err != nil {
		out = append(out, errTok(err))
	} else {
		for i := int64(10); i < 14; i++ {
			if err := cs.SendMsg(bv(payloadOf(base + i))); err != nil {
				out = append(out, errTok(err))
				break
			}
			var m wrapperspb.BytesValue
			if err := cs.RecvMsg(&m); err != nil {
				out = append(out, errTok(err))
				break
			}
			out = append(out, tokenOf(m.Value))
		}
		cs.CloseSend()
		var m wrapperspb.BytesValue
		out = append(out, errTok(cs.RecvMsg(&m)))
	}
	// client stream: 3 messages, one reply
	if cs, err := cc.NewStream(ctx, descCStream, "/verif.Echo/CStream"); err != nil {
		out = append(out, errTok(err))
	} else {
		for i := int64(20); i < 23; i++ {
			if err := cs.SendMsg(bv(payloadOf(base + i))); err != nil {
				out = append(out, errTok(err))
			}
		}
		cs.CloseSend()
		var m wrapperspb.BytesValue
		if err := cs.RecvMsg(&m); err != nil {
			out = append(out, errTok(err))
		} else {
			out = append(out, tokenOf(m.Value))
		}
		out = append(out, errTok(cs.RecvMsg(&m)))
	}
	// server streams: up to 8 messages, with and without a final error status
	for _, v := range []int64{base + 31, base + 33} {
		cs, err := cc.NewStream(ctx, descSStream, "/verif.Echo/SStream")
		if err != nil {
			out = append(out, errTok(err))
			continue
		}
		if err := cs.SendMsg(bv(payloadOf(v))); err != nil {
			out = append(out, errTok(err))
		}
		cs.CloseSend()
		for {
			var m wrapperspb.BytesValue
			err := cs.RecvMsg(&m)
			if err != nil {
				out = append(out, errTok(err))
				break
			}
			out = append(out, tokenOf(m.Value))
		}
	}
	return out
}

// direct connection: the reference outcomes
func e2eDirect(t *testing.T, base int64) []int64 {
	var out []int64
	bubble(t, func(t *testing.T) {
		l := NewLink(false)
		l.Auto = true
		ctx, cancel := context.WithCancel(context.Background())
		srv := newEchoServer("srv", e2eEcho())
		go srv.Serve(ctx, l.S)
		cc := goat.NewClientConn(l.C, "c1", "srv")
		out = e2eWorkload(cc, base)
		cancel()
		l.C.FailRead(io.EOF)
		l.S.FailRead(io.EOF)
		synctest.Wait()
	})
	return out
}

func pairsCoq(exp, got [][]int64) (string, int) {
	var items []string
	n := 0
	for i := range exp {
		m := len(exp[i])
		if len(got[i]) > m {
			m = len(got[i])
		}
		for j := 0; j < m; j++ {
			e, g := int64(-7771), int64(-7772) // a missing outcome never equals anything
			if j < len(exp[i]) {
				e = exp[i][j]
			}
			if j < len(got[i]) {
				g = got[i][j]
			}
			items = append(items, coqPair(coqZ(e), coqZ(g)))
			n++
		}
	}
	return coqList(items), n
}

var dbgDump func()

func demuxE2ECount() int {
	if thorough() {
		return 8
	}
	return 3
}

// several logical clients, one shared transport, one Demux keyed by source, one server object
func runDemuxE2E(t *testing.T, idx, variant int, em *Emitter) {
	em.Marker("begin", idx)
	nc := 2 + variant%4
	exp := make([][]int64, nc)
	got := make([][]int64, nc)
	for i := 0; i < nc; i++ {
		exp[i] = e2eDirect(t, int64(1000*(i+1)+10*variant))
	}
	leaked := bubble(t, func(t *testing.T) {
		ctx, cancel := context.WithCancel(context.Background())
		sh := NewEndpoint("shared")
		sh.ByRef = variant%2 == 1
		cl := make([]*Endpoint, nc)
		byName := map[string]*Endpoint{}
		for i := range cl {
			cl[i] = NewEndpoint(fmt.Sprintf("c%d", i+1))
			cl[i].ByRef = sh.ByRef
			cl[i].OnWrite = func(r *Rpc) { sh.Deliver(r) }
			byName[cl[i].Name] = cl[i]
		}
		sh.OnWrite = func(r *Rpc) {
			if e := byName[r.GetHeader().GetDestination()]; e != nil {
				e.Deliver(r)
			}
		}
		srv := newEchoServer("srv", e2eEcho())
		d := goat.NewDemux(ctx, sh, func(r *Rpc) string { return r.GetHeader().GetSource() },
			func(rw goat.RpcReadWriter) { go srv.Serve(ctx, rw) })
		go d.Run()
		var wg sync.WaitGroup
		for i := 0; i < nc; i++ {
			wg.Add(1)
			go func(i int) {
				defer wg.Done()
				cc := goat.NewClientConn(cl[i], cl[i].Name, "srv")
				got[i] = e2eWorkload(cc, int64(1000*(i+1)+10*variant))
			}(i)
		}
		wg.Wait()
		cancel()
		srv.Stop()
		d.Stop()
		sh.FailRead(io.EOF)
		for _, e := range cl {
			e.FailRead(io.EOF)
		}
		synctest.Wait()
		if dbgDump != nil {
			dbgDump()
		}
	})
	term, n := pairsCoq(exp, got)
	tags := []string{"e2e-demux", fmt.Sprintf("clients=%d", nc)}
	if leaked {
		tags = append(tags, "leaked-at-end")
	}
	em.Emit(Rec{Idx: idx, Kind: "demux-e2e", Desc: map[string]any{"clients": nc, "variant": variant, "outcomes": n},
		Obs: map[string]any{"expected": exp, "observed": got}, Tags: tags, Coq: "CDemuxE2E " + term})
	em.Marker("end", idx)
}

package verifharness

import (
	"context"
	"errors"
	"fmt"
	"io"
	"runtime"
	"strings"
	"testing"
	"testing/synctest"
	"time"

	goat "github.com/avos-io/goat"
	"github.com/avos-io/goat/gen/goatorepo"
	"github.com/avos-io/goat/internal/verifhook"
	"google.golang.org/grpc"
	"google.golang.org/grpc/codes"
	"google.golang.org/grpc/metadata"
	"google.golang.org/grpc/stats"
	"google.golang.org/grpc/status"
	"google.golang.org/protobuf/types/known/wrapperspb"
)

// bubble runs f in a synctest bubble; goroutines still blocked at the end are
// abandoned (the runtime's "deadlock" panic is swallowed and reported).
func bubble(t *testing.T, f func(t *testing.T)) (leaked bool) {
	defer func() {
		if r := recover(); r != nil {
			if strings.Contains(fmt.Sprint(r), "blocked goroutines remain") {
				leaked = true
				return
			}
			panic(r)
		}
	}()
	synctest.Test(t, f)
	return false
}

func hdr(method, src, dst string) *goatorepo.RequestHeader {
	return &goatorepo.RequestHeader{Method: method, Source: src, Destination: dst}
}

// parker parks goroutines at a named yield point until released.
type parker struct {
	point  string
	parked chan struct{}
	gate   chan struct{}
	armed  bool
}

func parkAt(point string) *parker {
	p := &parker{point: point, parked: make(chan struct{}, 16), gate: make(chan struct{}), armed: true}
	verifhook.SetYield(func(pt string) {
		if pt == p.point && p.armed {
			p.armed = false
			p.parked <- struct{}{}
			<-p.gate
		}
	})
	return p
}
func (p *parker) release() { close(p.gate); verifhook.SetYield(nil) }

func goroutineDump() string {
	buf := make([]byte, 1<<20)
	n := runtime.Stack(buf, true)
	return string(buf[:n])
}

// D-03a: a unary reply with explicit OK status and a body is a success.
func TestRegressD03a(t *testing.T) {
	bubble(t, func(t *testing.T) {
		ep := NewEndpoint("c")
		cc := goat.NewClientConn(ep, "src", "dst")
		var out wrapperspb.BytesValue
		done := make(chan error, 1)
		go func() {
			defer func() {
				if r := recover(); r != nil {
					done <- fmt.Errorf("panic: %v", r)
				}
			}()
			done <- cc.Invoke(context.Background(), "/verif.Echo/Unary", bv([]byte("q")), &out)
		}()
		synctest.Wait()
		w := ep.WrittenCopy()
		body, _ := protoMarshal(bv([]byte("reply")))
		ep.Deliver(&Rpc{Id: w[0].Id, Header: hdr("/verif.Echo/Unary", "dst", "src"),
			Status: &goatorepo.ResponseStatus{Code: 0, Message: "OK"}, Body: &goatorepo.Body{Data: body}, Trailer: &goatorepo.Trailer{}})
		synctest.Wait()
		err := <-done
		if err != nil || string(out.Value) != "reply" {
			t.Errorf("D-03a: explicit OK status + body: err=%v value=%q", err, out.Value)
		}
		ep.FailRead(io.EOF)
		synctest.Wait()
	})
}

// D-03b: a stream reset by the peer is not a clean end of stream.
func TestRegressD03b(t *testing.T) {
	bubble(t, func(t *testing.T) {
		ep := NewEndpoint("c")
		cc := goat.NewClientConn(ep, "src", "dst")
		cs, err := cc.NewStream(context.Background(), descBidi, "/verif.Echo/Bidi")
		if err != nil {
			t.Fatal(err)
		}
		id := ep.WrittenCopy()[0].Id
		ep.Deliver(&Rpc{Id: id, Header: hdr("/verif.Echo/Bidi", "dst", "src"),
			Reset_: &goatorepo.Reset{Type: "RST_STREAM"}, Trailer: &goatorepo.Trailer{}})
		synctest.Wait()
		var m wrapperspb.BytesValue
		err = cs.RecvMsg(&m)
		if err == nil || err == io.EOF {
			t.Errorf("D-03b: RecvMsg after peer reset -> %v", err)
		}
		ep.FailRead(io.EOF)
		synctest.Wait()
	})
}

// D-02: a successfully completed stream is never reported as cancelled.
func TestRegressD02(t *testing.T) {
	canceled := 0
	for i := 0; i < 40; i++ {
		bubble(t, func(t *testing.T) {
			ep := NewEndpoint("c")
			cc := goat.NewClientConn(ep, "src", "dst")
			cs, err := cc.NewStream(context.Background(), descBidi, "/verif.Echo/Bidi")
			if err != nil {
				t.Fatal(err)
			}
			id := ep.WrittenCopy()[0].Id
			p := parkAt("cs.recv.checked")
			res := make(chan error, 1)
			go func() {
				var m wrapperspb.BytesValue
				res <- cs.RecvMsg(&m)
			}()
			<-p.parked
			ep.Deliver(&Rpc{Id: id, Header: hdr("/verif.Echo/Bidi", "dst", "src"),
				Status: &goatorepo.ResponseStatus{Code: 0, Message: "OK"}, Trailer: &goatorepo.Trailer{}})
			synctest.Wait()
			p.release()
			err = <-res
			if err != io.EOF {
				canceled++
			}
			ep.FailRead(io.EOF)
			synctest.Wait()
		})
	}
	if canceled > 0 {
		t.Errorf("D-02: %d of 40 successful streams reported something else than io.EOF", canceled)
	}
}

// D-09: a call racing with the connection failure must not hang.
func TestRegressD09(t *testing.T) {
	bubble(t, func(t *testing.T) {
		ep := NewEndpoint("c")
		cc := goat.NewClientConn(ep, "src", "dst")
		p := parkAt("mux.checked")
		res := make(chan error, 1)
		go func() {
			var out wrapperspb.BytesValue
			res <- cc.Invoke(context.Background(), "/verif.Echo/Unary", bv([]byte("q")), &out)
		}()
		<-p.parked
		ep.FailRead(errInjected)
		synctest.Wait()
		p.release()
		synctest.Wait()
		select {
		case err := <-res:
			if err == nil {
				t.Errorf("D-09: call succeeded on a failed connection")
			}
		default:
			t.Errorf("D-09: call still pending at quiescence after the read failure (registry=%d, wrote=%d)",
				cc.VerifNumHandlers(), len(ep.WrittenCopy()))
		}
	})
}

// D-14: an open whose transport write fails leaves no registration behind.
func TestRegressD14(t *testing.T) {
	bubble(t, func(t *testing.T) {
		ep := NewEndpoint("c")
		cc := goat.NewClientConn(ep, "src", "dst")
		ep.FailWrites(errInjected)
		for i := 0; i < 10; i++ {
			_, err := cc.NewStream(context.Background(), descBidi, "/verif.Echo/Bidi")
			if err == nil {
				t.Fatal("open succeeded")
			}
		}
		synctest.Wait()
		if n := cc.VerifNumHandlers(); n != 0 {
			t.Errorf("D-14: %d registrations left after 10 failed opens", n)
		}
		ep.FailRead(io.EOF)
		synctest.Wait()
	})
}

// D-13b: undecodable metadata on the first response must terminate the stream
// with an error: Header() returns, RecvMsg never reports success without data.
func TestRegressD13b(t *testing.T) {
	bubble(t, func(t *testing.T) {
		ep := NewEndpoint("c")
		cc := goat.NewClientConn(ep, "src", "dst")
		cs, err := cc.NewStream(context.Background(), descBidi, "/verif.Echo/Bidi")
		if err != nil {
			t.Fatal(err)
		}
		id := ep.WrittenCopy()[0].Id
		hres := make(chan error, 1)
		go func() { _, err := cs.Header(); hres <- err }()
		h := hdr("/verif.Echo/Bidi", "dst", "src")
		h.Headers = []*goatorepo.KeyValue{{Key: "x-bin", Value: "!!!not base64!!!"}}
		body, _ := protoMarshal(bv([]byte("m")))
		ep.Deliver(&Rpc{Id: id, Header: h, Body: &goatorepo.Body{Data: body}})
		synctest.Wait()
		select {
		case <-hres:
		default:
			t.Errorf("D-13b: Header() still blocked at quiescence")
		}
		var m wrapperspb.BytesValue
		rres := make(chan error, 1)
		go func() { rres <- cs.RecvMsg(&m) }()
		synctest.Wait()
		select {
		case err := <-rres:
			if err == nil {
				t.Errorf("D-13b: RecvMsg returned success without data")
			}
		default:
			t.Errorf("D-13b: RecvMsg blocked")
		}
		rst := false
		for _, w := range ep.WrittenCopy() {
			if w.GetReset_() != nil {
				rst = true
			}
		}
		if !rst {
			t.Errorf("D-13b: no reset sent for the abandoned stream")
		}
		ep.FailRead(io.EOF)
		synctest.Wait()
	})
}

// D-13c: Trailer() with undecodable trailer metadata must not panic.
func TestRegressD13c(t *testing.T) {
	bubble(t, func(t *testing.T) {
		ep := NewEndpoint("c")
		cc := goat.NewClientConn(ep, "src", "dst")
		cs, err := cc.NewStream(context.Background(), descBidi, "/verif.Echo/Bidi")
		if err != nil {
			t.Fatal(err)
		}
		id := ep.WrittenCopy()[0].Id
		ep.Deliver(&Rpc{Id: id, Header: hdr("/verif.Echo/Bidi", "dst", "src"),
			Status:  &goatorepo.ResponseStatus{Code: 0},
			Trailer: &goatorepo.Trailer{Metadata: []*goatorepo.KeyValue{{Key: "x-bin", Value: "!!!"}}}})
		synctest.Wait()
		var m wrapperspb.BytesValue
		_ = cs.RecvMsg(&m)
		func() {
			defer func() {
				if r := recover(); r != nil {
					t.Errorf("D-13c: Trailer() panicked: %v", r)
				}
			}()
			_ = cs.Trailer()
		}()
		ep.FailRead(io.EOF)
		synctest.Wait()
	})
}

type nopStats struct{}

func (nopStats) TagRPC(ctx context.Context, _ *stats.RPCTagInfo) context.Context   { return ctx }
func (nopStats) HandleRPC(context.Context, stats.RPCStats)                         {}
func (nopStats) TagConn(ctx context.Context, _ *stats.ConnTagInfo) context.Context { return ctx }
func (nopStats) HandleConn(context.Context, stats.ConnStats)                       {}

// D-13d: a unary reply without a header must not crash a client with a stats handler.
func TestRegressD13d(t *testing.T) {
	bubble(t, func(t *testing.T) {
		ep := NewEndpoint("c")
		cc := goat.NewClientConn(ep, "src", "dst", goat.WithStatsHandler(nopStats{}))
		done := make(chan error, 1)
		go func() {
			defer func() {
				if r := recover(); r != nil {
					done <- fmt.Errorf("panic: %v", r)
				}
			}()
			var out wrapperspb.BytesValue
			done <- cc.Invoke(context.Background(), "/verif.Echo/Unary", bv([]byte("q")), &out)
		}()
		synctest.Wait()
		body, _ := protoMarshal(bv([]byte("reply")))
		ep.Deliver(&Rpc{Id: ep.WrittenCopy()[0].Id, Body: &goatorepo.Body{Data: body}, Trailer: &goatorepo.Trailer{}})
		synctest.Wait()
		if err := <-done; err != nil {
			t.Errorf("D-13d: header-less reply with stats handler: %v", err)
		}
		ep.FailRead(io.EOF)
		synctest.Wait()
	})
}

func newEchoServer(name string, impl *echoImpl, opts ...goat.ServerOption) *goat.Server {
	s := goat.NewServer(name, opts...)
	s.RegisterService(&echoDesc, impl)
	return s
}

// D-12: undecodable request metadata on a unary call must not crash the server.
func TestRegressD12(t *testing.T) {
	bubble(t, func(t *testing.T) {
		ep := NewEndpoint("s")
		srv := newEchoServer("dst", &echoImpl{unary: func(ctx context.Context, req []byte) ([]byte, bool, error) {
			return req, true, nil
		}})
		ret := make(chan error, 1)
		go func() {
			defer func() {
				if r := recover(); r != nil {
					ret <- fmt.Errorf("panic: %v", r)
				}
			}()
			ret <- srv.Serve(context.Background(), ep)
		}()
		h := hdr("/verif.Echo/Unary", "src", "dst")
		h.Headers = []*goatorepo.KeyValue{{Key: "x-bin", Value: "!!!"}}
		ep.Deliver(&Rpc{Id: 1, Header: h, Body: &goatorepo.Body{}})
		synctest.Wait()
		// a probe afterwards is still served
		body, _ := protoMarshal(bv([]byte("probe")))
		ep.Deliver(&Rpc{Id: 2, Header: hdr("/verif.Echo/Unary", "src", "dst"), Body: &goatorepo.Body{Data: body}})
		synctest.Wait()
		var probeOK, errReply bool
		for _, w := range ep.WrittenCopy() {
			if w.Id == 2 && w.GetStatus() == nil && w.GetBody() != nil {
				probeOK = true
			}
			if w.Id == 1 && w.GetStatus().GetCode() != 0 && w.GetTrailer() != nil {
				errReply = true
			}
		}
		if !probeOK || !errReply {
			t.Errorf("D-12: probeOK=%v errorReplyForBadMetadata=%v", probeOK, errReply)
		}
		ep.FailRead(io.EOF)
		synctest.Wait()
		<-ret
	})
}

// D-10: at Serve exit unary handler contexts are cancelled and no worker leaks.
func TestRegressD10(t *testing.T) {
	leaked := bubble(t, func(t *testing.T) {
		ep := NewEndpoint("s")
		hctx := make(chan context.Context, 1)
		release := make(chan struct{})
		srv := newEchoServer("dst", &echoImpl{unary: func(ctx context.Context, req []byte) ([]byte, bool, error) {
			hctx <- ctx
			<-release
			return req, true, nil
		}})
		ret := make(chan error, 1)
		go func() { ret <- srv.Serve(context.Background(), ep) }()
		ep.Deliver(&Rpc{Id: 1, Header: hdr("/verif.Echo/Unary", "src", "dst"), Body: &goatorepo.Body{}})
		synctest.Wait()
		ctx := <-hctx
		ep.FailRead(errInjected)
		synctest.Wait()
		select {
		case <-ret:
		default:
			t.Errorf("D-10: Serve did not return after the read failure")
		}
		if ctx.Err() == nil {
			t.Errorf("D-10: unary handler context still live after Serve returned")
		}
		close(release)
		synctest.Wait()
		if d := goroutineDump(); strings.Contains(d, "goat.(*handler).serve") {
			t.Errorf("D-10: a goroutine of the connection survives the handlers")
		}
	})
	if leaked {
		t.Errorf("D-10: goroutines leaked at the end of the bubble")
	}
}

// D-11s: a handler returning with unconsumed client messages must not wedge the connection.
func TestRegressD11s(t *testing.T) {
	done := make(chan bool, 1)
	go func() {
		bubble(t, func(t *testing.T) {
			ep := NewEndpoint("s")
			release := make(chan struct{})
			srv := newEchoServer("dst", &echoImpl{
				unary: func(ctx context.Context, req []byte) ([]byte, bool, error) { return req, true, nil },
				stream: func(kind string, s grpc.ServerStream) error {
					<-release
					return nil
				}})
			go srv.Serve(context.Background(), ep)
			ep.Deliver(&Rpc{Id: 1, Header: hdr("/verif.Echo/Bidi", "src", "dst")})
			body, _ := protoMarshal(bv([]byte("m")))
			for i := 0; i < 3; i++ {
				ep.Deliver(&Rpc{Id: 1, Header: hdr("/verif.Echo/Bidi", "src", "dst"), Body: &goatorepo.Body{Data: body}})
			}
			synctest.Wait()
			close(release)
			time.Sleep(time.Millisecond)
			ep.Deliver(&Rpc{Id: 2, Header: hdr("/verif.Echo/Unary", "src", "dst"), Body: &goatorepo.Body{Data: body}})
			time.Sleep(time.Millisecond)
			ok := false
			for _, w := range ep.WrittenCopy() {
				if w.Id == 2 && w.GetBody() != nil {
					ok = true
				}
			}
			done <- ok
			ep.FailRead(io.EOF)
		})
	}()
	select {
	case ok := <-done:
		if !ok {
			t.Errorf("D-11s: probe not answered")
		}
	case <-time.After(3 * time.Second):
		t.Errorf("D-11s: connection wedged (probe never answered; mutex deadlock)")
	}
}

// D-17a: an envelope with a spoofed or missing source must not crash the proxy.
func TestRegressD17a(t *testing.T) {
	bubble(t, func(t *testing.T) {
		ctx, cancel := context.WithCancel(context.Background())
		a, b := NewEndpoint("a"), NewEndpoint("b")
		p := goat.NewProxy(ctx, "proxy", func(id string) (goat.RpcReadWriter, error) { return nil, errors.New("no dial") }, nil, nil)
		p.AddClient("a", a)
		p.AddClient("b", b)
		crashed := make(chan any, 1)
		go func() {
			defer func() { crashed <- recover() }()
			p.Serve()
		}()
		a.Deliver(&Rpc{Id: 1, Header: hdr("/x/y", "mallory", "b")})
		a.Deliver(&Rpc{Id: 2})
		a.Deliver(&Rpc{Id: 3, Header: hdr("/x/y", "a", "b")})
		synctest.Wait()
		select {
		case r := <-crashed:
			t.Errorf("D-17a: proxy died: %v", r)
		default:
		}
		got := b.WrittenCopy()
		if len(got) != 1 || got[0].Id != 3 {
			t.Errorf("D-17a: forwarded %v", got)
		}
		cancel()
		a.FailRead(io.EOF)
		b.FailRead(io.EOF)
		synctest.Wait()
	})
}

// D-17c: the failure of a replaced connection must not unregister its successor.
func TestRegressD17c(t *testing.T) {
	bubble(t, func(t *testing.T) {
		ctx, cancel := context.WithCancel(context.Background())
		a, b1, b2 := NewEndpoint("a"), NewEndpoint("b1"), NewEndpoint("b2")
		dials := 0
		p := goat.NewProxy(ctx, "proxy", func(id string) (goat.RpcReadWriter, error) { dials++; return nil, errors.New("no dial") }, nil, nil)
		p.AddClient("a", a)
		p.AddClient("b", b1)
		go p.Serve()
		synctest.Wait()
		p.AddClient("b", b2)
		synctest.Wait()
		b1.FailRead(errInjected)
		synctest.Wait()
		a.Deliver(&Rpc{Id: 7, Header: hdr("/x/y", "a", "b")})
		synctest.Wait()
		if len(b2.WrittenCopy()) != 1 || dials != 0 {
			t.Errorf("D-17c: delivered to new b: %d, dials: %d", len(b2.WrittenCopy()), dials)
		}
		cancel()
		a.FailRead(io.EOF)
		b2.FailRead(io.EOF)
		synctest.Wait()
	})
}

var _ = metadata.MD{}
var _ = status.New
var _ = codes.OK

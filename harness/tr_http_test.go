//go:build tr

package verifharness

import (
	"bytes"
	"context"
	"errors"
	"fmt"
	"io"
	"net/http/httptest"
	"sort"
	"strings"
	"sync"
	"testing"
	"testing/synctest"
	"time"

	goat "github.com/avos-io/goat"
	"github.com/avos-io/goat/gen/goatorepo"
	"github.com/jonboulle/clockwork"
	"google.golang.org/protobuf/proto"
)

// TestC19Http drives the real GoatOverHttp lock-step inside synctest bubbles:
// ServeHTTP is called directly (httptest recorder), the idle cleaner runs on
// the clockwork fake clock, Reads and (failing) Writes are issued on the
// connections the transport hands out. After each action the bubble is run to
// quiescence and everything observable is recorded.

const trEpoch = 1_000_000

type htAct struct {
	Op   string `json:"op"` // P post, N new connection, R read, CR cancel read, WF failing write, WC write with cancelled context, A advance, S stop
	Kind string `json:"kind,omitempty"`
	C    int    `json:"c,omitempty"`
	D    int    `json:"d,omitempty"`
	Done bool   `json:"done,omitempty"`
}

type errReader struct{}

func (errReader) Read([]byte) (int, error) { return 0, errors.New("unreadable body") }

// the rig's SourceToAddress (mirrored by C19c.rig_route)
func trMapSource(src string) (string, error) {
	switch src {
	case "a", "d":
		return "h 0", nil // not a host name: a Write to it fails in http.NewRequest, without any network
	case "b":
		return "h 1", nil
	case "c":
		return "h 2", nil
	}
	return "", errors.New("unknown source")
}

func trAddrToken(a string) int {
	var n int
	fmt.Sscanf(a, "h %d", &n)
	return n
}

// postBody builds the request body of a shape; ok=false: no bytes (nil / unreadable)
func postBody(kind string, q int) ([]byte, string) {
	mk := func(e *Rpc) []byte {
		b, err := proto.Marshal(e)
		if err != nil {
			panic(err)
		}
		if b == nil {
			b = []byte{}
		}
		return b
	}
	id := uint64(1000 + q)
	switch {
	case kind == "nil":
		return nil, "HPost BNil"
	case kind == "unreadable":
		return nil, "HPost BUnreadable"
	case kind == "empty":
		return []byte{}, "HPost (BBytes [])"
	case kind == "garbage":
		b := []byte{0xff, 0xff, 0xff, byte(q)}
		return b, "HPost (BBytes " + coqBytes(b) + ")"
	case kind == "badutf8":
		b := lenDelim(2, lenDelim(3, []byte{0xff}))
		return b, "HPost (BBytes " + coqBytes(b) + ")"
	case kind == "noheader":
		b := mk(&Rpc{Id: id, Body: &goatorepo.Body{Data: []byte("x")}})
		return b, "HPost (BBytes " + coqBytes(b) + ")"
	case kind == "emptysrc":
		b := mk(&Rpc{Id: id, Header: &goatorepo.RequestHeader{Method: "/s/m", Destination: "srv"}})
		return b, "HPost (BBytes " + coqBytes(b) + ")"
	case kind == "maperr":
		b := mk(&Rpc{Id: id, Header: &goatorepo.RequestHeader{Method: "/s/m", Source: "zz", Destination: "srv"}})
		return b, "HPost (BBytes " + coqBytes(b) + ")"
	case strings.HasPrefix(kind, "ok:"):
		b := mk(&Rpc{Id: id, Header: &goatorepo.RequestHeader{Method: "/s/m", Source: kind[3:], Destination: "srv"},
			Body: &goatorepo.Body{Data: []byte(fmt.Sprintf("payload-%d", q))}})
		return b, "HPost (BBytes " + coqBytes(b) + ")"
	}
	panic("unknown shape " + kind)
}

var trInvalidKinds = []string{"nil", "unreadable", "empty", "garbage", "badutf8", "noheader", "emptysrc", "maperr"}

type htRun struct {
	mu       sync.Mutex
	conns    []goat.RpcReadWriter
	resps    []string // fresh "(q, code)"
	ann      []string
	reads    []string
	writes   []string
	qDone    []bool
	rDone    []bool
	wDone    []bool
	rCancel  []context.CancelFunc
	crashed  bool
	annConns []goat.RpcReadWriter
	steps    []string
	desc     []string
}

func (h *htRun) connIndex(rw goat.RpcReadWriter) int {
	for i, c := range h.conns {
		if c == rw {
			return i
		}
	}
	h.conns = append(h.conns, rw)
	return len(h.conns) - 1
}

func pendingIdx(done []bool) []int {
	out := []int{}
	for i, d := range done {
		if !d {
			out = append(out, i)
		}
	}
	return out
}

// runHttp executes the actions; it returns the run and the state the
// enumeration needs (number of connections, pending reads).
func runHttp(t *testing.T, interval, timeout int, acts []htAct) (h *htRun, leaked bool) {
	h = &htRun{}
	leaked = bubble(t, func(t *testing.T) {
		fc := clockwork.NewFakeClockAt(time.Unix(trEpoch, 0))
		goh := goat.NewGoatOverHttp(func(addr string, rw goat.RpcReadWriter) {
			h.mu.Lock()
			defer h.mu.Unlock()
			c := h.connIndex(rw)
			h.ann = append(h.ann, fmt.Sprintf("(%d, %d)", trAddrToken(addr), c))
		}, trMapSource, goat.WithClock(fc), goat.WithConnectionCleanupInterval(time.Duration(interval)*time.Second),
			goat.WithConnectionTimeout(time.Duration(timeout)*time.Second))
		synctest.Wait()
		var wg sync.WaitGroup
		guard := func() {
			if r := recover(); r != nil {
				h.mu.Lock()
				h.crashed = true
				h.mu.Unlock()
			}
		}
		for _, a := range acts {
			var coq []string
			switch a.Op {
			case "P":
				h.mu.Lock()
				q := len(h.qDone)
				h.qDone = append(h.qDone, false)
				h.mu.Unlock()
				body, term := postBody(a.Kind, q)
				coq = []string{term}
				req := httptest.NewRequest("POST", "http://goat.test/", bytes.NewReader(body))
				switch a.Kind {
				case "nil":
					req.Body = nil
				case "unreadable":
					req.Body = io.NopCloser(errReader{})
				}
				wg.Add(1)
				go func() {
					defer wg.Done()
					defer guard()
					rec := httptest.NewRecorder()
					goh.ServeHTTP(rec, req)
					h.mu.Lock()
					h.qDone[q] = true
					h.resps = append(h.resps, fmt.Sprintf("(%d, %d)", q, rec.Code))
					h.mu.Unlock()
				}()
			case "N":
				coq = []string{fmt.Sprintf("HNewConn %d", a.C)}
				rw := goh.NewConnection(fmt.Sprintf("h %d", a.C))
				h.mu.Lock()
				h.connIndex(rw)
				h.mu.Unlock()
			case "R":
				h.mu.Lock()
				if a.C >= len(h.conns) {
					h.mu.Unlock()
					break
				}
				rw := h.conns[a.C]
				r := len(h.rDone)
				h.rDone = append(h.rDone, false)
				ctx, cancel := context.WithCancel(context.Background())
				if a.Done {
					cancel()
				}
				h.rCancel = append(h.rCancel, cancel)
				h.mu.Unlock()
				coq = []string{fmt.Sprintf("HRead %d%%nat %s", a.C, coqBool(a.Done))}
				wg.Add(1)
				go func() {
					defer wg.Done()
					defer guard()
					rpc, err := rw.Read(ctx)
					res := ""
					switch {
					case err == nil:
						res = "(HROk " + coqRpc(rpc, nil) + ")"
					case errors.Is(err, context.Canceled):
						res = "HRCtx"
					default:
						res = "HRClosed"
					}
					h.mu.Lock()
					h.rDone[r] = true
					h.reads = append(h.reads, fmt.Sprintf("(%d, %s)", r, res))
					h.mu.Unlock()
				}()
			case "CR":
				h.mu.Lock()
				if a.C < len(h.rCancel) {
					coq = []string{fmt.Sprintf("HCancelRead %d%%nat", a.C)}
					h.rCancel[a.C]()
				}
				h.mu.Unlock()
			case "WF", "WC":
				h.mu.Lock()
				if a.C >= len(h.conns) {
					h.mu.Unlock()
					break
				}
				rw := h.conns[a.C]
				w := len(h.wDone)
				h.wDone = append(h.wDone, false)
				h.mu.Unlock()
				ctx, cancel := context.WithCancel(context.Background())
				if a.Op == "WC" {
					cancel()
					coq = []string{fmt.Sprintf("HWrite %d%%nat true", a.C)}
				} else {
					coq = []string{fmt.Sprintf("HWrite %d%%nat false", a.C), fmt.Sprintf("HPostResult %d%%nat false", w)}
				}
				wg.Add(1)
				go func() {
					defer wg.Done()
					defer guard()
					defer cancel()
					err := rw.Write(ctx, &Rpc{Id: uint64(w)})
					h.mu.Lock()
					h.wDone[w] = true
					h.writes = append(h.writes, fmt.Sprintf("(%d, %s)", w, coqBool(err == nil)))
					h.mu.Unlock()
				}()
			case "A":
				coq = []string{fmt.Sprintf("HAdvance %d", a.D)}
				fc.Advance(time.Duration(a.D) * time.Second)
			case "S":
				coq = []string{"HStop"}
				goh.Cancel()
			}
			synctest.Wait()
			h.mu.Lock()
			table := []int{}
			for _, a := range goh.VerifHttpConns() {
				table = append(table, trAddrToken(a))
			}
			sort.Ints(table)
			sort.Strings(h.resps)
			obs := fmt.Sprintf("mkHObs %s %s %s %s %s %s %s %s %s", coqList(h.resps), coqList(h.ann), coqList(h.reads), coqList(h.writes),
				coqInts(table), coqInts(pendingIdx(h.qDone)), coqInts(pendingIdx(h.rDone)), coqInts(pendingIdx(h.wDone)), coqBool(h.crashed))
			d := fmt.Sprintf("%s%s%d/%d: resp=%v ann=%v reads=%d writes=%v table=%v pq=%v pr=%v", a.Op, a.Kind, a.C, a.D, h.resps, h.ann, len(h.reads), h.writes,
				table, pendingIdx(h.qDone), pendingIdx(h.rDone))
			h.resps, h.ann, h.reads, h.writes = nil, nil, nil, nil
			h.mu.Unlock()
			h.steps = append(h.steps, fmt.Sprintf("(%s, %s)", coqList(coq), obs))
			h.desc = append(h.desc, d)
		}
		// clean up: fail every parked reader, drain every connection so that parked requests end, stop
		h.mu.Lock()
		for _, c := range h.rCancel {
			c()
		}
		conns := append([]goat.RpcReadWriter(nil), h.conns...)
		h.mu.Unlock()
		synctest.Wait()
		drainCtx, stopDrain := context.WithCancel(context.Background())
		for _, rw := range conns {
			wg.Add(1)
			go func() {
				defer wg.Done()
				for {
					if _, err := rw.Read(drainCtx); err != nil && drainCtx.Err() != nil {
						return
					} else if err != nil {
						<-drainCtx.Done() // a removed connection: nothing can be parked on it
						return
					}
				}
			}()
		}
		synctest.Wait()
		stopDrain()
		goh.Cancel()
		wg.Wait()
	})
	return
}

func emitHttp(em *Emitter, t *testing.T, idx int, interval, timeout int, acts []htAct, tag string) *htRun {
	em.Marker("begin", idx)
	h, leaked := runHttp(t, interval, timeout, acts)
	tags := []string{"http:" + tag, fmt.Sprintf("http-len:%d", len(acts))}
	if leaked {
		tags = append(tags, "http-leaked")
	}
	if h.crashed {
		tags = append(tags, "http-crashed")
	}
	em.Emit(Rec{Idx: idx, Kind: "http-lockstep", Desc: map[string]any{"interval": interval, "timeout": timeout, "acts": acts},
		Obs: map[string]any{"steps": h.desc, "leaked": leaked},
		Coq: fmt.Sprintf("CHttp %d %d %d %s", interval, timeout, trEpoch, coqList(h.steps)), Tags: tags})
	em.Marker("end", idx)
	return h
}

func TestC19Http(t *testing.T) {
	em := NewEmitter()
	defer em.Close()
	r := newRand(1903)
	idx := 0
	const interval, timeout = 60, 90
	// (1) every request shape on its own, then with a reader waiting
	shapes := append(append([]string{}, trInvalidKinds...), "ok:a", "ok:b", "ok:c", "ok:d")
	for _, k := range shapes {
		for _, pre := range [][]htAct{nil, {{Op: "N", C: 0}, {Op: "R", C: 0}}} {
			acts := append(append([]htAct{}, pre...), htAct{Op: "P", Kind: k}, htAct{Op: "A", D: 60}, htAct{Op: "A", D: 60})
			if want(idx) {
				emitHttp(em, t, idx, interval, timeout, acts, "shapes")
			}
			idx++
		}
	}
	// (2) every placement of ticks relative to a blocked delivery: all sequences over a focused alphabet
	maxLen := 4
	if thorough() {
		maxLen = 5
	}
	bad := 0
	var rec func(prefix []htAct)
	rec = func(prefix []htAct) {
		nconn, npend := 0, []int{}
		if len(prefix) > 0 {
			var h *htRun
			if want(idx) {
				h = emitHttp(em, t, idx, interval, timeout, prefix, "enum")
			} else {
				h, _ = runHttp(t, interval, timeout, prefix)
			}
			idx++
			nconn, npend = len(h.conns), pendingIdx(h.rDone)
		}
		if len(prefix) >= maxLen {
			return
		}
		ext := []htAct{{Op: "P", Kind: "ok:a"}, {Op: "P", Kind: "ok:d"}, {Op: "P", Kind: trInvalidKinds[bad%len(trInvalidKinds)]},
			{Op: "A", D: 60}, {Op: "A", D: 30}, {Op: "N", C: 0}}
		bad++
		if nconn > 0 {
			ext = append(ext, htAct{Op: "R", C: nconn - 1}, htAct{Op: "WF", C: 0})
		}
		if nconn > 1 {
			ext = append(ext, htAct{Op: "R", C: 0})
		}
		for _, r := range npend {
			ext = append(ext, htAct{Op: "CR", C: r})
		}
		for _, a := range ext {
			rec(append(append([]htAct{}, prefix...), a))
		}
	}
	rec(nil)
	// (3) seeded random longer scenarios over the full alphabet
	nrand := 300
	if thorough() {
		nrand = 3000
	}
	for i := 0; i < nrand; i++ {
		iv, tmo := []int{60, 10, 7}[r.Intn(3)], []int{90, 240, 25, 7}[r.Intn(4)]
		n := 4 + r.Intn(9)
		var acts []htAct
		nconnMax := 0
		for k := 0; k < n; k++ {
			switch r.Intn(12) {
			case 0, 1:
				acts = append(acts, htAct{Op: "P", Kind: "ok:" + string("abcd"[r.Intn(4)])})
				nconnMax++
			case 2:
				acts = append(acts, htAct{Op: "P", Kind: trInvalidKinds[r.Intn(len(trInvalidKinds))]})
			case 3:
				acts = append(acts, htAct{Op: "N", C: r.Intn(3)})
				nconnMax++
			case 4, 5, 6:
				acts = append(acts, htAct{Op: "R", C: r.Intn(nconnMax + 1), Done: r.Intn(8) == 0})
			case 7:
				acts = append(acts, htAct{Op: "CR", C: r.Intn(4)})
			case 8:
				acts = append(acts, htAct{Op: []string{"WF", "WC"}[r.Intn(2)], C: r.Intn(nconnMax + 1)})
			case 9, 10:
				acts = append(acts, htAct{Op: "A", D: []int{1, iv / 2, iv, iv + 1, tmo, 2 * iv, 3*iv + 1}[r.Intn(7)]})
			case 11:
				if r.Intn(4) == 0 {
					acts = append(acts, htAct{Op: "S"})
				} else {
					acts = append(acts, htAct{Op: "A", D: iv})
				}
			}
		}
		if want(idx) {
			emitHttp(em, t, idx, iv, tmo, acts, "random")
		}
		idx++
	}
}

// TestC19HttpE2E: two GoatOverHttp instances over real loopback HTTP servers
// (outside any bubble; nothing here waits on a timeout to decide an outcome):
// every generated envelope written on one end is read on the other.
func TestC19HttpE2E(t *testing.T) {
	em := NewEmitter()
	defer em.Close()
	r := newRand(1904)
	idx := 0
	var aAddr, bAddr string
	bConns := make(chan goat.RpcReadWriter, 4)
	gohA := goat.NewGoatOverHttp(func(string, goat.RpcReadWriter) {}, func(string) (string, error) { return bAddr, nil })
	gohB := goat.NewGoatOverHttp(func(_ string, rw goat.RpcReadWriter) { bConns <- rw }, func(src string) (string, error) {
		if src == "" {
			return "", errors.New("no source")
		}
		return aAddr, nil
	})
	defer gohA.Cancel()
	defer gohB.Cancel()
	srvA := httptest.NewServer(gohA)
	srvB := httptest.NewServer(gohB)
	defer srvA.Close()
	defer srvB.Close()
	aAddr, bAddr = strings.TrimPrefix(srvA.URL, "http://"), strings.TrimPrefix(srvB.URL, "http://")
	toB := gohA.NewConnection(bAddr)

	extra := 10
	if thorough() {
		extra = 120
	}
	envs := genEnvelopes(r, trBodySizes(), extra)
	var fromA goat.RpcReadWriter
	for i := 0; i < len(envs); {
		group := []genEnv{}
		var big *bigRef
		for i < len(envs) && len(group) < 6 {
			if envs[i].Big != nil {
				if big != nil {
					break
				}
				big = envs[i].Big
			}
			group = append(group, envs[i])
			i++
		}
		if !want(idx) {
			idx++
			continue
		}
		em.Marker("begin", idx)
		var written, oks, read []string
		for _, g := range group {
			e := proto.Clone(g.E).(*Rpc)
			if e.Header == nil {
				e.Header = &goatorepo.RequestHeader{}
			}
			if e.Header.Source == "" {
				e.Header.Source = "A"
			}
			written = append(written, coqRpc(e, big))
			type rr struct {
				rpc *Rpc
				err error
			}
			got := make(chan rr, 1)
			go func() {
				if fromA == nil {
					fromA = <-bConns
				}
				rpc, err := fromA.Read(context.Background())
				got <- rr{rpc, err}
			}()
			err := toB.Write(context.Background(), e)
			oks = append(oks, coqBool(err == nil))
			if err != nil {
				t.Fatalf("write: %v", err)
			}
			x := <-got // the POST has been answered, so the hand-off to this Read has happened
			if x.err != nil {
				read = append(read, "None")
			} else {
				read = append(read, coqOptRpc(x.rpc, big))
			}
		}
		em.Emit(Rec{Idx: idx, Kind: "http-e2e", Desc: map[string]any{"envelopes": len(group)},
			Obs: map[string]any{"writes_ok": oks},
			Coq: big.coqLet(fmt.Sprintf("CHttpE2E %s %s %s", coqList(written), coqList(oks), coqList(read))), Tags: []string{"http:e2e"}})
		em.Marker("end", idx)
		idx++
	}

	// a Write whose POST is parked (nobody reads on the far side) returns once its context is done
	if want(idx) {
		em.Marker("begin", idx)
		gohC := goat.NewGoatOverHttp(func(string, goat.RpcReadWriter) {}, func(string) (string, error) { return "nobody:1", nil })
		srvC := httptest.NewServer(gohC)
		conn := gohA.NewConnection(strings.TrimPrefix(srvC.URL, "http://"))
		ctx, cancel := context.WithCancel(context.Background())
		done := make(chan error, 1)
		go func() {
			done <- conn.Write(ctx, &Rpc{Id: 1, Header: &goatorepo.RequestHeader{Source: "A"}})
		}()
		stillBlocked := false
		select {
		case <-done:
		case <-time.After(150 * time.Millisecond): // only to see that it is parked; the verdict does not depend on it
			stillBlocked = true
		}
		cancel()
		err := <-done // blocks for ever if Write ignores its context: the rig's timeout reports it
		em.Emit(Rec{Idx: idx, Kind: "http-write-ctx", Desc: "Write parked in a POST that nobody answers; context cancelled",
			Obs: map[string]any{"parked_before_cancel": stillBlocked, "err": fmt.Sprint(err)},
			Coq: fmt.Sprintf("CAssert 1 %s", coqBool(err != nil)), Tags: []string{"http:write-ctx"}})
		em.Marker("end", idx)
		gohC.Cancel()
		srvC.CloseClientConnections()
		go srvC.Close()
	}
	idx++
}

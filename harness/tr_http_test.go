//go:build tr

package verifharness

import (
	"bufio"
	"bytes"
	"context"
	"errors"
	"fmt"
	"io"
	"net"
	"net/http"
	"net/http/httptest"
	"sort"
	"strings"
	"sync"
	"sync/atomic"
	"testing"
	"testing/synctest"
	"time"

	goat "github.com/avos-io/goat"
	"github.com/avos-io/goat/gen/goatorepo"
	"github.com/jonboulle/clockwork"
	"google.golang.org/protobuf/proto"
)

// TestC19Http drives the real GoatOverHttp lock-step inside synctest bubbles:
// ServeHTTP is called directly (httptest recorder), the idle cleaner runs on
// the clockwork fake clock, Reads and (failing) Writes are issued on the
// connections the transport hands out. After each action the bubble is run to
// quiescence and everything observable is recorded.

const trEpoch = 1_000_000

type htAct struct {
	Op   string `json:"op"` // P post, N new connection, R read, CR cancel read, WF failing write, WC write with cancelled context, A advance, S stop
	Kind string `json:"kind,omitempty"`
	C    int    `json:"c,omitempty"`
	D    int    `json:"d,omitempty"`
	Done bool   `json:"done,omitempty"`
}

type errReader struct{}

func (errReader) Read([]byte) (int, error) { return 0, errors.New("unreadable body") }

// the rig's SourceToAddress (mirrored by C19c.rig_route)
// trAddrClass: how the rig spells the address of peer n. The connection table is keyed by these strings, so every family
// that involves the table runs once per class: lower case, UPPER case, Mixed case with a port, non-ASCII. All of them
// contain a space: not a host name, so a Write to it fails in http.NewRequest, without any network.
var trAddrClasses = map[string]string{"lower": "h %d", "upper": "H %d", "mixed": "Peer-A.Local %d:9", "unicode": "Hôte-É %d"}
var trAddrClass = "lower"

func trAddr(n int) string { return fmt.Sprintf(trAddrClasses[trAddrClass], n) }

// the rig's SourceToAddress (mirrored by C19c.rig_route)
func trMapSource(src string) (string, error) {
	switch src {
	case "a", "d":
		return trAddr(0), nil
	case "b":
		return trAddr(1), nil
	case "c":
		return trAddr(2), nil
	}
	return "", errors.New("unknown source")
}

// trAddrToken: the peer number of an address, however it is spelt (the digits after the last space)
func trAddrToken(a string) int {
	n := -1
	if i := strings.LastIndex(a, " "); i >= 0 {
		fmt.Sscanf(a[i+1:], "%d", &n)
	}
	return n
}

// postBody builds the request body of a shape; ok=false: no bytes (nil / unreadable)
func postBody(kind string, q int) ([]byte, string) {
	mk := func(e *Rpc) []byte {
		b, err := proto.Marshal(e)
		if err != nil {
			panic(err)
		}
		if b == nil {
			b = []byte{}
		}
		return b
	}
	id := uint64(1000 + q)
	switch {
	case kind == "nil":
		return nil, "HPost BNil"
	case kind == "unreadable":
		return nil, "HPost BUnreadable"
	case kind == "empty":
		return []byte{}, "HPost (BBytes [])"
	case kind == "garbage":
		b := []byte{0xff, 0xff, 0xff, byte(q)}
		return b, "HPost (BBytes " + coqBytes(b) + ")"
	case kind == "badutf8":
		b := lenDelim(2, lenDelim(3, []byte{0xff}))
		return b, "HPost (BBytes " + coqBytes(b) + ")"
	case kind == "noheader":
		b := mk(&Rpc{Id: id, Body: &goatorepo.Body{Data: []byte("x")}})
		return b, "HPost (BBytes " + coqBytes(b) + ")"
	case kind == "emptysrc":
		b := mk(&Rpc{Id: id, Header: &goatorepo.RequestHeader{Method: "/s/m", Destination: "srv"}})
		return b, "HPost (BBytes " + coqBytes(b) + ")"
	case kind == "maperr":
		b := mk(&Rpc{Id: id, Header: &goatorepo.RequestHeader{Method: "/s/m", Source: "zz", Destination: "srv"}})
		return b, "HPost (BBytes " + coqBytes(b) + ")"
	case strings.HasPrefix(kind, "ok:"):
		b := mk(&Rpc{Id: id, Header: &goatorepo.RequestHeader{Method: "/s/m", Source: kind[3:], Destination: "srv"},
			Body: &goatorepo.Body{Data: []byte(fmt.Sprintf("payload-%d", q))}})
		return b, "HPost (BBytes " + coqBytes(b) + ")"
	}
	panic("unknown shape " + kind)
}

var trInvalidKinds = []string{"nil", "unreadable", "empty", "garbage", "badutf8", "noheader", "emptysrc", "maperr"}

type htRun struct {
	mu       sync.Mutex
	conns    []goat.RpcReadWriter
	resps    []string // fresh "(q, code)"
	ann      []string
	reads    []string
	writes   []string
	qDone    []bool
	rDone    []bool
	wDone    []bool
	rCancel  []context.CancelFunc
	crashed  bool
	annConns []goat.RpcReadWriter
	steps    []string
	desc     []string
	big      *bigRef // the one large body of the scenario, if any (shared by the Coq terms through a let)
}

var trEdgeEnvs []genEnv // genEdgeEnvelopes, built once (a megabyte each)

func trEdge(k int) genEnv {
	if trEdgeEnvs == nil {
		trEdgeEnvs = genEdgeEnvelopes(newRand(1913))
	}
	return trEdgeEnvs[k]
}

// slowReader hands out its bytes in small, uneven pieces: a body of unknown length arriving in chunks
type slowReader struct {
	b []byte
	n int
}

func (s *slowReader) Read(p []byte) (int, error) {
	if len(s.b) == 0 {
		return 0, io.EOF
	}
	s.n++
	k := 1 + (s.n*7919)%4093
	if k > len(s.b) {
		k = len(s.b)
	}
	if k > len(p) {
		k = len(p)
	}
	copy(p, s.b[:k])
	s.b = s.b[k:]
	return k, nil
}

func (h *htRun) connIndex(rw goat.RpcReadWriter) int {
	for i, c := range h.conns {
		if c == rw {
			return i
		}
	}
	h.conns = append(h.conns, rw)
	return len(h.conns) - 1
}

func pendingIdx(done []bool) []int {
	out := []int{}
	for i, d := range done {
		if !d {
			out = append(out, i)
		}
	}
	return out
}

// runHttp executes the actions; it returns the run and the state the
// enumeration needs (number of connections, pending reads).
func runHttp(t *testing.T, interval, timeout int, acts []htAct) (h *htRun, leaked bool) {
	h = &htRun{}
	leaked = bubble(t, func(t *testing.T) {
		fc := clockwork.NewFakeClockAt(time.Unix(trEpoch, 0))
		goh := goat.NewGoatOverHttp(func(addr string, rw goat.RpcReadWriter) {
			h.mu.Lock()
			defer h.mu.Unlock()
			c := h.connIndex(rw)
			h.ann = append(h.ann, fmt.Sprintf("(%d, %d)", trAddrToken(addr), c))
		}, trMapSource, goat.WithClock(fc), goat.WithConnectionCleanupInterval(time.Duration(interval)*time.Second),
			goat.WithConnectionTimeout(time.Duration(timeout)*time.Second))
		synctest.Wait()
		var wg sync.WaitGroup
		guard := func() {
			if r := recover(); r != nil {
				h.mu.Lock()
				h.crashed = true
				h.mu.Unlock()
			}
		}
		for _, a := range acts {
			trStep()
			var coq []string
			switch a.Op {
			case "T": // the bubble's clock advances (not the fake clock the cleaner runs on): no action of the model
				time.Sleep(time.Duration(a.D) * time.Millisecond)
			case "P":
				h.mu.Lock()
				q := len(h.qDone)
				h.qDone = append(h.qDone, false)
				h.mu.Unlock()
				kind, chunked := a.Kind, false
				if strings.HasPrefix(kind, "chunked:") { // the same bytes as a body of unknown length, in pieces
					kind, chunked = strings.TrimPrefix(kind, "chunked:"), true
				}
				var body []byte
				var term string
				if strings.HasPrefix(kind, "edge:") { // an envelope of the upper end of the body range from source "a"
					var k int
					fmt.Sscanf(kind, "edge:%d", &k)
					g := trEdge(k)
					e := proto.Clone(g.E).(*Rpc)
					e.Id = uint64(1000 + q)
					var err error
					if body, err = proto.Marshal(e); err != nil {
						panic(err)
					}
					h.mu.Lock()
					h.big = g.Big
					h.mu.Unlock()
					term = "HPost (BBytes " + coqBytesBig(body, g.Big) + ")"
				} else {
					body, term = postBody(kind, q)
				}
				coq = []string{term}
				req := httptest.NewRequest("POST", "http://goat.test/", bytes.NewReader(body))
				switch {
				case kind == "nil":
					req.Body = nil
				case kind == "unreadable":
					req.Body = io.NopCloser(errReader{})
				case chunked:
					req.Body = io.NopCloser(&slowReader{b: body})
					req.ContentLength = -1
					req.TransferEncoding = []string{"chunked"}
				}
				wg.Add(1)
				go func() {
					defer wg.Done()
					defer guard()
					rec := httptest.NewRecorder()
					goh.ServeHTTP(rec, req)
					h.mu.Lock()
					h.qDone[q] = true
					h.resps = append(h.resps, fmt.Sprintf("(%d, %d)", q, rec.Code))
					h.mu.Unlock()
				}()
			case "N":
				coq = []string{fmt.Sprintf("HNewConn %d", a.C)}
				rw := goh.NewConnection(trAddr(a.C))
				h.mu.Lock()
				h.connIndex(rw)
				h.mu.Unlock()
			case "R":
				h.mu.Lock()
				if a.C >= len(h.conns) {
					h.mu.Unlock()
					break
				}
				rw := h.conns[a.C]
				r := len(h.rDone)
				h.rDone = append(h.rDone, false)
				ctx, cancel := context.WithCancel(context.Background())
				if a.Done {
					cancel()
				}
				h.rCancel = append(h.rCancel, cancel)
				h.mu.Unlock()
				coq = []string{fmt.Sprintf("HRead %d%%nat %s", a.C, coqBool(a.Done))}
				wg.Add(1)
				go func() {
					defer wg.Done()
					defer guard()
					rpc, err := rw.Read(ctx)
					res := ""
					switch {
					case err == nil:
						h.mu.Lock()
						big := h.big
						h.mu.Unlock()
						res = "(HROk " + coqRpc(rpc, big) + ")"
					case errors.Is(err, context.Canceled):
						res = "HRCtx"
					default:
						res = "HRClosed"
					}
					h.mu.Lock()
					h.rDone[r] = true
					h.reads = append(h.reads, fmt.Sprintf("(%d, %s)", r, res))
					h.mu.Unlock()
				}()
			case "CR":
				h.mu.Lock()
				if a.C < len(h.rCancel) {
					coq = []string{fmt.Sprintf("HCancelRead %d%%nat", a.C)}
					h.rCancel[a.C]()
				}
				h.mu.Unlock()
			case "WF", "WC":
				h.mu.Lock()
				if a.C >= len(h.conns) {
					h.mu.Unlock()
					break
				}
				rw := h.conns[a.C]
				w := len(h.wDone)
				h.wDone = append(h.wDone, false)
				h.mu.Unlock()
				ctx, cancel := context.WithCancel(context.Background())
				if a.Op == "WC" {
					cancel()
					coq = []string{fmt.Sprintf("HWrite %d%%nat true", a.C)}
				} else {
					coq = []string{fmt.Sprintf("HWrite %d%%nat false", a.C), fmt.Sprintf("HPostResult %d%%nat false", w)}
				}
				wg.Add(1)
				go func() {
					defer wg.Done()
					defer guard()
					defer cancel()
					err := rw.Write(ctx, &Rpc{Id: uint64(w)})
					h.mu.Lock()
					h.wDone[w] = true
					h.writes = append(h.writes, fmt.Sprintf("(%d, %s)", w, coqBool(err == nil)))
					h.mu.Unlock()
				}()
			case "A":
				coq = []string{fmt.Sprintf("HAdvance %d", a.D)}
				fc.Advance(time.Duration(a.D) * time.Second)
			case "S":
				coq = []string{"HStop"}
				goh.Cancel()
			}
			synctest.Wait()
			h.mu.Lock()
			table := []int{}
			for _, a := range goh.VerifHttpConns() {
				table = append(table, trAddrToken(a))
			}
			sort.Ints(table)
			sort.Strings(h.resps)
			obs := fmt.Sprintf("mkHObs %s %s %s %s %s %s %s %s %s", coqList(h.resps), coqList(h.ann), coqList(h.reads), coqList(h.writes),
				coqInts(table), coqInts(pendingIdx(h.qDone)), coqInts(pendingIdx(h.rDone)), coqInts(pendingIdx(h.wDone)), coqBool(h.crashed))
			d := fmt.Sprintf("%s%s%d/%d: resp=%v ann=%v reads=%d writes=%v table=%v pq=%v pr=%v", a.Op, a.Kind, a.C, a.D, h.resps, h.ann, len(h.reads), h.writes,
				table, pendingIdx(h.qDone), pendingIdx(h.rDone))
			h.resps, h.ann, h.reads, h.writes = nil, nil, nil, nil
			h.mu.Unlock()
			h.steps = append(h.steps, fmt.Sprintf("(%s, %s)", coqList(coq), obs))
			h.desc = append(h.desc, d)
		}
		// clean up: fail every parked reader, drain every connection so that parked requests end, stop
		h.mu.Lock()
		for _, c := range h.rCancel {
			c()
		}
		conns := append([]goat.RpcReadWriter(nil), h.conns...)
		h.mu.Unlock()
		synctest.Wait()
		drainCtx, stopDrain := context.WithCancel(context.Background())
		for _, rw := range conns {
			wg.Add(1)
			go func() {
				defer wg.Done()
				for {
					if _, err := rw.Read(drainCtx); err != nil && drainCtx.Err() != nil {
						return
					} else if err != nil {
						<-drainCtx.Done() // a removed connection: nothing can be parked on it
						return
					}
				}
			}()
		}
		synctest.Wait()
		stopDrain()
		goh.Cancel()
		wg.Wait()
	})
	return
}

func emitHttp(em *Emitter, t *testing.T, idx int, interval, timeout int, acts []htAct, tag string) *htRun {
	em.Marker("begin", idx)
	unguard := trGuard(em, idx, "http-lockstep", map[string]any{"interval": interval, "timeout": timeout, "acts": acts}, []string{"http:" + tag})
	h, leaked := runHttp(t, interval, timeout, acts)
	unguard()
	tags := []string{"http:" + tag, fmt.Sprintf("http-len:%d", len(acts)), "http-addr:" + trAddrClass}
	if leaked {
		tags = append(tags, "http-leaked")
	}
	if h.crashed {
		tags = append(tags, "http-crashed")
	}
	em.Emit(Rec{Idx: idx, Kind: "http-lockstep", Desc: map[string]any{"interval": interval, "timeout": timeout, "acts": acts},
		Obs: map[string]any{"steps": h.desc, "leaked": leaked},
		Coq: h.big.coqLet(fmt.Sprintf("CHttp %d %d %d %s", interval, timeout, trEpoch, coqList(h.steps))), Tags: tags})
	em.Marker("end", idx)
	return h
}

func TestC19Http(t *testing.T) {
	em := NewEmitter()
	defer em.Close()
	r := newRand(1903)
	idx := 0
	const interval, timeout = 60, 90
	// (0) first (these are the expensive cases for the Coq side: keep them away from the end-to-end rig's,
	// which come last, so that they are evaluated in parallel): the upper end of the body range (1 MiB - 4096, 1 MiB - 1, 1 MiB, 1 MiB inside the largest envelope):
	// posted to a waiting reader; 1 MiB also without a reader (parked, then removed by the cleaner); and
	// bodies of unknown length that arrive in pieces (chunked), small and 1 MiB
	preR := []htAct{{Op: "N", C: 0}, {Op: "R", C: 0}}
	var edge [][]htAct
	for k := range trEdgeSizes {
		edge = append(edge, append(append([]htAct{}, preR...), htAct{Op: "P", Kind: fmt.Sprintf("edge:%d", k)}, htAct{Op: "A", D: 60}))
	}
	edge = append(edge, append(append([]htAct{}, preR...), htAct{Op: "P", Kind: fmt.Sprintf("edge:%d", len(trEdgeSizes))}, htAct{Op: "A", D: 60}))
	edge = append(edge, []htAct{{Op: "P", Kind: "edge:2"}, {Op: "A", D: 60}, {Op: "A", D: 60}})
	edge = append(edge, append(append([]htAct{}, preR...), htAct{Op: "P", Kind: "chunked:ok:a"}, htAct{Op: "P", Kind: "chunked:garbage"}, htAct{Op: "P", Kind: "chunked:empty"}))
	edge = append(edge, append(append([]htAct{}, preR...), htAct{Op: "P", Kind: "chunked:edge:2"}, htAct{Op: "A", D: 60}))
	// ... spread over the rig's index space (one every 500 cases): ./check evaluates contiguous chunks of cases in
	// parallel, six megabyte cases in one chunk made that chunk the slowest by far
	emitEdge := func() {
		if len(edge) == 0 {
			return
		}
		if want(idx) {
			emitHttp(em, t, idx, interval, timeout, edge[0], "edge-size")
		}
		edge = edge[1:]
		idx++
	}
	emitEdge()
	// (1) every request shape on its own, then with a reader waiting
	shapes := append(append([]string{}, trInvalidKinds...), "ok:a", "ok:b", "ok:c", "ok:d")
	for _, k := range shapes {
		for _, pre := range [][]htAct{nil, {{Op: "N", C: 0}, {Op: "R", C: 0}}} {
			acts := append(append([]htAct{}, pre...), htAct{Op: "P", Kind: k}, htAct{Op: "A", D: 60}, htAct{Op: "A", D: 60})
			if want(idx) {
				emitHttp(em, t, idx, interval, timeout, acts, "shapes")
			}
			idx++
		}
	}
	// (1b) the connection TABLE under every spelling of the address (lower / UPPER / Mixed case with a port / non-ASCII):
	// idle timeout with a waiting reader and with a parked request, unregistration by a failing Write, NewConnection twice,
	// a request for a connection made by NewConnection, a reader across two cleaner ticks
	for _, class := range []string{"upper", "mixed", "unicode", "lower"} {
		trAddrClass = class
		for _, acts := range [][]htAct{
			{{Op: "N", C: 0}, {Op: "R", C: 0}, {Op: "A", D: 60}, {Op: "A", D: 60}, {Op: "A", D: 60}, {Op: "R", C: 0}},
			{{Op: "N", C: 1}, {Op: "R", C: 0}, {Op: "R", C: 0}, {Op: "A", D: 180}},
			{{Op: "P", Kind: "ok:a"}, {Op: "A", D: 60}, {Op: "A", D: 60}, {Op: "P", Kind: "ok:a"}, {Op: "R", C: 1}},
			{{Op: "N", C: 0}, {Op: "R", C: 0}, {Op: "WF", C: 0}, {Op: "N", C: 0}, {Op: "P", Kind: "ok:d"}, {Op: "R", C: 1}},
			{{Op: "N", C: 1}, {Op: "N", C: 1}, {Op: "P", Kind: "ok:b"}, {Op: "R", C: 0}, {Op: "A", D: 60}, {Op: "A", D: 60}, {Op: "R", C: 0}},
			{{Op: "P", Kind: "ok:c"}, {Op: "R", C: 0}, {Op: "R", C: 0}, {Op: "A", D: 90}, {Op: "A", D: 90}, {Op: "N", C: 2}, {Op: "R", C: 1}, {Op: "A", D: 180}},
		} {
			if want(idx) {
				emitHttp(em, t, idx, interval, timeout, acts, "addr-class")
			}
			idx++
		}
	}
	trAddrClass = "lower"
	// (2) every placement of ticks relative to a blocked delivery: all sequences over a focused alphabet
	maxLen := 4
	if thorough() {
		maxLen = 5
	}
	bad := 0
	jr := newTrJournal("http")
	var rec func(prefix []htAct)
	rec = func(prefix []htAct) {
		nconn, npend := 0, []int{}
		key := trKey(prefix)
		if len(prefix) > 0 && jr.skip[key] { // wedged or died in an earlier attempt of this run: reported then
			idx++
			return
		}
		if len(prefix) > 0 {
			var h *htRun
			if want(idx) {
				jr.begin(key)
				h = emitHttp(em, t, idx, interval, timeout, prefix, "enum")
				jr.end()
			} else {
				unguard := trGuard(em, idx, "http-lockstep", map[string]any{"acts": prefix, "rerun": true}, []string{"http-rerun"})
				h, _ = runHttp(t, interval, timeout, prefix) // a re-run for the enumeration's sake: guarded all the same
				unguard()
			}
			idx++
			nconn, npend = len(h.conns), pendingIdx(h.rDone)
			if idx%500 == 250 {
				emitEdge()
			}
		}
		if len(prefix) >= maxLen {
			return
		}
		ext := []htAct{{Op: "P", Kind: "ok:a"}, {Op: "P", Kind: "ok:d"}, {Op: "P", Kind: trInvalidKinds[bad%len(trInvalidKinds)]},
			{Op: "A", D: 60}, {Op: "A", D: 30}, {Op: "N", C: 0}}
		if len(prefix) > 0 && prefix[len(prefix)-1].Op != "T" {
			ext = append(ext, htAct{Op: "T", D: 1000})
		}
		bad++
		if nconn > 0 {
			ext = append(ext, htAct{Op: "R", C: nconn - 1}, htAct{Op: "WF", C: 0})
		}
		if nconn > 1 {
			ext = append(ext, htAct{Op: "R", C: 0})
		}
		for _, r := range npend {
			ext = append(ext, htAct{Op: "CR", C: r})
		}
		for _, a := range ext {
			rec(append(append([]htAct{}, prefix...), a))
		}
	}
	rec(nil)
	for len(edge) > 0 {
		emitEdge()
	}
	// (3) seeded random longer scenarios over the full alphabet
	nrand := 300
	if thorough() {
		nrand = 3000
	}
	for i := 0; i < nrand; i++ {
		iv, tmo := []int{60, 10, 7}[r.Intn(3)], []int{90, 240, 25, 7}[r.Intn(4)]
		n := 4 + r.Intn(9)
		var acts []htAct
		nconnMax := 0
		for k := 0; k < n; k++ {
			switch r.Intn(12) {
			case 0, 1:
				acts = append(acts, htAct{Op: "P", Kind: "ok:" + string("abcd"[r.Intn(4)])})
				nconnMax++
			case 2:
				acts = append(acts, htAct{Op: "P", Kind: trInvalidKinds[r.Intn(len(trInvalidKinds))]})
			case 3:
				acts = append(acts, htAct{Op: "N", C: r.Intn(3)})
				nconnMax++
			case 4, 5, 6:
				acts = append(acts, htAct{Op: "R", C: r.Intn(nconnMax + 1), Done: r.Intn(8) == 0})
			case 7:
				acts = append(acts, htAct{Op: "CR", C: r.Intn(4)})
			case 8:
				acts = append(acts, htAct{Op: []string{"WF", "WC"}[r.Intn(2)], C: r.Intn(nconnMax + 1)})
			case 9, 10:
				acts = append(acts, htAct{Op: "A", D: []int{1, iv / 2, iv, iv + 1, tmo, 2 * iv, 3*iv + 1}[r.Intn(7)]})
			case 11:
				switch r.Intn(4) {
				case 0:
					acts = append(acts, htAct{Op: "S"})
				case 1:
					acts = append(acts, htAct{Op: "T", D: []int{1, 50, 1000, 100000}[r.Intn(4)]})
				default:
					acts = append(acts, htAct{Op: "A", D: iv})
				}
			}
		}
		trAddrClass = []string{"lower", "lower", "upper", "mixed", "unicode"}[r.Intn(5)]
		if want(idx) {
			emitHttp(em, t, idx, iv, tmo, acts, "random")
		}
		trAddrClass = "lower"
		idx++
	}
}

// TestC19HttpE2E: two GoatOverHttp instances over real loopback HTTP servers
// (outside any bubble; nothing here waits on a timeout to decide an outcome):
// every generated envelope written on one end is read on the other.
func TestC19HttpE2E(t *testing.T) {
	em := NewEmitter()
	defer em.Close()
	r := newRand(1904)
	idx := 0
	var aAddr, bAddr string
	bConns := make(chan goat.RpcReadWriter, 4)
	gohA := goat.NewGoatOverHttp(func(string, goat.RpcReadWriter) {}, func(string) (string, error) { return bAddr, nil })
	gohB := goat.NewGoatOverHttp(func(_ string, rw goat.RpcReadWriter) { bConns <- rw }, func(src string) (string, error) {
		if src == "" {
			return "", errors.New("no source")
		}
		return aAddr, nil
	})
	defer gohA.Cancel()
	defer gohB.Cancel()
	srvA := httptest.NewServer(gohA)
	srvB := httptest.NewServer(gohB)
	defer srvA.Close()
	defer srvB.Close()
	aAddr, bAddr = strings.TrimPrefix(srvA.URL, "http://"), strings.TrimPrefix(srvB.URL, "http://")
	toB := gohA.NewConnection(bAddr)

	extra := 10
	if thorough() {
		extra = 120
	}
	nEdgeReplayed := 0
	envs := genEnvelopes(r, trBodySizes(), extra)
	envs = append(envs, genEdgeEnvelopes(newRand(1914))...) // 1 MiB - 4096, 1 MiB - 1, 1 MiB, 1 MiB in the largest envelope
	var fromA goat.RpcReadWriter
	// Every envelope is followed by a small marker envelope. The far end reads until the marker: what it
	// read before it is what arrived of the envelope (a POST is answered only once its envelope has been
	// handed to a Read, and Writes here are sequential, so arrival is in order). An envelope that is
	// refused or lost on the way shows as "nothing before the marker" - no timeout decides anything.
	nmark := uint64(0)
	isMarker := func(x *Rpc, k uint64) bool {
		return x.GetHeader().GetMethod() == "/verif.rig/marker" && x.GetId() == k
	}
	// exchange writes e and its marker on toB and returns Write's error and what the far end read before the marker
	exchange := func(write func() error) (error, []*Rpc, error) {
		nmark++
		k := nmark
		type rr struct {
			got []*Rpc
			err error
		}
		res := make(chan rr, 1)
		go func() {
			if fromA == nil {
				fromA = <-bConns
			}
			var got []*Rpc
			for {
				rpc, err := fromA.Read(context.Background())
				if err != nil {
					res <- rr{got, err}
					return
				}
				if isMarker(rpc, k) {
					res <- rr{got, nil}
					return
				}
				got = append(got, rpc)
			}
		}()
		werr := write()
		if err := toB.Write(context.Background(), &Rpc{Id: k, Header: &goatorepo.RequestHeader{Method: "/verif.rig/marker", Source: "A"}}); err != nil {
			t.Fatalf("write of the marker: %v", err)
		}
		x := <-res // blocks for ever if even the marker is lost: the rig's timeout reports it
		return werr, x.got, x.err
	}
	for i := 0; i < len(envs); {
		group := []genEnv{}
		var big *bigRef
		for i < len(envs) && len(group) < 6 {
			if envs[i].Big != nil {
				if big != nil {
					break
				}
				big = envs[i].Big
			}
			group = append(group, envs[i])
			i++
		}
		if !want(idx) {
			idx++
			continue
		}
		em.Marker("begin", idx)
		var written, oks, read []string
		sizes := []int{}
		for _, g := range group {
			e := proto.Clone(g.E).(*Rpc)
			if e.Header == nil {
				e.Header = &goatorepo.RequestHeader{}
			}
			if e.Header.Source == "" {
				e.Header.Source = "A"
			}
			written = append(written, coqRpc(e, big))
			sizes = append(sizes, proto.Size(e))
			werr, got, rerr := exchange(func() error { return toB.Write(context.Background(), e) })
			oks = append(oks, coqBool(werr == nil))
			if rerr != nil || len(got) != 1 { // nothing (or more than the one envelope) arrived before the marker
				read = append(read, "None")
			} else {
				read = append(read, coqOptRpc(got[0], big))
			}
		}
		tags := []string{"http:e2e"}
		e2eCase := "CHttpE2E" // replayed on the link model (Model/HttpLink.v)
		if big != nil && big.cyc {
			tags = append(tags, "http:e2e-edge-size")
			nEdgeReplayed++
			if !thorough() && nEdgeReplayed > 1 { // quick: one megabyte case is replayed, the others are judged without
				e2eCase = "CHttpE2EQ"
				tags = append(tags, "http:e2e-no-replay")
			}
		}
		em.Emit(Rec{Idx: idx, Kind: "http-e2e", Desc: map[string]any{"envelopes": len(group), "encoded_sizes": sizes},
			Obs: map[string]any{"writes_ok": oks},
			Coq: big.coqLet(fmt.Sprintf("%s %s %s %s", e2eCase, coqList(written), coqList(oks), coqList(read))), Tags: tags})
		em.Marker("end", idx)
		idx++
	}

	// Raw requests against the far end's listener, framed by hand: a chunked body (unknown length), a
	// Content-Length larger than what is sent (the connection then ends: unreadable), a Content-Length
	// smaller than what is sent (net/http hands ServeHTTP the prefix). What ServeHTTP is given to read
	// is judged by the model's classification; the marker tells what was delivered.
	small := &Rpc{Id: 77, Header: &goatorepo.RequestHeader{Method: "/s/m", Source: "A", Destination: "srv"}, Body: &goatorepo.Body{Data: []byte("raw-request-payload")}}
	edge := genEdgeEnvelopes(newRand(1915))[2] // exactly 1 MiB
	edge.E.Header.Source = "A"
	type rawCase struct {
		name string
		env  genEnv
		mode string // chunked | long | short
	}
	for _, rc := range []rawCase{{"chunked-small", genEnv{E: small}, "chunked"}, {"chunked-1MiB", edge, "chunked"},
		{"content-length-too-large", genEnv{E: small}, "long"}, {"content-length-too-small", genEnv{E: small}, "short"},
		{"content-length-too-small-1MiB", edge, "short"}} {
		if !want(idx) {
			idx++
			continue
		}
		em.Marker("begin", idx)
		data, err := proto.Marshal(rc.env.E)
		if err != nil {
			t.Fatal(err)
		}
		given := "BUnreadable"
		status := 0
		_, got, rerr := exchange(func() error {
			conn, err := net.Dial("tcp", bAddr)
			if err != nil {
				t.Fatalf("dial: %v", err)
			}
			defer conn.Close()
			var req bytes.Buffer
			req.WriteString("POST / HTTP/1.1\r\nHost: " + bAddr + "\r\nContent-Type: application/octet-stream\r\nConnection: close\r\n")
			switch rc.mode {
			case "chunked":
				req.WriteString("Transfer-Encoding: chunked\r\n\r\n")
				for rest, n := data, 0; len(rest) > 0; n++ {
					k := 1 + (n*7919)%60000
					if k > len(rest) {
						k = len(rest)
					}
					fmt.Fprintf(&req, "%x\r\n", k)
					req.Write(rest[:k])
					req.WriteString("\r\n")
					rest = rest[k:]
				}
				req.WriteString("0\r\n\r\n")
				given = "(BBytes " + coqBytesBig(data, rc.env.Big) + ")"
			case "long":
				fmt.Fprintf(&req, "Content-Length: %d\r\n\r\n", len(data)+10)
				req.Write(data)
			case "short":
				fmt.Fprintf(&req, "Content-Length: %d\r\n\r\n", len(data)-5)
				req.Write(data)
				given = "(BBytes " + coqBytesBig(data[:len(data)-5], rc.env.Big) + ")"
				if rc.env.Big != nil { // the prefix of the big body is not the bound variable: spell the cut differently
					given = "(BBytes (firstn (Z.to_nat " + fmt.Sprint(len(data)-5) + ") " + coqBytesBig(data, rc.env.Big) + "))"
				}
			}
			if _, err := conn.Write(req.Bytes()); err != nil {
				t.Fatalf("raw write: %v", err)
			}
			if tc, ok := conn.(*net.TCPConn); ok {
				tc.CloseWrite() // nothing more will come: a body that is shorter than announced ends here
			}
			resp, err := http.ReadResponse(bufio.NewReader(conn), nil)
			if err != nil {
				t.Fatalf("raw response: %v", err)
			}
			status = resp.StatusCode
			resp.Body.Close()
			return nil
		})
		delivered := "None"
		if rerr == nil && len(got) == 1 {
			delivered = coqOptRpc(got[0], rc.env.Big)
		} else if len(got) > 1 {
			delivered = "(Some (mkRpc 0%N None None None None None))" // more than one envelope out of one request: never right
			status = -status
		}
		em.Emit(Rec{Idx: idx, Kind: "http-raw-request", Desc: map[string]any{"what": rc.name, "encoded_size": len(data)},
			Obs: map[string]any{"status": status, "delivered": len(got)},
			Coq: rc.env.Big.coqLet(fmt.Sprintf("CHttpRaw %s %d %s", given, status, delivered)), Tags: []string{"http:raw-" + rc.mode}})
		em.Marker("end", idx)
		idx++
	}

	// concurrent writers on ONE HTTP connection (free-running): per writer the Writes are sequential (each returns
	// after the hand-off), so every writer's order must be kept, every envelope arrives exactly once
	for _, k := range []int{2, 8} {
		if want(idx) {
			em.Marker("begin", idx)
			res := concWriters(k, 60, toB.Write, func(ctx context.Context) (*Rpc, error) {
				if fromA == nil {
					fromA = <-bConns
				}
				return fromA.Read(ctx)
			})
			emitConc(em, idx, "http", k, 60, res)
			em.Marker("end", idx)
		}
		idx++
	}

	// A fault between the delivery and its answer: the far end hands the envelope to its reader, then the TCP
	// connection drops before the 200 gets back (the handler around ServeHTTP aborts after ServeHTTP returned).
	// ServeHTTP answers only AFTER the hand-off, so a lost RESPONSE is not a lost envelope: whatever Write makes of
	// the failure (an error today; a second POST in a change like seeded/C19_7), the receiver reads every envelope
	// AT MOST once, in write order. Placements: the fault on the first, on the middle, on two envelopes in a row.
	for _, faults := range [][]bool{{true, false, false}, {false, true, false}, {true, true, false}, {false, false, true}} {
		if want(idx) {
			em.Marker("begin", idx)
			var abortNext atomic.Bool
			fConns := make(chan goat.RpcReadWriter, 4)
			gohF := goat.NewGoatOverHttp(func(_ string, rw goat.RpcReadWriter) { fConns <- rw }, func(string) (string, error) { return aAddr, nil })
			srvF := httptest.NewServer(http.HandlerFunc(func(w http.ResponseWriter, r *http.Request) {
				gohF.ServeHTTP(w, r)
				if abortNext.CompareAndSwap(true, false) {
					panic(http.ErrAbortHandler) // the envelope has been handed over; the answer never leaves
				}
			}))
			toF := gohA.NewConnection(strings.TrimPrefix(srvF.URL, "http://"))
			type rr struct {
				got []*Rpc
			}
			res := make(chan rr, 1)
			go func() {
				rw := <-fConns
				var got []*Rpc
				for {
					x, err := rw.Read(context.Background())
					if err != nil || x.GetHeader().GetMethod() == trConcMarker {
						res <- rr{got}
						return
					}
					got = append(got, x)
				}
			}()
			var written, oks, read []string
			for i, f := range faults {
				e := &Rpc{Id: uint64(500 + i), Header: &goatorepo.RequestHeader{Method: fmt.Sprintf("/fault/%d", i), Source: "A", Destination: "srv"},
					Body: &goatorepo.Body{Data: []byte(fmt.Sprintf("payload-%d", i))}}
				abortNext.Store(f)
				err := toF.Write(context.Background(), e)
				abortNext.Store(false)
				written = append(written, coqRpc(e, nil))
				oks = append(oks, coqBool(err == nil))
			}
			if err := toF.Write(context.Background(), &Rpc{Id: 1, Header: &goatorepo.RequestHeader{Method: trConcMarker, Source: "A"}}); err != nil {
				t.Fatalf("write of the marker: %v", err)
			}
			x := <-res
			for _, g := range x.got {
				read = append(read, coqRpc(g, nil))
			}
			em.Emit(Rec{Idx: idx, Kind: "http-e2e-fault", Desc: map[string]any{"fault_after_delivery_on": faults},
				Obs: map[string]any{"writes_ok": oks, "read": len(x.got)},
				Coq: fmt.Sprintf("CHttpE2EFault %s %s %s", coqList(written), coqList(oks), coqList(read)), Tags: []string{"http:e2e-fault"}})
			em.Marker("end", idx)
			gohF.Cancel()
			srvF.CloseClientConnections()
			go srvF.Close()
		}
		idx++
	}

	// a Write whose POST is parked (nobody reads on the far side) returns once its context is done - BECAUSE of its
	// context. The far end runs on a fake clock that does not move, so nothing but the context can end the POST.
	// (With a real clock its idle cleaner answers 503 after a minute, and since Write reports that status as an error
	// "Write returned an error" would say nothing about the context: seeded/C19_4 slipped through that way for the
	// time of one trial.) Should Write not come back, the wait is bounded, the fake clock is then moved so that the far
	// end releases the request, and the verdict is read off the KIND of error: only the context's own counts.
	if want(idx) {
		em.Marker("begin", idx)
		fcC := clockwork.NewFakeClockAt(time.Unix(trEpoch, 0))
		gohC := goat.NewGoatOverHttp(func(string, goat.RpcReadWriter) {}, func(string) (string, error) { return "nobody:1", nil },
			goat.WithClock(fcC), goat.WithConnectionCleanupInterval(time.Second), goat.WithConnectionTimeout(time.Second))
		srvC := httptest.NewServer(gohC)
		conn := gohA.NewConnection(strings.TrimPrefix(srvC.URL, "http://"))
		ctx, cancel := context.WithCancel(context.Background())
		done := make(chan error, 1)
		go func() {
			done <- conn.Write(ctx, &Rpc{Id: 1, Header: &goatorepo.RequestHeader{Source: "A"}})
		}()
		stillBlocked := false
		select {
		case <-done:
		case <-time.After(150 * time.Millisecond): // only to see that it is parked; the verdict does not depend on it
			stillBlocked = true
		}
		cancel()
		var err error
		released := false
		select {
		case err = <-done:
		case <-time.After(20 * time.Second): // Write ignores its context: let the far end answer, so that the case ends
			released = true
			for waiting := true; waiting; {
				fcC.Advance(2 * time.Second)
				select {
				case err = <-done:
					waiting = false
				case <-time.After(2 * time.Millisecond):
				}
			}
		}
		em.Emit(Rec{Idx: idx, Kind: "http-write-ctx", Desc: "Write parked in a POST that nobody answers; context cancelled",
			Obs: map[string]any{"parked_before_cancel": stillBlocked, "err": fmt.Sprint(err), "released_by_far_end": released},
			Coq: fmt.Sprintf("CAssert 1 %s", coqBool(errors.Is(err, context.Canceled))), Tags: []string{"http:write-ctx"}})
		em.Marker("end", idx)
		gohC.Cancel()
		srvC.CloseClientConnections()
		go srvC.Close()
	}
	idx++

	// What Write says when the far end did NOT take the envelope (regression of the defect http-write-ignores-status,
	// fixed in /repo 2aacfa6: Write looked at the transport error of the POST only, never at the status of the
	// answer): (a) the far end answers 503 because the connection the request was parked on is removed by the idle
	// cleaner before anybody read it; (b) the far end answers 400 because it cannot map the envelope's source. In
	// both the envelope is not delivered, and Write must say so: a nil from Write means "answered 200", and a
	// request is answered 200 only once its envelope has been handed to a Read.
	for _, variant := range []string{"503-removed-while-parked", "400-unmappable-source"} {
		if want(idx) {
			em.Marker("begin", idx)
			fc := clockwork.NewFakeClockAt(time.Unix(trEpoch, 0))
			gohD := goat.NewGoatOverHttp(func(string, goat.RpcReadWriter) {}, func(string) (string, error) {
				if variant == "400-unmappable-source" {
					return "", errors.New("unknown source")
				}
				return "sender:1", nil
			}, goat.WithClock(fc), goat.WithConnectionCleanupInterval(time.Second), goat.WithConnectionTimeout(time.Second))
			srvD := httptest.NewServer(gohD)
			conn := gohA.NewConnection(strings.TrimPrefix(srvD.URL, "http://"))
			done := make(chan error, 1)
			go func() {
				done <- conn.Write(context.Background(), &Rpc{Id: 9, Header: &goatorepo.RequestHeader{Method: "/s/m", Source: "A", Destination: "srv"},
					Body: &goatorepo.Body{Data: []byte("lost?")}})
			}()
			var werr error
			for waiting := true; waiting; { // the fake clock moves on until the far end has answered; the pause only paces the loop
				fc.Advance(2 * time.Second)
				select {
				case werr = <-done:
					waiting = false
				case <-time.After(2 * time.Millisecond):
				}
			}
			// ... and the refusal concerns this envelope only: the sender's connection stays registered
			kept := false
			for _, a := range gohA.VerifHttpConns() {
				kept = kept || a == strings.TrimPrefix(srvD.URL, "http://")
			}
			em.Emit(Rec{Idx: idx, Kind: "http-write-refused", Desc: map[string]any{"variant": variant, "what": "the far end answers " + variant[:3] + " and does not deliver; nobody ever reads the envelope"},
				Obs: map[string]any{"write_err": fmt.Sprint(werr), "connection_kept": kept},
				Coq: fmt.Sprintf("CAssert 3 %s", coqBool(werr != nil && kept)), Tags: []string{"http:write-refused"}})
			em.Marker("end", idx)
			gohD.Cancel()
			srvD.CloseClientConnections()
			go srvD.Close()
		}
		idx++
	}

	// Free-running stress of the connection TABLE (real concurrency, no bubble): for many new sources, 8 concurrent FIRST
	// requests of the same source reach ServeHTTP at once. Lookup-or-create must be one critical section: OnConnect exactly
	// once per source, one connection per address in the table. Every announced connection gets a reader; when the traffic
	// is over the fake clock runs past the idle timeout and EVERY reader must fail - one that does not belongs to a
	// connection that is in no table (created twice, the second overwrote the first): the idle sweep never reaches it.
	if want(idx) {
		em.Marker("begin", idx)
		fc := clockwork.NewFakeClockAt(time.Unix(trEpoch, 0))
		var mu sync.Mutex
		announced := map[string]int{}
		readers, finished := 0, 0
		gohT := goat.NewGoatOverHttp(func(addr string, rw goat.RpcReadWriter) {
			mu.Lock()
			announced[addr]++
			readers++
			mu.Unlock()
			for {
				if _, err := rw.Read(context.Background()); err != nil {
					mu.Lock()
					finished++
					mu.Unlock()
					return
				}
			}
		}, func(src string) (string, error) { return "stress " + src, nil },
			goat.WithClock(fc), goat.WithConnectionCleanupInterval(time.Second), goat.WithConnectionTimeout(2*time.Second))
		const sources, conc = 400, 8
		for n := 0; n < sources; n++ {
			start := make(chan struct{})
			var wg sync.WaitGroup
			for g := 0; g < conc; g++ {
				wg.Add(1)
				go func(g int) {
					defer wg.Done()
					b, _ := proto.Marshal(&Rpc{Id: uint64(n*100 + g), Header: &goatorepo.RequestHeader{Method: "/s/m", Source: fmt.Sprintf("s%d", n), Destination: "srv"}})
					req := httptest.NewRequest("POST", "http://goat.test/", bytes.NewReader(b))
					<-start
					gohT.ServeHTTP(httptest.NewRecorder(), req)
				}(g)
			}
			close(start)
			wg.Wait()
		}
		// the same through NewConnection (retrieve with nothing in front of it: the tightest race): 8 goroutines leave a
		// spinning barrier together and ask for the connection of one new address; they must all get the SAME connection
		split := 0
		for n := 0; n < 3000; n++ {
			addr := fmt.Sprintf("direct %d", n)
			var got [conc]goat.RpcReadWriter
			var arrived atomic.Int32
			var wg sync.WaitGroup
			for g := 0; g < conc; g++ {
				wg.Add(1)
				go func(g int) {
					defer wg.Done()
					arrived.Add(1)
					for arrived.Load() < conc {
					}
					got[g] = gohT.NewConnection(addr)
				}(g)
			}
			wg.Wait()
			for g := 1; g < conc; g++ {
				if got[g] != got[0] {
					split++
					break
				}
			}
		}
		// the traffic is over: idle timeout. The bound only ends the wait for readers that will never fail.
		deadline := time.Now().Add(10 * time.Second)
		for {
			fc.Advance(3 * time.Second)
			time.Sleep(2 * time.Millisecond)
			mu.Lock()
			done := finished == readers
			mu.Unlock()
			if done || time.Now().After(deadline) {
				break
			}
		}
		mu.Lock()
		dup := 0
		for _, c := range announced {
			if c != 1 {
				dup++
			}
		}
		stuck, nAnn := readers-finished, len(announced)
		mu.Unlock()
		em.Emit(Rec{Idx: idx, Kind: "http-table-stress", Desc: map[string]any{"sources": sources, "concurrent_first_requests": conc},
			Obs: map[string]any{"addresses_announced": nAnn, "announced_more_than_once": dup, "readers": readers, "readers_not_failed_by_idle_timeout": stuck,
				"addresses_with_two_connections_of_3000": split},
			Coq: fmt.Sprintf("CAssert 7 %s", coqBool(dup == 0 && stuck == 0 && nAnn == sources && split == 0)), Tags: []string{"http:table-stress"}})
		em.Marker("end", idx)
		gohT.Cancel()
	}
	idx++
}

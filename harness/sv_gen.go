//go:build sv

package verifharness

import (
	"fmt"
	"math/rand"
)

// Scenario generators for the server rig.

const (
	mUnary  = "/verif.Echo/Unary"
	mUnary2 = "/verif.Echo/Unary2"
	mBidi   = "/verif.Echo/Bidi"
	mCStr   = "/verif.Echo/CStream"
	mSStr   = "/verif.Echo/SStream"
)

// svAlphabet: the envelope shapes of C12, over two stream ids a, b and a unary id u.
// pay is the base of the payload tokens (so that payloads differ between positions).
func svAlphabet(a, b, u uint64, pay int64) []*FrameSpec {
	ok := &[2]int64{0, 0}
	bad := &[2]int64{5, 7}
	return []*FrameSpec{
		/* 0 */ {Id: u, Hdr: "ok:0", Method: mUnary, Src: "src", Dst: "dst", Body: i64(pay + 1)}, // valid unary
		/* 1 */ {Id: u, Hdr: "ok:9", Method: mUnary2, Src: "src2", Dst: "dst", Body: i64(pay + 2)}, // valid unary, metadata, other source
		/* 2 */ {Id: u, Hdr: "ok:0", Method: mUnary, Src: "src", Dst: "dst"}, // unary without body
		/* 3 */ {Id: u, Hdr: "ok:0", Method: mUnary, Src: "src", Dst: "dst", Body: i64(-1)}, // body that does not unmarshal
		/* 4 */ {Id: u, Hdr: "bad", Method: mUnary, Src: "src", Dst: "dst", Body: i64(pay + 3)}, // undecodable -bin metadata
		/* 5 */ {Id: u, Hdr: "ok:0", Method: mUnary, Src: "src", Dst: "elsewhere", Body: i64(pay + 4)}, // wrong destination
		/* 6 */ {Id: u, Hdr: "none", Body: i64(pay + 5)}, // no header
		/* 7 */ {Id: a, Hdr: "none"}, // empty envelope
		/* 8 */ {Id: u, Hdr: "ok:0", Method: "nomethod", Src: "src", Dst: "dst", Body: i64(pay + 6)}, // method without '/'
		/* 9 */ {Id: u, Hdr: "ok:0", Method: "", Src: "src", Dst: "dst", Body: i64(pay + 7)}, // empty method
		/* 10 */ {Id: u, Hdr: "ok:0", Method: "/other.Svc/Unary", Src: "src", Dst: "dst", Body: i64(pay + 8)}, // unknown service
		/* 11 */ {Id: u, Hdr: "ok:0", Method: "/verif.Echo/Nope", Src: "src", Dst: "dst", Body: i64(pay + 9)}, // unknown method
		/* 12 */ {Id: u, Hdr: "ok:0", Method: "verif.Echo/Unary", Src: "src", Dst: "dst", Body: i64(pay + 10)}, // no leading '/': valid
		/* 13 */ {Id: a, Hdr: "ok:0", Method: mBidi, Src: "src", Dst: "dst"}, // open a
		/* 14 */ {Id: b, Hdr: "ok:1", Method: mCStr, Src: "src", Dst: "dst"}, // open b with metadata
		/* 15 */ {Id: a, Hdr: "bad", Method: mBidi, Src: "src", Dst: "dst"}, // open a, undecodable metadata
		/* 16 */ {Id: a, Hdr: "ok:0", Method: mBidi, Src: "src", Dst: "dst", Body: i64(pay + 11)}, // body a
		/* 17 */ {Id: b, Hdr: "ok:0", Method: mCStr, Src: "src", Dst: "dst", Body: i64(pay + 12)}, // body b
		/* 18 */ {Id: a, Hdr: "ok:0", Method: mBidi, Src: "src", Dst: "dst", Status: ok, Trl: "ok:0"}, // close a
		/* 19 */ {Id: b, Hdr: "ok:0", Method: mCStr, Src: "src", Dst: "dst", Status: bad, Trl: "ok:0"}, // close b with an error status
		/* 20 */ {Id: a, Hdr: "ok:0", Method: mBidi, Src: "src", Dst: "dst", Trl: "ok:0", Rst: "rst"}, // reset a
		/* 21 */ {Id: b, Hdr: "ok:0", Method: mCStr, Src: "src", Dst: "dst", Rst: "rst"}, // reset b (no trailer)
		/* 22 */ {Id: a, Hdr: "ok:0", Method: mBidi, Src: "src", Dst: "dst", Rst: "other"}, // Reset of another type: not a reset
		/* 23 */ {Id: a, Hdr: "ok:0", Method: mBidi, Src: "src", Dst: "elsewhere"}, // open a, wrong destination
		/* 24 */ {Id: a, Hdr: "ok:0", Method: mBidi, Src: "src", Dst: "dst", Body: i64(-1)}, // body a that does not unmarshal
		/* 25 */ {Id: b, Hdr: "ok:0", Method: mSStr, Src: "src", Dst: "dst", Body: i64(pay + 13), Status: ok, Trl: "ok:0"}, // body + trailer on b, other stream method
		/* 26 */ {Id: a, Hdr: "ok:0", Method: mUnary, Src: "src", Dst: "dst", Body: i64(pay + 14), Status: bad, Trl: "bad", Rst: "rst"}, // unary request with every other field set, on a stream's id
		/* 27 */ {Id: a, Hdr: "ok:0", Method: mBidi, Src: "src", Dst: "dst", Body: i64(0)}, // body a whose payload is EMPTY (a zero-valued message): still a body
		// the SOURCE of the envelope: empty, the server's own name, long and non-ASCII - on the reset paths, an opener, a unary request
		/* 28 */ {Id: a, Hdr: "ok:0", Method: mBidi, Src: "", Dst: "dst", Body: i64(pay + 15)}, // body a, empty source
		/* 29 */ {Id: b, Hdr: "bad", Method: mCStr, Src: "", Dst: "dst"}, // open b, undecodable metadata, empty source
		/* 30 */ {Id: a, Hdr: "ok:0", Method: mBidi, Src: "", Dst: "dst"}, // open a, empty source
		/* 31 */ {Id: b, Hdr: "ok:0", Method: mCStr, Src: "dst", Dst: "dst", Body: i64(pay + 16)}, // body b, source = the server's own name
		/* 32 */ {Id: u, Hdr: "ok:0", Method: mUnary, Src: "", Dst: "dst", Body: i64(pay + 17)}, // unary request, empty source
		/* 33 */ {Id: a, Hdr: "ok:0", Method: mBidi, Src: svLongName, Dst: "dst", Body: i64(pay + 18)}, // body a, long non-ASCII source
	}
}

var svAlphabetNames = []string{"unary", "unary-md", "unary-nobody", "unary-badbody", "unary-badmd", "unary-wrongdst", "nohdr", "empty",
	"badmethod", "emptymethod", "unksvc", "unkmethod", "noslash", "open-a", "open-b", "open-badmd", "body-a", "body-b", "close-a",
	"close-b-err", "rst-a", "rst-b", "rst-othertype", "open-wrongdst", "badbody-a", "body+trl-b", "unary-allfields", "emptybody-a", "body-a-nosrc", "open-b-badmd-nosrc", "open-a-nosrc", "body-b-ownsrc", "unary-nosrc", "body-a-longsrc"}

func svRandHop(r *rand.Rand, unary bool) *HopSpec {
	mds := []int64{1, 8, 64, 9}
	x := r.Intn(100)
	if unary {
		switch {
		case x < 12:
			return &HopSpec{Op: "sethdr", T: mds[r.Intn(len(mds))]}
		case x < 18:
			return &HopSpec{Op: "sendhdr", T: mds[r.Intn(len(mds))]}
		case x < 28:
			return &HopSpec{Op: "settrl", T: mds[r.Intn(len(mds))]}
		case x < 36:
			return &HopSpec{Op: "await"}
		}
		return svRandReturn(r, true)
	}
	switch {
	case x < 30:
		return &HopSpec{Op: "recv"}
	case x < 50:
		return &HopSpec{Op: "send", B: int64(700 + r.Intn(200))}
	case x < 57:
		return &HopSpec{Op: "sethdr", T: mds[r.Intn(len(mds))]}
	case x < 64:
		return &HopSpec{Op: "sendhdr", T: mds[r.Intn(len(mds))]}
	case x < 71:
		return &HopSpec{Op: "settrl", T: mds[r.Intn(len(mds))]}
	case x < 78:
		return &HopSpec{Op: "await"}
	}
	return svRandReturn(r, false)
}

func svRandReturn(r *rand.Rand, unary bool) *HopSpec {
	h := &HopSpec{Op: "return"}
	if unary && r.Intn(5) != 0 {
		h.Rep = i64(int64(300 + r.Intn(300)))
	}
	switch r.Intn(8) {
	case 0:
		h.Err, h.Code, h.Msg = "status", int64(1+r.Intn(16)), int64(1+r.Intn(50))
	case 1:
		h.Err = "canceled"
	case 2:
		h.Err = "deadline"
	case 3:
		h.Err, h.Msg = "plain", int64(1+r.Intn(50))
	}
	if unary && h.Rep == nil && h.Err == "" && r.Intn(3) != 0 {
		h.Rep = i64(0)
	}
	return h
}

// svWalk: a random walk of n actions over deliveries (ids 1..3), handler operations and transport faults.
func svWalk(rnd *rand.Rand, n int, faults bool) func(r *svRig, step int) *SAct {
	ended := false
	wblocked, wfail := false, false
	return func(r *svRig, step int) *SAct {
		if step >= n {
			return nil
		}
		for {
			x := rnd.Intn(100)
			switch {
			case x < 45:
				ids := []uint64{1, 2, 3}
				al := svAlphabet(ids[rnd.Intn(3)], ids[rnd.Intn(3)], uint64(4+rnd.Intn(3)), int64(1000+10*step))
				return &SAct{Op: "deliver", F: al[rnd.Intn(len(al))]}
			case x < 88:
				if len(r.hs) == 0 {
					continue
				}
				// prefer handlers that have not returned
				var live []int
				for i, h := range r.hs {
					if !h.returned {
						live = append(live, i)
					}
				}
				h := rnd.Intn(len(r.hs))
				if len(live) > 0 && rnd.Intn(8) != 0 {
					h = live[rnd.Intn(len(live))]
				}
				hop := svRandHop(rnd, r.hs[h].unary)
				if !faults && hop.Op == "await" && r.hs[h].ctx.Err() == nil {
					// without faults nothing but the end of the connection would wake it
					hop = &HopSpec{Op: "settrl", T: 8}
				}
				return &SAct{Op: "hstep", H: h, Hop: hop}
			case x < 92 && faults:
				wblocked = !wblocked
				return &SAct{Op: "wblock", On: wblocked}
			case x < 94 && faults:
				wfail = !wfail
				return &SAct{Op: "wfail", On: wfail}
			case x < 97 && faults && !ended && step > n/2:
				ended = true
				return &SAct{Op: []string{"failread", "stop", "cancelserve"}[rnd.Intn(3)]}
			case x < 98 && faults && step > n/3:
				return &SAct{Op: []string{"failread", "stop", "cancelserve"}[rnd.Intn(3)]}
			}
		}
	}
}

func svTagsOf(res svResult) []string {
	seen := map[string]bool{}
	var out []string
	add := func(s string) {
		if !seen[s] {
			seen[s] = true
			out = append(out, s)
		}
	}
	for _, a := range res.Acts {
		if a.Op == "hstep" {
			add("hop:" + a.Hop.Op)
		} else {
			add("act:" + a.Op)
		}
	}
	for _, o := range res.Obs {
		if o.Reg < 0 {
			add("obs:mu-held")
		}
		if o.Inbox > 0 {
			add("obs:read-loop-blocked")
		}
		if o.Serve {
			add("obs:serve-returned")
		}
		if o.WBlocked {
			add("obs:write-blocked")
		}
	}
	add(fmt.Sprintf("steps=%d", len(res.Acts)/10*10))
	return out
}

module github.com/avos-io/goat/verifharness

go 1.26.8

require (
	github.com/avos-io/goat v0.0.0
	github.com/coder/websocket v1.8.12
	github.com/jonboulle/clockwork v0.4.0
	github.com/rs/zerolog v1.33.0
	golang.org/x/sync v0.8.0
	google.golang.org/genproto/googleapis/rpc v0.0.0-20240827150818-7e3bb234dfed
	google.golang.org/grpc v1.66.0
	google.golang.org/protobuf v1.34.2
)

require (
	github.com/mattn/go-colorable v0.1.13 // indirect
	github.com/mattn/go-isatty v0.0.20 // indirect
	github.com/pkg/errors v0.9.1 // indirect
	golang.org/x/net v0.28.0 // indirect
	golang.org/x/sys v0.24.0 // indirect
	golang.org/x/text v0.17.0 // indirect
)

replace github.com/avos-io/goat => /repo

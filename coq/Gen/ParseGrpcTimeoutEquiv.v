(* Equivalence of the definition REGENERATED from server.go (parseGrpcTimeout,
   tools/go2coq -> ParseGrpcTimeoutGen.v) with the hand-written model
   Model/Timeout.v [parse]. *)
From Coq Require Import Lia ZArith List.
From Goat Require Import Base.Bytes Model.Timeout Proofs.TimeoutProofs Gen.GoPrims Gen.GoLemmas.
From GoatGen Require Import ParseGrpcTimeoutGen.
Open Scope Z_scope.

Definition timeout_result (o : option Z) : goresult (Z * bool) :=
  match o with Some d => GoOk (d, true) | None => GoOk (0, false) end.

(* the digit test of the loop, on Z, is is_digit *)
Lemma digit_test c : ((Z.of_N c <? 48) || (Z.of_N c >? 57)) = negb (is_digit c).
Proof.
  unfold is_digit.
  destruct (N.leb_spec 48 c); destruct (N.leb_spec c 57); cbn;
    destruct (Z.ltb_spec (Z.of_N c) 48); destruct (Z.gtb_spec (Z.of_N c) 57); cbn; try reflexivity; lia.
Qed.

(* the index loop over the digits: first non-digit => (0, false) *)
Lemma digits_loop (post pre : bytes) :
  go_loop (map Z.of_nat (seq (length pre) (length post))) tt
    (fun _ g_i =>
       if negb (go_index_ok (pre ++ post) g_i &&
                (negb (negb (go_index (pre ++ post) g_i <? 48)) || go_index_ok (pre ++ post) g_i))
       then LReturn (@GoPanic (Z * bool))
       else if (go_index (pre ++ post) g_i <? 48) || (go_index (pre ++ post) g_i >? 57)
            then LReturn (GoOk (0, false))
            else LContinue tt)
  = if forallb is_digit post then LContinue tt else LReturn (GoOk (0, false)).
Proof.
  revert pre. induction post as [|c post IH]; intro pre; [reflexivity|].
  cbn [length seq map go_loop forallb].
  change (Z.of_nat (length pre)) with (go_len pre).
  rewrite go_index_ok_middle, go_index_middle. rewrite orb_true_r. cbn [andb negb].
  rewrite digit_test. destruct (is_digit c); cbn [negb andb]; [|reflexivity].
  specialize (IH (pre ++ [c])). rewrite <- app_assoc in IH. cbn [app] in IH.
  rewrite app_length in IH. cbn [length] in IH. rewrite Nat.add_1_r in IH. exact IH.
Qed.

Lemma forallb_rev {X} (f : X -> bool) l : forallb f (rev l) = forallb f l.
Proof.
  induction l as [|x l IH]; [reflexivity|]. cbn [rev forallb].
  rewrite forallb_app, IH. cbn. rewrite andb_true_r. apply andb_comm.
Qed.

(* strconv.ParseInt on a digit string is the model's parse_uint63_le on its reverse *)
Lemma parse_int_digits ds :
  forallb is_digit ds = true ->
  go_parse_int64 ds = match parse_uint63_le (rev ds) with Some v => (v, false) | None => (0, true) end.
Proof.
  intro Hd. unfold go_parse_int64, parse_uint63_le, go_parse_unsigned.
  destruct ds as [|c r]; [reflexivity|].
  assert (Hc : is_digit c = true) by (cbn [forallb] in Hd; apply andb_true_iff in Hd; tauto).
  assert (H43 : N.eqb c 43 = false /\ N.eqb c 45 = false).
  { unfold is_digit in Hc. apply andb_true_iff in Hc as [H1 H2]. apply N.leb_le in H1, H2.
    split; apply N.eqb_neq; lia. }
  destruct H43 as [-> ->].
  rewrite forallb_rev, Hd.
  destruct (rev (c :: r)) as [|x l] eqn:Er.
  { exfalso. cbn in Er. apply app_eq_nil in Er as [_ Er]. discriminate. }
  rewrite <- Er.
  destruct (val_le (rev (c :: r)) <=? maxInt64); [|reflexivity].
  f_equal. lia.
Qed.

(* the saturating product: the code's guard and wrap are the model's *)
Lemma product v unit :
  0 <= v <= maxInt64 ->
  unit = 3600000000000 \/ unit = 60000000000 \/ unit = 1000000000 \/ unit = 1000000 \/ unit = 1000 \/ unit = 1 ->
  (if v >? go_wrap64 (go_quo go_max_int64 unit) then GoOk (go_max_int64, true)
   else GoOk (go_wrap64 (v * unit), true)) =
  timeout_result (if v >? maxInt64 / unit then Some maxInt64 else Some (v * unit)).
Proof.
  intros Hv Hu. unfold go_quo, go_max_int64, maxInt64 in *.
  assert (Hq : Z.quot 9223372036854775807 unit = 9223372036854775807 / unit).
  { apply Z.quot_div_nonneg; lia. }
  rewrite Hq.
  assert (Hb : 0 <= 9223372036854775807 / unit <= 9223372036854775807).
  { split; [apply Z.div_pos; lia|]. apply Z.div_le_upper_bound; nia. }
  rewrite go_wrap64_small by (unfold two63; lia).
  destruct (v >? 9223372036854775807 / unit) eqn:E; [reflexivity|].
  cbn [timeout_result]. f_equal. f_equal.
  apply go_wrap64_small. unfold two63.
  assert (v <= 9223372036854775807 / unit) by (destruct (Z.gtb_spec v (9223372036854775807 / unit)); [discriminate|lia]).
  assert (unit * (9223372036854775807 / unit) <= 9223372036854775807) by (apply Z.mul_div_le; lia).
  nia.
Qed.

(* for every byte string: the same duration (saturated), or "not a timeout"
   for the same strings; no index, slice or division ever panics *)
Theorem parse_grpc_timeout_equiv : forall s, gen_parseGrpcTimeout s = timeout_result (parse s).
Proof.
  intro s. unfold gen_parseGrpcTimeout, parse. rewrite go_str_eq_nil.
  destruct (rev s) as [|u rds] eqn:Er.
  { (* s = [] *) assert (s = []) as -> by (apply (f_equal (@rev N)) in Er; rewrite rev_involutive in Er; exact Er). reflexivity. }
  assert (Hs : s = rev rds ++ [u]).
  { apply (f_equal (@rev N)) in Er. rewrite rev_involutive in Er. exact Er. }
  set (ds := rev rds) in *. assert (Hrds : rds = rev ds) by (subst ds; symmetry; apply rev_involutive).
  subst s. clear Er.
  destruct (ds ++ [u]) as [|x0 l0] eqn:Enil; [destruct ds; discriminate|]. rewrite <- Enil. clear Enil x0 l0.
  (* suffix and digits *)
  replace (go_len (ds ++ [u]) - 1) with (go_len ds) by (rewrite go_len_app; unfold go_len; cbn; lia).
  rewrite go_index_ok_middle, go_index_middle, go_slice_ok_prefix, go_slice_prefix. cbn [negb].
  cbv zeta.
  (* the loop *)
  rewrite go_iota_len.
  pose proof (digits_loop ds []) as Hl. cbn [app length] in Hl. rewrite Hl. clear Hl.
  rewrite Hrds. unfold parse_uint63_le at 1. rewrite forallb_rev.
  destruct (forallb is_digit ds) eqn:Hd.
  2:{ destruct (rev ds); reflexivity. }
  rewrite (parse_int_digits ds Hd).
  destruct (parse_uint63_le (rev ds)) as [v|] eqn:Ep.
  2:{ unfold parse_uint63_le in Ep. rewrite forallb_rev, Hd in Ep. destruct (rev ds); [reflexivity|].
      destruct (val_le _ <=? maxInt64); [discriminate|reflexivity]. }
  assert (Hv : 0 <= v <= maxInt64).
  { unfold parse_uint63_le in Ep. rewrite forallb_rev, Hd in Ep. destruct (rev ds) as [|y l] eqn:Ey; [discriminate|].
    destruct (val_le (y :: l) <=? maxInt64) eqn:El; [|discriminate]. injection Ep as <-.
    apply Z.leb_le in El. split; [|exact El].
    assert (Hdig : forallb is_digit (y :: l) = true) by (rewrite <- Ey, forallb_rev; exact Hd).
    pose proof (val_le_bound (y :: l) Hdig) as [H0 _]. exact H0. }
  (* the parsed value, as the model sees it *)
  assert (Hp : match rev ds with
               | [] => None
               | _ => if true then (if val_le (rev ds) <=? maxInt64 then Some (val_le (rev ds)) else None) else None
               end = Some v).
  { unfold parse_uint63_le in Ep. rewrite forallb_rev, Hd in Ep. exact Ep. }
  rewrite Hp. cbn [fst snd].
  (* the unit *)
  rewrite unit_of_chain.
  change 72 with (Z.of_N 72); change 77 with (Z.of_N 77); change 83 with (Z.of_N 83);
    change 109 with (Z.of_N 109); change 117 with (Z.of_N 117); change 110 with (Z.of_N 110).
  rewrite !N_eqb_Z.
  destruct (N.eqb u 72); [apply product; [exact Hv|tauto]|].
  destruct (N.eqb u 77); [apply product; [exact Hv|tauto]|].
  destruct (N.eqb u 83); [apply product; [exact Hv|tauto]|].
  destruct (N.eqb u 109); [apply product; [exact Hv|tauto]|].
  destruct (N.eqb u 117); [apply product; [exact Hv|tauto]|].
  destruct (N.eqb u 110); [apply product; [exact Hv|tauto]|].
  reflexivity.
Qed.
Print Assumptions parse_grpc_timeout_equiv.

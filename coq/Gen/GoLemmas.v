(* Lemmas about the primitives of Gen/GoPrims.v used by the equivalence proofs. *)
From Coq Require Import Lia ZArith List.
From Goat Require Import Base.Bytes Model.Timeout Gen.GoPrims.
Open Scope Z_scope.

Lemma go_wrap64_small x : - two63 <= x < two63 -> go_wrap64 x = x.
Proof.
  intro H. unfold go_wrap64, two63 in *.
  rewrite Z.mod_small by lia. lia.
Qed.

Lemma go_len_app a b : go_len (a ++ b) = go_len a + go_len b.
Proof. unfold go_len. rewrite app_length. lia. Qed.

Lemma go_len_nonneg s : 0 <= go_len s.
Proof. unfold go_len. lia. Qed.

Lemma go_len_cons c s : go_len (c :: s) = 1 + go_len s.
Proof. unfold go_len. cbn [length]. lia. Qed.

Lemma go_index_middle pre c post : go_index (pre ++ c :: post) (go_len pre) = Z.of_N c.
Proof.
  unfold go_index, go_len. rewrite Nat2Z.id.
  rewrite app_nth2 by lia. rewrite Nat.sub_diag. reflexivity.
Qed.

Lemma go_index_ok_middle pre c post : go_index_ok (pre ++ c :: post) (go_len pre) = true.
Proof.
  unfold go_index_ok. rewrite go_len_app, go_len_cons. pose proof (go_len_nonneg pre). pose proof (go_len_nonneg post).
  apply andb_true_iff. split; [apply Z.leb_le|apply Z.ltb_lt]; lia.
Qed.

Lemma go_slice_prefix a b : go_slice (a ++ b) 0 (go_len a) = a.
Proof.
  unfold go_slice, go_len. cbn [Z.to_nat skipn]. rewrite Z.sub_0_r, Nat2Z.id.
  rewrite firstn_app, Nat.sub_diag, firstn_all. cbn. apply app_nil_r.
Qed.

Lemma go_slice_suffix a b : go_slice (a ++ b) (go_len a) (go_len (a ++ b)) = b.
Proof.
  unfold go_slice. rewrite go_len_app. replace (go_len a + go_len b - go_len a) with (go_len b) by lia.
  unfold go_len. rewrite !Nat2Z.id. rewrite skipn_app, skipn_all, Nat.sub_diag. cbn. apply firstn_all.
Qed.

Lemma go_slice_ok_prefix a b : go_slice_ok (a ++ b) 0 (go_len a) = true.
Proof.
  unfold go_slice_ok. rewrite go_len_app. pose proof (go_len_nonneg a). pose proof (go_len_nonneg b).
  rewrite !andb_true_iff. repeat split; apply Z.leb_le; lia.
Qed.

Lemma go_slice_ok_suffix a b : go_slice_ok (a ++ b) (go_len a) (go_len (a ++ b)) = true.
Proof.
  unfold go_slice_ok. rewrite go_len_app. pose proof (go_len_nonneg a). pose proof (go_len_nonneg b).
  rewrite !andb_true_iff. repeat split; apply Z.leb_le; lia.
Qed.

Lemma go_str_eq_nil s : go_str_eq s (bz []) = match s with [] => true | _ => false end.
Proof. destruct s; reflexivity. Qed.

Lemma go_iota_len s : go_iota (go_len s) = map Z.of_nat (seq 0 (length s)).
Proof. unfold go_iota, go_len. rewrite Nat2Z.id. reflexivity. Qed.

Lemma N_eqb_Z c k : (Z.of_N c =? Z.of_N k) = N.eqb c k.
Proof.
  destruct (N.eqb_spec c k) as [->|Hn]; [apply Z.eqb_refl|].
  apply Z.eqb_neq. lia.
Qed.

(* getUnit's switch, as an if-chain on the byte *)
Lemma unit_of_chain u :
  unit_of u =
  if N.eqb u 72 then Some 3600000000000 else if N.eqb u 77 then Some 60000000000
  else if N.eqb u 83 then Some 1000000000 else if N.eqb u 109 then Some 1000000
  else if N.eqb u 117 then Some 1000 else if N.eqb u 110 then Some 1 else None.
Proof.
  destruct u as [|p]; [reflexivity|].
  do 8 (try (destruct p as [p|p|]; try reflexivity)).
Qed.

(* Equivalence of the definition REGENERATED from client.go (the deadline
   branch of headersFromContext, tools/go2coq -> DeadlineHeaderGen.v) with the
   hand-written model Model/Timeout.v. Compiled by the rig on every run against
   the freshly generated file; not part of _CoqProject. *)
From Coq Require Import Lia ZArith List.
From Goat Require Import Base.Bytes Model.Timeout Gen.GoPrims Gen.GoLemmas.
From GoatGen Require Import DeadlineHeaderGen.
Open Scope Z_scope.

Lemma quot_bounds r : - two63 <= r < two63 -> - two63 <= Z.quot r 1000000 < two63.
Proof.
  unfold two63. intro H. destruct (Z.leb_spec 0 r).
  - rewrite Z.quot_div_nonneg by lia. pose proof (Z.div_le_upper_bound r 1000000 r ltac:(lia) ltac:(nia)).
    pose proof (Z.div_pos r 1000000 ltac:(lia) ltac:(lia)). lia.
  - replace r with (- (- r)) by lia. rewrite Z.quot_opp_l by lia. rewrite Z.quot_div_nonneg by lia.
    pose proof (Z.div_le_upper_bound (- r) 1000000 (- r) ltac:(lia) ltac:(nia)).
    pose proof (Z.div_pos (- r) 1000000 ltac:(lia) ltac:(lia)). lia.
Qed.

(* for every remaining time an int64 can hold: the pair appended to the header
   list is ("GRPC-Timeout", encode remaining), and nothing panics *)
Theorem deadline_header_equiv : forall r,
  - two63 <= r < two63 ->
  gen_DeadlineHeader r = GoOk [(client_timeout_key, encode r)].
Proof.
  intros r Hr. unfold gen_DeadlineHeader. cbv zeta.
  change (negb (negb (1000000 =? 0))) with false. cbv iota.
  unfold go_quo. rewrite (go_wrap64_small _ (quot_bounds r Hr)).
  unfold encode, encode_ms. cbv zeta.
  destruct (Z.quot r 1000000 <=? 0) eqn:E.
  - reflexivity.
  - apply Z.leb_gt in E. unfold go_itoa.
    destruct (Z.quot r 1000000 <? 0) eqn:E2; [apply Z.ltb_lt in E2; lia|].
    reflexivity.
Qed.
Print Assumptions deadline_header_equiv.

(* The primitives the Go -> Gallina translator (tools/go2coq) maps Go's
   operators and library calls to. THIS TABLE IS TRUSTED: the equivalence
   proofs in coq/Gen/*Equiv.v tie the generated definitions to the hand-written
   models, but that "go_index s i" is what Go's s[i] does is an assumption
   (validated only indirectly, by the differential rigs of the same functions).

   Representation: string / []byte = bytes (list N); byte, int, int64,
   time.Duration = Z; bool = bool; error = bool (true = non-nil).
   A Go run-time panic (index or slice out of range, division by zero) is the
   result GoPanic: the translator guards every such operation. *)
From Goat Require Import Base.Bytes Model.Timeout Model.Base64 Model.Status.
Open Scope Z_scope.

Inductive goresult (T : Type) := GoOk (v : T) | GoPanic.
Arguments GoOk {T}.
Arguments GoPanic {T}.

(* len(s) *)
Definition go_len (s : bytes) : Z := Z.of_nat (length s).
(* s[i] for 0 <= i < len(s) (guarded by the translator) *)
Definition go_index (s : bytes) (i : Z) : Z := Z.of_N (nth (Z.to_nat i) s 0%N).
Definition go_index_ok (s : bytes) (i : Z) : bool := (0 <=? i) && (i <? go_len s).
(* s[a:b] for 0 <= a <= b <= len(s) (guarded) *)
Definition go_slice (s : bytes) (a b : Z) : bytes := firstn (Z.to_nat (b - a)) (skipn (Z.to_nat a) s).
Definition go_slice_ok (s : bytes) (a b : Z) : bool := (0 <=? a) && (a <=? b) && (b <=? go_len s).
(* string comparison, concatenation *)
Definition go_str_eq (a b : bytes) : bool := bytes_eqb a b.
(* int64 arithmetic wraps *)
Definition two63 : Z := 9223372036854775808.
Definition go_wrap64 (x : Z) : Z := (x + two63) mod (2 * two63) - two63.
(* integer division truncates toward zero; the divisor is guarded <> 0 *)
Definition go_quo (a b : Z) : Z := Z.quot a b.
Definition go_rem (a b : Z) : Z := Z.rem a b.
Definition go_max_int64 : Z := maxInt64.

(* loops: a for statement is a fold over its items with early exit; the state is
   the tuple of the variables the body assigns *)
Inductive loop_step (S R : Type) := LContinue (s : S) | LReturn (r : R).
Arguments LContinue {S R}.
Arguments LReturn {S R}.
Fixpoint go_loop {S I R : Type} (items : list I) (s : S) (f : S -> I -> loop_step S R) : loop_step S R :=
  match items with
  | [] => LContinue s
  | i :: rest => match f s i with
                 | LContinue s' => go_loop rest s' f
                 | LReturn r => LReturn r
                 end
  end.
(* for i := 0; i < n; i++ *)
Definition go_iota (n : Z) : list Z := map Z.of_nat (seq 0 (Z.to_nat n)).

(* strconv.ParseInt(s, 10, 64): optional sign, at least one digit, only digits,
   int64 range; (value, err != nil). The value on error is not modelled (0). *)
Definition go_parse_unsigned (s : bytes) : option Z :=
  match s with
  | [] => None
  | _ => if forallb is_digit s then Some (val_le (rev s)) else None
  end.
Definition go_parse_int64 (s : bytes) : Z * bool :=
  let unsigned (r : bytes) (lim : Z) (sign : Z) : Z * bool :=
    match go_parse_unsigned r with
    | Some v => if v <=? lim then (sign * v, false) else (0, true)
    | None => (0, true)
    end in
  match s with
  | [] => (0, true)
  | c :: r => if N.eqb c 43 then unsigned r maxInt64 1
              else if N.eqb c 45 then unsigned r (maxInt64 + 1) (-1)
              else unsigned s maxInt64 1
  end.

(* fmt.Sprintf("%d", n) *)
Definition go_itoa (n : Z) : bytes :=
  if n <? 0 then 45%N :: rev (digits_le 20 (- n)) else rev (digits_le 20 n).

(* strings.ToLower (ASCII), strings.HasSuffix, strings.HasPrefix *)
Definition go_to_lower (s : bytes) : bytes := lower s.
Definition go_has_suffix (s suf : bytes) : bool := has_suffix s suf.
Definition go_has_prefix (s pre : bytes) : bool :=
  Nat.leb (length pre) (length s) && bytes_eqb (firstn (length pre) s) pre.
(* strings.LastIndex(s, sep) for a one-byte separator; -1 when absent *)
Fixpoint go_last_index_byte (s : bytes) (c : N) (i : Z) (found : Z) : Z :=
  match s with
  | [] => found
  | x :: rest => go_last_index_byte rest c (i + 1) (if N.eqb x c then i else found)
  end.
Definition go_last_index (s sep : bytes) : Z :=
  match sep with
  | [c] => go_last_index_byte s c 0 (-1)
  | _ => -2      (* only one-byte separators are mapped: anything else never equals a Go result *)
  end.

(* base64.URLEncoding *)
Definition go_b64_encode (s : bytes) : bytes := enc s.
Definition go_b64_decode (s : bytes) : bytes * bool :=
  match dec s with Some v => (v, false) | None => ([], true) end.

(* ---- structured errors and envelope fields (status decisions of C03) ----
   an envelope is Model/Status.v's [fenv] with messages as byte strings and
   details / bodies as tokens; getters are nil-safe as protobuf's are *)
Inductive goerr := GErrNil | GErrEof | GErrStatus (st : status bytes Z).
Definition go_env := fenv bytes Z Z.
Definition go_get_code (s : option (wstatus bytes Z)) : Z := match s with Some ws => ws_code ws | None => 0 end.
Definition go_get_message (s : option (wstatus bytes Z)) : bytes := match s with Some ws => ws_msg ws | None => [] end.
Definition go_get_details (s : option (wstatus bytes Z)) : list Z := match s with Some ws => ws_det ws | None => [] end.
(* status.Error(code, msg): a non-OK code is assumed at these call sites (constants) *)
Definition go_status_error (c : Z) (m : bytes) : goerr := GErrStatus (mkSt c m []).
(* status.FromProto(&spb.Status{..}).Err(): nil for an OK code *)
Definition go_from_proto_err (ws : wstatus bytes Z) : goerr :=
  if of_i32 (ws_code ws) =? 0 then GErrNil else GErrStatus (of_wire ws).

(* Equivalence of the definition REGENERATED from internal/client/stream.go
   (errorIfDone, tools/go2coq -> ErrorIfDoneGen.v) with the hand-written model
   Model/Status.v [client_stream_final]: which envelopes end a stream, and how. *)
From Coq Require Import Lia ZArith List.
From Goat Require Import Base.Bytes Model.Status Proofs.StatusProofs Gen.GoPrims.
From GoatGen Require Import ErrorIfDoneGen.
Open Scope Z_scope.

Definition reset_message : bytes := B"stream reset by peer".

Definition final_result (o : option (soutcome bytes Z)) : goresult (bool * goerr) :=
  match o with
  | None => GoOk (false, GErrNil)
  | Some SEof => GoOk (true, GErrEof)
  | Some (SErr st) => GoOk (true, GErrStatus st)
  end.

(* for every envelope whose status code (if any) is an int32: the same decision
   "ends the stream?" and the same terminal error: Unavailable for any reset,
   nothing without a trailer, io.EOF for no status / an OK status, the wire
   status otherwise *)
Theorem error_if_done_equiv : forall v : go_env,
  (forall ws, e_status v = Some ws -> - two31 <= ws_code ws < two31) ->
  gen_errorIfDone v = final_result (client_stream_final reset_message v).
Proof.
  intros v Hr. unfold gen_errorIfDone, client_stream_final.
  destruct (e_reset v); [reflexivity|].
  destruct (e_trailer v); cbn [negb]; [|reflexivity].
  cbv zeta. unfold go_get_code.
  destruct (e_status v) as [ws|] eqn:Es; [|reflexivity].
  destruct (ws_code ws =? 0) eqn:Ez; [reflexivity|].
  cbn [final_result]. unfold go_from_proto_err. cbn [ws_code go_get_message go_get_details].
  rewrite (of_i32_zero _ (Hr ws eq_refl)), Ez.
  destruct ws as [c m d]. reflexivity.
Qed.
Print Assumptions error_if_done_equiv.

(* Equivalence of the definition REGENERATED from internal/util.go (ToMetadata,
   tools/go2coq -> ToMetadataGen.v) with the hand-written model Model/Meta.v. *)
From Coq Require Import Lia ZArith List.
From Goat Require Import Base.Bytes Model.Base64 Model.Meta Gen.GoPrims.
From GoatGen Require Import ToMetadataGen.
Open Scope Z_scope.

Definition md_result (o : option mdmap) : goresult (mdmap * bool) :=
  match o with Some m => GoOk (m, false) | None => GoOk ([], true) end.

(* for every header list: the same map, or the error return for the same lists
   (lower-cased key, "-bin" suffix test on the lower-cased key, base64 only under
   such keys, values appended per key) *)
Theorem to_metadata_equiv : forall kvs, gen_ToMetadata kvs = md_result (to_md kvs).
Proof.
  intro kvs. unfold gen_ToMetadata, to_md. cbv zeta.
  (* generalise the accumulator (not the nil of the error return) *)
  match goal with
  | |- match go_loop _ _ ?F with LContinue _ => _ | LReturn _ => _ end = _ =>
      enough (H : forall acc, match go_loop kvs acc F with
                              | LContinue g_md => GoOk (g_md, false)
                              | LReturn r => r
                              end = md_result (to_md_acc kvs acc)) by apply H
  end.
  induction kvs as [|[k v] kvs IH]; intro acc; [reflexivity|].
  cbn [go_loop to_md_acc fst snd].
  unfold go_to_lower, go_has_suffix.
  change (bz [45; 98; 105; 110]) with bin_suffix.
  fold (is_bin (lower k)).
  destruct (is_bin (lower k)) eqn:Eb.
  - unfold go_b64_decode. destruct (dec v) as [vv|]; cbn [fst snd].
    + apply IH.
    + reflexivity.
  - apply IH.
Qed.
Print Assumptions to_metadata_equiv.

(* Equivalence of the definition REGENERATED from server.go (parseRawMethod,
   tools/go2coq -> ParseRawMethodGen.v) with the hand-written model Model/Method.v. *)
From Coq Require Import Lia ZArith List.
From Goat Require Import Base.Bytes Model.Method Gen.GoPrims Gen.GoLemmas.
From GoatGen Require Import ParseRawMethodGen.
Open Scope Z_scope.

Definition method_result (o : option (bytes * bytes)) : goresult (bytes * bytes * bool) :=
  match o with Some (a, b) => GoOk (a, b, false) | None => GoOk ([], [], true) end.

(* strings.LastIndex(s, "/") and the split of the model *)
Lemma last_index_split s i found :
  go_last_index_byte s slash i found =
  match split_last s with Some (a, _) => i + go_len a | None => found end.
Proof.
  revert i found. induction s as [|x rest IH]; intros i found; [reflexivity|].
  cbn [go_last_index_byte split_last]. rewrite IH.
  destruct (split_last rest) as [[a b]|].
  - rewrite go_len_cons. lia.
  - unfold slash. destruct (N.eqb x 47); [unfold go_len; cbn; lia|reflexivity].
Qed.

Lemma split_last_app s a b : split_last s = Some (a, b) -> s = a ++ slash :: b.
Proof.
  revert a b. induction s as [|x rest IH]; intros a b H; [discriminate|].
  cbn [split_last] in H. destruct (split_last rest) as [[a' b']|] eqn:E.
  - injection H as <- <-. rewrite (IH a' b' eq_refl). reflexivity.
  - destruct (N.eqb_spec x slash) as [->|]; [|discriminate]. injection H as <- <-. reflexivity.
Qed.

(* the part after an optional leading slash was stripped *)
Lemma split_equiv s :
  (let g_pos := go_last_index s (bz [47]) in
   if g_pos =? -1 then GoOk (bz [], bz [], true)
   else if negb (go_slice_ok s 0 g_pos) then GoPanic
        else let g_service := go_slice s 0 g_pos in
             if negb (go_slice_ok s (g_pos + 1) (go_len s)) then GoPanic
             else let g_method := go_slice s (g_pos + 1) (go_len s) in GoOk (g_service, g_method, false))
  = method_result (split_last s).
Proof.
  cbv zeta. unfold go_last_index. change (bz [47]) with [slash]. cbv iota.
  rewrite last_index_split.
  destruct (split_last s) as [[a b]|] eqn:E; [|reflexivity].
  pose proof (split_last_app _ _ _ E) as ->.
  pose proof (go_len_nonneg a) as Ha.
  replace (0 + go_len a) with (go_len a) by lia.
  destruct (go_len a =? -1) eqn:E1; [apply Z.eqb_eq in E1; lia|].
  rewrite go_slice_ok_prefix, go_slice_prefix. cbn [negb].
  replace (a ++ slash :: b) with ((a ++ [slash]) ++ b) by (rewrite <- app_assoc; reflexivity).
  replace (go_len a + 1) with (go_len (a ++ [slash])) by (rewrite go_len_app; unfold go_len; cbn; lia).
  rewrite go_slice_ok_suffix, go_slice_suffix. reflexivity.
Qed.

(* for every byte string: the same service / method split, or the error
   return for the same strings; no index or slice is ever out of range *)
Theorem parse_raw_method_equiv : forall s, gen_parseRawMethod s = method_result (parse_method s).
Proof.
  intro s. unfold gen_parseRawMethod, parse_method.
  rewrite go_str_eq_nil.
  destruct s as [|c r].
  - cbn [negb andb orb]. apply (split_equiv []).
  - cbn [negb andb orb].
    assert (Hok : go_index_ok (c :: r) 0 = true).
    { unfold go_index_ok. rewrite go_len_cons. pose proof (go_len_nonneg r). apply andb_true_iff; split; [reflexivity|apply Z.ltb_lt; lia]. }
    rewrite Hok. cbn [negb].
    assert (Hidx : go_index (c :: r) 0 = Z.of_N c) by reflexivity.
    rewrite Hidx. change 47 with (Z.of_N slash). rewrite N_eqb_Z.
    cbn [strip_slash]. destruct (N.eqb c slash) eqn:Ec.
    + assert (Hs : go_slice_ok (c :: r) 1 (go_len (c :: r)) = true).
      { unfold go_slice_ok. rewrite go_len_cons. pose proof (go_len_nonneg r). rewrite !andb_true_iff. repeat split; apply Z.leb_le; lia. }
      rewrite Hs. cbn [negb].
      assert (Hr : go_slice (c :: r) 1 (go_len (c :: r)) = r).
      { change (c :: r) with ([c] ++ r). change 1 with (go_len [c]). apply go_slice_suffix. }
      rewrite Hr. apply (split_equiv r).
    + apply (split_equiv (c :: r)).
Qed.
Print Assumptions parse_raw_method_equiv.

(* Model of the GRPC-Timeout header: parseGrpcTimeout / contextFromHeaders
   (server.go) and the deadline branch of headersFromContext (client.go).

   Durations are Z nanoseconds, as Go's time.Duration (int64). The int64 range
   is written into the model explicitly where the code depends on it. *)
From Goat Require Import Base.Bytes.
Open Scope Z_scope.

Definition maxInt64 : Z := 9223372036854775807.

(* getUnit in parseGrpcTimeout: suffix byte -> nanoseconds; None = "return 0" *)
Definition unit_of (c : N) : option Z :=
  match c with
  | 72%N  (* H *) => Some 3600000000000
  | 77%N  (* M *) => Some 60000000000
  | 83%N  (* S *) => Some 1000000000
  | 109%N (* m *) => Some 1000000
  | 117%N (* u *) => Some 1000
  | 110%N (* n *) => Some 1
  | _ => None
  end.

(* value of a little-endian list of ASCII digits *)
Fixpoint val_le (rds : bytes) : Z :=
  match rds with
  | [] => 0
  | d :: rest => (Z.of_N d - 48) + 10 * val_le rest
  end.

(* strconv.ParseInt(s, 10, 64) restricted to what parseGrpcTimeout lets
   through: a non-empty string of ASCII digits (the digits-only test comes
   first in the code); it fails with a range error above maxInt64.
   [rds] is the digit string reversed. *)
Definition parse_uint63_le (rds : bytes) : option Z :=
  match rds with
  | [] => None
  | _ => if forallb is_digit rds
         then let v := val_le rds in if v <=? maxInt64 then Some v else None
         else None
  end.

(* parseGrpcTimeout: (duration, ok) *)
Definition parse (s : bytes) : option Z :=
  match rev s with
  | [] => None
  | u :: rds =>
      match parse_uint63_le rds with
      | None => None
      | Some v =>
          match unit_of u with
          | None => None
          | Some unit =>
              if v >? maxInt64 / unit then Some maxInt64 else Some (v * unit)
          end
      end
  end.

(* decimal printing (fmt.Sprintf("%d") of a positive int64), little-endian *)
Fixpoint digits_le (fuel : nat) (n : Z) : bytes :=
  match fuel with
  | O => []
  | S f => Z.to_N (48 + n mod 10) :: (if n <? 10 then [] else digits_le f (n / 10))
  end.

(* deadline branch of headersFromContext: remaining time (ns) -> header value *)
Definition encode_ms (remaining : Z) : Z :=
  let ms := Z.quot remaining 1000000 in if ms <=? 0 then 1 else ms.

Definition encode (remaining : Z) : bytes :=
  rev (digits_le 20 (encode_ms remaining)) ++ [109%N].

Definition timeout_key : bytes := B"grpc-timeout".

(* header scan of contextFromHeaders: the first header named grpc-timeout
   (case-insensitively) whose value parses *)
Fixpoint pick (hdrs : list (bytes * bytes)) : option Z :=
  match hdrs with
  | [] => None
  | (k, v) :: rest =>
      if bytes_eqb (lower k) timeout_key
      then match parse v with Some d => Some d | None => pick rest end
      else pick rest
  end.

(* ---- the whole transfer: caller context -> request header -> handler context ----
   Both RPC kinds go through the same two functions:
     client: headersFromContext(ctx) is called by invoke (client.go l.108, unary)
             and by newStream (l.252, all streaming kinds);
     server: contextFromHeaders(clientCtx, header) is called by processUnaryRpc
             (server.go l.321, on a worker) and by processStreamingRpc (l.498,
             on the read loop, for the opening envelope).
   headersFromContext emits the outgoing metadata first (ToKeyValue; [md_kvs]
   stands for its output) and then, if the context has a deadline, the pair
   ("GRPC-Timeout", encode (deadline - now)). contextFromHeaders makes
   context.WithTimeout(ctx, d) for the first header that [pick] accepts: the
   handler's deadline is its own now + d; Serve's context has no deadline.
   Because the caller's metadata precedes the appended pair and [pick] takes the
   first header that parses, a caller who puts the reserved key grpc-timeout
   into its own outgoing metadata overrides its deadline (outside the property's
   quantifier: the theorems assume the caller's metadata does not use the key). *)
Inductive rkind := KUnary | KStream.

Definition client_timeout_key : bytes := B"GRPC-Timeout".

Definition client_headers (md_kvs : list (bytes * bytes)) (remaining : option Z) : list (bytes * bytes) :=
  md_kvs ++ match remaining with Some r => [(client_timeout_key, encode r)] | None => [] end.

Definition server_deadline (t1 : Z) (hdrs : list (bytes * bytes)) : option Z :=
  match pick hdrs with Some d => Some (t1 + d) | None => None end.

(* t0 = the caller's clock when the header is built, t1 = the server's clock
   when the context is made, [deadline] = the caller's absolute deadline *)
Definition sys_deadline (k : rkind) (t0 t1 : Z) (md_kvs : list (bytes * bytes)) (deadline : option Z) : option Z :=
  let remaining := match deadline with Some dl => Some (dl - t0) | None => None end in
  match k with
  | KUnary => server_deadline t1 (client_headers md_kvs remaining)    (* invoke ... processUnaryRpc *)
  | KStream => server_deadline t1 (client_headers md_kvs remaining)   (* newStream ... processStreamingRpc *)
  end.

(* Model of the server stream object (internal/server/stream.go: setHeader,
   SetTrailer, SendMsg, SendTrailer) and of the unary collector
   (internal/server/transport_stream.go), as sequential state machines.
   Metadata values and payloads are opaque here (type parameters): the codec
   is modelled in Model/Meta.v. *)
From Coq Require Import List Bool.
Import ListNotations.

Section SrvStream.
  Context {MD P ST : Type}.   (* metadata, payload, status *)

  Record sstate := mkS { hdrs : list MD; hsent : bool; trls : list MD; tsent : bool }.
  Definition sinit : sstate := mkS [] false [] false.

  Inductive sop :=
  | SetHeader (md : MD)
  | SendHeader (md : MD)
  | SetTrailer (md : MD)
  | SendMsg (p : P)
  | SendMsgBad (p : P)       (* SendMsg of a value the codec rejects: codec.Marshal fails first (stream.go l.170-174) *)
  | SendTrailer (st : ST).

  (* what is handed to the transport: the header metadata it carries (None =
     the envelope's header has no metadata list) and its content *)
  Inductive wenv :=
  | WHeader (h : list MD)
  | WMsg (h : option (list MD)) (p : P)
  | WTrailer (h : option (list MD)) (t : list MD) (st : ST).

  Inductive sres := ROk | RErrHeadersSent | RErrTrailersSent | RErrWrite | RErrMarshal.

  (* one API call; [wok] tells whether the transport write (if any) succeeds *)
  Definition sstep (s : sstate) (o : sop) (wok : bool) : sstate * option wenv * sres :=
    match o with
    | SetHeader md =>
        if hsent s then (s, None, RErrHeadersSent)
        else (mkS (hdrs s ++ [md]) false (trls s) (tsent s), None, ROk)
    | SendHeader md =>
        if hsent s then (s, None, RErrHeadersSent)
        else let hs := hdrs s ++ [md] in
             if wok then (mkS hs true (trls s) (tsent s), Some (WHeader hs), ROk)
             else (mkS hs false (trls s) (tsent s), Some (WHeader hs), RErrWrite)
    | SetTrailer md =>
        if tsent s then (s, None, ROk)    (* logged and ignored; the call has no result *)
        else (mkS (hdrs s) (hsent s) (trls s ++ [md]) false, None, ROk)
    | SendMsg p =>
        let h := if hsent s then None else Some (hdrs s) in
        (mkS (hdrs s) true (trls s) (tsent s), Some (WMsg h p), if wok then ROk else RErrWrite)
    | SendMsgBad _ =>
        (* the error is returned before anything else happens: pending headers stay pending *)
        (s, None, RErrMarshal)
    | SendTrailer st =>
        if tsent s then (s, None, RErrTrailersSent)
        else let h := if hsent s then None else Some (hdrs s) in
             (mkS (hdrs s) true (trls s) true, Some (WTrailer h (trls s) st),
              if wok then ROk else RErrWrite)
    end.

  Definition nexts (s : sstate) (o : sop) : sstate := fst (fst (sstep s o true)).
  Definition wr (s : sstate) (o : sop) : option wenv := snd (fst (sstep s o true)).
  Definition res (s : sstate) (o : sop) : sres := snd (sstep s o true).
  Definition wr_list (s : sstate) (o : sop) : list wenv :=
    match wr s o with Some e => [e] | None => [] end.

  (* run a program in which every write succeeds: the envelopes written, the
     per-call results and the final state *)
  Fixpoint swritten (s : sstate) (ops : list sop) : list wenv :=
    match ops with
    | [] => []
    | o :: rest => wr_list s o ++ swritten (nexts s o) rest
    end.

  Fixpoint sresults (s : sstate) (ops : list sop) : list sres :=
    match ops with
    | [] => []
    | o :: rest => res s o :: sresults (nexts s o) rest
    end.

  Definition hdr_md (e : wenv) : option (list MD) :=
    match e with WHeader h => Some h | WMsg h _ => h | WTrailer h _ _ => h end.

  (* metadata accepted by SetHeader/SendHeader calls of a program, in order *)
  Fixpoint accepted_hdrs (s : sstate) (ops : list sop) : list MD :=
    match ops with
    | [] => []
    | o :: rest =>
        match o, res s o with
        | SetHeader md, ROk => md :: accepted_hdrs (nexts s o) rest
        | SendHeader md, ROk => md :: accepted_hdrs (nexts s o) rest
        | _, _ => accepted_hdrs (nexts s o) rest
        end
    end.

  Fixpoint accepted_trls (s : sstate) (ops : list sop) : list MD :=
    match ops with
    | [] => []
    | o :: rest =>
        match o with
        | SetTrailer md => if tsent s then accepted_trls (nexts s o) rest
                           else md :: accepted_trls (nexts s o) rest
        | _ => accepted_trls (nexts s o) rest
        end
    end.
End SrvStream.

Arguments sstate : clear implicits.
Arguments sop : clear implicits.
Arguments wenv : clear implicits.

(* the unary collector: SetHeader / SendHeader / SetTrailer on
   unaryServerTransportStream, then GetHeaders / GetTrailers *)
Section Unary.
  Context {MD : Type}.
  Record ustate := mkU { uh : list MD; uhsent : bool; ut : list MD }.
  Definition uinit : ustate := mkU [] false [].
  Inductive uop := USetHeader (md : MD) | USendHeader (md : MD) | USetTrailer (md : MD).
  Definition ustep (s : ustate) (o : uop) : ustate * bool (* ok? *) :=
    match o with
    | USetHeader md => if uhsent s then (s, false) else (mkU (uh s ++ [md]) false (ut s), true)
    | USendHeader md => if uhsent s then (s, false) else (mkU (uh s ++ [md]) true (ut s), true)
    | USetTrailer md => (mkU (uh s) (uhsent s) (ut s ++ [md]), true)
    end.
  Fixpoint urun (s : ustate) (ops : list uop) : ustate * list bool :=
    match ops with
    | [] => (s, [])
    | o :: rest => let '(s1, r) := ustep s o in let '(s2, rs) := urun s1 rest in (s2, r :: rs)
    end.
End Unary.
Arguments ustate : clear implicits.
Arguments uop : clear implicits.

(* ---- write failures: a program in which every call comes with the outcome of
   its transport write (wok; ignored by calls that do not write). What reaches
   the transport's peer are the envelopes whose write SUCCEEDED. ---- *)
Section Faults.
  Context {MD P ST : Type}.

  Fixpoint sdelivered (s : sstate MD) (ops : list (sop MD P ST * bool)) : list (wenv MD P ST) :=
    match ops with
    | [] => []
    | (o, wok) :: rest =>
        let '(s', e, _) := sstep s o wok in
        (match e with Some env => if wok then [env] else [] | None => [] end) ++ sdelivered s' rest
    end.

  Fixpoint sresultsw (s : sstate MD) (ops : list (sop MD P ST * bool)) : list sres :=
    match ops with
    | [] => []
    | (o, wok) :: rest => let '(s', _, r) := sstep s o wok in r :: sresultsw s' rest
    end.

  Fixpoint srunw (s : sstate MD) (ops : list (sop MD P ST * bool)) : sstate MD :=
    match ops with
    | [] => s
    | (o, wok) :: rest => srunw (fst (fst (sstep s o wok))) rest
    end.

  (* header maps the object RETAINS: accepted by SetHeader, or passed to a
     SendHeader that was not refused (whether or not its write succeeded: a failed
     SendHeader leaves its map among the pending headers) *)
  Fixpoint retained_hdrs (s : sstate MD) (ops : list (sop MD P ST * bool)) : list MD :=
    match ops with
    | [] => []
    | (o, wok) :: rest =>
        let s' := fst (fst (sstep s o wok)) in
        match o with
        | SetHeader md | SendHeader md => if hsent s then retained_hdrs s' rest else md :: retained_hdrs s' rest
        | _ => retained_hdrs s' rest
        end
    end.
End Faults.

(* the unary collector: the maps a program's accepted calls passed, in order *)
Section UnaryAccepted.
  Context {MD : Type}.
  Fixpoint uaccepted_h (s : ustate MD) (ops : list (uop MD)) : list MD :=
    match ops with
    | [] => []
    | o :: rest =>
        let s' := fst (ustep s o) in
        match o with
        | USetHeader md | USendHeader md => if uhsent s then uaccepted_h s' rest else md :: uaccepted_h s' rest
        | USetTrailer _ => uaccepted_h s' rest
        end
    end.
  Fixpoint uaccepted_t (ops : list (uop MD)) : list MD :=
    match ops with
    | [] => []
    | USetTrailer md :: rest => md :: uaccepted_t rest
    | _ :: rest => uaccepted_t rest
    end.
End UnaryAccepted.

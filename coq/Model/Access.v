(* An abstract execution model for data-race freedom (C15): a trace of memory
   accesses and synchronisation events of threads (goroutines), the
   happens-before order of the Go memory model restricted to the edges the
   argument needs (program order, mutex unlock -> later lock, go statement ->
   the started goroutine, channel send -> the matching receive), the notion of
   data race, and the lockset discipline as a boolean checker over an access
   table (one row per access site of a field: read/write, enclosing function,
   mutexes held, justification class). No proofs here. *)
From Coq Require Import List ZArith Bool Lia.
Import ListNotations.
Open Scope Z_scope.

Definition thread := Z.
Definition loc := (Z * Z)%type.     (* object instance, field *)
Definition mutex := (Z * Z)%type.   (* object instance, mutex field of that object *)

Inductive ev :=
| Acc (t : thread) (l : loc) (w : bool) (atomic : bool)
    (* a read (w = false) or write of l; atomic = through sync/atomic.
       "Atomic t l" of the design is Acc t l true true (Load: Acc t l false true) *)
| Lock (t : thread) (m : mutex)
| Unlock (t : thread) (m : mutex)
| Go (t t' : thread)                  (* t executes "go ..." creating t' *)
| Send (t : thread) (c k : Z)         (* the k-th send on channel c (close = the send observed by receives of the closed channel) *)
| Recv (t : thread) (c k : Z).        (* the receive that obtains the k-th send *)

Definition trace := list ev.

Definition thread_of (e : ev) : thread :=
  match e with
  | Acc t _ _ _ | Lock t _ | Unlock t _ | Go t _ | Send t _ _ | Recv t _ _ => t
  end.

Definition loc_eqb (a b : loc) : bool := (fst a =? fst b) && (snd a =? snd b).
Definition mutex_eqb (a b : mutex) : bool := (fst a =? fst b) && (snd a =? snd b).

(* ---------- happens-before ---------- *)
Definition sync_edge (e1 e2 : ev) : Prop :=
  match e1, e2 with
  | Unlock _ m, Lock _ m' => m = m'            (* every earlier Unlock of m is synchronised before a later Lock of m *)
  | Go _ t', e => thread_of e = t'             (* the go statement is synchronised before the start of the goroutine *)
  | Send _ c k, Recv _ c' k' => c = c' /\ k = k'
  | _, _ => False
  end.

Inductive hb (tr : trace) : nat -> nat -> Prop :=
| hb_po i j e1 e2 : (i < j)%nat -> nth_error tr i = Some e1 -> nth_error tr j = Some e2 ->
                    thread_of e1 = thread_of e2 -> hb tr i j
| hb_sync i j e1 e2 : (i < j)%nat -> nth_error tr i = Some e1 -> nth_error tr j = Some e2 ->
                      sync_edge e1 e2 -> hb tr i j
| hb_trans i j k : hb tr i j -> hb tr j k -> hb tr i k.

(* ---------- mutexes ---------- *)
Definition step_holder (m : mutex) (h : option thread) (e : ev) : option thread :=
  match e with
  | Lock t m' => if mutex_eqb m m' then Some t else h
  | Unlock _ m' => if mutex_eqb m m' then None else h
  | _ => h
  end.
(* who holds m after the events of tr *)
Definition holder (tr : trace) (m : mutex) : option thread := fold_left (step_holder m) tr None.
(* t holds m when the n-th event executes *)
Definition holds (tr : trace) (n : nat) (t : thread) (m : mutex) : Prop := holder (firstn n tr) m = Some t.

(* a trace of a real execution: a mutex is locked only when free, unlocked only by its holder *)
Definition wf_trace (tr : trace) : Prop :=
  forall n e, nth_error tr n = Some e ->
    match e with
    | Lock _ m => holder (firstn n tr) m = None
    | Unlock t m => holder (firstn n tr) m = Some t
    | _ => True
    end.

(* ---------- data races ---------- *)
(* two accesses to one location by different threads, at least one a write, not both atomic *)
Definition conflict (tr : trace) (i j : nat) : Prop :=
  (i < j)%nat /\
  exists t t' l w w' a a',
    nth_error tr i = Some (Acc t l w a) /\ nth_error tr j = Some (Acc t' l w' a') /\
    t <> t' /\ (w || w') = true /\ (a && a') = false.

Definition race (tr : trace) (i j : nat) : Prop := conflict tr i j /\ ~ hb tr i j.
Definition race_free (tr : trace) : Prop := forall i j, conflict tr i j -> hb tr i j.

(* ---------- per-location disciplines (the classical statement) ---------- *)
Inductive discipline :=
| DGuarded (m : mutex)            (* every access happens while its thread holds m *)
| DAtomic                         (* only atomic accesses *)
| DConfined (t : thread)          (* only thread t touches it *)
| DPublished (t : thread) (p : nat).
    (* written only by t before its event number p (a go statement, a channel send, an unlock ...);
       every access of another thread happens after p *)

Definition obeys (tr : trace) (l : loc) (d : discipline) : Prop :=
  forall i t w a, nth_error tr i = Some (Acc t l w a) ->
    match d with
    | DGuarded m => holds tr i t m
    | DAtomic => a = true
    | DConfined t0 => t = t0
    | DPublished t0 p =>
        (exists e, nth_error tr p = Some e /\ thread_of e = t0) /\
        (w = true -> t = t0 /\ (i < p)%nat) /\
        (t <> t0 -> hb tr p i)
    end.

(* ---------- the access table ---------- *)
(* Two kinds of "initialisation" are kept apart.
   JInit (object level): the creator writes the field while the OBJECT is still
   private to it (a fresh local, before `return` / `go` / storing it in a shared
   table). Every access of every other thread to any field of the object is
   after the publishing event, so such a row is safe against every other row.
   JPub tag / JAfter tag (field level): the object is ALREADY shared when the
   field is written. The write is ordered only before the accesses of threads
   that the writer starts (Go), or that receive a message the writer sends
   (Send -> Recv), AFTER the write in the writer's program order. A JPub row is
   therefore safe only against the rows that are explicitly listed as JAfter
   with the same tag (each with its written happens-after argument), never
   against a plain or unlisted access. *)
Inductive jclass :=
| JPlain                 (* nothing but the locks held *)
| JAtomic                (* through sync/atomic *)
| JInit                  (* by the creating goroutine, before the OBJECT is published *)
| JConfined (owner : Z)  (* the field is only ever touched by one goroutine per object (tag = its role) *)
| JPub (tag : Z)         (* field-level publication: by one goroutine per object, before its publishing event `tag` *)
| JAfter (tag : Z).      (* an access site of a thread that is started / messaged by the publisher after the JPub write *)

Record row := mkRow {
  r_field : Z;           (* field identifier *)
  r_write : bool;
  r_func : Z;            (* enclosing function / role (diagnostic) *)
  r_locks : list Z;      (* mutexes (by name: struct.field) held at the site: of the same object or of the one
                            container that owns it (interp.lockobj) *)
  r_class : jclass }.
Definition table := list row.

Definition jclass_eqb (a b : jclass) : bool :=
  match a, b with
  | JPlain, JPlain | JAtomic, JAtomic | JInit, JInit => true
  | JConfined x, JConfined y => x =? y
  | JPub x, JPub y => x =? y
  | JAfter x, JAfter y => x =? y
  | _, _ => false
  end.
Definition is_init (r : row) : bool := jclass_eqb (r_class r) JInit.
Definition is_atomic (r : row) : bool := jclass_eqb (r_class r) JAtomic.
Definition same_owner (r1 r2 : row) : bool :=
  match r_class r1, r_class r2 with JConfined x, JConfined y => x =? y | _, _ => false end.
(* two sites of the one goroutine that publishes the field *)
Definition same_pub (r1 r2 : row) : bool :=
  match r_class r1, r_class r2 with JPub x, JPub y => x =? y | _, _ => false end.
(* r1 is the publishing write, r2 one of the sites listed as ordered after it *)
Definition pub_after (r1 r2 : row) : bool :=
  match r_class r1, r_class r2 with JPub x, JAfter y => x =? y | _, _ => false end.
Definition share_lock (r1 r2 : row) : bool := existsb (fun m => existsb (Z.eqb m) (r_locks r2)) (r_locks r1).

(* two access sites of one field can never race (r1 = r2: the same site in two goroutines).
   Note what is NOT here: JPub against JPlain / JAtomic / JConfined / JAfter of another tag. *)
Definition pair_safe (r1 r2 : row) : bool :=
  (negb (r_write r1) && negb (r_write r2))
  || (is_atomic r1 && is_atomic r2)
  || is_init r1 || is_init r2
  || same_owner r1 r2
  || same_pub r1 r2
  || pub_after r1 r2 || pub_after r2 r1
  || share_lock r1 r2.

Definition race_free_table (tbl : table) : bool :=
  forallb (fun r1 => forallb (fun r2 => negb (r_field r1 =? r_field r2) || pair_safe r1 r2) tbl) tbl.

(* ---------- traces that conform to a table ---------- *)
(* how an execution relates to the table: which row each access comes from, who
   created each object and where it was published (class JInit: trusted
   justification), that JConfined fields are touched by one goroutine per
   object (trusted justification), and for field-level publication (JPub /
   JAfter: trusted justification, one written argument per listed site) which
   goroutine publishes (object, tag) and by which of its events *)
Record interp := mkInterp {
  site : nat -> nat;          (* index of an access event -> index of its row *)
  creator : Z -> thread;      (* object -> the goroutine that created it *)
  pubidx : Z -> nat;          (* object -> index of the event of its creator that publishes it *)
  lockobj : Z -> Z -> Z;      (* object, lock name -> the object whose mutex of that name guards the object's fields.
                                 Usually the object itself; for an object owned by exactly one container (a
                                 demuxConn of its Demux, an httpReadWriter of its GoatOverHttp, a respHandler of
                                 its RpcMultiplexer, a proxyClient of its Proxy, a streamHandler of its handler)
                                 the container, when the lock is the container's. What matters for soundness is
                                 only that it is a FUNCTION of the object: every access to a field of o that
                                 names lock m holds the same mutex instance. *)
  publisher : Z -> Z -> thread;  (* object, tag -> the goroutine that writes the field(s) of that tag *)
  pubat : Z -> Z -> nat }.       (* object, tag -> index of the go statement / channel send of the publisher
                                    that starts (messages) the readers *)

(* the events that can publish a field of a shared object: they have an outgoing synchronisation edge *)
Definition is_pub_event (e : ev) : bool :=
  match e with Go _ _ | Send _ _ _ => true | _ => false end.

Definition conforms (tbl : table) (tr : trace) (I : interp) : Prop :=
  (forall i t o f w a, nth_error tr i = Some (Acc t (o, f) w a) ->
     exists r, nth_error tbl (site I i) = Some r /\ r_field r = f /\ r_write r = w /\
               is_atomic r = a /\
               (forall m, In m (r_locks r) -> holds tr i t (lockobj I o m, m)) /\
               (is_init r = true ->
                  t = creator I o /\ (i < pubidx I o)%nat /\
                  exists e, nth_error tr (pubidx I o) = Some e /\ thread_of e = creator I o) /\
               (is_init r = false -> t = creator I o \/ hb tr (pubidx I o) i) /\
               (* a JPub site: executed by the publisher of (o, tag), before its publishing
                  go statement / send in program order *)
               (forall tag, r_class r = JPub tag ->
                  t = publisher I o tag /\ (i < pubat I o tag)%nat /\
                  exists e, nth_error tr (pubat I o tag) = Some e /\ thread_of e = publisher I o tag /\
                            is_pub_event e = true) /\
               (* a JAfter site: executed by the publisher itself, or by a thread whose Go / Send-Recv
                  edge leaves the publisher at or after that event (hence happens after it) *)
               (forall tag, r_class r = JAfter tag ->
                  t = publisher I o tag \/ hb tr (pubat I o tag) i)) /\
  (forall i j t t' o f w w' a a' r r',
     nth_error tr i = Some (Acc t (o, f) w a) -> nth_error tr j = Some (Acc t' (o, f) w' a') ->
     nth_error tbl (site I i) = Some r -> nth_error tbl (site I j) = Some r' ->
     same_owner r r' = true -> t = t').

(* Small-step model of goat.Demux (demux.go) together with the logical
   connections it hands out (demuxConn.readWriter, the channel transport of
   channel.go plus the per-connection done signal), as the code is after the
   D-18 fix: Cancel closes only the [done] signal, never the data channels.

   - an envelope is a pair (key, payload): the key is what the caller-supplied
     key function returns for it (the environment picks it freely, which covers
     every key function); payloads are opaque tokens;
   - connection *instances* are numbered in creation order ([conns]); the table
     key -> connection of the code is the set of instances with [c_reg = true];
   - the registry lock is never held across a blocking operation, so every
     critical section (lookup-or-create in Run, Cancel) is one atomic step;
   - the unbuffered channels r / w are rendezvous rules between the run loop
     (resp. the writer goroutine) and a pending logical Read (resp. Write) call;
   - a Go [select] with several ready cases is one rule per case;
   - the shared transport's Read returns the queued envelopes in order, an
     error once the environment failed it and the queue is empty, and (it
     honours its context) an error once the demultiplexer is stopped; its Write
     succeeds, fails or blocks as the environment says, a blocked Write returns
     an error once the demultiplexer is stopped;
   - [crashed] records a double close of a done channel (cannot happen: see
     Proofs/DemuxProofs.v);
   - every state carries the history [log]. *)
From Coq Require Import List ZArith Bool Lia.
Import ListNotations.
Open Scope Z_scope.

Record env := mkEnv { ekey : Z; eval : Z }.

Inductive cres :=
| RGot (e : env)          (* Read returned e *)
| RWrote                  (* Write returned nil *)
| RErrCtx                 (* the caller's context was done *)
| RErrCancelled.          (* "demux connection cancelled" *)

Inductive ckind := KRead | KWrite (e : env).

Record call := mkCall {
  cl_conn : nat;              (* the connection instance the call is made on *)
  cl_kind : ckind;
  cl_ctx : bool;              (* the caller's context is done *)
  cl_res : option cres }.     (* None = still blocked in its select *)

Inductive dwpc := DWSel | DWWrite (e : env) | DWDead.

Record conn := mkConn {
  c_key : Z;
  c_reg : bool;               (* still in the table *)
  c_done : bool;              (* done closed by Cancel *)
  c_dw : dwpc }.              (* the connection's writer goroutine *)

Inductive rnpc := RNRead | RNHand (c : nat) (e : env) | RNDead.

Inductive wmode := WOk | WFail | WBlock.

Inductive dev :=
| EvShRead (c : nat) (e : env)            (* the run loop read e from the shared transport and selected instance c *)
| EvAnnounce (c : nat) (k : Z)            (* go onNewConnection(instance c) for key k *)
| EvHand (c : nat) (e : env) (i : nat)    (* Read call i on c received e *)
| EvDropped (c : nat) (e : env)           (* hand-off abandoned: c was cancelled *)
| EvLost (c : nat) (e : env)              (* hand-off abandoned: Stop *)
| EvRet (i : nat) (r : cres)              (* call i returned r *)
| EvAccept (c : nat) (e : env) (i : nat)  (* c's writer goroutine received e from Write call i *)
| EvShWrite (c : nat) (e : env) (ok : bool). (* c's writer goroutine wrote e to the shared transport / the write failed *)

Record state := mkState {
  rn : rnpc;
  inbox : list env;           (* queued on the shared transport *)
  rfail : bool;               (* shared Read fails once the queue is empty *)
  stopped : bool;             (* Stop() called: the demux context is done *)
  wm : wmode;                 (* behaviour of the shared transport's Write *)
  conns : list conn;
  calls : list call;
  crashed : bool;
  log : list dev }.

Definition init : state := mkState RNRead [] false false WOk [] [] false [].

(* ---------- helpers ---------- *)
Fixpoint upd {A} (n : nat) (x : A) (l : list A) : list A :=
  match l, n with
  | [], _ => []
  | _ :: t, O => x :: t
  | h :: t, S m => h :: upd m x t
  end.

Fixpoint find_reg (k : Z) (cs : list conn) (n : nat) : option nat :=
  match cs with
  | [] => None
  | c :: t => if c_reg c && (c_key c =? k) then Some n else find_reg k t (S n)
  end.

Definition set_rn (s : state) (r : rnpc) : state :=
  mkState r (inbox s) (rfail s) (stopped s) (wm s) (conns s) (calls s) (crashed s) (log s).
Definition set_inbox (s : state) (q : list env) : state :=
  mkState (rn s) q (rfail s) (stopped s) (wm s) (conns s) (calls s) (crashed s) (log s).
Definition set_conns (s : state) (cs : list conn) : state :=
  mkState (rn s) (inbox s) (rfail s) (stopped s) (wm s) cs (calls s) (crashed s) (log s).
Definition set_calls (s : state) (ks : list call) : state :=
  mkState (rn s) (inbox s) (rfail s) (stopped s) (wm s) (conns s) ks (crashed s) (log s).
Definition add_log (s : state) (evs : list dev) : state :=
  mkState (rn s) (inbox s) (rfail s) (stopped s) (wm s) (conns s) (calls s) (crashed s) (log s ++ evs).

Definition set_dw (c : conn) (d : dwpc) : conn := mkConn (c_key c) (c_reg c) (c_done c) d.
Definition ret_call (k : call) (r : cres) : call := mkCall (cl_conn k) (cl_kind k) (cl_ctx k) (Some r).

Definition conn_done (s : state) (c : nat) : bool :=
  match nth_error (conns s) c with Some x => c_done x | None => false end.

(* ---------- internal rules ---------- *)
Definition rule := state -> option state.

(* Run: rw.Read returned an envelope; lookup-or-create under the lock; go to the hand-off select *)
Definition r_rn_read (s : state) : option state :=
  match rn s, inbox s with
  | RNRead, e :: rest =>
      match find_reg (ekey e) (conns s) 0 with
      | Some c => Some (add_log (set_rn (set_inbox s rest) (RNHand c e)) [EvShRead c e])
      | None =>
          let c := length (conns s) in
          Some (add_log (set_rn (set_inbox (set_conns s (conns s ++ [mkConn (ekey e) true false DWSel])) rest)
                                (RNHand c e))
                        [EvAnnounce c (ekey e); EvShRead c e])
      end
  | _, _ => None
  end.

(* Run: rw.Read returned an error (transport failed, or the demux context is done) *)
Definition r_rn_readerr (s : state) : option state :=
  match rn s with
  | RNRead =>
      if stopped s || (rfail s && match inbox s with [] => true | _ => false end)
      then Some (set_rn s RNDead) else None
  | _ => None
  end.

(* Run: hand-off select, case <-conn.done *)
Definition r_rn_hand_done (s : state) : option state :=
  match rn s with
  | RNHand c e => if conn_done s c then Some (add_log (set_rn s RNRead) [EvDropped c e]) else None
  | _ => None
  end.

(* Run: hand-off select, case <-ctx.Done() *)
Definition r_rn_hand_stop (s : state) : option state :=
  match rn s with
  | RNHand c e => if stopped s then Some (add_log (set_rn s RNDead) [EvLost c e]) else None
  | _ => None
  end.

(* rendezvous on r: Run's [conn.r <- rpc] with a logical Read's [<-c.r] *)
Definition r_read_rdv (i : nat) (s : state) : option state :=
  match nth_error (calls s) i, rn s with
  | Some k, RNHand c e =>
      match cl_kind k, cl_res k with
      | KRead, None =>
          if Nat.eqb (cl_conn k) c
          then Some (add_log (set_rn (set_calls s (upd i (ret_call k (RGot e)) (calls s))) RNRead)
                             [EvHand c e i; EvRet i (RGot e)])
          else None
      | _, _ => None
      end
  | _, _ => None
  end.

(* a logical Read / Write select, case <-ctx.Done() *)
Definition r_call_ctx (i : nat) (s : state) : option state :=
  match nth_error (calls s) i with
  | Some k =>
      match cl_res k with
      | None => if cl_ctx k
                then Some (add_log (set_calls s (upd i (ret_call k RErrCtx) (calls s))) [EvRet i RErrCtx])
                else None
      | Some _ => None
      end
  | None => None
  end.

(* a logical Read / Write select, case <-c.done *)
Definition r_call_done (i : nat) (s : state) : option state :=
  match nth_error (calls s) i with
  | Some k =>
      match cl_res k with
      | None => if conn_done s (cl_conn k)
                then Some (add_log (set_calls s (upd i (ret_call k RErrCancelled) (calls s))) [EvRet i RErrCancelled])
                else None
      | Some _ => None
      end
  | None => None
  end.

(* rendezvous on w: a logical Write's [c.w <- rpc] with the writer goroutine's [<-c.w] *)
Definition r_write_rdv (i : nat) (s : state) : option state :=
  match nth_error (calls s) i with
  | Some k =>
      match cl_kind k, cl_res k, nth_error (conns s) (cl_conn k) with
      | KWrite e, None, Some x =>
          match c_dw x with
          | DWSel =>
              Some (add_log (set_calls (set_conns s (upd (cl_conn k) (set_dw x (DWWrite e)) (conns s)))
                                       (upd i (ret_call k RWrote) (calls s)))
                            [EvAccept (cl_conn k) e i; EvRet i RWrote])
          | _ => None
          end
      | _, _, _ => None
      end
  | None => None
  end.

(* writer goroutine: select, cases <-gsd.ctx.Done() and <-c.done *)
Definition r_dw_exit (c : nat) (s : state) : option state :=
  match nth_error (conns s) c with
  | Some x =>
      match c_dw x with
      | DWSel => if stopped s || c_done x then Some (set_conns s (upd c (set_dw x DWDead) (conns s))) else None
      | _ => None
      end
  | None => None
  end.

(* writer goroutine: gsd.rw.Write(gsd.ctx, rpc) *)
Definition r_dw_write (c : nat) (s : state) : option state :=
  match nth_error (conns s) c with
  | Some x =>
      match c_dw x with
      | DWWrite e =>
          match wm s with
          | WOk => Some (add_log (set_conns s (upd c (set_dw x DWSel) (conns s))) [EvShWrite c e true])
          | WFail => Some (add_log (set_conns s (upd c (set_dw x DWDead) (conns s))) [EvShWrite c e false])
          | WBlock => if stopped s
                      then Some (add_log (set_conns s (upd c (set_dw x DWDead) (conns s))) [EvShWrite c e false])
                      else None
          end
      | _ => None
      end
  | None => None
  end.

Definition per_call_rules : list (nat -> rule) := [r_read_rdv; r_call_ctx; r_call_done; r_write_rdv].
Definition per_conn_rules : list (nat -> rule) := [r_dw_exit; r_dw_write].

Definition rules (s : state) : list rule :=
  [r_rn_read; r_rn_readerr; r_rn_hand_done; r_rn_hand_stop]
  ++ flat_map (fun i => map (fun r => r i) per_call_rules) (seq 0 (length (calls s)))
  ++ flat_map (fun c => map (fun r => r c) per_conn_rules) (seq 0 (length (conns s))).

Definition enabled (s : state) (r : rule) : bool := match r s with Some _ => true | None => false end.
Definition quiescent (s : state) : bool := negb (existsb (enabled s) (rules s)).

(* ---------- environment actions ---------- *)
Inductive act :=
| ADeliver (e : env)            (* an envelope arrives on the shared transport *)
| AFailRead                     (* the shared transport's Read fails from now on *)
| ASetWrite (m : wmode)
| ARead (c : nat)               (* a Read call on instance c starts *)
| AWrite (c : nat) (e : env)    (* a Write call on instance c starts *)
| ACancelCall (i : nat)         (* the context of call i is cancelled *)
| ACancelKey (k : Z)            (* Demux.Cancel(k) *)
| AStop.                        (* Demux.Stop() *)

Definition ext (s : state) (a : act) : state :=
  match a with
  | ADeliver e => set_inbox s (inbox s ++ [e])
  | AFailRead => mkState (rn s) (inbox s) true (stopped s) (wm s) (conns s) (calls s) (crashed s) (log s)
  | ASetWrite m => mkState (rn s) (inbox s) (rfail s) (stopped s) m (conns s) (calls s) (crashed s) (log s)
  | ARead c => if Nat.ltb c (length (conns s)) then set_calls s (calls s ++ [mkCall c KRead false None]) else s
  | AWrite c e => if Nat.ltb c (length (conns s)) then set_calls s (calls s ++ [mkCall c (KWrite e) false None]) else s
  | ACancelCall i =>
      match nth_error (calls s) i with
      | Some k => set_calls s (upd i (mkCall (cl_conn k) (cl_kind k) true (cl_res k)) (calls s))
      | None => s
      end
  | ACancelKey k =>
      match find_reg k (conns s) 0 with
      | Some c =>
          match nth_error (conns s) c with
          | Some x =>
              (* close(conn.done): closing a closed channel panics *)
              mkState (rn s) (inbox s) (rfail s) (stopped s) (wm s)
                      (upd c (mkConn (c_key x) false true (c_dw x)) (conns s)) (calls s)
                      (crashed s || c_done x) (log s)
          | None => s
          end
      | None => s
      end
  | AStop => mkState (rn s) (inbox s) (rfail s) true (wm s) (conns s) (calls s) (crashed s) (log s)
  end.

(* ---------- the LTS of the theorems: any order ---------- *)
Inductive label := LExt (a : act) | LInt (n : nat).    (* n-th entry of [rules s] *)

Definition lstep (s : state) (l : label) : option state :=
  match l with
  | LExt a => Some (ext s a)
  | LInt n => match nth_error (rules s) n with Some r => r s | None => None end
  end.

Fixpoint lrun (s : state) (ls : list label) : option state :=
  match ls with
  | [] => Some s
  | l :: rest => match lstep s l with Some s' => lrun s' rest | None => None end
  end.

Definition reachable (s : state) : Prop := exists ls, lrun init ls = Some s.

(* ---------- projections of the history ---------- *)
Fixpoint pick {A B} (f : A -> option B) (l : list A) : list B :=
  match l with
  | [] => []
  | x :: t => match f x with Some y => y :: pick f t | None => pick f t end
  end.

(* the shared read log: every envelope the run loop took from the shared transport, in order *)
Definition sh_reads (l : list dev) : list env :=
  pick (fun ev => match ev with EvShRead _ e => Some e | _ => None end) l.
(* ... those the run loop routed to instance c *)
Definition routed (c : nat) (l : list dev) : list env :=
  pick (fun ev => match ev with EvShRead c' e => if Nat.eqb c' c then Some e else None | _ => None end) l.
(* what the Read calls on instance c returned, in order *)
Definition handed (c : nat) (l : list dev) : list env :=
  pick (fun ev => match ev with EvHand c' e _ => if Nat.eqb c' c then Some e else None | _ => None end) l.
(* hand-offs abandoned because c was cancelled / the demultiplexer stopped *)
Definition dropped (c : nat) (l : list dev) : list env :=
  pick (fun ev => match ev with
                        | EvDropped c' e | EvLost c' e => if Nat.eqb c' c then Some e else None
                        | _ => None end) l.
(* every hand-off of the run loop to c that came to an end, whichever way *)
Definition disposed (c : nat) (l : list dev) : list env :=
  pick (fun ev => match ev with
                        | EvHand c' e _ | EvDropped c' e | EvLost c' e => if Nat.eqb c' c then Some e else None
                        | _ => None end) l.
Definition announces (l : list dev) : list (nat * Z) :=
  pick (fun ev => match ev with EvAnnounce c k => Some (c, k) | _ => None end) l.
(* what c's writer goroutine accepted from Write calls, in order *)
Definition accepted (c : nat) (l : list dev) : list env :=
  pick (fun ev => match ev with EvAccept c' e _ => if Nat.eqb c' c then Some e else None | _ => None end) l.
(* what c's writer goroutine put on (or failed to put on) the shared transport, in order *)
Definition sh_attempts (c : nat) (l : list dev) : list env :=
  pick (fun ev => match ev with EvShWrite c' e _ => if Nat.eqb c' c then Some e else None | _ => None end) l.
Definition sh_written (c : nat) (l : list dev) : list env :=
  pick (fun ev => match ev with EvShWrite c' e true => if Nat.eqb c' c then Some e else None | _ => None end) l.
Definition sh_failed (c : nat) (l : list dev) : list env :=
  pick (fun ev => match ev with EvShWrite c' e false => if Nat.eqb c' c then Some e else None | _ => None end) l.
(* results returned by call i *)
Definition rets (i : nat) (l : list dev) : list cres :=
  pick (fun ev => match ev with EvRet i' r => if Nat.eqb i' i then Some r else None | _ => None end) l.

(* the envelope the run loop is trying to hand to c / c's writer goroutine is writing *)
Definition rn_pend (s : state) (c : nat) : list env :=
  match rn s with RNHand c' e => if Nat.eqb c' c then [e] else [] | _ => [] end.
Definition dw_pend (s : state) (c : nat) : list env :=
  match nth_error (conns s) c with
  | Some x => match c_dw x with DWWrite e => [e] | _ => [] end
  | None => []
  end.

Definition is_err (r : cres) : bool := match r with RErrCtx | RErrCancelled => true | _ => false end.
Definition dw_dead (s : state) (c : nat) : bool :=
  match nth_error (conns s) c with Some x => match c_dw x with DWDead => true | _ => false end | None => false end.

(* instance c is cancelled and nothing of the demultiplexer can rendezvous with a call on it any more *)
Definition settled (s : state) (c : nat) : bool :=
  conn_done s c && match rn_pend s c with [] => true | _ => false end && dw_dead s c.

Definition call_blocked (k : call) : bool := match cl_res k with None => true | Some _ => false end.

(* what call i has returned so far: nothing, or its one result *)
Definition res_list (s : state) (i : nat) : list cres :=
  match nth_error (calls s) i with
  | Some k => match cl_res k with Some r => [r] | None => [] end
  | None => []
  end.

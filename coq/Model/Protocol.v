(* The wire protocol of the README ("Protocol": Unary, Streaming) as automata over
   the envelopes of ONE stream id in ONE direction, exactly as property C06 states it:

   - a stream opens with ONE header-only envelope, continues with header+body
     envelopes and is closed by at most one trailer envelope carrying a status;
     after it that sender emits no further header, body or trailer on the id;
   - resets are the only other envelopes: the client's single, final reset; a
     server's reset (an answer to a body for a stream it does not, or no longer,
     know) which never overtakes that stream's trailer;
   - a unary exchange is exactly one request (header and body) and exactly one
     response (header, trailer, and a body or a non-OK status);
   - every envelope carries its stream's id and a header whose method, source and
     destination are constant for the stream and direction;
   - response metadata appears only on the first response envelope.

   The conditions that relate the two directions (responses swap source and
   destination, a server emits only for ids it has received, a server reset answers
   a received body, a trailer is present when the handler returned) are stated in
   Check/CwC.v over whole histories.

   No proofs in this file. *)
From Coq Require Import List ZArith Bool.
Import ListNotations.
Open Scope Z_scope.

(* an envelope as it is on the wire; names, methods, metadata and payloads are tokens *)
Record hd := mkHd { h_meth : Z; h_src : Z; h_dst : Z; h_md : Z }.   (* h_md: 0 = no metadata *)
Record penv := mkP {
  p_id : Z;
  p_hdr : option hd;
  p_status : option Z;      (* status code *)
  p_body : option Z;
  p_trl : option Z;         (* trailer present, with its metadata token *)
  p_rst : bool }.

Definition has {A} (o : option A) : bool := match o with Some _ => true | None => false end.

(* ---- shapes ---- *)
Definition is_open (e : penv) : bool :=
  has (p_hdr e) && negb (has (p_body e)) && negb (has (p_trl e)) && negb (has (p_status e)) && negb (p_rst e).
(* header + body: a stream message, or the unary request *)
Definition is_body (e : penv) : bool :=
  has (p_hdr e) && has (p_body e) && negb (has (p_trl e)) && negb (has (p_status e)) && negb (p_rst e).
(* the closing envelope: trailer carrying a status (README: a body may ride on it) *)
Definition is_trailer (e : penv) : bool :=
  has (p_hdr e) && has (p_trl e) && has (p_status e) && negb (p_rst e).
(* a reset: header + reset marker, no payload, no status (the Go server adds an empty trailer) *)
Definition is_rst (e : penv) : bool :=
  has (p_hdr e) && p_rst e && negb (has (p_body e)) && negb (has (p_status e)).
(* the unary response: header, trailer, and a body or a non-OK status *)
Definition is_unary_resp (e : penv) : bool :=
  has (p_hdr e) && has (p_trl e) && negb (p_rst e) &&
  (has (p_body e) || match p_status e with Some c => negb (c =? 0) | None => false end).

Definition md_of (e : penv) : Z := match p_hdr e with Some h => h_md h | None => 0 end.

(* ---- constant id and route (method, source, destination) ---- *)
Definition same_route (a b : penv) : bool :=
  (p_id a =? p_id b) &&
  match p_hdr a, p_hdr b with
  | Some x, Some y => (h_meth x =? h_meth y) && (h_src x =? h_src y) && (h_dst x =? h_dst y)
  | _, _ => false
  end.

Definition const_route (l : list penv) : bool :=
  match l with
  | [] => true
  | e :: r => has (p_hdr e) && forallb (same_route e) r
  end.

(* ---- client to server ---- *)
Inductive cst := CSOpen | CSClosed | CSReset.

Fixpoint c2s_stream (st : cst) (l : list penv) : bool :=
  match l with
  | [] => true
  | e :: r =>
      match st with
      | CSOpen => if is_body e then c2s_stream CSOpen r
                  else if is_trailer e then c2s_stream CSClosed r
                  else if is_rst e then c2s_stream CSReset r
                  else false
      | CSClosed => if is_rst e then c2s_stream CSReset r else false
      | CSReset => false          (* the reset is final *)
      end
  end.

(* the envelopes of one id written by a client *)
Definition proto_c2s (l : list penv) : bool :=
  const_route l &&
  match l with
  | [] => true
  | e :: r =>
      if is_body e then match r with [] => true | _ => false end      (* unary: exactly one request *)
      else if is_open e then c2s_stream CSOpen r                          (* stream *)
      else false
  end.

(* ---- server to client ---- *)
Inductive sst := SSStart | SSMid | SSClosed | SSReset.

Fixpoint s2c_stream (st : sst) (l : list penv) : bool :=
  match l with
  | [] => true
  | e :: r =>
      match st with
      | SSStart =>                                   (* nothing sent yet: metadata may ride on this envelope *)
          if is_open e then s2c_stream SSMid r
          else if is_body e then s2c_stream SSMid r
          else if is_trailer e then s2c_stream SSClosed r
          else if is_rst e then s2c_stream SSReset r
          else false
      | SSMid =>
          if negb (md_of e =? 0) then false          (* response metadata only on the first response envelope *)
          else if is_body e then s2c_stream SSMid r
          else if is_trailer e then s2c_stream SSClosed r
          else if is_rst e then s2c_stream SSReset r
          else false                                 (* in particular no second header-only envelope *)
      | SSClosed =>                                  (* after the trailer: only resets answering late bodies *)
          if is_rst e && (md_of e =? 0) then s2c_stream SSClosed r else false
      | SSReset =>                                   (* a reset that was not preceded by a trailer: no trailer may follow *)
          if is_rst e && (md_of e =? 0) then s2c_stream SSReset r else false
      end
  end.

(* the envelopes of one id written by a server; [unary]: the id's request was a unary one *)
Definition proto_s2c (unary : bool) (l : list penv) : bool :=
  const_route l &&
  if unary
  then match l with
       | [] => true
       | [e] => is_unary_resp e
       | _ => false
       end
  else s2c_stream SSStart l.

(* ---- whole histories ---- *)
Definition proj (i : Z) (l : list penv) : list penv := filter (fun e => p_id e =? i) l.

Fixpoint zmem (x : Z) (l : list Z) : bool :=
  match l with [] => false | y :: t => (x =? y) || zmem x t end.

Fixpoint ids_of (l : list penv) (seen : list Z) : list Z :=
  match l with
  | [] => []
  | e :: t => if zmem (p_id e) seen then ids_of t seen else p_id e :: ids_of t (p_id e :: seen)
  end.

Definition unary_id (c2s : list penv) (i : Z) : bool :=
  match proj i c2s with e :: _ => is_body e | [] => false end.

Definition monitor_c2s (c2s : list penv) : bool :=
  forallb (fun i => proto_c2s (proj i c2s)) (ids_of c2s []).

Definition monitor_s2c (c2s s2c : list penv) : bool :=
  forallb (fun i => proto_s2c (unary_id c2s i) (proj i s2c)) (ids_of s2c []).

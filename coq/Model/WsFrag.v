(* C19, the WebSocket transport below the frame: goatOverWebsocket.Write puts ONE frame on the connection, and the
   connection carries it as a sequence of fragments (the bytes that fit the socket buffers). The Writes of one connection
   are serialised by the connection's write lock (coder/websocket), a Write whose context ends while it waits for the
   lock returns an error without having written anything, a Write whose context ends (or whose connection fails) MID-FRAME
   returns an error, leaves a partial frame on the wire and closes the connection. The reading end assembles fragments
   and returns an envelope only at the LAST fragment of a frame; a partial frame is never returned: Read waits, or fails
   once the connection is closed. Payloads are opaque (E); [room] is what the wire still takes (a bounded relay, a socket
   whose peer does not read). *)
From Coq Require Import List ZArith Bool Lia.
Import ListNotations.
From Goat Require Import Model.Transports.
Open Scope Z_scope.

Inductive fwst := FWait | FSend | FDone (ok : bool).
Record fwrite (E : Type) := mkFW { fw_env : E; fw_left : nat; fw_ctx : bool; fw_st : fwst }.
Arguments mkFW {E} _ _ _ _.
Arguments fw_env {E} _.
Arguments fw_left {E} _.
Arguments fw_ctx {E} _.
Arguments fw_st {E} _.

Inductive fev := FEvFrag (w : nat) | FEvLast (w : nat) | FEvWRet (w : nat) (ok : bool) | FEvRead (w : nat) | FEvReadErr.

Record fstate (E : Type) := mkF {
  f_ws : list (fwrite E);
  f_lock : option nat;            (* the Write that holds the connection's write lock *)
  f_wire : list (nat * bool);     (* fragments in flight: (write, last fragment of its frame?) *)
  f_room : nat;                   (* fragments the wire still takes *)
  f_rd : bool;                    (* a Read is pending *)
  f_closed : bool;                (* the connection was closed (a Write gave up mid-frame) *)
  f_log : list fev }.
Arguments mkF {E} _ _ _ _ _ _ _.
Arguments f_ws {E} _.
Arguments f_lock {E} _.
Arguments f_wire {E} _.
Arguments f_room {E} _.
Arguments f_rd {E} _.
Arguments f_closed {E} _.
Arguments f_log {E} _.

Inductive fact (E : Type) :=
| FWrite (e : E) (n : nat)   (* Write(ctx, e); the frame takes n + 1 fragments *)
| FCancel (w : nat)          (* the context of Write w ends *)
| FRead                      (* a Read starts (one at a time) *)
| FRoom (n : nat).           (* the wire takes n more fragments (the far socket was drained) *)
Arguments FWrite {E} e n.
Arguments FCancel {E} w.
Arguments FRead {E}.
Arguments FRoom {E} n.

Definition f_init {E} (room : nat) : fstate E := mkF [] None [] room false false [].

Definition set_fw {E} (s : fstate E) (w : nat) (x : fwrite E) : list (fwrite E) := upd w x (f_ws s).

Definition f_ext {E} (s : fstate E) (a : fact E) : fstate E :=
  match a with
  | FWrite e n => mkF (f_ws s ++ [mkFW e n false FWait]) (f_lock s) (f_wire s) (f_room s) (f_rd s) (f_closed s) (f_log s)
  | FCancel w =>
      match nth_error (f_ws s) w with
      | Some x => mkF (set_fw s w (mkFW (fw_env x) (fw_left x) true (fw_st x))) (f_lock s) (f_wire s) (f_room s) (f_rd s) (f_closed s) (f_log s)
      | None => s
      end
  | FRead => mkF (f_ws s) (f_lock s) (f_wire s) (f_room s) true (f_closed s) (f_log s)
  | FRoom n => mkF (f_ws s) (f_lock s) (f_wire s) (f_room s + n) (f_rd s) (f_closed s) (f_log s)
  end.

(* a waiting Write takes the free lock (not on a closed connection) *)
Definition fr_acquire {E} (w : nat) (s : fstate E) : option (fstate E) :=
  match nth_error (f_ws s) w, f_lock s with
  | Some x, None =>
      match fw_st x with
      | FWait => if f_closed s then None
                 else Some (mkF (set_fw s w (mkFW (fw_env x) (fw_left x) (fw_ctx x) FSend)) (Some w) (f_wire s) (f_room s) (f_rd s) false (f_log s))
      | _ => None
      end
  | _, _ => None
  end.

(* the holder of the lock puts the next fragment on the wire, if the wire takes it; the last one ends the Write *)
Definition fr_frag {E} (w : nat) (s : fstate E) : option (fstate E) :=
  match nth_error (f_ws s) w, f_room s with
  | Some x, S room =>
      match fw_st x with
      | FSend =>
          match fw_left x with
          | S n => Some (mkF (set_fw s w (mkFW (fw_env x) n (fw_ctx x) FSend)) (f_lock s) (f_wire s ++ [(w, false)]) room
                             (f_rd s) (f_closed s) (f_log s ++ [FEvFrag w]))
          | O => Some (mkF (set_fw s w (mkFW (fw_env x) O (fw_ctx x) (FDone true))) None (f_wire s ++ [(w, true)]) room
                           (f_rd s) (f_closed s) (f_log s ++ [FEvLast w; FEvWRet w true]))
          end
      | _ => None
      end
  | _, _ => None
  end.

(* the context ends: waiting for the lock -> error, nothing written; mid-frame -> error, the connection is closed *)
Definition fr_ctx {E} (w : nat) (s : fstate E) : option (fstate E) :=
  match nth_error (f_ws s) w with
  | Some x =>
      if fw_ctx x then
        match fw_st x with
        | FWait => Some (mkF (set_fw s w (mkFW (fw_env x) (fw_left x) true (FDone false))) (f_lock s) (f_wire s) (f_room s)
                             (f_rd s) (f_closed s) (f_log s ++ [FEvWRet w false]))
        | FSend => Some (mkF (set_fw s w (mkFW (fw_env x) (fw_left x) true (FDone false))) None (f_wire s) (f_room s)
                             (f_rd s) true (f_log s ++ [FEvWRet w false]))
        | FDone _ => None
        end
      else None
  | None => None
  end.

(* a Write on a closed connection fails *)
Definition fr_closed {E} (w : nat) (s : fstate E) : option (fstate E) :=
  match nth_error (f_ws s) w with
  | Some x =>
      match fw_st x with
      | FWait => if f_closed s
                 then Some (mkF (set_fw s w (mkFW (fw_env x) (fw_left x) (fw_ctx x) (FDone false))) (f_lock s) (f_wire s) (f_room s)
                                (f_rd s) (f_closed s) (f_log s ++ [FEvWRet w false]))
                 else None
      | _ => None
      end
  | None => None
  end.

(* the pending Read takes the next fragment; at a last fragment it returns the frame's envelope *)
Definition fr_read {E} (s : fstate E) : option (fstate E) :=
  if f_rd s then
    match f_wire s with
    | (w, false) :: rest => Some (mkF (f_ws s) (f_lock s) rest (S (f_room s)) true (f_closed s) (f_log s))
    | (w, true) :: rest => Some (mkF (f_ws s) (f_lock s) rest (S (f_room s)) false (f_closed s) (f_log s ++ [FEvRead w]))
    | [] => if f_closed s then Some (mkF (f_ws s) (f_lock s) [] (f_room s) false true (f_log s ++ [FEvReadErr])) else None
    end
  else None.

Definition f_rules {E} (s : fstate E) : list (fstate E -> option (fstate E)) :=
  fr_read :: flat_map (fun w => [fr_acquire w; fr_frag w; fr_ctx w; fr_closed w]) (seq 0 (length (f_ws s))).

Definition f_run {E} (room : nat) (ls : list (label (fact E))) : option (fstate E) := lrun f_ext f_rules (f_init room) ls.

(* projections of the log *)
Fixpoint lasts (l : list fev) : list nat := match l with [] => [] | FEvLast w :: t => w :: lasts t | _ :: t => lasts t end.
Fixpoint freads (l : list fev) : list nat := match l with [] => [] | FEvRead w :: t => w :: freads t | _ :: t => freads t end.
Definition whole_in_flight (wire : list (nat * bool)) : list nat := map fst (filter snd wire).

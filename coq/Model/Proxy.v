(* Small-step model of goat.Proxy (proxy.go) as the code is now (after the
   fixes D-17a source check logs and drops, D-17b error offers select on the
   context, D-17c removal by identity, D-17d empty return route).

   - names, payloads are opaque tokens (Z); an envelope carries what the proxy
     looks at: header present?, source, destination, route record, return
     route (nil / non-nil list) and one token for everything else;
   - client *records* (proxyClient) are numbered in creation order; the table
     name -> record of the code is the set of records with [p_reg = true];
     AddClient replaces the table entry, the replaced record's goroutines keep
     running (as in the code);
   - the forwarding loop never blocks inside one iteration (non-blocking
     enqueue, mutex held only around map accesses), so "receive one command and
     handle it" is one atomic rule per offering goroutine ([r_fw_cmd],
     [r_fw_err_*]); its select has the context case [r_fw_exit];
   - per record: the dial goroutine [p_dl], the read loop [p_rd], the write
     loop [p_wr], the errgroup context [p_gctx] shared by the two loops
     (cancelled as soon as one of them returns), the 16-slot buffer [p_buf]
     (capacity [cf_buf]);
   - the peer transport: Read returns the delivered envelopes in order, fails
     once the environment failed it and nothing is queued; a blocked Read /
     blocked Write returns when its context is done iff the transport honours
     contexts ([p_honour]); Write succeeds, fails or blocks as the environment
     says;
   - the interceptor is a function (source, destination) -> new destination or
     rejection; the configuration [cfg] is an explicit argument everywhere;
   - [forward_gen ghdr gnext]: the route decision with / without the guards the
     code puts in front of its panic-capable operations on peer data (nil
     header dereference; index into an empty return route - gnext = false is
     the code before D-17d); the code is [forward_gen true true];
   - every state carries the history [log]. *)
From Coq Require Import List ZArith Bool Lia.
Import ListNotations.
Open Scope Z_scope.

Record env := mkEnv {
  e_hdr : bool;
  e_src : Z;
  e_dst : Z;
  e_rec : list Z;               (* ProxyRecord *)
  e_next : option (list Z);     (* ProxyNext: nil | non-nil *)
  e_pay : Z }.                  (* id, method, headers, body, status, trailer, ... *)

Record cfg := mkCfg {
  cf_name : Z;                          (* the proxy's own name *)
  cf_buf : nat;                         (* clientBufferSize *)
  cf_icp : Z -> Z -> option Z }.        (* interceptor: source -> destination -> rewritten destination | error *)

Inductive fwd_res :=
| FBad                          (* header missing or source <> attach name: logged and dropped *)
| FReject                       (* the interceptor returned an error: dropped *)
| FCrash                        (* index out of range (only the code before D-17d) *)
| FRoute (d : Z) (e' : env).    (* routed to name d as e' *)

(* The operations of forwardRpc that can panic on peer-controlled data, each with the guard the code puts in front of
   it (proxy.go at /repo HEAD):
     - rpc.Header.Source, l.136: nil-pointer dereference when the envelope has no header; guard [ghdr]: the test
       "rpc.Header == nil ||" evaluated first on the same line;
     - rpc.Header.ProxyNext[len-1] and the re-slice [0:len-1], l.162-163: index out of range on an empty list;
       guard [gnext]: "len(rpc.Header.ProxyNext) > 0", l.161 (before the D-17d repair: "!= nil").
   [forward_gen ghdr gnext]: the function with / without each guard; without a guard the offending input gives
   FCrash. The code is [forward_gen true true]. (The other panic-capable operations of proxy.go are not functions of
   peer data: the table p.clients is read and written only under p.mutex, l.80-82, 95 with 168-173, 116-122 - in the
   model: inside atomic steps; proxy.go closes no channel; c.conn is assigned, l.235, before the loops that use it,
   l.189 / 211, are started.) *)
Definition forward_gen (ghdr gnext : bool) (cf : cfg) (src : Z) (e : env) : fwd_res :=
  if negb ghdr && negb (e_hdr e) then FCrash else
  if negb (e_hdr e) || negb (e_src e =? src) then FBad
  else match cf_icp cf (e_src e) (e_dst e) with
       | None => FReject
       | Some d1 =>
           let rec' := e_rec e ++ [cf_name cf] in
           match e_next e with
           | None => FRoute d1 (mkEnv true (e_src e) d1 rec' None (e_pay e))
           | Some [] => if gnext then FRoute d1 (mkEnv true (e_src e) d1 rec' (Some []) (e_pay e)) else FCrash
           | Some (x :: l) => FRoute (last (x :: l) 0) (mkEnv true (e_src e) d1 rec' (Some (removelast (x :: l))) (e_pay e))
           end
       end.

Definition forward := forward_gen true true.

(* ---------- state ---------- *)
Inductive dlpc := DLNone | DLDial | DLOffer | DLDead.
Inductive rdpc := RDIdle | RDRead | RDOffer (e : env) | RDOfferErr | RDDead.
Inductive wrpc := WRIdle | WRSel | WRWrite (e : env) | WROfferErr | WRDead.
Inductive wmode := WOk | WFail | WBlock.

Record client := mkClient {
  p_name : Z;
  p_dialled : bool;             (* created by the forwarding loop (dial on demand), not by AddClient *)
  p_reg : bool;                 (* the table entry of its name is this record *)
  p_dl : dlpc;                  (* connect goroutine *)
  p_rd : rdpc;                  (* readLoop goroutine *)
  p_wr : wrpc;                  (* writeLoop goroutine *)
  p_gctx : bool;                (* the errgroup context is cancelled *)
  p_buf : list env;             (* fromServer *)
  p_inbox : list env;           (* delivered by the peer, not yet read *)
  p_rfail : bool;
  p_wmode : wmode;
  p_honour : bool;              (* the transport's blocked Read / Write return when the context is done *)
  p_delivered : list env }.     (* history: everything the peer ever delivered *)

Inductive pev :=
| EvCmd (j : nat) (e : env)                                  (* the forwarding loop received e from record j's read loop *)
| EvBad (j : nat) (e : env)                                  (* ... and dropped it: bad header / spoofed source *)
| EvRej (j : nat) (e : env)                                  (* ... the interceptor rejected it *)
| EvFwd (j : nat) (e : env) (i : nat) (e' : env) (ok : bool) (* ... accepted; routed as e' to record i; ok = enqueued, false = dropped (buffer full) *)
| EvDial (i : nat) (n : Z)                                   (* record i created for name n: go connect *)
| EvRdLost (j : nat) (e : env)                               (* j's read loop gave up offering e (context done) *)
| EvTake (i : nat) (e : env)                                 (* i's write loop took e from the buffer *)
| EvOut (i : nat) (e : env)                                  (* conn.Write(e) succeeded: e was handed to record i's connection *)
| EvWFail (i : nat) (e : env)                                (* conn.Write(e) failed *)
| EvDisc (i : nat) (n : Z) (removed : bool).                 (* error command of record i handled: callback(n); removed = the table entry was i *)

Record state := mkState {
  fw : bool;                    (* the forwarding loop (Serve) is running *)
  cancelled : bool;             (* the proxy context is done *)
  clients : list client;
  crashed : bool;
  log : list pev }.

Definition init : state := mkState true false [] false [].

(* ---------- helpers ---------- *)
Fixpoint upd {A} (n : nat) (x : A) (l : list A) : list A :=
  match l, n with
  | [], _ => []
  | _ :: t, O => x :: t
  | h :: t, S m => h :: upd m x t
  end.

Fixpoint find_reg (n : Z) (cs : list client) (k : nat) : option nat :=
  match cs with
  | [] => None
  | c :: t => if p_reg c && (p_name c =? n) then Some k else find_reg n t (S k)
  end.

Definition set_clients (s : state) (cs : list client) : state :=
  mkState (fw s) (cancelled s) cs (crashed s) (log s).
Definition add_log (s : state) (evs : list pev) : state :=
  mkState (fw s) (cancelled s) (clients s) (crashed s) (log s ++ evs).

Definition set_reg (c : client) (b : bool) : client :=
  mkClient (p_name c) (p_dialled c) b (p_dl c) (p_rd c) (p_wr c) (p_gctx c) (p_buf c) (p_inbox c) (p_rfail c) (p_wmode c)
           (p_honour c) (p_delivered c).
Definition set_dl (c : client) (d : dlpc) : client :=
  mkClient (p_name c) (p_dialled c) (p_reg c) d (p_rd c) (p_wr c) (p_gctx c) (p_buf c) (p_inbox c) (p_rfail c) (p_wmode c)
           (p_honour c) (p_delivered c).
(* the read loop moves on; [g]: it returned, which cancels the errgroup context *)
Definition set_rd (c : client) (r : rdpc) (g : bool) : client :=
  mkClient (p_name c) (p_dialled c) (p_reg c) (p_dl c) r (p_wr c) (p_gctx c || g) (p_buf c) (p_inbox c) (p_rfail c) (p_wmode c)
           (p_honour c) (p_delivered c).
Definition set_wr (c : client) (w : wrpc) (g : bool) : client :=
  mkClient (p_name c) (p_dialled c) (p_reg c) (p_dl c) (p_rd c) w (p_gctx c || g) (p_buf c) (p_inbox c) (p_rfail c) (p_wmode c)
           (p_honour c) (p_delivered c).
Definition set_buf (c : client) (b : list env) : client :=
  mkClient (p_name c) (p_dialled c) (p_reg c) (p_dl c) (p_rd c) (p_wr c) (p_gctx c) b (p_inbox c) (p_rfail c) (p_wmode c)
           (p_honour c) (p_delivered c).
Definition set_inbox (c : client) (q : list env) : client :=
  mkClient (p_name c) (p_dialled c) (p_reg c) (p_dl c) (p_rd c) (p_wr c) (p_gctx c) (p_buf c) q (p_rfail c) (p_wmode c)
           (p_honour c) (p_delivered c).

Definition new_attached (n : Z) (honour : bool) : client :=
  mkClient n false true DLNone RDRead WRSel false [] [] false WOk honour [].
Definition new_dialled (n : Z) : client :=
  mkClient n true true DLDial RDIdle WRIdle false [] [] false WOk true [].

(* the context the two loops of a record run under *)
Definition ctx_done (s : state) (c : client) : bool := p_gctx c || cancelled s.

(* ---------- internal rules ---------- *)
Definition rule := state -> option state.

(* select { case client.fromServer <- rpc: default: drop }: the record after the attempt, and whether it was enqueued *)
Definition enqueue_c (cf : cfg) (ci : client) (e' : env) : client * bool :=
  if Nat.ltb (length (p_buf ci)) (cf_buf cf) then (set_buf ci (p_buf ci ++ [e']), true) else (ci, false).

(* the forwarding loop receives an envelope command from record j's read loop and forwards it *)
Definition r_fw_cmd (cf : cfg) (j : nat) (s : state) : option state :=
  if fw s then
    match nth_error (clients s) j with
    | Some cj =>
        match p_rd cj with
        | RDOffer e =>
            let cs1 := upd j (set_rd cj RDRead false) (clients s) in
            match forward cf (p_name cj) e with
            | FBad => Some (add_log (set_clients s cs1) [EvCmd j e; EvBad j e])
            | FReject => Some (add_log (set_clients s cs1) [EvCmd j e; EvRej j e])
            | FCrash => Some (mkState false (cancelled s) cs1 true (log s ++ [EvCmd j e]))
            | FRoute d e' =>
                match find_reg d cs1 0 with
                | Some i =>
                    match nth_error cs1 i with
                    | Some ci => Some (add_log (set_clients s (upd i (fst (enqueue_c cf ci e')) cs1))
                                               [EvCmd j e; EvFwd j e i e' (snd (enqueue_c cf ci e'))])
                    | None => None
                    end
                | None =>
                    (* addOutgoingConnectionLocked: new record, go connect *)
                    let i := length cs1 in
                    Some (add_log (set_clients s (cs1 ++ [fst (enqueue_c cf (new_dialled d) e')]))
                                  [EvCmd j e; EvDial i d; EvFwd j e i e' (snd (enqueue_c cf (new_dialled d) e'))])
                end
            end
        | _ => None
        end
    | None => None
    end
  else None.

(* handling an error command of record j (cj: the record after its goroutine returned): forget the record if it
   is still the table entry, call back *)
Definition disconnect (s : state) (j : nat) (cj : client) : state :=
  add_log (set_clients s (upd j (set_reg cj false) (clients s))) [EvDisc j (p_name cj) (p_reg cj)].

Definition r_fw_err_rd (j : nat) (s : state) : option state :=
  if fw s then
    match nth_error (clients s) j with
    | Some cj => match p_rd cj with
                 | RDOfferErr => Some (disconnect s j (set_rd cj RDDead true))
                 | _ => None
                 end
    | None => None
    end
  else None.

Definition r_fw_err_wr (j : nat) (s : state) : option state :=
  if fw s then
    match nth_error (clients s) j with
    | Some cj => match p_wr cj with
                 | WROfferErr => Some (disconnect s j (set_wr cj WRDead true))
                 | _ => None
                 end
    | None => None
    end
  else None.

Definition r_fw_err_dl (j : nat) (s : state) : option state :=
  if fw s then
    match nth_error (clients s) j with
    | Some cj => match p_dl cj with
                 | DLOffer => Some (disconnect s j (set_dl cj DLDead))
                 | _ => None
                 end
    | None => None
    end
  else None.

(* serveClients: case <-ctx.Done() *)
Definition r_fw_exit (s : state) : option state :=
  if fw s && cancelled s then Some (mkState false (cancelled s) (clients s) (crashed s) (log s)) else None.

(* readLoop: conn.Read returned an envelope / the transport's error *)
Definition r_rd_read (j : nat) (s : state) : option state :=
  match nth_error (clients s) j with
  | Some cj =>
      match p_rd cj with
      | RDRead =>
          match p_inbox cj with
          | e :: rest => Some (set_clients s (upd j (set_inbox (set_rd cj (RDOffer e) false) rest) (clients s)))
          | [] => if p_rfail cj then Some (set_clients s (upd j (set_rd cj RDOfferErr false) (clients s))) else None
          end
      | _ => None
      end
  | None => None
  end.

(* readLoop: conn.Read returned because its context is done *)
Definition r_rd_ctx (j : nat) (s : state) : option state :=
  match nth_error (clients s) j with
  | Some cj =>
      match p_rd cj with
      | RDRead => if ctx_done s cj && p_honour cj
                  then Some (set_clients s (upd j (set_rd cj RDOfferErr false) (clients s))) else None
      | _ => None
      end
  | None => None
  end.

(* readLoop: the offer selects, case <-ctx.Done() *)
Definition r_rd_giveup (j : nat) (s : state) : option state :=
  match nth_error (clients s) j with
  | Some cj =>
      match p_rd cj with
      | RDOffer e => if ctx_done s cj
                     then Some (add_log (set_clients s (upd j (set_rd cj RDDead true) (clients s))) [EvRdLost j e]) else None
      | RDOfferErr => if ctx_done s cj then Some (set_clients s (upd j (set_rd cj RDDead true) (clients s))) else None
      | _ => None
      end
  | None => None
  end.

(* writeLoop: select, case rpc := <-c.fromServer *)
Definition r_wr_take (j : nat) (s : state) : option state :=
  match nth_error (clients s) j with
  | Some cj =>
      match p_wr cj, p_buf cj with
      | WRSel, e :: rest => Some (add_log (set_clients s (upd j (set_buf (set_wr cj (WRWrite e) false) rest) (clients s))) [EvTake j e])
      | _, _ => None
      end
  | None => None
  end.

(* writeLoop: select, case <-ctx.Done() *)
Definition r_wr_exit (j : nat) (s : state) : option state :=
  match nth_error (clients s) j with
  | Some cj =>
      match p_wr cj with
      | WRSel => if ctx_done s cj then Some (set_clients s (upd j (set_wr cj WRDead true) (clients s))) else None
      | _ => None
      end
  | None => None
  end.

(* writeLoop: conn.Write returned *)
Definition r_wr_write (j : nat) (s : state) : option state :=
  match nth_error (clients s) j with
  | Some cj =>
      match p_wr cj with
      | WRWrite e =>
          match p_wmode cj with
          | WOk => Some (add_log (set_clients s (upd j (set_wr cj WRSel false) (clients s))) [EvOut j e])
          | WFail => Some (add_log (set_clients s (upd j (set_wr cj WROfferErr false) (clients s))) [EvWFail j e])
          | WBlock => None
          end
      | _ => None
      end
  | None => None
  end.

(* writeLoop: a blocked conn.Write returned because its context is done *)
Definition r_wr_ctx (j : nat) (s : state) : option state :=
  match nth_error (clients s) j with
  | Some cj =>
      match p_wr cj, p_wmode cj with
      | WRWrite e, WBlock =>
          if ctx_done s cj && p_honour cj
          then Some (add_log (set_clients s (upd j (set_wr cj WROfferErr false) (clients s))) [EvWFail j e]) else None
      | _, _ => None
      end
  | None => None
  end.

(* writeLoop: the error offer selects, case <-ctx.Done() *)
Definition r_wr_giveup (j : nat) (s : state) : option state :=
  match nth_error (clients s) j with
  | Some cj =>
      match p_wr cj with
      | WROfferErr => if ctx_done s cj then Some (set_clients s (upd j (set_wr cj WRDead true) (clients s))) else None
      | _ => None
      end
  | None => None
  end.

(* connect: the error offer selects, case <-ctx.Done() (the proxy context) *)
Definition r_dl_giveup (j : nat) (s : state) : option state :=
  match nth_error (clients s) j with
  | Some cj =>
      match p_dl cj with
      | DLOffer => if cancelled s then Some (set_clients s (upd j (set_dl cj DLDead) (clients s))) else None
      | _ => None
      end
  | None => None
  end.

Definition per_client_rules (cf : cfg) : list (nat -> rule) :=
  [r_fw_cmd cf; r_fw_err_rd; r_fw_err_wr; r_fw_err_dl; r_rd_read; r_rd_ctx; r_rd_giveup;
   r_wr_take; r_wr_exit; r_wr_write; r_wr_ctx; r_wr_giveup; r_dl_giveup].

Definition rules (cf : cfg) (s : state) : list rule :=
  r_fw_exit :: flat_map (fun j => map (fun r => r j) (per_client_rules cf)) (seq 0 (length (clients s))).

Definition enabled (s : state) (r : rule) : bool := match r s with Some _ => true | None => false end.
Definition quiescent (cf : cfg) (s : state) : bool := negb (existsb (enabled s) (rules cf s)).

(* ---------- environment actions ---------- *)
Inductive act :=
| AAttach (n : Z) (honour : bool)        (* AddClient(n, conn) *)
| ADeliver (j : nat) (e : env)           (* record j's peer sends e *)
| AFailRead (j : nat)                    (* record j's transport fails its Read from now on *)
| ASetWrite (j : nat) (m : wmode)
| ADialOk (j : nat) (honour : bool)      (* newConnection(name) returned a connection *)
| ADialFail (j : nat)                    (* newConnection(name) returned an error *)
| ACancel.                               (* the proxy context is cancelled *)

Definition with_client (s : state) (j : nat) (f : client -> option client) : state :=
  match nth_error (clients s) j with
  | Some c => match f c with Some c' => set_clients s (upd j c' (clients s)) | None => s end
  | None => s
  end.

Definition ext (s : state) (a : act) : state :=
  match a with
  | AAttach n honour =>
      let cs := match find_reg n (clients s) 0 with
                | Some i => match nth_error (clients s) i with
                            | Some c => upd i (set_reg c false) (clients s)
                            | None => clients s
                            end
                | None => clients s
                end in
      set_clients s (cs ++ [new_attached n honour])
  | ADeliver j e =>
      with_client s j (fun c => Some (mkClient (p_name c) (p_dialled c) (p_reg c) (p_dl c) (p_rd c) (p_wr c) (p_gctx c) (p_buf c)
                                               (p_inbox c ++ [e]) (p_rfail c) (p_wmode c) (p_honour c) (p_delivered c ++ [e])))
  | AFailRead j =>
      with_client s j (fun c => Some (mkClient (p_name c) (p_dialled c) (p_reg c) (p_dl c) (p_rd c) (p_wr c) (p_gctx c) (p_buf c)
                                               (p_inbox c) true (p_wmode c) (p_honour c) (p_delivered c)))
  | ASetWrite j m =>
      with_client s j (fun c => Some (mkClient (p_name c) (p_dialled c) (p_reg c) (p_dl c) (p_rd c) (p_wr c) (p_gctx c) (p_buf c)
                                               (p_inbox c) (p_rfail c) m (p_honour c) (p_delivered c)))
  | ADialOk j honour =>
      with_client s j (fun c => match p_dl c with
                                | DLDial => Some (mkClient (p_name c) (p_dialled c) (p_reg c) DLDead RDRead WRSel (p_gctx c) (p_buf c)
                                                           (p_inbox c) (p_rfail c) (p_wmode c) honour (p_delivered c))
                                | _ => None end)
  | ADialFail j =>
      with_client s j (fun c => match p_dl c with DLDial => Some (set_dl c DLOffer) | _ => None end)
  | ACancel => mkState (fw s) true (clients s) (crashed s) (log s)
  end.

(* ---------- the LTS of the theorems: any order ---------- *)
Inductive label := LExt (a : act) | LInt (n : nat).    (* n-th entry of [rules cf s] *)

Definition lstep (cf : cfg) (s : state) (l : label) : option state :=
  match l with
  | LExt a => Some (ext s a)
  | LInt n => match nth_error (rules cf s) n with Some r => r s | None => None end
  end.

Fixpoint lrun (cf : cfg) (s : state) (ls : list label) : option state :=
  match ls with
  | [] => Some s
  | l :: rest => match lstep cf s l with Some s' => lrun cf s' rest | None => None end
  end.

Definition reachable (cf : cfg) (s : state) : Prop := exists ls, lrun cf init ls = Some s.

(* ---------- projections of the history ---------- *)
Fixpoint pick {A B} (f : A -> option B) (l : list A) : list B :=
  match l with
  | [] => []
  | x :: t => match f x with Some y => y :: pick f t | None => pick f t end
  end.

(* envelopes the forwarding loop received from record j, in order *)
Definition cmds (j : nat) (l : list pev) : list env :=
  pick (fun ev => match ev with EvCmd j' e => if Nat.eqb j' j then Some e else None | _ => None end) l.
Definition rd_lost (j : nat) (l : list pev) : list env :=
  pick (fun ev => match ev with EvRdLost j' e => if Nat.eqb j' j then Some e else None | _ => None end) l.
(* accepted envelopes routed to record i, after the route transformation: all of them / the enqueued ones / the dropped ones *)
Definition fwds (i : nat) (l : list pev) : list env :=
  pick (fun ev => match ev with EvFwd _ _ i' e' _ => if Nat.eqb i' i then Some e' else None | _ => None end) l.
Definition enqs (i : nat) (l : list pev) : list env :=
  pick (fun ev => match ev with EvFwd _ _ i' e' true => if Nat.eqb i' i then Some e' else None | _ => None end) l.
Definition dropped (i : nat) (l : list pev) : list env :=
  pick (fun ev => match ev with EvFwd _ _ i' e' false => if Nat.eqb i' i then Some e' else None | _ => None end) l.
Definition takes (i : nat) (l : list pev) : list env :=
  pick (fun ev => match ev with EvTake i' e => if Nat.eqb i' i then Some e else None | _ => None end) l.
(* what record i's connection was handed *)
Definition outs (i : nat) (l : list pev) : list env :=
  pick (fun ev => match ev with EvOut i' e => if Nat.eqb i' i then Some e else None | _ => None end) l.
Definition wfails (i : nat) (l : list pev) : list env :=
  pick (fun ev => match ev with EvWFail i' e => if Nat.eqb i' i then Some e else None | _ => None end) l.
Definition dials (l : list pev) : list (nat * Z) :=
  pick (fun ev => match ev with EvDial i n => Some (i, n) | _ => None end) l.
Definition discs (i : nat) (l : list pev) : list (Z * bool) :=
  pick (fun ev => match ev with EvDisc i' n r => if Nat.eqb i' i then Some (n, r) else None | _ => None end) l.
Definition total_drops (l : list pev) : nat :=
  length (pick (fun ev => match ev with EvFwd _ _ _ _ false => Some tt | _ => None end) l).

(* occupancy of record i's buffer according to the history *)
Definition occupancy (i : nat) (l : list pev) : nat := (length (enqs i l) - length (takes i l))%nat.

(* the envelope record j's read loop is offering / record i's write loop is writing *)
Definition rd_pend (s : state) (j : nat) : list env :=
  match nth_error (clients s) j with
  | Some c => match p_rd c with RDOffer e => [e] | _ => [] end
  | None => []
  end.
Definition wr_pend (s : state) (i : nat) : list env :=
  match nth_error (clients s) i with
  | Some c => match p_wr c with WRWrite e => [e] | _ => [] end
  | None => []
  end.
Definition buf_of (s : state) (i : nat) : list env :=
  match nth_error (clients s) i with Some c => p_buf c | None => [] end.
Definition inbox_of (s : state) (i : nat) : list env :=
  match nth_error (clients s) i with Some c => p_inbox c | None => [] end.
Definition delivered_of (s : state) (i : nat) : list env :=
  match nth_error (clients s) i with Some c => p_delivered c | None => [] end.

(* the records created by dial on demand, with their names, in creation order *)
Fixpoint dialled_from (cs : list client) (k : nat) : list (nat * Z) :=
  match cs with
  | [] => []
  | c :: t => (if p_dialled c then [(k, p_name c)] else []) ++ dialled_from t (S k)
  end.

(* a goroutine of the proxy that belongs to record c is alive *)
Definition rd_alive (c : client) : bool := match p_rd c with RDIdle | RDDead => false | _ => true end.
Definition wr_alive (c : client) : bool := match p_wr c with WRIdle | WRDead => false | _ => true end.
Definition dl_alive (c : client) : bool := match p_dl c with DLDial | DLOffer => true | _ => false end.
Definition client_alive (c : client) : bool := rd_alive c || wr_alive c || dl_alive c.
Definition dial_pending (c : client) : bool := match p_dl c with DLDial => true | _ => false end.

(* the route transformation: what may differ between an accepted envelope and what is handed on *)
Definition same_payload (e e' : env) : Prop := e_hdr e' = true /\ e_src e' = e_src e /\ e_pay e' = e_pay e.

(* accepted envelopes routed to record i with the outcome of the non-blocking enqueue *)
Definition fwdsb (i : nat) (l : list pev) : list (env * bool) :=
  pick (fun ev => match ev with EvFwd _ _ i' e' ok => if Nat.eqb i' i then Some (e', ok) else None | _ => None end) l.

(* an envelope is dropped only when the destination's buffer is full *)
Definition drops_only_when_full (cap : nat) (l : list pev) : Prop :=
  forall pre j e i e' post, l = pre ++ EvFwd j e i e' false :: post -> occupancy i pre = cap.

(* ---------- the server's side of the return route ---------- *)
(* what a goat server answers to a request that reached it as e' (server.go processUnaryRpc / resetStream /
   the stream writer): source and destination exchanged, the return route = all but the last hop of the request's
   route record when that has more than one hop *)
Definition reply_of (e' : env) (pay : Z) : env :=
  mkEnv true (e_dst e') (e_src e') []
        (if Nat.ltb 1 (length (e_rec e')) then Some (removelast (e_rec e')) else None) pay.
(* tied to server.go by the rig (case kind CProxyReply: the real Server answering requests with route records of
   0..4 hops - unary reply, error reply, RST_STREAM) on every run *)

(* Composition of the metadata models (C04, system half): how metadata travels
   through a whole RPC.

   request:  caller context --headersFromContext (client.go l.298-315)--> request
             header --contextFromHeaders (server.go l.640-662)--> handler context.
             headersFromContext emits ToKeyValue(md) for the outgoing metadata
             [om] (as metadata.FromOutgoingContext returns it) and then, when the
             context has a deadline, the pair ("GRPC-Timeout", value);
             contextFromHeaders makes ToMetadata of the whole list the handler's
             incoming metadata - the injected pair included, under its
             lower-cased key.
   response: the server stream object (Model/SrvStream.v with MD := mdmap) or the
             unary collector accumulate metadata maps; what is written is
             ToKeyValue(maps...) = to_kv of metadata.Join of them, emitted in the
             map's iteration order [emit] (any permutation).
             client stream (internal/client/stream.go): Header() = ToMetadata of
             the header list of the FIRST envelope received (l.361-371),
             Trailer() = ToMetadata of the trailer envelope's list (l.136-148);
             unary (multiplexer.go l.122-130): the reply's header list is decoded
             for the stats InHeader event only (invoke accepts no grpc.Header /
             grpc.Trailer call option); the trailer list stays on the wire. *)
From Goat Require Import Base.Bytes Model.Base64 Model.Meta Model.SrvStream.
Open Scope N_scope.

Definition injected_key : bytes := B"GRPC-Timeout".     (* as written by headersFromContext *)
Definition injected_lkey : bytes := B"grpc-timeout".    (* as seen by the handler *)

Definition request_kvs (om : mdmap) (tmo : option bytes) : list kv :=
  to_kv om ++ match tmo with Some v => [(injected_key, v)] | None => [] end.

Definition handler_md (kvs : list kv) : option mdmap := to_md kvs.

Definition drop_key (k : bytes) (m : mdmap) : mdmap :=
  filter (fun e => negb (bytes_eqb (fst e) k)) m.

(* ---- response ---- *)
Section Resp.
  Context {P ST : Type}.
  Context (emit : mdmap -> mdmap).     (* iteration order of the joined map *)

  (* header list carried by an envelope of the server stream object *)
  Definition env_kvs (e : wenv mdmap P ST) : list kv :=
    match hdr_md e with Some hs => to_kv (emit (join hs)) | None => [] end.
  Definition env_trailer_kvs (e : wenv mdmap P ST) : list kv :=
    match e with WTrailer _ t _ => to_kv (emit (join t)) | _ => [] end.

  (* the caller's Header(): decoded from the first envelope that arrives *)
  Definition client_header (envs : list (wenv mdmap P ST)) : option (option mdmap) :=
    match envs with
    | [] => None                        (* Header() blocks *)
    | e :: _ => Some (to_md (env_kvs e))
    end.

  (* the caller's Trailer(): decoded from the trailer envelope *)
  Fixpoint client_trailer (envs : list (wenv mdmap P ST)) : option (option mdmap) :=
    match envs with
    | [] => None
    | (WTrailer _ _ _ as e) :: _ => Some (to_md (env_trailer_kvs e))
    | _ :: rest => client_trailer rest
    end.

  (* a whole streaming RPC: the handler's program [ops] (SetHeader, SendHeader,
     SetTrailer, SendMsg in any order) followed by runStream's SendTrailer with
     the handler's result [st] (nil or an error) *)
  Definition stream_envs (ops : list (sop mdmap P ST)) (st : ST) : list (wenv mdmap P ST) :=
    swritten sinit (ops ++ [SendTrailer st]).
End Resp.

(* unary: the collector's maps, joined, on the single reply envelope *)
Definition unary_header_kvs (emit : mdmap -> mdmap) (s : ustate mdmap) : list kv := to_kv (emit (join (uh s))).
Definition unary_trailer_kvs (emit : mdmap -> mdmap) (s : ustate mdmap) : list kv := to_kv (emit (join (ut s))).

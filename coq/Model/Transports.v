(* Small-step models of the three transports shipped with GOAT, at the
   granularity of the code regions between two synchronisation points:

   (i)   channel.go: NewGoatOverChannel — one direction = one Go channel with
         Write = select (ctx.Done | ch <- v) and Read = select (ctx.Done | <-ch);
   (ii)  websocket.go: goatOverWebsocket.Read / Write around a frame stream
         (the frame stream itself — github.com/coder/websocket — is the
         environment);
   (iii) http.go: GoatOverHttp (ServeHTTP validation cascade, per-address
         connection table, idle cleaner driven by a clock, httpReadWriter
         Read / Write), as the code is after the D-19c / D-19d repairs: the
         data channel of a connection is never closed, removal closes the
         connection's [done] channel, unregistering is by identity.

   The models are parametric in the envelope type [E], the type [F] of what is
   on the wire, and the codec functions, which are explicit arguments.
   Every state carries the history [log]; the properties are predicates over
   it. [*_rules] lists every internal rule instance of a state; the LTS of the
   theorems is "any enabled rule or any environment action, in any order". *)
From Coq Require Import List ZArith Bool Lia.
Import ListNotations.
Open Scope Z_scope.

Fixpoint upd {A} (n : nat) (x : A) (l : list A) : list A :=
  match l, n with
  | [], _ => []
  | _ :: t, O => x :: t
  | h :: t, S m => h :: upd m x t
  end.

Inductive label (Act : Type) := LExt (a : Act) | LInt (n : nat).
Arguments LExt {Act} a.
Arguments LInt {Act} n.

(* generic LTS over a state type with environment actions and rule lists *)
Definition lstep {St Act} (ext : St -> Act -> St) (rules : St -> list (St -> option St))
           (s : St) (l : label Act) : option St :=
  match l with
  | LExt a => Some (ext s a)
  | LInt n => match nth_error (rules s) n with Some r => r s | None => None end
  end.

Fixpoint lrun {St Act} (ext : St -> Act -> St) (rules : St -> list (St -> option St))
         (s : St) (ls : list (label Act)) : option St :=
  match ls with
  | [] => Some s
  | l :: rest => match lstep ext rules s l with Some s' => lrun ext rules s' rest | None => None end
  end.

Definition quiescent {St} (rules : St -> list (St -> option St)) (s : St) : Prop :=
  forall r, In r (rules s) -> r s = None.

Fixpoint first_enabled {St} (rs : list (St -> option St)) (s : St) : option St :=
  match rs with
  | [] => None
  | r :: rest => match r s with Some s' => Some s' | None => first_enabled rest s end
  end.
Definition quiescentb {St} (rules : St -> list (St -> option St)) (s : St) : bool :=
  match first_enabled (rules s) s with None => true | Some _ => false end.

(* ====================================================================== *)
(* (i) the in-process channel transport                                    *)
(* ====================================================================== *)
Inductive cwres := CWOk | CWCtx.                          (* Write: nil | ctx.Err() *)
Inductive crres (V : Type) := CROk (v : V) | CRCtx | CRClosed.   (* Read: value | ctx.Err() | "read channel closed" *)
Arguments CROk {V} v.
Arguments CRCtx {V}.
Arguments CRClosed {V}.

Inductive cev (V : Type) :=
| CEvWrite (i : nat) (v : V) (r : cwres)     (* the i-th Write call (of value v) returned r *)
| CEvRead (j : nat) (r : crres V).           (* the j-th Read call returned r *)
Arguments CEvWrite {V} i v r.
Arguments CEvRead {V} j r.

Record cwriter (V : Type) := mkCW { cw_val : V; cw_done : bool; cw_pend : bool }.
Arguments mkCW {V} _ _ _.
Arguments cw_val {V} _.
Arguments cw_done {V} _.
Arguments cw_pend {V} _.
Record creader := mkCR { cr_done : bool; cr_pend : bool }.

Record chst (V : Type) := mkCh {
  ch_cap : nat;                 (* capacity of the Go channel handed to NewGoatOverChannel *)
  ch_buf : list V;
  ch_closed : bool;
  ch_ws : list (cwriter V);     (* every Write call so far *)
  ch_rs : list creader;         (* every Read call so far *)
  ch_log : list (cev V) }.
Arguments mkCh {V} _ _ _ _ _ _.
Arguments ch_cap {V} _.
Arguments ch_buf {V} _.
Arguments ch_closed {V} _.
Arguments ch_ws {V} _.
Arguments ch_rs {V} _.
Arguments ch_log {V} _.

Definition ch_init {V} (cap : nat) : chst V := mkCh cap [] false [] [] [].

Inductive cact (V : Type) :=
| CWrite (v : V) (ctxdone : bool)     (* a goroutine calls Write(ctx, v); ctx already done or not *)
| CRead (ctxdone : bool)
| CCancelW (i : nat)
| CCancelR (j : nat)
| CClose.                             (* the owner closes the channel (only legal with no sender around) *)
Arguments CWrite {V} v ctxdone.
Arguments CRead {V} ctxdone.
Arguments CCancelW {V} i.
Arguments CCancelR {V} j.
Arguments CClose {V}.

Definition ch_pending_w {V} (s : chst V) : bool := existsb cw_pend (ch_ws s).

Definition ch_ext {V} (s : chst V) (a : cact V) : chst V :=
  match a with
  | CWrite v d =>
      (* sending on a closed channel is the caller's bug, not the transport's: not an action *)
      if ch_closed s then s
      else mkCh (ch_cap s) (ch_buf s) (ch_closed s) (ch_ws s ++ [mkCW v d true]) (ch_rs s) (ch_log s)
  | CRead d => mkCh (ch_cap s) (ch_buf s) (ch_closed s) (ch_ws s) (ch_rs s ++ [mkCR d true]) (ch_log s)
  | CCancelW i =>
      match nth_error (ch_ws s) i with
      | Some w => mkCh (ch_cap s) (ch_buf s) (ch_closed s) (upd i (mkCW (cw_val w) true (cw_pend w)) (ch_ws s)) (ch_rs s) (ch_log s)
      | None => s
      end
  | CCancelR j =>
      match nth_error (ch_rs s) j with
      | Some r => mkCh (ch_cap s) (ch_buf s) (ch_closed s) (ch_ws s) (upd j (mkCR true (cr_pend r)) (ch_rs s)) (ch_log s)
      | None => s
      end
  | CClose =>
      if ch_closed s || ch_pending_w s then s
      else mkCh (ch_cap s) (ch_buf s) true (ch_ws s) (ch_rs s) (ch_log s)
  end.

(* ch <- v succeeds: room in the buffer *)
Definition ch_push {V} (i : nat) (s : chst V) : option (chst V) :=
  match nth_error (ch_ws s) i with
  | Some w =>
      if cw_pend w && Nat.ltb (length (ch_buf s)) (ch_cap s)
      then Some (mkCh (ch_cap s) (ch_buf s ++ [cw_val w]) (ch_closed s)
                      (upd i (mkCW (cw_val w) (cw_done w) false) (ch_ws s)) (ch_rs s)
                      (ch_log s ++ [CEvWrite i (cw_val w) CWOk]))
      else None
  | None => None
  end.

(* <-ch succeeds: a buffered value *)
Definition ch_pop {V} (j : nat) (s : chst V) : option (chst V) :=
  match nth_error (ch_rs s) j, ch_buf s with
  | Some r, v :: rest =>
      if cr_pend r
      then Some (mkCh (ch_cap s) rest (ch_closed s) (ch_ws s)
                      (upd j (mkCR (cr_done r) false) (ch_rs s))
                      (ch_log s ++ [CEvRead j (CROk v)]))
      else None
  | _, _ => None
  end.

(* direct hand-off from a parked sender to a parked receiver (empty buffer) *)
Definition ch_rdv {V} (i j : nat) (s : chst V) : option (chst V) :=
  match nth_error (ch_ws s) i, nth_error (ch_rs s) j, ch_buf s with
  | Some w, Some r, [] =>
      if cw_pend w && cr_pend r
      then Some (mkCh (ch_cap s) [] (ch_closed s)
                      (upd i (mkCW (cw_val w) (cw_done w) false) (ch_ws s))
                      (upd j (mkCR (cr_done r) false) (ch_rs s))
                      (ch_log s ++ [CEvWrite i (cw_val w) CWOk; CEvRead j (CROk (cw_val w))]))
      else None
  | _, _, _ => None
  end.

(* the ctx.Done case of Write's select: enabled whenever the context is done *)
Definition ch_wctx {V} (i : nat) (s : chst V) : option (chst V) :=
  match nth_error (ch_ws s) i with
  | Some w =>
      if cw_pend w && cw_done w
      then Some (mkCh (ch_cap s) (ch_buf s) (ch_closed s)
                      (upd i (mkCW (cw_val w) (cw_done w) false) (ch_ws s)) (ch_rs s)
                      (ch_log s ++ [CEvWrite i (cw_val w) CWCtx]))
      else None
  | None => None
  end.

Definition ch_rctx {V} (j : nat) (s : chst V) : option (chst V) :=
  match nth_error (ch_rs s) j with
  | Some r =>
      if cr_pend r && cr_done r
      then Some (mkCh (ch_cap s) (ch_buf s) (ch_closed s) (ch_ws s)
                      (upd j (mkCR (cr_done r) false) (ch_rs s))
                      (ch_log s ++ [CEvRead j CRCtx]))
      else None
  | None => None
  end.

(* receive from a closed, drained channel *)
Definition ch_rclosed {V} (j : nat) (s : chst V) : option (chst V) :=
  match nth_error (ch_rs s) j, ch_buf s with
  | Some r, [] =>
      if cr_pend r && ch_closed s
      then Some (mkCh (ch_cap s) [] (ch_closed s) (ch_ws s)
                      (upd j (mkCR (cr_done r) false) (ch_rs s))
                      (ch_log s ++ [CEvRead j CRClosed]))
      else None
  | _, _ => None
  end.

Definition ch_rules {V} (s : chst V) : list (chst V -> option (chst V)) :=
  flat_map (fun i => [ch_push i; ch_wctx i]) (seq 0 (length (ch_ws s)))
  ++ flat_map (fun j => [ch_pop j; ch_rctx j; ch_rclosed j]) (seq 0 (length (ch_rs s)))
  ++ flat_map (fun i => map (fun j => ch_rdv i j) (seq 0 (length (ch_rs s)))) (seq 0 (length (ch_ws s))).

Definition ch_run {V} (cap : nat) (ls : list (label (cact V))) : option (chst V) :=
  lrun ch_ext ch_rules (ch_init cap) ls.

(* history projections *)
Fixpoint ch_written {V} (log : list (cev V)) : list V :=
  match log with
  | [] => []
  | CEvWrite _ v CWOk :: t => v :: ch_written t
  | _ :: t => ch_written t
  end.
Fixpoint ch_read {V} (log : list (cev V)) : list V :=
  match log with
  | [] => []
  | CEvRead _ (CROk v) :: t => v :: ch_read t
  | _ :: t => ch_read t
  end.
Fixpoint ch_wevents {V} (i : nat) (log : list (cev V)) : nat :=
  match log with
  | [] => O
  | CEvWrite i' _ _ :: t => (if Nat.eqb i i' then 1 else 0) + ch_wevents i t
  | _ :: t => ch_wevents i t
  end.
Fixpoint ch_revents {V} (j : nat) (log : list (cev V)) : nat :=
  match log with
  | [] => O
  | CEvRead j' _ :: t => (if Nat.eqb j j' then 1 else 0) + ch_revents j t
  | _ :: t => ch_revents j t
  end.

(* ====================================================================== *)
(* (ii) the WebSocket transport's Read / Write logic                        *)
(* ====================================================================== *)
Record frame (F : Type) := mkFrame { f_bin : bool; f_data : F }.
Arguments mkFrame {F} _ _.
Arguments f_bin {F} _.
Arguments f_data {F} _.

Inductive wsres (E : Type) :=
| WsMsg (e : E)        (* (rpc, nil) *)
| WsNonBinary          (* errNonBinaryWebsocketMessage *)
| WsDecode             (* proto.Unmarshal's error *)
| WsCtx                (* the connection's Read gave up on the context (and closed the connection) *)
| WsConn.              (* the connection is broken *)
Arguments WsMsg {E} e.
Arguments WsNonBinary {E}.
Arguments WsDecode {E}.
Arguments WsCtx {E}.
Arguments WsConn {E}.

Inductive wsev (E : Type) :=
| WsEvWrite (e : E) (ok : bool)
| WsEvRead (r : wsres E).
Arguments WsEvWrite {E} e ok.
Arguments WsEvRead {E} r.

Record wsst (E F : Type) := mkWs {
  ws_wire : list (frame F);        (* frames in flight towards the reading end, oldest first *)
  ws_rd : option bool;             (* a Read is in progress; its context is done or not *)
  ws_rclosed : bool;               (* the reading end is closed (a Read gave up on its context, or the connection failed) *)
  ws_wclosed : bool;               (* the writing end is closed (the connection failed) *)
  ws_sent : list (frame F);        (* history: every frame ever put on the wire *)
  ws_log : list (wsev E) }.
Arguments mkWs {E F} _ _ _ _ _ _.
Arguments ws_wire {E F} _.
Arguments ws_rd {E F} _.
Arguments ws_rclosed {E F} _.
Arguments ws_wclosed {E F} _.
Arguments ws_sent {E F} _.
Arguments ws_log {E F} _.

Definition ws_init {E F} : wsst E F := mkWs [] None false false [] [].

Inductive wsact (E F : Type) :=
| WsWrite (e : E)            (* goat Write on the sending end *)
| WsInject (f : frame F)     (* the peer sends a raw frame (text, garbage, ...) *)
| WsRead                     (* goat Read on the receiving end (one at a time) *)
| WsCancelRead
| WsBreak.                   (* the connection fails (both ends) *)
Arguments WsWrite {E F} e.
Arguments WsInject {E F} f.
Arguments WsRead {E F}.
Arguments WsCancelRead {E F}.
Arguments WsBreak {E F}.

(* goatOverWebsocket.Read on one frame *)
Definition ws_classify {E F} (dec : F -> option E) (f : frame F) : wsres E :=
  if f_bin f then match dec (f_data f) with Some e => WsMsg e | None => WsDecode end
  else WsNonBinary.

Definition ws_ext {E F} (enc : E -> F) (s : wsst E F) (a : wsact E F) : wsst E F :=
  match a with
  | WsWrite e =>
      if ws_wclosed s
      then mkWs (ws_wire s) (ws_rd s) (ws_rclosed s) (ws_wclosed s) (ws_sent s) (ws_log s ++ [WsEvWrite e false])
      else (* proto.Marshal, then exactly one binary frame (which nobody will read if the far end is closed) *)
           let f := mkFrame true (enc e) in
           mkWs (ws_wire s ++ [f]) (ws_rd s) (ws_rclosed s) (ws_wclosed s) (ws_sent s ++ [f]) (ws_log s ++ [WsEvWrite e true])
  | WsInject f =>
      if ws_wclosed s then s
      else mkWs (ws_wire s ++ [f]) (ws_rd s) (ws_rclosed s) (ws_wclosed s) (ws_sent s ++ [f]) (ws_log s)
  | WsRead =>
      match ws_rd s with
      | None => mkWs (ws_wire s) (Some false) (ws_rclosed s) (ws_wclosed s) (ws_sent s) (ws_log s)
      | Some _ => s
      end
  | WsCancelRead =>
      match ws_rd s with
      | Some _ => mkWs (ws_wire s) (Some true) (ws_rclosed s) (ws_wclosed s) (ws_sent s) (ws_log s)
      | None => s
      end
  | WsBreak => mkWs (ws_wire s) (ws_rd s) true true (ws_sent s) (ws_log s)
  end.

Definition ws_read {E F} (dec : F -> option E) (s : wsst E F) : option (wsst E F) :=
  match ws_rd s, ws_wire s with
  | Some _, f :: rest =>
      if ws_rclosed s then None
      else Some (mkWs rest None (ws_rclosed s) (ws_wclosed s) (ws_sent s) (ws_log s ++ [WsEvRead (ws_classify dec f)]))
  | _, _ => None
  end.

(* the connection's Read gives up on the context and closes the reading end *)
Definition ws_read_ctx {E F} (s : wsst E F) : option (wsst E F) :=
  match ws_rd s with
  | Some true =>
      if ws_rclosed s then None
      else Some (mkWs (ws_wire s) None true (ws_wclosed s) (ws_sent s) (ws_log s ++ [WsEvRead WsCtx]))
  | _ => None
  end.

Definition ws_read_broken {E F} (s : wsst E F) : option (wsst E F) :=
  match ws_rd s with
  | Some _ =>
      if ws_rclosed s
      then Some (mkWs (ws_wire s) None true (ws_wclosed s) (ws_sent s) (ws_log s ++ [WsEvRead WsConn]))
      else None
  | None => None
  end.

Definition ws_rules {E F} (dec : F -> option E) (s : wsst E F) : list (wsst E F -> option (wsst E F)) :=
  [ws_read dec; ws_read_ctx; ws_read_broken].

Definition ws_run {E F} (enc : E -> F) (dec : F -> option E) (ls : list (label (wsact E F))) : option (wsst E F) :=
  lrun (ws_ext enc) (ws_rules dec) ws_init ls.

(* the results of the Reads that consumed a frame, in order *)
Fixpoint ws_frame_results {E} (log : list (wsev E)) : list (wsres E) :=
  match log with
  | [] => []
  | WsEvRead (WsMsg e) :: t => WsMsg e :: ws_frame_results t
  | WsEvRead WsNonBinary :: t => WsNonBinary :: ws_frame_results t
  | WsEvRead WsDecode :: t => WsDecode :: ws_frame_results t
  | _ :: t => ws_frame_results t
  end.
Fixpoint ws_written {E} (log : list (wsev E)) : list E :=
  match log with
  | [] => []
  | WsEvWrite e true :: t => e :: ws_written t
  | _ :: t => ws_written t
  end.
Fixpoint ws_delivered {E} (log : list (wsev E)) : list E :=
  match log with
  | [] => []
  | WsEvRead (WsMsg e) :: t => e :: ws_delivered t
  | _ :: t => ws_delivered t
  end.

(* ====================================================================== *)
(* (iii) the HTTP POST transport                                            *)
(* ====================================================================== *)
Inductive hbody (F : Type) := BNil | BUnreadable | BBytes (b : F).
Arguments BNil {F}.
Arguments BUnreadable {F}.
Arguments BBytes {F} b.

(* what ServeHTTP finds in a decoded envelope *)
Inductive route := RtNoHeader | RtEmptySource | RtMapErr | RtAddr (a : Z).

Inductive reject := RjNilBody | RjUnreadable | RjDecode | RjNoHeader | RjEmptySource | RjMapErr.
Inductive verdict (E : Type) := V400 (why : reject) | VDeliver (a : Z) (e : E).
Arguments V400 {E} why.
Arguments VDeliver {E} a e.

(* the validation cascade of ServeHTTP *)
Definition http_classify {E F} (dec : F -> option E) (rt : E -> route) (b : hbody F) : verdict E :=
  match b with
  | BNil => V400 RjNilBody
  | BUnreadable => V400 RjUnreadable
  | BBytes bs =>
      match dec bs with
      | None => V400 RjDecode
      | Some e =>
          match rt e with
          | RtNoHeader => V400 RjNoHeader
          | RtEmptySource => V400 RjEmptySource
          | RtMapErr => V400 RjMapErr
          | RtAddr a => VDeliver a e
          end
      end
  end.

Inductive hrres (E : Type) := HROk (e : E) | HRClosed | HRCtx.
Arguments HROk {E} e.
Arguments HRClosed {E}.
Arguments HRCtx {E}.

Inductive hev (E F : Type) :=
| HEvReq (q : nat) (b : hbody F)            (* request q arrived *)
| HEvResp (q : nat) (code : Z)              (* ... and was answered: 400 | 200 | 503 *)
| HEvAnnounce (a : Z) (c : nat)             (* onConnect(a, connection c) *)
| HEvDeliver (q : nat) (c : nat) (r : nat)  (* request q's envelope handed to Read call r of connection c *)
| HEvRead (r : nat) (res : hrres E)         (* Read call r returned *)
| HEvWrite (w : nat) (ok : bool)            (* Write call w returned *)
| HEvRemoved (c : nat).                     (* connection c unregistered (its done channel closed) *)
Arguments HEvReq {E F} q b.
Arguments HEvResp {E F} q code.
Arguments HEvAnnounce {E F} a c.
Arguments HEvDeliver {E F} q c r.
Arguments HEvRead {E F} r res.
Arguments HEvWrite {E F} w ok.
Arguments HEvRemoved {E F} c.

Record hconn := mkConn { c_addr : Z; c_last : Z; c_closed : bool }.
Inductive qstate (E : Type) := QDone | QHandoff (c : nat) (e : E).
Arguments QDone {E}.
Arguments QHandoff {E} c e.
Record hreader := mkHR { hr_conn : nat; hr_done : bool; hr_pend : bool }.
Record hwriter := mkHW { hw_conn : nat; hw_done : bool; hw_pend : bool }.
Inductive cleaner := ClRunning | ClStopping | ClDead.

Record hst (E F : Type) := mkH {
  hs_interval : Z; hs_timeout : Z;         (* seconds; constant *)
  hs_now : Z; hs_next : Z; hs_tick : bool;  (* fake clock; next expiry of the ticker; a tick is buffered *)
  hs_cl : cleaner;
  hs_conns : list hconn;                  (* every connection ever created; index = identity *)
  hs_tbl : list (Z * nat);                (* conns.value: address -> connection *)
  hs_reqs : list (qstate E);
  hs_rds : list hreader;
  hs_wrs : list hwriter;
  hs_crashed : bool;                      (* close of a closed channel *)
  hs_log : list (hev E F) }.
Arguments mkH {E F} _ _ _ _ _ _ _ _ _ _ _ _ _.
Arguments hs_interval {E F} _.
Arguments hs_timeout {E F} _.
Arguments hs_now {E F} _.
Arguments hs_next {E F} _.
Arguments hs_tick {E F} _.
Arguments hs_cl {E F} _.
Arguments hs_conns {E F} _.
Arguments hs_tbl {E F} _.
Arguments hs_reqs {E F} _.
Arguments hs_rds {E F} _.
Arguments hs_wrs {E F} _.
Arguments hs_crashed {E F} _.
Arguments hs_log {E F} _.

Definition h_init {E F} (interval timeout now : Z) : hst E F :=
  mkH interval timeout now (now + interval) false ClRunning [] [] [] [] [] false [].

Inductive hact (F : Type) :=
| HPost (b : hbody F)            (* an HTTP request reaches ServeHTTP *)
| HNewConn (a : Z)               (* NewConnection(a) *)
| HRead (c : nat) (ctxdone : bool)
| HCancelRead (r : nat)
| HWrite (c : nat) (ctxdone : bool)   (* Write on connection c: activity bumped, POST in flight *)
| HPostResult (w : nat) (ok : bool)   (* the POST of Write call w completes *)
| HCancelWrite (w : nat)
| HAdvance (d : Z)               (* the clock advances by d seconds *)
| HStop.                         (* Cancel() *)
Arguments HPost {F} b.
Arguments HNewConn {F} a.
Arguments HRead {F} c ctxdone.
Arguments HCancelRead {F} r.
Arguments HWrite {F} c ctxdone.
Arguments HPostResult {F} w ok.
Arguments HCancelWrite {F} w.
Arguments HAdvance {F} d.
Arguments HStop {F}.

Fixpoint tbl_lookup (a : Z) (t : list (Z * nat)) : option nat :=
  match t with
  | [] => None
  | (a', c) :: rest => if a =? a' then Some c else tbl_lookup a rest
  end.
Definition tbl_remove (a : Z) (t : list (Z * nat)) : list (Z * nat) :=
  filter (fun p => negb (fst p =? a)) t.

Definition set_conns {E F} (s : hst E F) (cs : list hconn) (t : list (Z * nat)) (crashed : bool) (evs : list (hev E F)) : hst E F :=
  mkH (hs_interval s) (hs_timeout s) (hs_now s) (hs_next s) (hs_tick s) (hs_cl s) cs t
      (hs_reqs s) (hs_rds s) (hs_wrs s) crashed (hs_log s ++ evs).

(* unregisterLocked(id): close the done channel of the connection registered
   under the address (if any), delete the address from the table *)
Definition h_close_addr {E F} (s : hst E F) (a : Z) : hst E F :=
  match tbl_lookup a (hs_tbl s) with
  | Some c =>
      match nth_error (hs_conns s) c with
      | Some k =>
          set_conns s (upd c (mkConn (c_addr k) (c_last k) true) (hs_conns s)) (tbl_remove a (hs_tbl s))
                    (hs_crashed s || c_closed k) [HEvRemoved c]
      | None => s
      end
  | None => s
  end.

(* unregister(conn): only if the table still holds this very connection *)
Definition h_unregister {E F} (s : hst E F) (c : nat) : hst E F :=
  match nth_error (hs_conns s) c with
  | Some k =>
      match tbl_lookup (c_addr k) (hs_tbl s) with
      | Some c' => if Nat.eqb c c' then h_close_addr s (c_addr k) else s
      | None => s
      end
  | None => s
  end.

(* retrieve: the connection of an address, created on first use; activity starts at 0 *)
Definition h_retrieve {E F} (s : hst E F) (a : Z) : hst E F * nat * bool :=
  match tbl_lookup a (hs_tbl s) with
  | Some c => (s, c, false)
  | None =>
      let c := length (hs_conns s) in
      (set_conns s (hs_conns s ++ [mkConn a 0 false]) (hs_tbl s ++ [(a, c)]) (hs_crashed s) [], c, true)
  end.

Definition set_reqs {E F} (s : hst E F) (qs : list (qstate E)) (evs : list (hev E F)) : hst E F :=
  mkH (hs_interval s) (hs_timeout s) (hs_now s) (hs_next s) (hs_tick s) (hs_cl s) (hs_conns s) (hs_tbl s)
      qs (hs_rds s) (hs_wrs s) (hs_crashed s) (hs_log s ++ evs).
Definition set_rds {E F} (s : hst E F) (rs : list hreader) (evs : list (hev E F)) : hst E F :=
  mkH (hs_interval s) (hs_timeout s) (hs_now s) (hs_next s) (hs_tick s) (hs_cl s) (hs_conns s) (hs_tbl s)
      (hs_reqs s) rs (hs_wrs s) (hs_crashed s) (hs_log s ++ evs).
Definition set_wrs {E F} (s : hst E F) (ws : list hwriter) (evs : list (hev E F)) : hst E F :=
  mkH (hs_interval s) (hs_timeout s) (hs_now s) (hs_next s) (hs_tick s) (hs_cl s) (hs_conns s) (hs_tbl s)
      (hs_reqs s) (hs_rds s) ws (hs_crashed s) (hs_log s ++ evs).
Definition set_clock {E F} (s : hst E F) (now next : Z) (tick : bool) (cl : cleaner) : hst E F :=
  mkH (hs_interval s) (hs_timeout s) now next tick cl (hs_conns s) (hs_tbl s)
      (hs_reqs s) (hs_rds s) (hs_wrs s) (hs_crashed s) (hs_log s).
Definition bump {E F} (s : hst E F) (c : nat) : hst E F :=
  match nth_error (hs_conns s) c with
  | Some k => set_conns s (upd c (mkConn (c_addr k) (hs_now s) (c_closed k)) (hs_conns s)) (hs_tbl s) (hs_crashed s) []
  | None => s
  end.

Definition h_ext {E F} (dec : F -> option E) (rt : E -> route) (s : hst E F) (a : hact F) : hst E F :=
  match a with
  | HPost b =>
      let q := length (hs_reqs s) in
      match http_classify dec rt b with
      | V400 _ => set_reqs s (hs_reqs s ++ [QDone]) [HEvReq q b; HEvResp q 400]
      | VDeliver a e =>
          let '(s1, c, fresh) := h_retrieve s a in
          set_reqs s1 (hs_reqs s1 ++ [QHandoff c e])
                   (HEvReq q b :: if fresh then [HEvAnnounce a c] else [])
      end
  | HNewConn a => let '(s1, _, _) := h_retrieve s a in s1
  | HRead c d =>
      if Nat.ltb c (length (hs_conns s)) then set_rds s (hs_rds s ++ [mkHR c d true]) [] else s
  | HCancelRead r =>
      match nth_error (hs_rds s) r with
      | Some x => set_rds s (upd r (mkHR (hr_conn x) true (hr_pend x)) (hs_rds s)) []
      | None => s
      end
  | HWrite c d =>
      if Nat.ltb c (length (hs_conns s))
      then set_wrs (bump s c) (hs_wrs s ++ [mkHW c d true]) []
      else s
  | HPostResult w ok =>
      match nth_error (hs_wrs s) w with
      | Some x =>
          if hw_pend x then
            let s1 := set_wrs s (upd w (mkHW (hw_conn x) (hw_done x) false) (hs_wrs s)) [] in
            if ok then set_wrs s1 (hs_wrs s1) [HEvWrite w true]
            else let s2 := h_unregister s1 (hw_conn x) in set_wrs s2 (hs_wrs s2) [HEvWrite w false]
          else s
      | None => s
      end
  | HCancelWrite w =>
      match nth_error (hs_wrs s) w with
      | Some x => set_wrs s (upd w (mkHW (hw_conn x) true (hw_pend x)) (hs_wrs s)) []
      | None => s
      end
  | HAdvance d =>
      if (d <? 0) || (hs_interval s <=? 0) then s else
      let now' := hs_now s + d in
      if now' <? hs_next s then set_clock s now' (hs_next s) (hs_tick s) (hs_cl s)
      else (* the ticker expired (once or several times: its channel holds one tick) *)
           let k := (now' - hs_next s) / hs_interval s + 1 in
           set_clock s now' (hs_next s + k * hs_interval s)
                     (match hs_cl s with ClDead => hs_tick s | _ => true end) (hs_cl s)
  | HStop =>
      match hs_cl s with
      | ClRunning => set_clock s (hs_now s) (hs_next s) (hs_tick s) ClStopping
      | _ => s
      end
  end.

(* the hand-off select of ServeHTTP meets the receive of a Read *)
Definition h_handoff {E F} (q r : nat) (s : hst E F) : option (hst E F) :=
  match nth_error (hs_reqs s) q, nth_error (hs_rds s) r with
  | Some (QHandoff c e), Some x =>
      if hr_pend x && Nat.eqb (hr_conn x) c then
        let s1 := bump s c in
        let s2 := set_reqs s1 (upd q QDone (hs_reqs s1)) [] in
        Some (set_rds s2 (upd r (mkHR (hr_conn x) (hr_done x) false) (hs_rds s2))
                      [HEvDeliver q c r; HEvResp q 200; HEvRead r (HROk e)])
      else None
  | _, _ => None
  end.

(* ... or its connection's done channel *)
Definition h_qclosed {E F} (q : nat) (s : hst E F) : option (hst E F) :=
  match nth_error (hs_reqs s) q with
  | Some (QHandoff c e) =>
      match nth_error (hs_conns s) c with
      | Some k => if c_closed k then Some (set_reqs s (upd q QDone (hs_reqs s)) [HEvResp q 503]) else None
      | None => None
      end
  | _ => None
  end.

Definition h_rclosed {E F} (r : nat) (s : hst E F) : option (hst E F) :=
  match nth_error (hs_rds s) r with
  | Some x =>
      match nth_error (hs_conns s) (hr_conn x) with
      | Some k =>
          if hr_pend x && c_closed k
          then Some (set_rds s (upd r (mkHR (hr_conn x) (hr_done x) false) (hs_rds s)) [HEvRead r HRClosed])
          else None
      | None => None
      end
  | None => None
  end.

Definition h_rctx {E F} (r : nat) (s : hst E F) : option (hst E F) :=
  match nth_error (hs_rds s) r with
  | Some x =>
      if hr_pend x && hr_done x
      then Some (set_rds s (upd r (mkHR (hr_conn x) (hr_done x) false) (hs_rds s)) [HEvRead r HRCtx])
      else None
  | None => None
  end.

(* the POST gives up on the context: Write's failure path *)
Definition h_wctx {E F} (w : nat) (s : hst E F) : option (hst E F) :=
  match nth_error (hs_wrs s) w with
  | Some x =>
      if hw_pend x && hw_done x then
        let s1 := set_wrs s (upd w (mkHW (hw_conn x) (hw_done x) false) (hs_wrs s)) [] in
        let s2 := h_unregister s1 (hw_conn x) in
        Some (set_wrs s2 (hs_wrs s2) [HEvWrite w false])
      else None
  | None => None
  end.

Definition idle {E F} (s : hst E F) (k : hconn) : bool := hs_timeout s <=? hs_now s - c_last k.

(* the cleaner handles one tick: every registered connection idle for at least the timeout is unregistered *)
Definition h_clean {E F} (s : hst E F) : option (hst E F) :=
  match hs_cl s with
  | ClDead => None
  | _ =>
      if hs_tick s then
        let s0 := set_clock s (hs_now s) (hs_next s) false (hs_cl s) in
        Some (fold_left (fun st p => match nth_error (hs_conns st) (snd p) with
                                     | Some k => if idle st k then h_close_addr st (c_addr k) else st
                                     | None => st
                                     end) (hs_tbl s) s0)
      else None
  end.

(* the cleaner sees its context cancelled *)
Definition h_clexit {E F} (s : hst E F) : option (hst E F) :=
  match hs_cl s with
  | ClStopping => Some (set_clock s (hs_now s) (hs_next s) (hs_tick s) ClDead)
  | _ => None
  end.

Definition h_rules {E F} (s : hst E F) : list (hst E F -> option (hst E F)) :=
  [h_clean; h_clexit]
  ++ flat_map (fun q => [h_qclosed q]) (seq 0 (length (hs_reqs s)))
  ++ flat_map (fun r => [h_rclosed r; h_rctx r]) (seq 0 (length (hs_rds s)))
  ++ flat_map (fun w => [h_wctx w]) (seq 0 (length (hs_wrs s)))
  ++ flat_map (fun q => map (fun r => h_handoff q r) (seq 0 (length (hs_rds s)))) (seq 0 (length (hs_reqs s))).

Definition h_run {E F} (dec : F -> option E) (rt : E -> route) (interval timeout now : Z)
           (ls : list (label (hact F))) : option (hst E F) :=
  lrun (h_ext dec rt) h_rules (h_init interval timeout now) ls.

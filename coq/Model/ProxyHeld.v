(* The proxy model with its single serve loop as a RESOURCE that can be busy (Model/Proxy.v treats one iteration of
   the serve loop as one atomic rule). The loop is busy
     - inside forwardRpc: from receiving the envelope command of a record until the forward is done (the interceptor,
       a user callback, runs in there), and
     - inside the disconnect callback (user code) of the record whose error command it has just handled.
   While it is busy no other command is received: nothing is forwarded, no failure is handled, the context's
   cancellation is not noticed. Everything that does not need the serve loop goes on: peers deliver, read loops
   read and offer, write loops take and write, dials are answered.

   A state is a state of Model/Proxy.v plus what the loop is doing. Labels: environment actions and internal
   rules of the base model (a serve-loop rule only when the loop is idle: the atomic iteration remains possible),
   and the split iterations: begin / end of a forward, begin / end of a disconnect callback. The end of a forward
   is the proxy's own step; the end of a callback is the environment's. *)
From Coq Require Import List ZArith Bool Lia Arith.
Import ListNotations.
From Goat Require Import Model.Proxy.

Inductive busy := Idle | InForward (j : nat) | InCallback (j : nat).

Record hstate := mkH { base : state; loop : busy }.

Definition hinit : hstate := mkH init Idle.

(* the internal rules of Model/Proxy.v by name *)
Inductive rk := KFwExit | KFwCmd | KFwErrRd | KFwErrWr | KFwErrDl
              | KRdRead | KRdCtx | KRdGiveup | KWrTake | KWrExit | KWrWrite | KWrCtx | KWrGiveup | KDlGiveup.

Definition apply_rule (cf : cfg) (k : rk) (j : nat) : rule :=
  match k with
  | KFwExit => r_fw_exit | KFwCmd => r_fw_cmd cf j | KFwErrRd => r_fw_err_rd j | KFwErrWr => r_fw_err_wr j
  | KFwErrDl => r_fw_err_dl j | KRdRead => r_rd_read j | KRdCtx => r_rd_ctx j | KRdGiveup => r_rd_giveup j
  | KWrTake => r_wr_take j | KWrExit => r_wr_exit j | KWrWrite => r_wr_write j | KWrCtx => r_wr_ctx j
  | KWrGiveup => r_wr_giveup j | KDlGiveup => r_dl_giveup j
  end.

(* the rules that are iterations of the serve loop / the rules of a record's read loop *)
Definition is_loop_rule (k : rk) : bool :=
  match k with KFwExit | KFwCmd | KFwErrRd | KFwErrWr | KFwErrDl => true | _ => false end.
Definition is_reader_rule (k : rk) : bool :=
  match k with KRdRead | KRdCtx | KRdGiveup => true | _ => false end.

Inductive hlabel :=
| HExt (a : act)
| HInt (k : rk) (j : nat)      (* an internal rule of the base model, by name *)
| HBeginFwd (j : nat)           (* the loop receives the envelope command of record j's read loop *)
| HEndFwd                       (* forwardRpc returns: the envelope is routed / dropped / a dial started *)
| HBeginCb (j : nat) (k : nat)  (* the loop receives an error command of record j (k = 0 read, 1 write, 2 dial loop),
                                   forgets the entry and calls the disconnect callback *)
| HEndCb.                       (* the callback returns *)

Definition offers_env (s : state) (j : nat) : bool :=
  match nth_error (clients s) j with
  | Some c => match p_rd c with RDOffer _ => true | _ => false end
  | None => false
  end.

Definition hstep (cf : cfg) (h : hstate) (l : hlabel) : option hstate :=
  match l with
  | HExt a => Some (mkH (ext (base h) a) (loop h))
  | HInt k i =>
      let ok := match loop h with
                | Idle => true
                | InForward j => negb (is_loop_rule k) && negb (is_reader_rule k && Nat.eqb i j)
                    (* record j's read loop has handed its envelope over: in the base state it still shows the
                       offer; it does nothing until the forward is done *)
                | InCallback _ => negb (is_loop_rule k)
                end in
      if ok then option_map (fun s' => mkH s' (loop h)) (apply_rule cf k i (base h)) else None
  | HBeginFwd j =>
      match loop h with
      | Idle => if fw (base h) && offers_env (base h) j then Some (mkH (base h) (InForward j)) else None
      | _ => None
      end
  | HEndFwd =>
      match loop h with
      | InForward j => option_map (fun s' => mkH s' Idle) (r_fw_cmd cf j (base h))
      | _ => None
      end
  | HBeginCb j k =>
      match loop h with
      | Idle =>
          option_map (fun s' => mkH s' (InCallback j))
            (match k with
             | O => r_fw_err_rd j (base h)
             | S O => r_fw_err_wr j (base h)
             | _ => r_fw_err_dl j (base h)
             end)
      | _ => None
      end
  | HEndCb => match loop h with InCallback _ => Some (mkH (base h) Idle) | _ => None end
  end.

Fixpoint hrun (cf : cfg) (h : hstate) (ls : list hlabel) : option hstate :=
  match ls with
  | [] => Some h
  | l :: rest => match hstep cf h l with Some h' => hrun cf h' rest | None => None end
  end.

(* C19, the HTTP SENDER half and its link to a receiving GoatOverHttp (http.go: httpReadWriter.Write).
   One Write = marshal + exactly one POST whose body is the encoded envelope; the peer's ServeHTTP takes the
   request (Model/Transports.v: HPost), parks it until a Read of the mapped connection takes the envelope and only
   then answers 200; Write returns nil iff the answer is 200 (since /repo 2aacfa6), an error for any other status,
   for a transport failure (the request may or may not have reached the peer; the answer may be lost after the
   delivery) and when its context ends first. The peer is the unchanged receiver model; everything else that
   happens to it (Reads, ticks, other senders' requests, Stop) is an action of the environment. Not modelled: the
   sender's own connection table (a failed Write unregisters its connection there: that is the receiver model of
   the SENDING instance, Transports.v HPostResult/h_wctx); a body that cannot be marshalled (Write fails before any
   POST: no event). *)
From Coq Require Import List ZArith Bool Lia.
Import ListNotations.
From Goat Require Import Model.Transports.
Open Scope Z_scope.

Record swrite (E : Type) := mkSW {
  sw_env : E;               (* the envelope given to Write *)
  sw_ctx : bool;            (* its context is done *)
  sw_q : option nat;        (* the request it became at the peer (None: the POST never reached ServeHTTP) *)
  sw_res : option bool }.   (* Write returned: Some true = nil *)
Arguments mkSW {E} _ _ _ _.
Arguments sw_env {E} _.
Arguments sw_ctx {E} _.
Arguments sw_q {E} _.
Arguments sw_res {E} _.

Inductive sev := SEvPost (w q : nat) | SEvRet (w : nat) (ok : bool).

Record link (E F : Type) := mkLk { lk_ws : list (swrite E); lk_peer : hst E F; lk_log : list sev }.
Arguments mkLk {E F} _ _ _.
Arguments lk_ws {E F} _.
Arguments lk_peer {E F} _.
Arguments lk_log {E F} _.

Inductive lact (E F : Type) :=
| LWrite (e : E)        (* Write(ctx, e): the POST reaches the peer's ServeHTTP *)
| LWriteLost (e : E)    (* Write(ctx, e) whose POST never reaches the peer (context already done, dial failure): error *)
| LCancel (w : nat)     (* the context of Write call w ends *)
| LDrop (w : nat)       (* the connection drops under the request of Write call w: error, whatever the peer does with it *)
| LPeer (a : hact F).   (* anything else that happens to the peer *)
Arguments LWrite {E F} e.
Arguments LWriteLost {E F} e.
Arguments LCancel {E F} w.
Arguments LDrop {E F} w.
Arguments LPeer {E F} a.

Definition set_res {E} (x : swrite E) (r : bool) : swrite E := mkSW (sw_env x) (sw_ctx x) (sw_q x) (Some r).

Definition lk_ext {E F} (enc : E -> F) (dec : F -> option E) (rt : E -> route) (k : link E F) (a : lact E F) : link E F :=
  match a with
  | LWrite e =>
      let q := length (hs_reqs (lk_peer k)) in
      mkLk (lk_ws k ++ [mkSW e false (Some q) None])
           (h_ext dec rt (lk_peer k) (HPost (BBytes (enc e))))
           (lk_log k ++ [SEvPost (length (lk_ws k)) q])
  | LWriteLost e =>
      mkLk (lk_ws k ++ [mkSW e false None (Some false)]) (lk_peer k) (lk_log k ++ [SEvRet (length (lk_ws k)) false])
  | LCancel w =>
      match nth_error (lk_ws k) w with
      | Some x => mkLk (upd w (mkSW (sw_env x) true (sw_q x) (sw_res x)) (lk_ws k)) (lk_peer k) (lk_log k)
      | None => k
      end
  | LDrop w =>
      match nth_error (lk_ws k) w with
      | Some x => match sw_res x with
                  | None => mkLk (upd w (set_res x false) (lk_ws k)) (lk_peer k) (lk_log k ++ [SEvRet w false])
                  | Some _ => k
                  end
      | None => k
      end
  | LPeer a => mkLk (lk_ws k) (h_ext dec rt (lk_peer k) a) (lk_log k)
  end.

(* the status with which the peer answered request q, if it has *)
Fixpoint answer_of {E F} (q : nat) (log : list (hev E F)) : option Z :=
  match log with
  | [] => None
  | HEvResp q' code :: t => if Nat.eqb q' q then Some code else answer_of q t
  | _ :: t => answer_of q t
  end.

(* Write sees the answer of its POST: nil iff 200 *)
Definition l_answer {E F} (w : nat) (k : link E F) : option (link E F) :=
  match nth_error (lk_ws k) w with
  | Some x =>
      match sw_res x, sw_q x with
      | None, Some q =>
          match answer_of q (hs_log (lk_peer k)) with
          | Some code => Some (mkLk (upd w (set_res x (code =? 200)) (lk_ws k)) (lk_peer k) (lk_log k ++ [SEvRet w (code =? 200)]))
          | None => None
          end
      | _, _ => None
      end
  | None => None
  end.

(* Write gives up on its context *)
Definition l_wctx {E F} (w : nat) (k : link E F) : option (link E F) :=
  match nth_error (lk_ws k) w with
  | Some x =>
      match sw_res x with
      | None => if sw_ctx x
                then Some (mkLk (upd w (set_res x false) (lk_ws k)) (lk_peer k) (lk_log k ++ [SEvRet w false]))
                else None
      | Some _ => None
      end
  | None => None
  end.

(* an internal step of the peer *)
Definition l_peer {E F} (r : hst E F -> option (hst E F)) (k : link E F) : option (link E F) :=
  match r (lk_peer k) with
  | Some p => Some (mkLk (lk_ws k) p (lk_log k))
  | None => None
  end.

Definition lk_rules {E F} (k : link E F) : list (link E F -> option (link E F)) :=
  map l_peer (h_rules (lk_peer k))
  ++ flat_map (fun w => [l_answer w; l_wctx w]) (seq 0 (length (lk_ws k))).

Definition lk_init {E F} (interval timeout now : Z) : link E F := mkLk [] (h_init interval timeout now) [].

Definition lk_run {E F} (enc : E -> F) (dec : F -> option E) (rt : E -> route) (interval timeout now : Z)
           (ls : list (label (lact E F))) : option (link E F) :=
  lrun (lk_ext enc dec rt) lk_rules (lk_init interval timeout now) ls.

(* a occurs before b in l *)
Definition before {A} (a b : A) (l : list A) : Prop := exists l1 l2 l3, l = l1 ++ a :: l2 ++ b :: l3.

(* Model of Go's encoding/base64.URLEncoding (URL-safe alphabet, '=' padding,
   non-strict decoding that skips CR and LF), as used by internal/util.go for
   values under "-bin" metadata keys. The library itself is not verified: this
   model is validated differentially on every run, malformed input included. *)
From Goat Require Import Base.Bytes.
Open Scope N_scope.

(* index 0..63 -> alphabet character *)
Definition alpha (i : N) : N :=
  if i <? 26 then 65 + i
  else if i <? 52 then 97 + (i - 26)
  else if i <? 62 then 48 + (i - 52)
  else if i =? 62 then 45 (* - *) else 95 (* _ *).

Definition unalpha (c : N) : option N :=
  if (65 <=? c) && (c <=? 90) then Some (c - 65)
  else if (97 <=? c) && (c <=? 122) then Some (c - 97 + 26)
  else if (48 <=? c) && (c <=? 57) then Some (c - 48 + 52)
  else if c =? 45 then Some 62
  else if c =? 95 then Some 63
  else None.

Definition pad : N := 61. (* = *)

Fixpoint enc (bs : bytes) : bytes :=
  match bs with
  | [] => []
  | [b0] => [alpha (b0 / 4); alpha ((b0 mod 4) * 16); pad; pad]
  | [b0; b1] => [alpha (b0 / 4); alpha ((b0 mod 4) * 16 + b1 / 16);
                 alpha ((b1 mod 16) * 4); pad]
  | b0 :: b1 :: b2 :: rest =>
      alpha (b0 / 4) :: alpha ((b0 mod 4) * 16 + b1 / 16) ::
      alpha ((b1 mod 16) * 4 + b2 / 64) :: alpha (b2 mod 64) :: enc rest
  end.

Definition is_crlf (c : N) : bool := (c =? 10) || (c =? 13).

(* decoding of a CR/LF-free string, four characters at a time; [fuel] bounds
   the number of quanta *)
Fixpoint dec_quanta (fuel : nat) (s : bytes) : option bytes :=
  match fuel with
  | O => match s with [] => Some [] | _ => None end
  | S f =>
      match s with
      | [] => Some []
      | [a; b; c; d] =>
          match unalpha a, unalpha b with
          | Some x0, Some x1 =>
              if (c =? pad) && (d =? pad) then Some [(x0 * 4 + x1 / 16) mod 256]
              else match unalpha c with
                   | None => None
                   | Some x2 =>
                       if d =? pad
                       then Some [(x0 * 4 + x1 / 16) mod 256; ((x1 mod 16) * 16 + x2 / 4) mod 256]
                       else match unalpha d with
                            | None => None
                            | Some x3 =>
                                Some [(x0 * 4 + x1 / 16) mod 256;
                                      ((x1 mod 16) * 16 + x2 / 4) mod 256;
                                      ((x2 mod 4) * 64 + x3) mod 256]
                            end
                   end
          | _, _ => None
          end
      | a :: b :: c :: d :: rest =>
          match unalpha a, unalpha b, unalpha c, unalpha d with
          | Some x0, Some x1, Some x2, Some x3 =>
              match dec_quanta f rest with
              | None => None
              | Some tl =>
                  Some ((x0 * 4 + x1 / 16) mod 256 ::
                        ((x1 mod 16) * 16 + x2 / 4) mod 256 ::
                        ((x2 mod 4) * 64 + x3) mod 256 :: tl)
              end
          | _, _, _, _ => None
          end
      | _ => None
      end
  end.

Definition dec (s : bytes) : option bytes :=
  let s' := filter (fun c => negb (is_crlf c)) s in
  dec_quanta (S (length s')) s'.

Definition wf_bytes (bs : bytes) : bool := forallb (fun b => b <? 256) bs.

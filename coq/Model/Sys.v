(* The end-to-end system: the PRODUCT of the client model (Model/Client.v) and
   the server-connection model (Model/Server.v) joined by two reliable FIFO
   wires.

     state  = client state, server state, the envelopes in flight in each
              direction (oldest first), and the history of everything ever put
              on the client->server wire;
     labels = a label of the client (its user actions and internal rules), a
              label of the server (handler steps and internal rules), and the
              two transfers: the oldest in-flight envelope of a direction is
              handed to its reader (the component's own ADeliver action).

   The components' ADeliver actions belong to the wires: they are not labels
   of the system. What a component logs as written to its transport during a
   step is appended to the outgoing wire. The client's envelopes do not carry
   method / source / destination in the client model; the wire adds them: the
   method kind is the kind of the call that owns the envelope's id, the source
   is the client's name, the destination the server's name ([frame_of]).

   The handler programs are restricted by a policy [pol] (which operation a
   handler at its gate may perform in a given server state): C01 uses
   [pol_c01 f] (a unary handler returns [f request] and nil), C02 the
   unrestricted [pol_any].

   No proofs in this file. *)
From Coq Require Import List ZArith Bool Lia.
Import ListNotations.
From Goat Require Import Model.Client Model.Server.
Open Scope Z_scope.

Definition cli_name : Z := 2.

(* the kind of method an envelope with this id belongs to: the kind of the call that owns the id *)
Definition mk_of (cs : Client.state) (id : Z) : mkind :=
  match find (fun k => k_id k =? id) (Client.calls cs) with
  | Some k => if k_unary k then MUnary 0 else MStream 0
  | None => MBad
  end.

Definition frame_of (cs : Client.state) (e : env) : frame := mkFrame e (mk_of cs (eid e)) cli_name srv_name.

Fixpoint cwrites (l : list cev) : list env :=
  match l with
  | [] => []
  | EvWrite e :: t => e :: cwrites t
  | _ :: t => cwrites t
  end.

Fixpoint swrites (l : list sev) : list frame :=
  match l with
  | [] => []
  | SvWrite f :: t => f :: swrites t
  | _ :: t => swrites t
  end.

Record state := mkSys {
  cl : Client.state;
  sv : Server.state;
  c2s : list frame;          (* in flight towards the server *)
  s2c : list env;            (* in flight towards the client *)
  sent_c2s : list frame }.   (* history: every frame ever put on the client->server wire *)

Definition init : state := mkSys Client.init Server.init [] [] [].

Inductive label :=
| LC (l : Client.label)
| LS (l : Server.label)
| LXferC2S
| LXferS2C.

Definition client_label_ok (l : Client.label) : bool :=
  match l with Client.LExt (Client.ADeliver _) => false | _ => true end.
Definition server_label_ok (l : Server.label) : bool :=
  match l with Server.LExt (Server.ADeliver _) => false | _ => true end.

Definition policy := Server.state -> nat -> hop -> bool.
Definition pol_any : policy := fun _ _ _ => true.

Definition herr_eqb (a b : herr) : bool :=
  match a, b with
  | HNil, HNil | HCanceled, HCanceled | HDeadline, HDeadline => true
  | HStatus c m, HStatus c' m' => (c =? c') && (m =? m')
  | HPlain m, HPlain m' => m =? m'
  | _, _ => false
  end.

(* C01: a unary handler does one thing: it returns [f request] and a nil error *)
Definition pol_c01 (f : Z -> Z) : policy := fun v h o =>
  match nth_error (hs v) h with
  | Some k =>
      if h_unary k then
        match o with
        | HReturn (Some r) HNil => r =? f (body_tok (h_req k))
        | _ => false
        end
      else true
  | None => true
  end.

Definition pol_ok (pol : policy) (v : Server.state) (l : Server.label) : bool :=
  match l with
  | Server.LExt (AHandlerStep h o) => pol v h o
  | _ => true
  end.

(* what a component wrote during one step: the writes logged after the old log *)
Definition new_cwrites (old new : Client.state) : list env :=
  cwrites (skipn (length (Client.log old)) (Client.log new)).
Definition new_swrites (old new : Server.state) : list frame :=
  swrites (skipn (length (Server.log old)) (Server.log new)).

Definition lstep (pol : policy) (s : state) (l : label) : option state :=
  match l with
  | LC x =>
      if client_label_ok x then
        match Client.lstep (cl s) x with
        | Some c' =>
            let fs := map (frame_of c') (new_cwrites (cl s) c') in
            Some (mkSys c' (sv s) (c2s s ++ fs) (s2c s) (sent_c2s s ++ fs))
        | None => None
        end
      else None
  | LS x =>
      if server_label_ok x && pol_ok pol (sv s) x then
        match Server.lstep (sv s) x with
        | Some v' => Some (mkSys (cl s) v' (c2s s) (s2c s ++ map f_env (new_swrites (sv s) v')) (sent_c2s s))
        | None => None
        end
      else None
  | LXferC2S =>
      match c2s s with
      | f :: rest => Some (mkSys (cl s) (Server.ext (sv s) (Server.ADeliver f)) rest (s2c s) (sent_c2s s))
      | [] => None
      end
  | LXferS2C =>
      match s2c s with
      | e :: rest => Some (mkSys (Client.ext (cl s) (Client.ADeliver e)) (sv s) (c2s s) rest (sent_c2s s))
      | [] => None
      end
  end.

Fixpoint lrun (pol : policy) (s : state) (ls : list label) : option state :=
  match ls with
  | [] => Some s
  | l :: rest => match lstep pol s l with Some s' => lrun pol s' rest | None => None end
  end.

Definition reachable (pol : policy) (s : state) : Prop := exists ls, lrun pol init ls = Some s.

(* ---------- fault-free environments ---------- *)
(* no read failure, no write failure, no Stop / cancellation of Serve's context on the server side; on the
   client side no injected fault (cancellation and deadline expiry of a caller's context are not faults, but
   the completeness theorems exclude them too: [no_cancel]) *)
Definition fault_free_label (l : label) : bool :=
  match l with
  | LC (Client.LExt a) =>
      match a with Client.AFailRead | Client.ASetWriteFail _ | Client.ADeliver _ => false | _ => true end
  | LS (Server.LExt a) =>
      match a with AHandlerStep _ _ => true | _ => false end
  | _ => true
  end.
Definition fault_free (ls : list label) : bool := forallb fault_free_label ls.

Definition no_cancel_label (l : label) : bool :=
  match l with
  | LC (Client.LExt (ACancel _)) | LC (Client.LExt (AExpire _)) => false
  | _ => true
  end.
Definition no_cancel (ls : list label) : bool := forallb no_cancel_label ls.

(* nothing can move: both components quiescent, both wires empty, no handler waiting at its gate *)
Definition at_gate (k : hnd) : bool := match h_pc k with HGate => true | _ => false end.
Definition quiescent (s : state) : bool :=
  Client.quiescent (cl s) && Server.quiescent (sv s)
  && match c2s s with [] => true | _ => false end
  && match s2c s with [] => true | _ => false end
  && negb (existsb at_gate (hs (sv s))).

(* ---------- projections of a system run onto its components ---------- *)
(* the client's own label sequence: its labels, and one ADeliver per transfer towards it *)
Fixpoint proj_c (pol : policy) (s : state) (ls : list label) : list Client.label :=
  match ls with
  | [] => []
  | l :: rest =>
      match lstep pol s l with
      | Some s' =>
          match l with
          | LC x => x :: proj_c pol s' rest
          | LXferS2C => match s2c s with e :: _ => Client.LExt (Client.ADeliver e) :: proj_c pol s' rest | [] => proj_c pol s' rest end
          | _ => proj_c pol s' rest
          end
      | None => []
      end
  end.

Fixpoint proj_s (pol : policy) (s : state) (ls : list label) : list Server.label :=
  match ls with
  | [] => []
  | l :: rest =>
      match lstep pol s l with
      | Some s' =>
          match l with
          | LS x => x :: proj_s pol s' rest
          | LXferC2S => match c2s s with f :: _ => Server.LExt (Server.ADeliver f) :: proj_s pol s' rest | [] => proj_s pol s' rest end
          | _ => proj_s pol s' rest
          end
      | None => []
      end
  end.

(* Model of internal/util.go: ToKeyValue / ToMetadata, and of grpc's
   metadata.Join as far as these use it. A metadata.MD is a Go map from keys to
   value lists; its iteration order is arbitrary, so an MD is modelled as the
   list of its entries in *some* order and every statement is for all orders. *)
From Goat Require Import Base.Bytes Model.Base64.
Open Scope N_scope.

Definition kv := (bytes * bytes)%type.
Definition mdmap := list (bytes * list bytes).

Definition bin_suffix : bytes := B"-bin".
Definition is_bin (lk : bytes) : bool := has_suffix lk bin_suffix.

(* ToKeyValue, given the entries of metadata.Join(mds...) in iteration order:
   keys are emitted as they are; values under a key whose lower-cased form ends
   in "-bin" are base64-encoded *)
Definition entry_kvs (e : bytes * list bytes) : list kv :=
  map (fun v => (fst e, if is_bin (lower (fst e)) then enc v else v)) (snd e).

Definition to_kv (m : mdmap) : list kv := flat_map entry_kvs m.

(* md[k] = append(md[k], v) *)
Fixpoint md_append (k v : bytes) (m : mdmap) : mdmap :=
  match m with
  | [] => [(k, [v])]
  | (k', vs) :: rest =>
      if bytes_eqb k k' then (k', vs ++ [v]) :: rest
      else (k', vs) :: md_append k v rest
  end.

(* ToMetadata: None = the error return *)
Fixpoint to_md_acc (kvs : list kv) (acc : mdmap) : option mdmap :=
  match kvs with
  | [] => Some acc
  | (k, v) :: rest =>
      let lk := lower k in
      if is_bin lk
      then match dec v with
           | None => None
           | Some vv => to_md_acc rest (md_append lk vv acc)
           end
      else to_md_acc rest (md_append lk v acc)
  end.

Definition to_md (kvs : list kv) : option mdmap := to_md_acc kvs [].

Fixpoint lookup (k : bytes) (m : mdmap) : option (list bytes) :=
  match m with
  | [] => None
  | (k', vs) :: rest => if bytes_eqb k k' then Some vs else lookup k rest
  end.

(* the specification: lower-case every key and concatenate, per lower-cased
   key, the values in entry order *)
Definition add_entry (acc : mdmap) (e : bytes * list bytes) : mdmap :=
  fold_left (fun a v => md_append (lower (fst e)) v a) (snd e) acc.

Definition norm (m : mdmap) : mdmap := fold_left add_entry m [].

(* metadata.Join: append the value lists per (unmodified) key, in argument
   order. A key with an empty value list stays in the map with no values. *)
Fixpoint md_append_list (k : bytes) (vs : list bytes) (m : mdmap) : mdmap :=
  match m with
  | [] => [(k, vs)]
  | (k', vs') :: rest =>
      if bytes_eqb k k' then (k', vs' ++ vs) :: rest
      else (k', vs') :: md_append_list k vs rest
  end.

Definition join2 (acc m : mdmap) : mdmap :=
  fold_left (fun a e => md_append_list (fst e) (snd e) a) m acc.

Definition join (mds : list mdmap) : mdmap := fold_left join2 mds [].

(* values under -bin keys must be byte strings *)
Definition wf_md (m : mdmap) : bool :=
  forallb (fun e => if is_bin (lower (fst e)) then forallb wf_bytes (snd e) else true) m.

(* comparison of two maps as maps (order of keys irrelevant), keys without
   values ignored *)
Definition vals_eqb (a b : list bytes) : bool :=
  Nat.eqb (length a) (length b) && forallb (fun p => bytes_eqb (fst p) (snd p)) (combine a b).

Definition sub_md (a b : mdmap) : bool :=
  forallb (fun e => match snd e with
                    | [] => true
                    | _ => match lookup (fst e) b with
                           | Some vs => vals_eqb (snd e) vs
                           | None => false
                           end
                    end) a.

Definition md_eqb (a b : mdmap) : bool := sub_md a b && sub_md b a.

(* Model of chained.go: getChainUnaryHandler / ChainUnaryInterceptor (and the
   stream twins, which have the same shape). An interceptor takes the next
   handler and the call's argument; handlers map an argument to a result. The
   types are arbitrary: effects are modelled by choosing a result type that
   carries them (e.g. an event log). *)
From Coq Require Import List Arith Lia.
Import ListNotations.

Section Chain.
  Context (A B : Type).
  Definition handler := A -> B.
  Definition interceptor := handler -> A -> B.

  (* getChainUnaryHandler(interceptors, curr, info, finalHandler); the Go
     recursion is on the index, here with explicit fuel = remaining length.
     An out-of-range index is impossible for fuel = len - 1 - curr. *)
  Fixpoint get_chain (fuel : nat) (is : list interceptor) (curr : nat) (final : handler) : handler :=
    match fuel with
    | O => final                       (* curr == len(interceptors)-1 *)
    | S f =>
        match nth_error is (curr + 1) with
        | Some i => fun req => i (get_chain f is (curr + 1) final) req
        | None => final                (* unreachable when fuel = len-1-curr *)
        end
    end.

  (* the interceptor installed by ChainUnaryInterceptor(interceptors...) *)
  Definition chain (is : list interceptor) : option interceptor :=
    match is with
    | [] => None   (* interceptors[0] panics at the first call: index out of range *)
    | i0 :: _ => Some (fun h req => i0 (get_chain (length is - 1) is 0 h) req)
    end.

  (* the specification: nest the interceptors in registration order *)
  Definition nest (is : list interceptor) (h : handler) : handler :=
    fold_right (fun i k => i k) h is.
End Chain.

Arguments get_chain {A B}.
Arguments chain {A B}.
Arguments nest {A B}.

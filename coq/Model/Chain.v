(* Model of chained.go: getChainUnaryHandler / ChainUnaryInterceptor (and the
   stream twins, which have the same shape). An interceptor takes the next
   handler and the call's argument; handlers map an argument to a result. The
   types are arbitrary: effects are modelled by choosing a result type that
   carries them (e.g. an event log). *)
From Coq Require Import List Arith Lia.
Import ListNotations.

Section Chain.
  Context (A B : Type).
  Definition handler := A -> B.
  Definition interceptor := handler -> A -> B.

  (* getChainUnaryHandler(interceptors, curr, info, finalHandler); the Go
     recursion is on the index, here with explicit fuel = remaining length.
     An out-of-range index is impossible for fuel = len - 1 - curr. *)
  Fixpoint get_chain (fuel : nat) (is : list interceptor) (curr : nat) (final : handler) : handler :=
    match fuel with
    | O => final                       (* curr == len(interceptors)-1 *)
    | S f =>
        match nth_error is (curr + 1) with
        | Some i => fun req => i (get_chain f is (curr + 1) final) req
        | None => final                (* unreachable when fuel = len-1-curr *)
        end
    end.

  (* the interceptor installed by ChainUnaryInterceptor(interceptors...) *)
  Definition chain (is : list interceptor) : option interceptor :=
    match is with
    | [] => None   (* interceptors[0] panics at the first call: index out of range *)
    | i0 :: _ => Some (fun h req => i0 (get_chain (length is - 1) is 0 h) req)
    end.

  (* the specification: nest the interceptors in registration order *)
  Definition nest (is : list interceptor) (h : handler) : handler :=
    fold_right (fun i k => i k) h is.
End Chain.

Arguments get_chain {A B}.
Arguments chain {A B}.
Arguments nest {A B}.

(* ---- stream twin: getChainStreamHandler / ChainStreamInterceptor. A stream
   handler takes two arguments (srv, stream); the recursion is the same. ---- *)
Section SChain.
  Context (Srv SS E : Type).
  Definition shandler := Srv -> SS -> E.
  Definition sinterceptor := Srv -> SS -> shandler -> E.   (* info is fixed per call: left out *)

  Fixpoint get_schain (fuel : nat) (is : list sinterceptor) (curr : nat) (final : shandler) : shandler :=
    match fuel with
    | O => final
    | S f =>
        match nth_error is (curr + 1) with
        | Some i => fun srv ss => i srv ss (get_schain f is (curr + 1) final)
        | None => final
        end
    end.

  Definition schain (is : list sinterceptor) : option sinterceptor :=
    match is with
    | [] => None
    | i0 :: _ => Some (fun srv ss h => i0 srv ss (get_schain (length is - 1) is 0 h))
    end.

  Definition snest (is : list sinterceptor) (h : shandler) : shandler :=
    fold_right (fun i k => fun srv ss => i srv ss k) h is.
End SChain.

Arguments get_schain {Srv SS E}.
Arguments schain {Srv SS E}.
Arguments snest {Srv SS E}.

(* ---- installation and call sites ----
   Server options are applied in order (NewServer: for _, opt := range opts);
   UnaryInterceptor(i) and ChainUnaryInterceptor(is...) both assign the single
   field s.unaryInterceptor, so the last one wins. The call site (the
   generated method handler for unary calls, server.go runStream for streams,
   client.go Invoke / NewStream on the client) applies the installed
   interceptor to the final handler when there is one, else calls the handler. *)
Section Sites.
  Context (A B : Type).
  Inductive sopt :=
  | OSingle (i : interceptor A B)
  | OChain (is : list (interceptor A B))
  | OOther.                              (* any option that does not touch the field *)

  (* None = field nil; Some None = ChainUnaryInterceptor() with no interceptor:
     a closure that indexes interceptors[0] and panics at the first call *)
  Definition apply_opt (cur : option (option (interceptor A B))) (o : sopt) : option (option (interceptor A B)) :=
    match o with
    | OSingle i => Some (Some i)
    | OChain is => Some (chain is)
    | OOther => cur
    end.

  Definition installed (opts : list sopt) : option (option (interceptor A B)) :=
    fold_left apply_opt opts None.

  (* result of one RPC at the call site; None = panic (empty chain) *)
  Definition site (inst : option (option (interceptor A B))) (h : handler A B) (a : A) : option B :=
    match inst with
    | None => Some (h a)                  (* interceptor == nil: call the handler *)
    | Some None => None
    | Some (Some i) => Some (i h a)
    end.

  (* a client connection has one optional interceptor (dialoption.go): the
     call site of Invoke / NewStream is [site] with invoke / newStream as the
     final handler *)
  Definition client_site (ic : option (interceptor A B)) (invoke : handler A B) (a : A) : B :=
    match ic with
    | None => invoke a
    | Some i => i invoke a
    end.

  (* an interceptor that transforms what it passes on and what it returns *)
  Definition transform (f : A -> A) (g : B -> B) : interceptor A B := fun k a => g (k (f a)).
End Sites.

Arguments OSingle {A B}.
Arguments OChain {A B}.
Arguments OOther {A B}.
Arguments apply_opt {A B}.
Arguments installed {A B}.
Arguments site {A B}.
Arguments client_site {A B}.
Arguments transform {A B}.

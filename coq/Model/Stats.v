(* Model of the stats events of goat (C20, stats part): for each role the list
   of events ONE installed stats.Handler receives for one RPC, for every exit
   of the code path. Written from the code; every constructor names its source
   lines (as of /repo 9827a73). With n handlers installed every emission site
   loops over all of them, so the list seen by handler i does not depend on n;
   handler i's events are tagged with the context ITS TagRPC returned (Begin
   is emitted with the context after handlers 0..i tagged it, later events with
   the context after all did: the value under handler i's own key is the same).

   The boolean of [End] says whether End.Error is nil. *)
From Coq Require Import List Bool.
Import ListNotations.

Inductive sev :=
| TagRPC | Begin | OutHeader | OutPayload | InHeader | InPayload | OutTrailer
| End (err_nil : bool).

(* is the error that ends the RPC io.EOF (errors.Is)? internal/util.go
   StatsEndRPC: on the server (isClient = false) End.Error = nil iff
   appErr == nil || errors.Is(appErr, io.EOF) *)
Inductive res := RNil | RErr | REof.
Definition end_helper (r : res) : sev :=
  End (match r with RNil => true | RErr => false | REof => true end).
Definition res_ok (r : res) : bool := match r with RNil => true | _ => false end.
(* since fix 9827a73 the io.EOF exemption is the server's only: with isClient
   the same helper gives End.Error = nil iff appErr == nil *)
Definition end_helper_client (r : res) : sev := End (res_ok r).

(* ------------------------------------------------------------------ *)
(* client, unary: client.go invoke l.100-171 + multiplexer.go CallUnaryMethod *)
Inductive cu_exit :=
| CU_marshal (r : res)    (* l.110-114 codec.Marshal(args) fails: return before OutHeader (r <> RNil) *)
| CU_early (r : res)      (* CallUnaryMethod returns before a response is taken: fail-fast on a failed
                             connection (mux l.89, error = the recorded read error, may be io.EOF),
                             registration refused (l.98), Write fails (l.109-113), caller's context
                             done (l.115-118: cancel, deadline), connection lost while waiting (l.119-121) *)
| CU_status               (* l.131-137 response with a non-OK status *)
| CU_malformed            (* l.141 neither body nor non-OK status *)
| CU_unmarshal            (* client.go l.156-159 reply body does not decode: InPayload still emitted, error returned *)
| CU_ok.                  (* l.170 *)

Definition cu_events (x : cu_exit) : list sev :=
  (* l.103 StatsStartServerRPC(isClient = true): TagRPC, Begin; no InHeader *)
  [TagRPC; Begin] ++
  match x with
  | CU_marshal r => [end_helper_client r]
  | CU_early r => [OutHeader; OutPayload; end_helper_client r]              (* l.116-131 *)
  | CU_status => [OutHeader; OutPayload; InHeader; end_helper_client RErr]   (* mux l.122-130 InHeader *)
  | CU_malformed => [OutHeader; OutPayload; InHeader; end_helper_client RErr]
  | CU_unmarshal => [OutHeader; OutPayload; InHeader; InPayload; end_helper_client RErr]   (* l.161-168 *)
  | CU_ok => [OutHeader; OutPayload; InHeader; InPayload; end_helper_client RNil]
  end.

Definition cu_success (x : cu_exit) : bool :=
  match x with CU_ok => true | _ => false end.
(* exits on which the error may be io.EOF *)
Definition cu_wf (x : cu_exit) : bool :=
  match x with CU_marshal r | CU_early r => negb (res_ok r) | _ => true end.

(* ------------------------------------------------------------------ *)
(* client, stream: client.go newStream l.214-284, then the stream object
   (internal/client/stream.go): a sequential object driven by the caller's
   calls and by what arrives, observed at quiescence after each step *)
Inductive cs_open :=
| CSO_refused      (* l.242-245 NewStreamReadWriter fails (connection already failed): End(err) by the deferred block l.228-240 *)
| CSO_write_fail   (* l.257-262 the opening write fails: teardown, End(err) *)
| CSO_ok.          (* l.264-271 OutHeader; client.NewStream starts the read loop *)

Inductive cs_op :=
| CSendOk          (* SendMsg, write succeeds: OutPayload (stream.go l.231-238); after the stream ended: returns at l.204, no event *)
| CSendFail        (* SendMsg, write fails: teardown(false) cancels the stream context, the read loop ends: End(err) *)
| CCloseSend       (* CloseSend l.169-175: OutTrailer before the write, whatever the state of the stream *)
| CRecvOk          (* RecvMsg takes a delivered body: InPayload l.281-287 (after the stream ended RecvMsg returns the
                      terminal error at l.252: no event) *)
| PMsg             (* an envelope without trailer / reset arrives: the first one triggers InHeader (onReady l.341-348) *)
| PBadMeta         (* an envelope whose metadata does not decode: fatal only if it is the first (l.361-370) *)
| PTrailer (ok : bool)  (* trailer with OK / non-OK status (errorIfDone) *)
| PReset           (* reset envelope *)
| PFail.           (* the read fails: transport failure, caller's cancel, deadline (l.354-359), or hand-off interrupted (l.385-387) *)

Record cs_state := mkCs { cs_ended : bool; cs_header : bool }.

(* events of one step and the next state; the End of the read loop's deferred
   block (l.317-327): Error nil iff rErr == nil || rErr == io.EOF *)
Definition cs_step (s : cs_state) (o : cs_op) : list sev * cs_state :=
  let hdr := if cs_header s then [] else [InHeader] in
  match o with
  | CSendOk => if cs_ended s then ([], s) else ([OutPayload], s)
  | CSendFail => if cs_ended s then ([], s) else ([End false], mkCs true (cs_header s))
  | CCloseSend => ([OutTrailer], s)
  | CRecvOk => if cs_ended s then ([], s) else ([InPayload], s)
  | PMsg => if cs_ended s then ([], s) else (hdr, mkCs false true)
  | PBadMeta =>
      if cs_ended s then ([], s)
      else if cs_header s then ([], s)                (* metadata is only decoded on the first envelope *)
      else ([End false], mkCs true false)
  | PTrailer ok => if cs_ended s then ([], s) else (hdr ++ [End ok], mkCs true true)
  | PReset => if cs_ended s then ([], s) else (hdr ++ [End false], mkCs true true)
  | PFail => if cs_ended s then ([], s) else ([End false], mkCs true (cs_header s))
  end.

Fixpoint cs_run (s : cs_state) (ops : list cs_op) : list sev * cs_state :=
  match ops with
  | [] => ([], s)
  | o :: rest =>
      let (e1, s1) := cs_step s o in
      let (e2, s2) := cs_run s1 rest in
      (e1 ++ e2, s2)
  end.

Definition cs_events (op : cs_open) (ops : list cs_op) : list sev :=
  (* l.217-227: per handler TagRPC then Begin *)
  [TagRPC; Begin] ++
  match op with
  | CSO_refused => [End false]
  | CSO_write_fail => [End false]
  | CSO_ok => [OutHeader] ++ fst (cs_run (mkCs false false) ops)
  end.

(* ------------------------------------------------------------------ *)
(* server, unary: server.go processUnaryRpc l.315-446 *)
Inductive su_dec :=
| DecOk        (* l.359-377 the request decodes: InPayload *)
| DecEmpty     (* l.360-362 body data nil (an empty message): no InPayload *)
| DecErr.      (* l.367-369 the body does not decode: the handler stub returns InvalidArgument *)

Inductive su_exit :=
| SU_bad_metadata                 (* l.321-343 undecodable request metadata: error reply, return BEFORE Begin *)
| SU_undispatched                 (* serve l.279-283: the connection ends while the request waits for a free worker
                                     (all 8 busy): the read loop returns, the request never reaches processUnaryRpc *)
| SU_run (d : su_dec) (r : res).  (* handler ran and returned r (DecErr forces r = RErr) *)

Definition su_events (x : su_exit) : list sev :=
  match x with
  | SU_bad_metadata => []
  | SU_undispatched => []
  | SU_run d r =>
      (* l.349 StatsStartServerRPC(isClient = false): TagRPC, Begin, InHeader *)
      [TagRPC; Begin; InHeader] ++
      (match d with DecOk => [InPayload] | _ => [] end) ++
      (* l.424-437 always, error or not: OutHeader, OutPayload, OutTrailer *)
      [OutHeader; OutPayload; OutTrailer] ++
      (* l.350-352 deferred StatsEndRPC(appErr) *)
      [end_helper r]
  end.

(* ------------------------------------------------------------------ *)
(* server, stream: server.go runStream l.517-593 + internal/server/stream.go *)
Inductive ss_op :=
| SRecvOk                 (* RecvMsg decodes a message: InPayload (stream.go l.249-257) *)
| SRecvOther              (* RecvMsg returns io.EOF / an error / an undecodable body: no event *)
| SSetHeader              (* no event *)
| SSendHeader (wrote : bool)  (* setHeader l.95-129: refused when headers were sent (no event), else OutHeader BEFORE the
                                 write; headersSent only when the write succeeded *)
| SSendMsg.               (* SendMsg l.186-205: OutHeader if headers not yet sent (marked sent before writing), OutPayload;
                             both before the write, whatever its result *)

Definition ss_step (hsent : bool) (o : ss_op) : list sev * bool :=
  match o with
  | SRecvOk => ([InPayload], hsent)
  | SRecvOther => ([], hsent)
  | SSetHeader => ([], hsent)
  | SSendHeader wrote => if hsent then ([], true) else ([OutHeader], wrote)
  | SSendMsg => ((if hsent then [] else [OutHeader]) ++ [OutPayload], true)
  end.

Fixpoint ss_run (hsent : bool) (ops : list ss_op) : list sev :=
  match ops with
  | [] => []
  | o :: rest => let (e, h) := ss_step hsent o in e ++ ss_run h rest
  end.

Inductive ss_exit :=
| SS_bad_metadata                       (* server.go l.498-502: reset written, no handler, no event *)
| SS_run (ops : list ss_op) (r : res).  (* handler performed ops and returned r; SendTrailer(r): OutTrailer (stream.go l.314-318)
                                           whether or not the trailer write succeeds; deferred StatsEndRPC(appErr) l.560-562 *)

Definition ss_events (x : ss_exit) : list sev :=
  match x with
  | SS_bad_metadata => []
  | SS_run ops r => [TagRPC; Begin; InHeader] ++ ss_run false ops ++ [OutTrailer; end_helper r]
  end.

(* ------------------------------------------------------------------ *)
(* connections *)
Inductive cev := TagConn | ConnBegin (tagged : bool) | ConnEnd (tagged : bool).

(* server.go serve l.200-208: TagConn, ConnBegin with the tagged context; the
   deferred ConnEnd runs on every return of serve (read error l.252, connection
   context done l.282, stream dispatch error l.288) *)
Inductive serve_exit := SV_read_error | SV_ctx_done | SV_dispatch_error.
Definition serve_events (x : serve_exit) : list cev := [TagConn; ConnBegin true; ConnEnd true].

(* client.go NewClientConn l.48-53: TagConn's result is dropped, ConnBegin gets
   context.Background(); Close l.58-63 emits one ConnEnd per call (nothing else
   does, and nothing prevents calling it twice) *)
Definition client_conn_events (closes : nat) : list cev :=
  [TagConn; ConnBegin false] ++ repeat (ConnEnd false) closes.

(* ------------------------------------------------------------------ *)
(* the tag clause: which context every event is delivered with.
   All start helpers run ONE loop over the installed handlers (util.go
   StatsStartServerRPC l.91-117; client.go newStream l.217-227):
       ctx = sh.TagRPC(ctx, ..); sh.HandleRPC(ctx, Begin) [; sh.HandleRPC(ctx, InHeader) on the server]
   so handler i (0-based) of n gets these first events with the context to which
   the TagRPC of handlers 0..i has been applied (depth i+1), and every later
   event with the final context (depth n), which derives from it. A handler finds
   the value ITS TagRPC stored in every context of depth > i. *)
Definition loop_prefix (server : bool) : nat := if server then 3 else 2.

Fixpoint depths_from (pos prefix n i : nat) (evs : list sev) : list (sev * nat) :=
  match evs with
  | [] => []
  | e :: rest => (e, if Nat.ltb pos prefix then S i else n) :: depths_from (S pos) prefix n i rest
  end.

(* the events of handler i of n for one RPC, each with the depth of its context *)
Definition tag_depths (server : bool) (n i : nat) (evs : list sev) : list (sev * nat) :=
  depths_from 0 (loop_prefix server) n i evs.

(* Small-step model of the GOAT client: RpcMultiplexer (internal/client/
   multiplexer.go), the per-call code of client.go and clientStream
   (internal/client/stream.go), at the granularity of the code regions between
   two synchronisation points.

   - payloads, metadata and methods are opaque tokens (Z);
   - the multiplexer mutex is never held across a blocking operation (since the
     D-11c fix the read loop waits for room in a full per-call queue without it:
     the [RLHold] state), so every critical section is one atomic rule;
   - the stream's [protected] mutex is held across a blocking operation only by
     the stream loop's deferred block ([LTdUnreg]);
   - transport writes succeed or fail at once (mode set by the environment);
   - every state carries the history [log] of what the API returned and what
     was put on the wire; the properties are predicates over it.

   [rules] lists every internal rule instance enabled in a state; the LTS of the
   theorems is "any enabled rule or any environment action, in any order".
   [settle] runs the first enabled rule until none is (the deterministic
   scheduler used by the correspondence check at quiescent points). *)
From Coq Require Import List ZArith Bool Lia.
Import ListNotations.
Open Scope Z_scope.

(* ---------- envelopes ---------- *)
Inductive mdv := MdOk (tok : Z) | MdBad.              (* decodable metadata token | undecodable *)
Record status := mkSt { st_code : Z; st_msg : Z }.
Record env := mkEnv {
  eid : Z;
  ehdr : option mdv;          (* header present, with its metadata *)
  estatus : option status;
  ebody : option Z;           (* body present: payload token; negative = bytes that do not unmarshal *)
  etrl : option mdv;          (* trailer present, with its metadata *)
  erst : bool }.

(* ---------- results ---------- *)
Inductive cerr :=
| EConn            (* the recorded transport read error *)
| EClosed          (* "respChan closed" *)
| ECanceled | EDeadline          (* as gRPC status *)
| ERawCanceled | ERawDeadline    (* the raw context error *)
| EWrite           (* transport write error *)
| EStatus (s : status)
| EMalformed       (* "malformed response: no body or status" *)
| EUnmarshal       (* body bytes are not a message *)
| EReset           (* Unavailable: stream reset by peer *)
| EBadMd           (* Unknown: undecodable metadata *)
| EEof.            (* io.EOF *)

Inductive ures := UOk (b : Z) | UErr (e : cerr).
Inductive rres := RMsg (b : Z) | RErr (e : cerr).    (* RecvMsg; io.EOF is RErr EEof *)

Inductive cev :=
| EvWrite (e : env)
| EvUnhandled (id : Z)
| EvUnaryRet (c : nat) (r : ures)
| EvOpenRet (c : nat) (r : option cerr)
| EvRecvRet (c : nat) (r : rres)
| EvSendRet (c : nat) (r : option cerr)
| EvCloseSendRet (c : nat) (r : option cerr)
| EvHeaderRet (c : nat) (r : mdv + cerr)
| EvTrailerRet (c : nat) (r : option Z)
| EvPanic (c : nat)
(* ghost events (history variables of the routing theorems; never observed by the correspondence check) *)
| EvRead (e : env) (to : option nat)   (* the read loop took e from the transport and routed it to call [to] *)
| EvTake (c : nat) (e : env)           (* call c took e from its queue *)
| EvDrop (c : nat) (e : env).          (* the read loop dropped e, held for call c, because c has unregistered *)

(* ---------- state ---------- *)
Inductive ctxst := CtxLive | CtxCanceled | CtxDeadline.
Definition ctx_done (c : ctxst) : bool := match c with CtxLive => false | _ => true end.

Record chan := mkChan { cbuf : option env; cclosed : bool }.   (* capacity 1 *)

Inductive rlpc := RLRead | RLHold (c : nat) (e : env) | RLDead.

(* call thread (CallUnaryMethod / NewStreamReadWriter+newStream) *)
Inductive cpc :=
| PCheck (park : bool)     (* before the fail-fast check *)
| PParked                  (* at the yield point after the check *)
| PReg                     (* id allocated; register + write next (needs the mutex) *)
| PWait                    (* unary: select (response | ctx) *)
| PUnreg (r : ures)        (* unary: deferred unregister (needs the mutex) *)
| PRet                     (* unary: returned *)
| POpenUnreg (e : cerr)    (* stream: open write failed, teardown next (needs the mutex) *)
| POpen                    (* stream: open *)
| POpenFailed.

Inductive slpc :=
| LRead                    (* rw.Read: select (channel | stream ctx) *)
| LHand (b : Z)            (* select (stream ctx | rCh <- b) *)
| LExit                    (* deferred block entered: protected held *)
| LTdUnreg                 (* ... blocked in unregister (needs the mutex); protected held *)
| LDead.

Inductive rpc :=           (* RecvMsg *)
| RNone
| RCheck (park : bool)     (* needs protected *)
| RParked
| RSel                     (* select (stream ctx | rCh) *)
| RFinal.                  (* rCh closed or ctx done seen: re-read terminal state (needs protected) *)

Inductive opc := ONone | OPending.   (* an operation that only needs protected / the latch *)

Record call := mkCall {
  k_unary : bool;
  k_payload : Z;
  k_pc : cpc;
  k_id : Z;
  k_chan : chan;
  k_reg : bool;               (* still in the registry *)
  k_ctx : ctxst;              (* the caller's context *)
  (* stream part *)
  s_loop : slpc;
  s_ctxc : bool;              (* stream context cancelled by teardown *)
  s_latch : option (mdv + cerr);   (* header latch: released with metadata or error *)
  s_rchclosed : bool;
  s_done : bool;
  s_rerr : option cerr;       (* protected.rErr once done (None = nil) *)
  s_trl : option mdv;         (* protected.trailer *)
  l_rerr : option cerr;       (* the loop's local rErr *)
  l_trl : option mdv;
  l_hastrl : bool;
  l_abort : bool;
  s_recv : rpc;
  s_header : opc;
  s_sendq : list (option Z);  (* SendMsg (Some b) / CloseSend (None) calls waiting for protected *)
  s_trailerq : opc }.

Record state := mkState {
  counter : Z;
  rerr : bool;
  rl : rlpc;
  inbox : list env;
  inbox_failed : bool;
  wfail : bool;               (* transport writes fail *)
  calls : list call;
  log : list cev }.

Definition init : state := mkState 0 false RLRead [] false false [] [].

(* ---------- helpers ---------- *)
Definition protected_free (k : call) : bool :=
  match s_loop k with LExit | LTdUnreg => false | _ => true end.

Definition sctx_done (k : call) : bool := s_ctxc k || ctx_done (k_ctx k).

Fixpoint upd {A} (n : nat) (x : A) (l : list A) : list A :=
  match l, n with
  | [], _ => []
  | _ :: t, O => x :: t
  | h :: t, S m => h :: upd m x t
  end.

Definition set_call (s : state) (c : nat) (k : call) : state :=
  mkState (counter s) (rerr s) (rl s) (inbox s) (inbox_failed s) (wfail s) (upd c k (calls s)) (log s).

Definition add_log (s : state) (evs : list cev) : state :=
  mkState (counter s) (rerr s) (rl s) (inbox s) (inbox_failed s) (wfail s) (calls s) (log s ++ evs).

Definition set_pc (k : call) (pc : cpc) : call :=
  mkCall (k_unary k) (k_payload k) pc (k_id k) (k_chan k) (k_reg k) (k_ctx k) (s_loop k) (s_ctxc k)
         (s_latch k) (s_rchclosed k) (s_done k) (s_rerr k) (s_trl k) (l_rerr k) (l_trl k) (l_hastrl k)
         (l_abort k) (s_recv k) (s_header k) (s_sendq k) (s_trailerq k).

Definition set_chan (k : call) (ch : chan) (reg : bool) : call :=
  mkCall (k_unary k) (k_payload k) (k_pc k) (k_id k) ch reg (k_ctx k) (s_loop k) (s_ctxc k)
         (s_latch k) (s_rchclosed k) (s_done k) (s_rerr k) (s_trl k) (l_rerr k) (l_trl k) (l_hastrl k)
         (l_abort k) (s_recv k) (s_header k) (s_sendq k) (s_trailerq k).

Definition set_id (k : call) (id : Z) : call :=
  mkCall (k_unary k) (k_payload k) (k_pc k) id (k_chan k) (k_reg k) (k_ctx k) (s_loop k) (s_ctxc k)
         (s_latch k) (s_rchclosed k) (s_done k) (s_rerr k) (s_trl k) (l_rerr k) (l_trl k) (l_hastrl k)
         (l_abort k) (s_recv k) (s_header k) (s_sendq k) (s_trailerq k).

Definition set_ctx (k : call) (c : ctxst) : call :=
  mkCall (k_unary k) (k_payload k) (k_pc k) (k_id k) (k_chan k) (k_reg k) c (s_loop k) (s_ctxc k)
         (s_latch k) (s_rchclosed k) (s_done k) (s_rerr k) (s_trl k) (l_rerr k) (l_trl k) (l_hastrl k)
         (l_abort k) (s_recv k) (s_header k) (s_sendq k) (s_trailerq k).

Definition set_loop (k : call) (l : slpc) : call :=
  mkCall (k_unary k) (k_payload k) (k_pc k) (k_id k) (k_chan k) (k_reg k) (k_ctx k) l (s_ctxc k)
         (s_latch k) (s_rchclosed k) (s_done k) (s_rerr k) (s_trl k) (l_rerr k) (l_trl k) (l_hastrl k)
         (l_abort k) (s_recv k) (s_header k) (s_sendq k) (s_trailerq k).

Definition set_recv (k : call) (r : rpc) : call :=
  mkCall (k_unary k) (k_payload k) (k_pc k) (k_id k) (k_chan k) (k_reg k) (k_ctx k) (s_loop k) (s_ctxc k)
         (s_latch k) (s_rchclosed k) (s_done k) (s_rerr k) (s_trl k) (l_rerr k) (l_trl k) (l_hastrl k)
         (l_abort k) r (s_header k) (s_sendq k) (s_trailerq k).

Definition set_latch (k : call) (v : mdv + cerr) : call :=
  mkCall (k_unary k) (k_payload k) (k_pc k) (k_id k) (k_chan k) (k_reg k) (k_ctx k) (s_loop k) (s_ctxc k)
         (match s_latch k with None => Some v | x => x end)
         (s_rchclosed k) (s_done k) (s_rerr k) (s_trl k) (l_rerr k) (l_trl k) (l_hastrl k)
         (l_abort k) (s_recv k) (s_header k) (s_sendq k) (s_trailerq k).

(* the loop leaves its for-loop: local rErr / trailer / abort recorded *)
Definition loop_exit (k : call) (e : option cerr) (hastrl : bool) (trl : option mdv) (abort : bool) : call :=
  mkCall (k_unary k) (k_payload k) (k_pc k) (k_id k) (k_chan k) (k_reg k) (k_ctx k) LExit (s_ctxc k)
         (s_latch k) (s_rchclosed k) (s_done k) (s_rerr k) (s_trl k) e trl hastrl abort
         (s_recv k) (s_header k) (s_sendq k) (s_trailerq k).

Definition set_ops (k : call) (h : opc) (sq : list (option Z)) (t : opc) : call :=
  mkCall (k_unary k) (k_payload k) (k_pc k) (k_id k) (k_chan k) (k_reg k) (k_ctx k) (s_loop k) (s_ctxc k)
         (s_latch k) (s_rchclosed k) (s_done k) (s_rerr k) (s_trl k) (l_rerr k) (l_trl k) (l_hastrl k)
         (l_abort k) (s_recv k) h sq t.

Definition new_call (unary : bool) (payload : Z) (park : bool) : call :=
  mkCall unary payload (PCheck park) 0 (mkChan None false) false CtxLive LDead false None false false
         None None None None false false RNone ONone [] ONone.

(* envelopes the client emits *)
Definition req_env (id b : Z) : env := mkEnv id (Some (MdOk 0)) None (Some b) None false.
Definition open_env (id : Z) : env := mkEnv id (Some (MdOk 0)) None None None false.
Definition body_env (id b : Z) : env := mkEnv id (Some (MdOk 0)) None (Some b) None false.
Definition close_env (id : Z) : env := mkEnv id (Some (MdOk 0)) (Some (mkSt 0 0)) None (Some (MdOk 0)) false.
Definition rst_env (id : Z) : env := mkEnv id (Some (MdOk 0)) None None None true.

(* CallUnaryMethod's classification of the response + invoke's Unmarshal *)
Definition classify (e : env) : ures :=
  match estatus e with
  | Some st => if st_code st =? 0
               then match ebody e with
                    | Some b => if b <? 0 then UErr EUnmarshal else UOk b
                    | None => UErr EMalformed
                    end
               else UErr (EStatus st)
  | None => match ebody e with
            | Some b => if b <? 0 then UErr EUnmarshal else UOk b
            | None => UErr EMalformed
            end
  end.

(* errorIfDone *)
Definition final_of (e : env) : option cerr :=
  if erst e then Some EReset
  else match etrl e with
       | None => None
       | Some _ => match estatus e with
                   | Some st => if st_code st =? 0 then Some EEof else Some (EStatus st)
                   | None => Some EEof
                   end
       end.

Definition ctx_status (k : call) : cerr :=
  match k_ctx k with CtxDeadline => EDeadline | _ => ECanceled end.
Definition ctx_raw (k : call) : cerr :=
  match k_ctx k with CtxDeadline => ERawDeadline | _ => ERawCanceled end.

(* what the stream's Read reports when its registration is closed and its queue is empty: the stream context's own
   error if it has ended (its teardown unregistered it; fix 72f38d7), else the recorded read error or "respChan
   closed" *)
Definition closed_err (s : state) (k : call) : cerr :=
  if sctx_done k then ctx_status k else if rerr s then EConn else EClosed.

(* close and drop every registered channel (closeError) *)
Definition close_all (ks : list call) : list call :=
  map (fun k => if k_reg k then set_chan k (mkChan (cbuf (k_chan k)) true) false else k) ks.

Fixpoint find_reg (id : Z) (ks : list call) (n : nat) : option nat :=
  match ks with
  | [] => None
  | k :: t => if k_reg k && (k_id k =? id) then Some n else find_reg id t (S n)
  end.

(* ---------- internal rules ---------- *)
Definition rule := state -> option state.

(* read loop: take the next envelope from the transport *)
Definition r_rl_read (s : state) : option state :=
  match rl s with
  | RLRead =>
      match inbox s with
      | e :: rest =>
          let to := find_reg (eid e) (calls s) 0 in
          let s1 := mkState (counter s) (rerr s) (rl s) rest (inbox_failed s) (wfail s) (calls s) (log s ++ [EvRead e to]) in
          match to with
          | None => Some (add_log s1 [EvUnhandled (eid e)])
          | Some c =>
              match nth_error (calls s) c with
              | None => None
              | Some k =>
                  match cbuf (k_chan k) with
                  | None => Some (set_call s1 c (set_chan k (mkChan (Some e) false) true))
                  | Some _ => Some (mkState (counter s1) (rerr s1) (RLHold c e) (inbox s1) (inbox_failed s1)
                                            (wfail s1) (calls s1) (log s1))
                  end
              end
          end
      | [] =>
          if inbox_failed s
          then (* closeError: the mutex is free (we are not holding it) *)
               Some (mkState (counter s) true RLDead [] true (wfail s) (close_all (calls s)) (log s))
          else None
      end
  | _ => None
  end.

(* read loop waiting for room in the call's queue: select (queue <- e | done) *)
Definition r_rl_unblock (s : state) : option state :=
  match rl s with
  | RLHold c e =>
      match nth_error (calls s) c with
      | None => None
      | Some k =>
          let s1 := mkState (counter s) (rerr s) RLRead (inbox s) (inbox_failed s) (wfail s) (calls s) (log s) in
          match cbuf (k_chan k) with
          | None => Some (set_call s1 c (set_chan k (mkChan (Some e) (cclosed (k_chan k))) (k_reg k)))
          | Some _ => if cclosed (k_chan k) then Some (add_log s1 [EvDrop c e]) (* the call has gone: dropped *) else None
          end
      end
  | _ => None
  end.

(* the fail-fast check (readErrorIfDone: needs the mutex) *)
Definition r_check (c : nat) (s : state) : option state :=
  match nth_error (calls s) c with
  | Some k =>
      match k_pc k with
      | PCheck park =>
          if rerr s then
            if k_unary k
            then Some (add_log (set_call s c (set_pc k PRet)) [EvUnaryRet c (UErr EConn)])
            else Some (add_log (set_call s c (set_pc k POpenFailed)) [EvOpenRet c (Some EConn)])
          else if park then Some (set_call s c (set_pc k PParked))
          else (* atomic.AddUint64 *)
            let id := counter s + 1 in
            let s1 := mkState id (rerr s) (rl s) (inbox s) (inbox_failed s) (wfail s) (calls s) (log s) in
            Some (set_call s1 c (set_id (set_pc k PReg) id))
      | _ => None
      end
  | None => None
  end.

(* register (re-checking the read error) and write the request / open envelope *)
Definition r_reg (c : nat) (s : state) : option state :=
  match nth_error (calls s) c with
  | Some k =>
      match k_pc k with
      | PReg =>
            if rerr s then
              if k_unary k
              then Some (add_log (set_call s c (set_pc k PRet)) [EvUnaryRet c (UErr EConn)])
              else Some (add_log (set_call s c (set_pc k POpenFailed)) [EvOpenRet c (Some EConn)])
            else
              let k1 := set_chan k (mkChan None false) true in
              if k_unary k then
                if ctx_done (k_ctx k) || wfail s
                then Some (set_call s c (set_pc k1 (PUnreg (UErr (if ctx_done (k_ctx k) then ctx_raw k else EWrite)))))
                else Some (add_log (set_call s c (set_pc k1 PWait)) [EvWrite (req_env (k_id k) (k_payload k))])
              else
                if ctx_done (k_ctx k) || wfail s
                then Some (set_call s c (set_pc k1 (POpenUnreg (if ctx_done (k_ctx k) then ctx_raw k else EWrite))))
                else Some (add_log (set_call s c (set_loop (set_pc k1 POpen) LRead))
                                   [EvWrite (open_env (k_id k)); EvOpenRet c None])
      | _ => None
      end
  | None => None
  end.

(* unary: select (response | ctx) *)
Definition r_wait (c : nat) (s : state) : option state :=
  match nth_error (calls s) c with
  | Some k =>
      match k_pc k with
      | PWait =>
          match cbuf (k_chan k) with
          | Some e => Some (add_log (set_call s c (set_pc (set_chan k (mkChan None (cclosed (k_chan k))) (k_reg k)) (PUnreg (classify e))))
                                    [EvTake c e])
          | None =>
              if cclosed (k_chan k) then Some (set_call s c (set_pc k (PUnreg (UErr EClosed))))
              else None
          end
      | _ => None
      end
  | None => None
  end.

(* ... the ctx case of the same select: enabled whenever the context is done,
   whatever else is ready (Go picks any ready case) *)
Definition r_wait_ctx (c : nat) (s : state) : option state :=
  match nth_error (calls s) c with
  | Some k =>
      match k_pc k with
      | PWait => if ctx_done (k_ctx k) then Some (set_call s c (set_pc k (PUnreg (UErr (ctx_raw k))))) else None
      | _ => None
      end
  | None => None
  end.

(* deferred unregisterHandler (needs the mutex) and return *)
Definition r_unreg (c : nat) (s : state) : option state :=
  match nth_error (calls s) c with
  | Some k =>
      match k_pc k with
      | PUnreg r =>
          let k1 := if k_reg k then set_chan k (mkChan (cbuf (k_chan k)) true) false else k in
          Some (add_log (set_call s c (set_pc k1 PRet)) [EvUnaryRet c r])
      | POpenUnreg e =>
          let k1 := if k_reg k then set_chan k (mkChan (cbuf (k_chan k)) true) false else k in
          Some (add_log (set_call s c (set_pc k1 POpenFailed)) [EvOpenRet c (Some e)])
      | _ => None
      end
  | None => None
  end.

(* stream loop: rw.Read = select (channel | stream ctx), then one iteration *)
Definition r_loop_read (c : nat) (s : state) : option state :=
  match nth_error (calls s) c with
  | Some k =>
      match s_loop k with
      | LRead =>
          match cbuf (k_chan k) with
          | Some e =>
              let s := add_log s [EvTake c e] in
              let k0 := set_chan k (mkChan None (cclosed (k_chan k))) (k_reg k) in
              (* first envelope: decode the header metadata once *)
              let bad := match s_latch k0 with
                         | None => match ehdr e with Some MdBad => true | _ => false end
                         | Some _ => false
                         end in
              if bad then
                Some (set_call s c (loop_exit (set_latch k0 (inr EBadMd)) (Some EBadMd) false None true))
              else
                let k1 := set_latch k0 (inl (match ehdr e with Some m => m | None => MdOk 0 end)) in
                match final_of e with
                | Some err => Some (set_call s c (loop_exit k1 (Some err) (match etrl e with Some _ => true | None => false end) (etrl e) false))
                | None =>
                    match ebody e with
                    | None => Some (set_call s c k1)
                    | Some b => Some (set_call s c (set_loop k1 (LHand b)))
                    end
                end
          | None =>
              if cclosed (k_chan k) then
                (* handler closed *)
                let err := closed_err s k in
                Some (set_call s c (loop_exit (set_latch k (inr err)) (Some err) false None false))
              else None
          end
      | _ => None
      end
  | None => None
  end.

(* ... the ctx case of rw.Read's select *)
Definition r_loop_read_ctx (c : nat) (s : state) : option state :=
  match nth_error (calls s) c with
  | Some k =>
      match s_loop k with
      | LRead =>
          if sctx_done k then
            Some (set_call s c (loop_exit (set_latch k (inr (ctx_status k))) (Some (ctx_status k)) false None false))
          else None
      | _ => None
      end
  | None => None
  end.

(* stream loop: hand-off select (stream ctx | rCh <- body) *)
Definition r_loop_hand (c : nat) (s : state) : option state :=
  match nth_error (calls s) c with
  | Some k =>
      match s_loop k with
      | LHand b =>
          match s_recv k with
          | RSel =>
              Some (add_log (set_call s c (set_recv (set_loop k LRead) RNone))
                            [EvRecvRet c (if b <? 0 then RErr EUnmarshal else RMsg b)])
          | _ => None
          end
      | _ => None
      end
  | None => None
  end.

(* ... the ctx case of the hand-off select *)
Definition r_loop_hand_ctx (c : nat) (s : state) : option state :=
  match nth_error (calls s) c with
  | Some k =>
      match s_loop k with
      | LHand b =>
          if sctx_done k
          then Some (set_call s c (loop_exit k (Some (ctx_status k)) false None false))
          else None
      | _ => None
      end
  | None => None
  end.

(* deferred block, first half: close rCh, reset if needed (write with its own
   context), then unregister needs the mutex *)
Definition r_loop_exit (c : nat) (s : state) : option state :=
  match nth_error (calls s) c with
  | Some k =>
      match s_loop k with
      | LExit =>
          let send_rst := negb (l_hastrl k) && (l_abort k || sctx_done k) in
          let k1 := mkCall (k_unary k) (k_payload k) (k_pc k) (k_id k) (k_chan k) (k_reg k) (k_ctx k) LTdUnreg (s_ctxc k)
                           (s_latch k) true (s_done k) (s_rerr k) (s_trl k) (l_rerr k) (l_trl k) (l_hastrl k)
                           (l_abort k) (s_recv k) (s_header k) (s_sendq k) (s_trailerq k) in
          let s1 := set_call s c k1 in
          if send_rst && negb (wfail s) then Some (add_log s1 [EvWrite (rst_env (k_id k))]) else Some s1
      | _ => None
      end
  | None => None
  end.

(* deferred block, second half: unregister, cancel, publish the terminal state *)
Definition r_loop_unreg (c : nat) (s : state) : option state :=
  match nth_error (calls s) c with
  | Some k =>
      match s_loop k with
      | LTdUnreg =>
          let ch := if k_reg k then mkChan (cbuf (k_chan k)) true else k_chan k in
          Some (set_call s c
                  (mkCall (k_unary k) (k_payload k) (k_pc k) (k_id k) ch false (k_ctx k) LDead true
                          (s_latch k) true true (l_rerr k) (l_trl k) (l_rerr k) (l_trl k) (l_hastrl k)
                          (l_abort k) (s_recv k) (s_header k) (s_sendq k) (s_trailerq k)))
      | _ => None
      end
  | None => None
  end.

Definition recv_final (k : call) : rres :=
  match s_rerr k with Some e => RErr e | None => RErr EEof (* unreachable: done implies an error *) end.

(* RecvMsg *)
Definition r_recv (c : nat) (s : state) : option state :=
  match nth_error (calls s) c with
  | Some k =>
      match s_recv k with
      | RCheck park =>
          if protected_free k then
            if s_done k then Some (add_log (set_call s c (set_recv k RNone)) [EvRecvRet c (recv_final k)])
            else if park then Some (set_call s c (set_recv k RParked))
            else Some (set_call s c (set_recv k RSel))
          else None
      | RSel =>
          if s_rchclosed k || sctx_done k then Some (set_call s c (set_recv k RFinal)) else None
      | RFinal =>
          if protected_free k then
            if s_done k then Some (add_log (set_call s c (set_recv k RNone)) [EvRecvRet c (recv_final k)])
            else if sctx_done k
                 then Some (add_log (set_call s c (set_recv k RNone)) [EvRecvRet c (RErr (ctx_status k))])
                 else Some (add_log (set_call s c (set_recv k RNone)) [EvPanic c])
          else None
      | _ => None
      end
  | None => None
  end.

(* Header(): wait for the latch, then protected *)
Definition r_header (c : nat) (s : state) : option state :=
  match nth_error (calls s) c with
  | Some k =>
      match s_header k, s_latch k with
      | OPending, Some v =>
          if protected_free k
          then Some (add_log (set_call s c (set_ops k ONone (s_sendq k) (s_trailerq k))) [EvHeaderRet c v])
          else None
      | _, _ => None
      end
  | None => None
  end.

(* Trailer(): protected *)
Definition r_trailer (c : nat) (s : state) : option state :=
  match nth_error (calls s) c with
  | Some k =>
      match s_trailerq k with
      | OPending =>
          if protected_free k
          then Some (add_log (set_call s c (set_ops k (s_header k) (s_sendq k) ONone))
                             [EvTrailerRet c (match s_trl k with Some (MdOk t) => if t =? 0 then None else Some t | _ => None end)])
          else None
      | ONone => None
      end
  | None => None
  end.

(* SendMsg / CloseSend: done-check (protected), then write with the stream
   context; a failing SendMsg tears the registration down (needs the mutex) *)
Definition r_send (c : nat) (s : state) : option state :=
  match nth_error (calls s) c with
  | Some k =>
      match s_sendq k with
      | Some b :: rest =>
          if protected_free k then
            let k1 := set_ops k (s_header k) rest (s_trailerq k) in
            if s_done k then
              Some (add_log (set_call s c k1) [EvSendRet c (match s_rerr k with Some e => Some e | None => None end)])
            else if (b <? 0) || sctx_done k || wfail s then
                (* the codec rejects the message (negative token: Marshal fails before anything is written), or the
                   write fails: teardown(false) *)
                let ch := if k_reg k1 then mkChan (cbuf (k_chan k1)) true else k_chan k1 in
                let k2 := mkCall (k_unary k1) (k_payload k1) (k_pc k1) (k_id k1) ch false (k_ctx k1) (s_loop k1) true
                                 (s_latch k1) (s_rchclosed k1) (s_done k1) (s_rerr k1) (s_trl k1) (l_rerr k1) (l_trl k1)
                                 (l_hastrl k1) (l_abort k1) (s_recv k1) (s_header k1) (s_sendq k1) (s_trailerq k1) in
                Some (add_log (set_call s c k2)
                              [EvSendRet c (Some (if b <? 0 then EUnmarshal
                                                  else if rerr s then EConn else if sctx_done k then ctx_raw k else EWrite))])
            else Some (add_log (set_call s c k1) [EvWrite (body_env (k_id k) b); EvSendRet c None])
          else None
      | None :: rest =>
          (* CloseSend does not look at the terminal state *)
          let k1 := set_ops k (s_header k) rest (s_trailerq k) in
          if sctx_done k || wfail s
          then (* a failed write is replaced by the recorded read error *)
               Some (add_log (set_call s c k1)
                             [EvCloseSendRet c (Some (if rerr s then EConn else if sctx_done k then ctx_raw k else EWrite))])
          else Some (add_log (set_call s c k1) [EvWrite (close_env (k_id k)); EvCloseSendRet c None])
      | [] => None
      end
  | None => None
  end.

(* every internal rule instance, in the priority order used by [settle] *)
Definition per_call_rules : list (nat -> rule) :=
  [r_check; r_reg; r_wait; r_wait_ctx; r_unreg; r_loop_read; r_loop_read_ctx; r_loop_hand; r_loop_hand_ctx;
   r_loop_exit; r_loop_unreg; r_recv; r_header; r_trailer; r_send].

Definition rules (s : state) : list rule :=
  r_rl_unblock :: r_rl_read ::
  flat_map (fun c => map (fun r => r c) per_call_rules) (seq 0 (length (calls s))).

Fixpoint first_enabled (rs : list rule) (s : state) : option state :=
  match rs with
  | [] => None
  | r :: rest => match r s with Some s' => Some s' | None => first_enabled rest s end
  end.

Fixpoint settle (fuel : nat) (s : state) : state :=
  match fuel with
  | O => s
  | S f => match first_enabled (rules s) s with
           | Some s' => settle f s'
           | None => s
           end
  end.

Definition quiescent (s : state) : bool :=
  match first_enabled (rules s) s with None => true | Some _ => false end.

(* ---------- environment actions ---------- *)
Inductive act :=
| ANewUnary (payload : Z) (park : bool)
| ANewStream (park : bool)
| ARelease (c : nat)                (* release a call parked after its fail-fast check *)
| ARecv (c : nat) (park : bool)
| AReleaseRecv (c : nat)
| ASend (c : nat) (b : Z)
| ACloseSend (c : nat)
| AHeader (c : nat)
| ATrailer (c : nat)
| ACancel (c : nat)
| AExpire (c : nat)
| ADeliver (e : env)
| AFailRead
| ASetWriteFail (b : bool).

Definition with_call (s : state) (c : nat) (f : call -> option call) : state :=
  match nth_error (calls s) c with
  | Some k => match f k with Some k' => set_call s c k' | None => s end
  | None => s
  end.

Definition ext (s : state) (a : act) : state :=
  match a with
  | ANewUnary p park =>
      mkState (counter s) (rerr s) (rl s) (inbox s) (inbox_failed s) (wfail s) (calls s ++ [new_call true p park]) (log s)
  | ANewStream park =>
      mkState (counter s) (rerr s) (rl s) (inbox s) (inbox_failed s) (wfail s) (calls s ++ [new_call false 0 park]) (log s)
  | ARelease c =>
      match nth_error (calls s) c with
      | Some k =>
          match k_pc k with
          | PParked =>
              let id := counter s + 1 in
              let s1 := mkState id (rerr s) (rl s) (inbox s) (inbox_failed s) (wfail s) (calls s) (log s) in
              set_call s1 c (set_id (set_pc k PReg) id)
          | _ => s
          end
      | None => s
      end
  | ARecv c park => with_call s c (fun k => match s_recv k, k_pc k with RNone, POpen => Some (set_recv k (RCheck park)) | _, _ => None end)
  | AReleaseRecv c => with_call s c (fun k => match s_recv k with RParked => Some (set_recv k RSel) | _ => None end)
  (* one SendMsg/CloseSend, one Header, one Trailer call at a time per stream *)
  | ASend c b => with_call s c (fun k => match k_pc k, s_sendq k with POpen, [] => Some (set_ops k (s_header k) [Some b] (s_trailerq k)) | _, _ => None end)
  | ACloseSend c => with_call s c (fun k => match k_pc k, s_sendq k with POpen, [] => Some (set_ops k (s_header k) [None] (s_trailerq k)) | _, _ => None end)
  | AHeader c => with_call s c (fun k => match k_pc k, s_header k with POpen, ONone => Some (set_ops k OPending (s_sendq k) (s_trailerq k)) | _, _ => None end)
  | ATrailer c => with_call s c (fun k => match k_pc k, s_trailerq k with POpen, ONone => Some (set_ops k (s_header k) (s_sendq k) OPending) | _, _ => None end)
  (* a stream context that teardown has already cancelled keeps reporting Canceled: the later fate of
     its parent is unobservable, so the action is a no-op then *)
  | ACancel c => with_call s c (fun k => match k_ctx k, s_ctxc k with CtxLive, false => Some (set_ctx k CtxCanceled) | _, _ => None end)
  | AExpire c => with_call s c (fun k => match k_ctx k, s_ctxc k with CtxLive, false => Some (set_ctx k CtxDeadline) | _, _ => None end)
  | ADeliver e => mkState (counter s) (rerr s) (rl s) (inbox s ++ [e]) (inbox_failed s) (wfail s) (calls s) (log s)
  | AFailRead => mkState (counter s) (rerr s) (rl s) (inbox s) true (wfail s) (calls s) (log s)
  | ASetWriteFail b => mkState (counter s) (rerr s) (rl s) (inbox s) (inbox_failed s) b (calls s) (log s)
  end.

Definition fuel_of (s : state) : nat := 64 + 32 * (length (calls s) + length (inbox s)).

(* the reaction to one environment action, run to quiescence *)
Definition react (s : state) (a : act) : state :=
  let s1 := ext s a in settle (fuel_of s1) s1.

Definition run (acts : list act) : state := fold_left react acts init.

(* ---------- the LTS of the theorems: any order ---------- *)
Inductive label := LExt (a : act) | LInt (n : nat).    (* n-th entry of [rules s] *)

Definition lstep (s : state) (l : label) : option state :=
  match l with
  | LExt a => Some (ext s a)
  | LInt n => match nth_error (rules s) n with Some r => r s | None => None end
  end.

Fixpoint lrun (s : state) (ls : list label) : option state :=
  match ls with
  | [] => Some s
  | l :: rest => match lstep s l with Some s' => lrun s' rest | None => None end
  end.

Definition reachable (s : state) : Prop := exists ls, lrun init ls = Some s.

(* ---------- observations at a quiescent point ---------- *)
Definition registry_size (s : state) : nat := length (filter k_reg (calls s)).

Definition call_pending (k : call) : bool :=
  match k_pc k with PRet | POpen | POpenFailed => false | _ => true end.

Definition recv_pending (k : call) : bool := match s_recv k with RNone => false | _ => true end.
Definition header_pending (k : call) : bool := match s_header k with ONone => false | _ => true end.
Definition send_pending (k : call) : bool := match s_sendq k with [] => false | _ => true end.
Definition loop_alive (k : call) : bool := match s_loop k with LDead => false | _ => true end.
Definition trailer_pending (k : call) : bool := match s_trailerq k with ONone => false | _ => true end.

(* the read loop is waiting for room in some call's queue (head-of-line blocking) *)
Definition rl_blocked (s : state) : bool := match rl s with RLHold _ _ => true | _ => false end.

(* ---------- predicates of the properties ---------- *)
(* a call has terminated at the client: a unary call has returned, a stream open has failed, or the
   stream's read loop (which owns the teardown of the stream) is dead *)
Definition terminated (k : call) : bool :=
  match k_pc k with
  | PRet | POpenFailed => true
  | POpen => negb (loop_alive k)
  | _ => false
  end.
Definition live_calls (s : state) : nat := length (filter (fun k => negb (terminated k)) (calls s)).
Definition live_loops (s : state) : nat := length (filter loop_alive (calls s)).

(* a thread of the call is held by the environment at a yield point *)
Definition parked (k : call) : bool :=
  match k_pc k with PParked => true | _ => false end || match s_recv k with RParked => true | _ => false end.

(* some operation of the call has been invoked and has not returned *)
Definition any_pending (k : call) : bool :=
  call_pending k || recv_pending k || send_pending k || header_pending k || trailer_pending k.

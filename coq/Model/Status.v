(* Model of the status pipeline of goat (C03): how the error a handler finishes
   with becomes the ResponseStatus of the final envelope (server.go
   processUnaryRpc, internal/server/stream.go SendTrailer), what the final
   envelope carries, and how the client classifies it (internal/client/
   multiplexer.go CallUnaryMethod + client.go invoke; internal/client/stream.go
   errorIfDone / toStatusError).

   grpc's own conversions (status.FromError, status.FromContextError,
   status.FromProto(..).Err()) are library code: they are ARGUMENTS of the model
   functions. [E] is the type of non-nil Go error values, [M] of messages, [D] of
   detail values (protobuf Any), [P] of message bodies. *)
From Coq Require Import List ZArith Bool Lia.
Import ListNotations.
Open Scope Z_scope.

(* gRPC status codes (codes.Code is a uint32) *)
Definition cOK : Z := 0.
Definition cCanceled : Z := 1.
Definition cUnknown : Z := 2.
Definition cDeadlineExceeded : Z := 4.
Definition cInternal : Z := 13.
Definition cUnavailable : Z := 14.

(* ResponseStatus.code is an int32 on the wire; codes.Code is a uint32:
   int32(c) on the sending side, codes.Code(uint32(w)) on the receiving side *)
Definition two31 : Z := 2147483648.
Definition two32 : Z := 4294967296.
Definition to_i32 (c : Z) : Z := if c <? two31 then c else c - two32.
Definition of_i32 (w : Z) : Z := if w <? 0 then w + two32 else w.

Section Status.
  Context (M D P E : Type).

  Record status := mkSt { st_code : Z; st_msg : M; st_det : list D }.

  (* the wire form: goatorepo.ResponseStatus *)
  Record wstatus := mkWs { ws_code : Z (* int32 *); ws_msg : M; ws_det : list D }.

  (* the fields of an envelope that matter for the end of an RPC
     (goatorepo.Rpc: status, body, trailer, reset) *)
  Record fenv := mkEnv {
    e_status : option wstatus;
    e_body : option P;
    e_trailer : bool;      (* Trailer != nil *)
    e_reset : bool         (* Reset_ != nil *)
  }.

  (* grpc, as arguments:
       from_error e   = status.FromError(e)          (status, ok) for e != nil
       from_ctx e     = status.FromContextError(e)   for e != nil
     constants: the message of an OK trailer ("OK"), of a reset ("stream reset by peer") *)
  Context (from_error : E -> status * bool) (from_ctx : E -> status).
  Context (m_ok m_reset : M).

  Definition to_wire (st : status) : wstatus := mkWs (to_i32 (st_code st)) (st_msg st) (st_det st).
  (* status.FromProto(&spb.Status{Code, Message, Details}) *)
  Definition of_wire (ws : wstatus) : status := mkSt (of_i32 (ws_code ws)) (ws_msg ws) (ws_det ws).

  (* ---- server, unary: server.go processUnaryRpc l.397-445 ----
     appErr != nil: st, ok := status.FromError(appErr); if !ok { st = status.FromContextError(appErr) };
     respStatus = {st.Proto().Code, Message, Details}; an OK code is rewritten to Internal (fix D-03d).
     Status only on error. Body only if the reply is non-nil and marshals. Trailer always. *)
  Definition unary_status (h : option E) : option wstatus :=
    match h with
    | None => None
    | Some e =>
        let (st, ok) := from_error e in
        let st := if ok then st else from_ctx e in
        let ws := to_wire st in
        Some (if ws_code ws =? 0 then mkWs cInternal (ws_msg ws) (ws_det ws) else ws)
    end.

  (* reply = what the handler returned besides the error (nil or a message),
     marshalled = Some body when codec.Marshal succeeded *)
  Definition unary_final (h : option E) (reply : option P) : fenv :=
    mkEnv (unary_status h) reply true false.

  (* ---- server, stream: internal/server/stream.go SendTrailer l.270-325 ----
     Status OK/"OK", or for trErr != nil: st, _ := status.FromError(trErr)
     (second result ignored), an OK code rewritten to Internal. *)
  Definition trailer_status (h : option E) : wstatus :=
    match h with
    | None => mkWs 0 m_ok []
    | Some e =>
        let st := fst (from_error e) in
        let st := if st_code st =? cOK then mkSt cInternal (st_msg st) (st_det st) else st in
        to_wire st
    end.

  Definition stream_final (h : option E) : fenv :=
    mkEnv (Some (trailer_status h)) None true false.

  (* server.go resetStream: what the server writes to refuse / abort a stream *)
  Definition reset_env : fenv := mkEnv None None true true.

  (* ---- client, unary: CallUnaryMethod l.131-141, then invoke l.148-170 ----
     status present with code != OK -> status.FromProto(..).Err();
     else body present -> the body (unmarshalled by invoke: failure is an error);
     else "malformed response: no body or status". Reset and trailer are not consulted. *)
  Inductive uoutcome :=
  | UOk (b : P)                 (* Invoke returns nil, reply filled from b *)
  | UErr (st : status)          (* Invoke returns a status error *)
  | UMalformed                  (* Invoke returns the plain error "malformed response" *)
  | UBadBody.                   (* Invoke returns the codec's unmarshal error *)

  Definition client_unary (decodes : P -> bool) (v : fenv) : uoutcome :=
    match e_status v with
    | Some ws =>
        if negb (ws_code ws =? 0) then UErr (of_wire ws)
        else match e_body v with
             | Some b => if decodes b then UOk b else UBadBody
             | None => UMalformed
             end
    | None =>
        match e_body v with
        | Some b => if decodes b then UOk b else UBadBody
        | None => UMalformed
        end
    end.

  (* ---- client, stream: errorIfDone l.417-434 on every envelope the read
     loop takes, in order; the first Some ends the stream, RecvMsg then returns
     that error forever (io.EOF = clean end) ---- *)
  Inductive soutcome :=
  | SEof                        (* RecvMsg returns io.EOF *)
  | SErr (st : status).         (* RecvMsg returns a status error *)

  Definition client_stream_final (v : fenv) : option soutcome :=
    if e_reset v then Some (SErr (mkSt cUnavailable m_reset []))
    else if negb (e_trailer v) then None
    else
      let code := match e_status v with Some ws => ws_code ws | None => 0 end in
      if code =? 0 then Some SEof
      else match e_status v with
           | Some ws => Some (SErr (of_wire ws))
           | None => Some SEof       (* unreachable: code of an absent status is 0 *)
           end.

  (* the read loop over a sequence of envelopes (after the opening): bodies of
     non-final envelopes are handed to RecvMsg in order, the first final
     envelope ends the stream; nothing after it is looked at *)
  Fixpoint client_stream_run (vs : list fenv) : list P * option soutcome :=
    match vs with
    | [] => ([], None)
    | v :: rest =>
        match client_stream_final v with
        | Some o => ([], Some o)
        | None =>
            let (bs, o) := client_stream_run rest in
            (match e_body v with Some b => b :: bs | None => bs end, o)
        end
    end.

  (* toStatusError (stream.go l.406-413): what a read failure or the caller's
     own context error becomes: context errors via FromContextError, anything
     else via FromError (ok ignored) *)
  Definition to_status_error (is_ctx : E -> bool) (e : E) : status :=
    if is_ctx e then from_ctx e else fst (from_error e).

  (* ---- the specification: what the caller must observe ---- *)
  Definition force_nonok (st : status) : status :=
    if st_code st =? cOK then mkSt cInternal (st_msg st) (st_det st) else st.

  (* unary: status errors keep their status; other errors get FromContextError's *)
  Definition spec_unary (e : E) : status :=
    let (st, ok) := from_error e in force_nonok (if ok then st else from_ctx e).
  (* stream: the status FromError computes (Unknown + text for other errors) *)
  Definition spec_stream (e : E) : status := force_nonok (fst (from_error e)).
End Status.

Arguments mkSt {M D}.
Arguments st_code {M D}.
Arguments st_msg {M D}.
Arguments st_det {M D}.
Arguments mkWs {M D}.
Arguments ws_code {M D}.
Arguments ws_msg {M D}.
Arguments ws_det {M D}.
Arguments mkEnv {M D P}.
Arguments e_status {M D P}.
Arguments e_body {M D P}.
Arguments e_trailer {M D P}.
Arguments e_reset {M D P}.
Arguments to_wire {M D}.
Arguments of_wire {M D}.
Arguments unary_status {M D E}.
Arguments unary_final {M D P E}.
Arguments trailer_status {M D E}.
Arguments stream_final {M D P E}.
Arguments reset_env {M D P}.
Arguments UOk {M D P}.
Arguments UErr {M D P}.
Arguments UMalformed {M D P}.
Arguments UBadBody {M D P}.
Arguments client_unary {M D P}.
Arguments SEof {M D}.
Arguments SErr {M D}.
Arguments client_stream_final {M D P}.
Arguments client_stream_run {M D P}.
Arguments to_status_error {M D E}.
Arguments force_nonok {M D}.
Arguments spec_unary {M D E}.
Arguments spec_stream {M D E}.

(* A small-step model of the stats EMISSION POINTS (C20): per role, the program
   points of invoke / newStream + the client stream object / processUnaryRpc /
   runStream + the server stream object at the granularity "between two stats
   calls"; every transition is labelled with the events one installed handler
   receives on it; the terminal states are the ways the RPC can end. The per-exit
   tables of Model/Stats.v are proved to be exactly the path language of this
   automaton (Proofs/StatsAutoProofs.v), so the per-exit comparison of the rig
   with the tables is a comparison with the automaton's paths. *)
From Coq Require Import List Bool.
Import ListNotations.
From Goat Require Import Model.Stats.

Inductive ast :=
(* client, unary: client.go invoke + multiplexer.go CallUnaryMethod *)
| CU_entry                 (* l.100: before StatsStartServerRPC *)
| CU_started               (* l.108: Begin emitted, before codec.Marshal *)
| CU_sent_events           (* l.133: OutHeader / OutPayload emitted, inside CallUnaryMethod *)
| CU_got_response          (* mux l.131: InHeader emitted, classifying the response *)
| CU_got_body              (* client.go l.156: a body was returned, before Unmarshal *)
(* client, stream: client.go newStream, then the stream object *)
| CS_entry
| CS_started               (* l.242: Begin emitted, before NewStreamReadWriter *)
| CS_registered            (* l.257: before the opening write *)
| CS_open (ended header : bool)   (* the stream object: read loop ended? header latched? *)
(* server, unary: server.go processUnaryRpc *)
| SU_entry
| SU_started               (* l.354: Begin / InHeader emitted, before the handler stub *)
| SU_decoded (forced_err : bool)  (* the stub has (tried to) decode the request *)
| SU_returned (r : res)    (* l.383: the handler returned r, before the Out* events *)
| SU_replied (r : res)     (* l.439: reply built, the deferred StatsEndRPC runs next *)
(* server, stream: server.go runStream + the stream object *)
| SS_entry
| SS_running (hsent : bool)  (* the handler runs: headers sent? *)
| SS_returned (r : res)      (* l.587: the handler returned r, SendTrailer next *)
| SS_trailed (r : res)       (* OutTrailer emitted, the deferred StatsEndRPC runs next *)
(* the RPC is over at this role *)
| Done.

Definition all_res : list res := [RNil; RErr; REof].
Definition err_res : list res := [RErr; REof].

(* successors: the events emitted on the transition and the next program point *)
Definition anext (s : ast) : list (list sev * ast) :=
  match s with
  | CU_entry => [([TagRPC; Begin], CU_started)]
  | CU_started =>
      (* Marshal fails (the deferred End reports the error; nil only for a nil error) or the Out events *)
      map (fun r => ([end_helper_client r], Done)) err_res ++ [([OutHeader; OutPayload], CU_sent_events)]
  | CU_sent_events =>
      (* CallUnaryMethod returns early (fail-fast, refused registration, write failure, context, connection lost) or a response is taken *)
      map (fun r => ([end_helper_client r], Done)) err_res ++ [([InHeader], CU_got_response)]
  | CU_got_response =>
      [([End false], Done) (* non-OK status *); ([End false], Done) (* malformed *); ([], CU_got_body)]
  | CU_got_body => [([InPayload; End false], Done) (* Unmarshal fails *); ([InPayload; End true], Done)]

  | CS_entry => [([TagRPC; Begin], CS_started)]
  | CS_started => [([End false], Done) (* NewStreamReadWriter refuses *); ([], CS_registered)]
  | CS_registered => [([End false], Done) (* the opening write fails *); ([OutHeader], CS_open false false)]
  | CS_open e h =>
      map (fun o => let '(evs, s') := cs_step (mkCs e h) o in (evs, CS_open (cs_ended s') (cs_header s')))
          [CSendOk; CSendFail; CCloseSend; CRecvOk; PMsg; PBadMeta; PTrailer true; PTrailer false; PReset; PFail]

  | SU_entry => [([], Done) (* undecodable metadata / never dispatched *); ([TagRPC; Begin; InHeader], SU_started)]
  | SU_started => [([InPayload], SU_decoded false); ([], SU_decoded false) (* empty body *); ([], SU_decoded true) (* undecodable body *)]
  | SU_decoded forced => if forced then [([], SU_returned RErr)] else map (fun r => ([], SU_returned r)) all_res
  | SU_returned r => [([OutHeader; OutPayload; OutTrailer], SU_replied r)]
  | SU_replied r => [([end_helper r], Done)]

  | SS_entry => [([], Done) (* undecodable metadata: reset, no handler *); ([TagRPC; Begin; InHeader], SS_running false)]
  | SS_running h =>
      map (fun o => let '(evs, h') := ss_step h o in (evs, SS_running h'))
          [SRecvOk; SRecvOther; SSetHeader; SSendHeader true; SSendHeader false; SSendMsg]
      ++ map (fun r => ([], SS_returned r)) all_res
  | SS_returned r => [([OutTrailer], SS_trailed r)]
  | SS_trailed r => [([end_helper r], Done)]
  | Done => []
  end.

(* finite runs and complete paths *)
Inductive arun : ast -> list sev -> ast -> Prop :=
| ARefl s : arun s [] s
| AStep s evs s1 rest s2 : In (evs, s1) (anext s) -> arun s1 rest s2 -> arun s (evs ++ rest) s2.

Definition apath (s : ast) (evs : list sev) : Prop := arun s evs Done.

(* Model of parseRawMethod (server.go): strip one leading '/', split at the
   last '/'. None = the error return. *)
From Goat Require Import Base.Bytes.
Open Scope N_scope.

Definition slash : N := 47.

Fixpoint split_last (s : bytes) : option (bytes * bytes) :=
  match s with
  | [] => None
  | c :: rest =>
      match split_last rest with
      | Some (a, b) => Some (c :: a, b)
      | None => if c =? slash then Some ([], rest) else None
      end
  end.

Definition strip_slash (s : bytes) : bytes :=
  match s with
  | c :: r => if c =? slash then r else s
  | [] => []
  end.

Definition parse_method (s : bytes) : option (bytes * bytes) := split_last (strip_slash s).

Definition no_slash (s : bytes) : bool := forallb (fun c => negb (c =? slash)) s.

(* Small-step model of ONE GOAT server connection (server.go: Serve/serve,
   processUnaryRpc, processStreamingRpc, runStream, unregisterStream,
   resetStream, cancelAndWaitForStreams; internal/server/stream.go) against an
   arbitrary peer and harness-controlled handlers, at the granularity of the
   code regions between two synchronisation points.

   Threads: the read loop RD (the goroutine that called Serve), [nw] unary
   workers WK, the writer WR, one goroutine HS per stream handler. Unary
   handlers run on their worker. Handler bodies are not code of the library:
   a handler sits at a gate ([HGate]) until the environment makes it perform
   its next operation ([AHandlerStep h op]); the operation either completes at
   once (SetHeader, SetTrailer ...) or parks the handler in a select that an
   internal rule resolves.

   - payloads, metadata, names and methods are opaque tokens (Z); envelopes are
     Model.Client's [env] plus what the server's routing looks at ([frame]);
   - metadata.Join is token addition (the rig uses digits of a positional code);
   - [h.mu] is held across a blocking operation only by the read loop (forward
     into a stream queue, resetStream's hand-off): [mu_free]; every other
     critical section is one atomic rule enabled iff the mutex is free;
   - Read + header/method/destination/service filters + (stream) Lock + registry
     lookup is one rule: nothing another thread does between them changes their
     outcome except the registry, and that interleaving is the same as the other
     thread running first;
   - the deferred calls of serve (unaryRpcCtxCancel, cancelClientCtx, h.cancel)
     run back to back without a blocking point: one rule ([exit_serve]);
   - idle workers are interchangeable: the rendezvous picks the first idle one;
   - the transport is the harness Endpoint: Read returns queued envelopes first,
     then the injected error, else waits for the connection context; Write
     fails / blocks as the environment says, a blocked Write ends with the
     connection context;
   - not modelled: GRPC-Timeout (C08), stats handlers and interceptors (C20),
     proxy record / next hop of the headers (C16).

   [rules] lists every internal rule instance; the LTS of the theorems is "any
   enabled rule or any environment action, in any order" ([lstep], [lrun]). *)
From Coq Require Import List ZArith Bool Lia.
Import ListNotations.
From Goat Require Import Model.Client.
Open Scope Z_scope.

(* ---------- frames: an envelope and what the routing looks at ---------- *)
Inductive mkind :=
| MBad                       (* parseRawMethod fails *)
| MUnkSvc                    (* service not registered *)
| MUnkMeth                   (* service known, method in neither table *)
| MUnary (m : Z)
| MStream (m : Z).

Record frame := mkFrame { f_env : env; f_mth : mkind; f_src : Z; f_dst : Z }.
(* f_mth, f_src, f_dst are fields of the header: meaningless when ehdr (f_env) = None *)

Definition srv_name : Z := 1.

Inductive disp := DSkip | DUnary | DStream.
Definition dispatch (f : frame) : disp :=
  match ehdr (f_env f) with
  | None => DSkip
  | Some _ =>
      match f_mth f with
      | MBad => DSkip
      | k => if f_dst f =? srv_name
             then match k with MUnary _ => DUnary | MStream _ => DStream | _ => DSkip end
             else DSkip
      end
  end.

Definition fid (f : frame) : Z := eid (f_env f).
Definition md_bad (f : frame) : bool := match ehdr (f_env f) with Some MdBad => true | _ => false end.
Definition md_tok (f : frame) : Z := match ehdr (f_env f) with Some (MdOk t) => t | _ => 0 end.
Definition has_body (f : frame) : bool := match ebody (f_env f) with Some _ => true | None => false end.
Definition has_trl (f : frame) : bool := match etrl (f_env f) with Some _ => true | None => false end.
Definition has_hdr (f : frame) : bool := match ehdr (f_env f) with Some _ => true | None => false end.
Definition is_rst (f : frame) : bool := erst (f_env f).
Definition body_tok (f : frame) : Z := match ebody (f_env f) with Some b => b | None => 0 end.

(* a response to [f]: same method, source and destination swapped *)
Definition resp (f : frame) (e : env) : frame := mkFrame e (f_mth f) (f_dst f) (f_src f).

(* message tokens of the fixed texts *)
Definition msg_canceled : Z := -1.
Definition msg_deadline : Z := -2.
Definition msg_badmd : Z := -3.
Definition msg_undec : Z := -4.

Definition badmd_reply (f : frame) : frame :=
  resp f (mkEnv (fid f) (Some (MdOk 0)) (Some (mkSt 13 msg_badmd)) None (Some (MdOk 0)) false).
Definition undec_reply (f : frame) : frame :=
  resp f (mkEnv (fid f) (Some (MdOk 0)) (Some (mkSt 3 msg_undec)) None (Some (MdOk 0)) false).
Definition rst_reply (f : frame) : frame :=
  resp f (mkEnv (fid f) (Some (MdOk 0)) None None (Some (MdOk 0)) true).

(* ---------- handler programs ---------- *)
Inductive herr := HNil | HStatus (c m : Z) | HCanceled | HDeadline | HPlain (m : Z).

(* processUnaryRpc: status.FromError, else status.FromContextError *)
Definition ustatus (e : herr) : option status :=
  match e with
  | HNil => None
  | HStatus c m => Some (mkSt c m)
  | HCanceled => Some (mkSt 1 msg_canceled)
  | HDeadline => Some (mkSt 4 msg_deadline)
  | HPlain m => Some (mkSt 2 m)
  end.
(* SendTrailer: status.FromError (Unknown for anything that is not a status), OK rewritten to Internal *)
Definition sstatus (e : herr) : status :=
  match e with
  | HNil => mkSt 0 0
  | HStatus c m => mkSt (if c =? 0 then 13 else c) m
  | HCanceled => mkSt 2 msg_canceled
  | HDeadline => mkSt 2 msg_deadline
  | HPlain m => mkSt 2 m
  end.

Inductive hop :=
| HRecv | HSend (b : Z) | HSetHeader (t : Z) | HSendHeader (t : Z) | HSetTrailer (t : Z)
| HAwaitCtx | HReturn (rep : option Z) (e : herr).

Inductive opres :=
| ORecvMsg (b : Z) | ORecvEof | ORecvStatus (st : status) | ORecvUnmarshal
| OCtx            (* the operation ended with the handler's context error *)
| OOk | OHdrSent | OAwaited.

(* serverStream.RecvMsg on a queued envelope *)
Definition recv_res (f : frame) : opres :=
  match etrl (f_env f) with
  | Some _ => match estatus (f_env f) with
              | Some st => if st_code st =? 0 then ORecvEof else ORecvStatus st
              | None => ORecvEof
              end
  | None => match ebody (f_env f) with
            | Some b => if b <? 0 then ORecvUnmarshal else ORecvMsg b
            | None => ORecvMsg 0
            end
  end.

(* ---------- history ---------- *)
Inductive serr :=
| SRead        (* "read error": the transport's error *)
| SReadCtx     (* "read error": the connection context ended while reading *)
| SCtx         (* a bare context error *)
| SWrite.      (* context.Cause(h.ctx) = the write error *)

Inductive sev :=
| SvRead (f : frame)                  (* ghost: the read loop took f from the transport *)
| SvJob (w : nat) (f : frame)         (* ghost: worker w took the unary request f *)
| SvInvoke (h : nat) (unary : bool) (id : Z) (m : mkind) (payload md : Z)
| SvOp (h : nat) (r : opres)
| SvRet (h : nat)                     (* the handler function returned *)
| SvReply (h : nat) (f : frame)       (* ghost: the response built from unary handler h's return *)
| SvTrailer (h : nat) (f : frame)     (* ghost: the trailer SendTrailer built from stream handler h's return *)
| SvLost (f : frame)                  (* ghost: a worker or SendTrailer gave up handing f to the writer *)
| SvTaken (f : frame)                 (* ghost: the writer took f from writeChan *)
| SvWrite (f : frame)                 (* the transport accepted f *)
| SvWFail (f : frame)                 (* ghost: the transport refused f *)
| SvFwd (h : nat) (f : frame)         (* ghost: f put into h's queue *)
| SvDrop (h : nat) (f : frame)        (* ghost: f dropped, handler gone *)
| SvTake (h : nat) (f : frame)        (* ghost: h took f from its queue *)
| SvUnreg (h : nat)                   (* ghost: registry entry of handler h deleted *)
| SvAbandon (f : frame)               (* ghost: the read loop left serve while holding f *)
| SvServeRet (e : serr).

(* ---------- state ---------- *)
Inductive skind := KMsg | KHdr | KTrl.

Inductive hpc :=
| HGate                          (* in the handler body, waiting for its next operation *)
| HInRecv                        (* RecvMsg: select (queue | handler ctx) *)
| HInSend (f : frame) (k : skind)  (* writerFunc: select (handler ctx | writeChan <- f) *)
| HInAwait                       (* <-ctx.Done() *)
| HUnreg                         (* runStream's deferred cancel done; unregisterStream needs mu *)
| HDead.

Record hnd := mkHnd {
  h_unary : bool;
  h_req : frame;             (* the envelope that started it *)
  h_pc : hpc;
  h_cancel : bool;           (* its cancel function was called *)
  h_reg : bool;              (* stream: in the registry *)
  h_q : option frame;        (* stream: the capacity-1 queue *)
  h_donesig : bool;          (* stream: a token in the done channel *)
  h_hsent : bool;            (* headersSent *)
  h_hdr : Z;                 (* pending header metadata (join = sum) *)
  h_trl : Z }.               (* trailer metadata *)

Inductive rdpc :=
| RdRead
| RdOffer (f : frame)            (* select (unaryRpcChan <- f | h.ctx) *)
| RdFwd (h : nat) (f : frame)    (* mu held: select (queue <- f | handler gone | clientCtx | h.ctx) *)
| RdRst (f : frame)              (* mu held: resetStream: select (writeChan <- reset | h.ctx) *)
| RdCws (e : serr)               (* serve returned e; cancelAndWaitForStreams: lock, pick, unlock *)
| RdWait (h : nat) (e : serr)    (* <-sh.done *)
| RdDead (e : serr).             (* Serve returned *)

Inductive wkpc := WkIdle | WkRun (h : nat) | WkHand (f : frame) | WkDead.
Inductive wrpc := WrSel | WrWrite (f : frame) | WrDead.

Record state := mkState {
  inbox : list frame;
  inbox_failed : bool;
  wfail : bool;                (* transport writes fail *)
  wblock : bool;               (* transport writes block *)
  srv_stop : bool;             (* Server.Stop: parent of the connection context *)
  serve_ctx : bool;            (* the context passed to Serve was cancelled *)
  conn_cancel : bool;          (* h.cancel was called *)
  cause_write : bool;          (* ... first, and with a write error *)
  exit_cancel : bool;          (* serve's deferred cancels ran (clientCtx, unaryRpcCtx) *)
  rd : rdpc;
  wk : list wkpc;
  wr : wrpc;
  hs : list hnd;
  crashed : bool;
  log : list sev }.

Definition init_n (nw : nat) : state :=
  mkState [] false false false false false false false false RdRead (repeat WkIdle nw) WrSel [] false [].
Definition nworkers : nat := 8.          (* const numRpcWorkers = 8 *)
Definition init : state := init_n nworkers.

(* ---------- contexts ---------- *)
Definition hctx_done (s : state) : bool := srv_stop s || conn_cancel s.      (* h.ctx and unaryRpcCtx *)
Definition cctx_done (s : state) : bool := serve_ctx s || exit_cancel s.     (* clientCtx *)
Definition hdone (s : state) (k : hnd) : bool := h_cancel k || cctx_done s.  (* a handler's context *)

Definition mu_free (s : state) : bool :=
  match rd s with RdFwd _ _ | RdRst _ => false | _ => true end.

(* ---------- record updates ---------- *)
Fixpoint upd {A} (n : nat) (x : A) (l : list A) : list A :=
  match l, n with
  | [], _ => []
  | _ :: t, O => x :: t
  | h :: t, S m => h :: upd m x t
  end.

Definition set_inbox (s : state) (i : list frame) : state :=
  mkState i (inbox_failed s) (wfail s) (wblock s) (srv_stop s) (serve_ctx s) (conn_cancel s) (cause_write s)
          (exit_cancel s) (rd s) (wk s) (wr s) (hs s) (crashed s) (log s).
Definition set_rd (s : state) (p : rdpc) : state :=
  mkState (inbox s) (inbox_failed s) (wfail s) (wblock s) (srv_stop s) (serve_ctx s) (conn_cancel s) (cause_write s)
          (exit_cancel s) p (wk s) (wr s) (hs s) (crashed s) (log s).
Definition set_wks (s : state) (l : list wkpc) : state :=
  mkState (inbox s) (inbox_failed s) (wfail s) (wblock s) (srv_stop s) (serve_ctx s) (conn_cancel s) (cause_write s)
          (exit_cancel s) (rd s) l (wr s) (hs s) (crashed s) (log s).
Definition set_wk (s : state) (w : nat) (p : wkpc) : state := set_wks s (upd w p (wk s)).
Definition set_wr (s : state) (p : wrpc) : state :=
  mkState (inbox s) (inbox_failed s) (wfail s) (wblock s) (srv_stop s) (serve_ctx s) (conn_cancel s) (cause_write s)
          (exit_cancel s) (rd s) (wk s) p (hs s) (crashed s) (log s).
Definition set_hs (s : state) (l : list hnd) : state :=
  mkState (inbox s) (inbox_failed s) (wfail s) (wblock s) (srv_stop s) (serve_ctx s) (conn_cancel s) (cause_write s)
          (exit_cancel s) (rd s) (wk s) (wr s) l (crashed s) (log s).
Definition set_h (s : state) (h : nat) (k : hnd) : state := set_hs s (upd h k (hs s)).
Definition add_log (s : state) (evs : list sev) : state :=
  mkState (inbox s) (inbox_failed s) (wfail s) (wblock s) (srv_stop s) (serve_ctx s) (conn_cancel s) (cause_write s)
          (exit_cancel s) (rd s) (wk s) (wr s) (hs s) (crashed s) (log s ++ evs).
Definition set_crashed (s : state) : state :=
  mkState (inbox s) (inbox_failed s) (wfail s) (wblock s) (srv_stop s) (serve_ctx s) (conn_cancel s) (cause_write s)
          (exit_cancel s) (rd s) (wk s) (wr s) (hs s) true (log s).
(* h.cancel(err): the first cancellation decides the cause *)
Definition cancel_conn (s : state) (write_err : bool) : state :=
  mkState (inbox s) (inbox_failed s) (wfail s) (wblock s) (srv_stop s) (serve_ctx s) true
          (if hctx_done s then cause_write s else write_err)
          (exit_cancel s) (rd s) (wk s) (wr s) (hs s) (crashed s) (log s).
(* serve returns e: its deferred calls cancel unaryRpcCtx, clientCtx and h.ctx *)
Definition exit_serve (s : state) (e : serr) : state :=
  let s1 := cancel_conn s false in
  mkState (inbox s1) (inbox_failed s1) (wfail s1) (wblock s1) (srv_stop s1) (serve_ctx s1) true (cause_write s1)
          true (RdCws e) (wk s1) (wr s1) (hs s1) (crashed s1) (log s1).

Definition hset_pc (k : hnd) (p : hpc) : hnd :=
  mkHnd (h_unary k) (h_req k) p (h_cancel k) (h_reg k) (h_q k) (h_donesig k) (h_hsent k) (h_hdr k) (h_trl k).
Definition hset_cancel (k : hnd) : hnd :=
  mkHnd (h_unary k) (h_req k) (h_pc k) true (h_reg k) (h_q k) (h_donesig k) (h_hsent k) (h_hdr k) (h_trl k).
Definition hset_q (k : hnd) (q : option frame) : hnd :=
  mkHnd (h_unary k) (h_req k) (h_pc k) (h_cancel k) (h_reg k) q (h_donesig k) (h_hsent k) (h_hdr k) (h_trl k).
Definition hset_donesig (k : hnd) (b : bool) : hnd :=
  mkHnd (h_unary k) (h_req k) (h_pc k) (h_cancel k) (h_reg k) (h_q k) b (h_hsent k) (h_hdr k) (h_trl k).
Definition hset_md (k : hnd) (sent : bool) (hd tr : Z) : hnd :=
  mkHnd (h_unary k) (h_req k) (h_pc k) (h_cancel k) (h_reg k) (h_q k) (h_donesig k) sent hd tr.
(* unregisterStream's effect on the entry it finds: cancel, signal done, delete *)
Definition hunregister (k : hnd) : hnd :=
  mkHnd (h_unary k) (h_req k) (h_pc k) true false (h_q k) true (h_hsent k) (h_hdr k) (h_trl k).

Definition new_stream (f : frame) : hnd := mkHnd false f HGate false true None false false 0 0.
Definition new_unary (f : frame) : hnd := mkHnd true f HGate false false None false false 0 0.

Fixpoint find_reg (id : Z) (l : list hnd) (n : nat) : option nat :=
  match l with
  | [] => None
  | k :: t => if h_reg k && (fid (h_req k) =? id) then Some n else find_reg id t (S n)
  end.

Fixpoint find_idle (l : list wkpc) (n : nat) : option nat :=
  match l with
  | [] => None
  | WkIdle :: _ => Some n
  | _ :: t => find_idle t (S n)
  end.

Definition any_reg (l : list hnd) : bool := existsb h_reg l.

(* envelopes a stream handler emits *)
Definition hdr_frame (k : hnd) (md : Z) : frame :=
  resp (h_req k) (mkEnv (fid (h_req k)) (Some (MdOk md)) None None None false).
Definition msg_frame (k : hnd) (b : Z) : frame :=
  resp (h_req k) (mkEnv (fid (h_req k)) (Some (MdOk (if h_hsent k then 0 else h_hdr k))) None (Some b) None false).
Definition trl_frame (k : hnd) (e : herr) : frame :=
  resp (h_req k) (mkEnv (fid (h_req k)) (Some (MdOk (if h_hsent k then 0 else h_hdr k))) (Some (sstatus e)) None
                        (Some (MdOk (h_trl k))) false).
(* the unary response *)
Definition unary_reply (k : hnd) (rep : option Z) (e : herr) : frame :=
  resp (h_req k) (mkEnv (fid (h_req k)) (Some (MdOk (h_hdr k))) (ustatus e) rep (Some (MdOk (h_trl k))) false).

(* ---------- internal rules ---------- *)
Definition rule := state -> option state.

(* what the read loop does with a stream-method envelope (under mu) *)
Definition stream_dispatch (s : state) (f : frame) : state :=
  match find_reg (fid f) (hs s) 0 with
  | Some h =>
      if is_rst f
      then match nth_error (hs s) h with
           | Some k => set_h s h (hset_cancel k)
           | None => s
           end
      else set_rd s (RdFwd h f)
  | None =>
      if is_rst f then s
      else if has_body f then set_rd s (RdRst f)
      else if has_trl f then s
      else if md_bad f then set_rd s (RdRst f)
      else add_log (set_hs s (hs s ++ [new_stream f]))
                   [SvInvoke (length (hs s)) false (fid f) (f_mth f) 0 (md_tok f)]
  end.

(* rw.Read, the filters, and the dispatch decision *)
Definition r_rd_read (s : state) : option state :=
  match rd s with
  | RdRead =>
      match inbox s with
      | f :: rest =>
          let s1 := add_log (set_inbox s rest) [SvRead f] in
          match dispatch f with
          | DSkip => Some s1
          | DUnary => Some (set_rd s1 (RdOffer f))
          | DStream => Some (stream_dispatch s1 f)
          end
      | [] =>
          if inbox_failed s then Some (exit_serve s SRead)
          else if hctx_done s then Some (exit_serve s SReadCtx)
          else None
      end
  | _ => None
  end.

(* processUnaryRpc up to the handler call *)
Definition start_unary (s : state) (w : nat) (f : frame) : state :=
  if negb (has_hdr f) then set_crashed s           (* nil header dereferenced *)
  else if md_bad f then set_wk s w (WkHand (badmd_reply f))
  else if body_tok f <? 0 then set_wk s w (WkHand (undec_reply f))
  else add_log (set_wk (set_hs s (hs s ++ [new_unary f])) w (WkRun (length (hs s))))
               [SvInvoke (length (hs s)) true (fid f) (f_mth f) (body_tok f) (md_tok f)].

(* unary hand-off to an idle worker *)
Definition r_rd_offer (s : state) : option state :=
  match rd s with
  | RdOffer f =>
      match find_idle (wk s) 0 with
      | Some w => Some (start_unary (add_log (set_rd s RdRead) [SvJob w f]) w f)
      | None => None
      end
  | _ => None
  end.

Definition r_rd_offer_ctx (s : state) : option state :=
  match rd s with
  | RdOffer f => if hctx_done s then Some (add_log (exit_serve s SCtx) [SvAbandon f]) else None
  | _ => None
  end.

(* forwarding into a stream's queue: the four cases of the select *)
Definition r_rd_fwd_enq (s : state) : option state :=
  match rd s with
  | RdFwd h f =>
      match nth_error (hs s) h with
      | Some k => match h_q k with
                  | None => Some (add_log (set_h (set_rd s RdRead) h (hset_q k (Some f))) [SvFwd h f])
                  | Some _ => None
                  end
      | None => None
      end
  | _ => None
  end.

Definition r_rd_fwd_gone (s : state) : option state :=
  match rd s with
  | RdFwd h f =>
      match nth_error (hs s) h with
      | Some k => if hdone s k then Some (add_log (set_rd s RdRead) [SvDrop h f]) else None
      | None => None
      end
  | _ => None
  end.

Definition r_rd_fwd_cctx (s : state) : option state :=
  match rd s with
  | RdFwd _ f => if cctx_done s then Some (add_log (exit_serve s SCtx) [SvAbandon f]) else None
  | _ => None
  end.

Definition r_rd_fwd_hctx (s : state) : option state :=
  match rd s with
  | RdFwd _ f => if hctx_done s then Some (add_log (exit_serve s (if cause_write s then SWrite else SCtx)) [SvAbandon f])
                 else None
  | _ => None
  end.

(* resetStream: hand the reset to the writer *)
Definition r_rd_rst (s : state) : option state :=
  match rd s, wr s with
  | RdRst f, WrSel =>
      if has_hdr f then Some (add_log (set_wr (set_rd s RdRead) (WrWrite (rst_reply f))) [SvTaken (rst_reply f)])
      else Some (set_crashed s)
  | _, _ => None
  end.

Definition r_rd_rst_ctx (s : state) : option state :=
  match rd s with
  | RdRst f => if hctx_done s then Some (add_log (exit_serve s (if cause_write s then SWrite else SCtx)) [SvAbandon f])
               else None
  | _ => None
  end.

(* cancelAndWaitForStreams *)
Definition r_rd_cws_pick (h : nat) (s : state) : option state :=
  match rd s with
  | RdCws e =>
      match nth_error (hs s) h with
      | Some k => if h_reg k then Some (set_h (set_rd s (RdWait h e)) h (hset_cancel k)) else None
      | None => None
      end
  | _ => None
  end.

Definition r_rd_cws_done (s : state) : option state :=
  match rd s with
  | RdCws e => if any_reg (hs s) then None else Some (add_log (set_rd s (RdDead e)) [SvServeRet e])
  | _ => None
  end.

Definition r_rd_wait (s : state) : option state :=
  match rd s with
  | RdWait h e =>
      match nth_error (hs s) h with
      | Some k => if h_donesig k then Some (set_h (set_rd s (RdCws e)) h (hset_donesig k false)) else None
      | None => None
      end
  | _ => None
  end.

(* workers *)
Definition r_wk_exit (w : nat) (s : state) : option state :=
  match nth_error (wk s) w with
  | Some WkIdle => if hctx_done s then Some (set_wk s w WkDead) else None
  | _ => None
  end.

Definition r_wk_hand (w : nat) (s : state) : option state :=
  match nth_error (wk s) w, wr s with
  | Some (WkHand f), WrSel => Some (add_log (set_wr (set_wk s w WkIdle) (WrWrite f)) [SvTaken f])
  | _, _ => None
  end.

Definition r_wk_hand_ctx (w : nat) (s : state) : option state :=
  match nth_error (wk s) w with
  | Some (WkHand f) => if hctx_done s then Some (add_log (set_wk s w WkDead) [SvLost f]) else None
  | _ => None
  end.

(* writer *)
Definition r_wr_exit (s : state) : option state :=
  match wr s with
  | WrSel => if hctx_done s then Some (set_wr s WrDead) else None
  | _ => None
  end.

Definition r_wr_write (s : state) : option state :=
  match wr s with
  | WrWrite f =>
      if wfail s then Some (add_log (set_wr (cancel_conn s true) WrSel) [SvWFail f])
      else if wblock s then
             if hctx_done s then Some (add_log (set_wr (cancel_conn s true) WrSel) [SvWFail f]) else None
      else Some (add_log (set_wr s WrSel) [SvWrite f])
  | _ => None
  end.

(* stream handlers *)
Definition r_h_recv (h : nat) (s : state) : option state :=
  match nth_error (hs s) h with
  | Some k =>
      match h_pc k, h_q k with
      | HInRecv, Some f =>
          Some (add_log (set_h s h (hset_pc (hset_q k None) HGate)) [SvTake h f; SvOp h (recv_res f)])
      | _, _ => None
      end
  | None => None
  end.

Definition r_h_recv_ctx (h : nat) (s : state) : option state :=
  match nth_error (hs s) h with
  | Some k =>
      match h_pc k with
      | HInRecv => if hdone s k then Some (add_log (set_h s h (hset_pc k HGate)) [SvOp h OCtx]) else None
      | _ => None
      end
  | None => None
  end.

(* the writer takes the handler's envelope *)
Definition r_h_send (h : nat) (s : state) : option state :=
  match nth_error (hs s) h, wr s with
  | Some k, WrSel =>
      match h_pc k with
      | HInSend f KMsg => Some (add_log (set_wr (set_h s h (hset_pc k HGate)) (WrWrite f)) [SvTaken f; SvOp h OOk])
      | HInSend f KHdr =>
          Some (add_log (set_wr (set_h s h (hset_pc (hset_md k true (h_hdr k) (h_trl k)) HGate)) (WrWrite f))
                        [SvTaken f; SvOp h OOk])
      | HInSend f KTrl => Some (add_log (set_wr (set_h s h (hset_pc (hset_cancel k) HUnreg)) (WrWrite f)) [SvTaken f])
      | _ => None
      end
  | _, _ => None
  end.

Definition r_h_send_ctx (h : nat) (s : state) : option state :=
  match nth_error (hs s) h with
  | Some k =>
      match h_pc k with
      | HInSend f KTrl => if hdone s k then Some (add_log (set_h s h (hset_pc (hset_cancel k) HUnreg)) [SvLost f]) else None
      | HInSend f _ => if hdone s k then Some (add_log (set_h s h (hset_pc k HGate)) [SvOp h OCtx]) else None
      | _ => None
      end
  | None => None
  end.

Definition r_h_await (h : nat) (s : state) : option state :=
  match nth_error (hs s) h with
  | Some k =>
      match h_pc k with
      | HInAwait => if hdone s k then Some (add_log (set_h s h (hset_pc k HGate)) [SvOp h OAwaited]) else None
      | _ => None
      end
  | None => None
  end.

(* unregisterStream: under mu, by id *)
Definition r_h_unreg (h : nat) (s : state) : option state :=
  match nth_error (hs s) h with
  | Some k =>
      match h_pc k with
      | HUnreg =>
          if mu_free s then
            let s1 := set_h s h (hset_pc k HDead) in
            match find_reg (fid (h_req k)) (hs s1) 0 with
            | Some g => match nth_error (hs s1) g with
                        | Some kg => Some (add_log (set_h s1 g (hunregister kg)) [SvUnreg g])
                        | None => Some s1
                        end
            | None => Some s1
            end
          else None
      | _ => None
      end
  | None => None
  end.

Definition per_wk_rules : list (nat -> rule) := [r_wk_hand; r_wk_hand_ctx; r_wk_exit].
Definition per_h_rules : list (nat -> rule) :=
  [r_h_recv; r_h_recv_ctx; r_h_send; r_h_send_ctx; r_h_await; r_h_unreg; r_rd_cws_pick].

Definition rules (s : state) : list rule :=
  [r_wr_write; r_rd_read; r_rd_offer; r_rd_offer_ctx; r_rd_fwd_enq; r_rd_fwd_gone; r_rd_fwd_cctx; r_rd_fwd_hctx;
   r_rd_rst; r_rd_rst_ctx; r_rd_cws_done; r_rd_wait; r_wr_exit]
  ++ flat_map (fun w => map (fun r => r w) per_wk_rules) (seq 0 (length (wk s)))
  ++ flat_map (fun h => map (fun r => r h) per_h_rules) (seq 0 (length (hs s))).

Fixpoint first_enabled (rs : list rule) (s : state) : option state :=
  match rs with
  | [] => None
  | r :: rest => match r s with Some s' => Some s' | None => first_enabled rest s end
  end.

Fixpoint settle (fuel : nat) (s : state) : state :=
  match fuel with
  | O => s
  | S f => match first_enabled (rules s) s with
           | Some s' => settle f s'
           | None => s
           end
  end.

Definition quiescent (s : state) : bool :=
  match first_enabled (rules s) s with None => true | Some _ => false end.

(* ---------- environment actions ---------- *)
Inductive act :=
| ADeliver (f : frame)
| AFailRead
| ASetWriteFail (b : bool)
| ABlockWrites (b : bool)
| AStop
| ACancelServeCtx
| AHandlerStep (h : nat) (o : hop).

Definition set_env (s : state) (failed wf wb stop sctx : bool) : state :=
  mkState (inbox s) failed wf wb stop sctx (conn_cancel s) (cause_write s)
          (exit_cancel s) (rd s) (wk s) (wr s) (hs s) (crashed s) (log s).

(* the worker that runs unary handler h gets the reply *)
Definition finish_unary (l : list wkpc) (h : nat) (f : frame) : list wkpc :=
  map (fun p => match p with WkRun g => if Nat.eqb g h then WkHand f else p | _ => p end) l.

(* handler h, at its gate, performs operation o *)
Definition hstep (s : state) (h : nat) (k : hnd) (o : hop) : state :=
  if h_unary k then
    match o with
    | HSetHeader t =>
        if h_hsent k then add_log s [SvOp h OHdrSent]
        else add_log (set_h s h (hset_md k false (h_hdr k + t) (h_trl k))) [SvOp h OOk]
    | HSendHeader t =>
        if h_hsent k then add_log s [SvOp h OHdrSent]
        else add_log (set_h s h (hset_md k true (h_hdr k + t) (h_trl k))) [SvOp h OOk]
    | HSetTrailer t => add_log (set_h s h (hset_md k (h_hsent k) (h_hdr k) (h_trl k + t))) [SvOp h OOk]
    | HAwaitCtx => set_h s h (hset_pc k HInAwait)
    | HReturn rep e =>
        add_log (set_wks (set_h s h (hset_pc k HDead)) (finish_unary (wk s) h (unary_reply k rep e)))
                [SvRet h; SvReply h (unary_reply k rep e)]
    | HRecv | HSend _ => s
    end
  else
    match o with
    | HRecv => set_h s h (hset_pc k HInRecv)
    | HSend b => set_h s h (hset_pc (hset_md k true (h_hdr k) (h_trl k)) (HInSend (msg_frame k b) KMsg))
    | HSetHeader t =>
        if h_hsent k then add_log s [SvOp h OHdrSent]
        else add_log (set_h s h (hset_md k false (h_hdr k + t) (h_trl k))) [SvOp h OOk]
    | HSendHeader t =>
        if h_hsent k then add_log s [SvOp h OHdrSent]
        else let k1 := hset_md k false (h_hdr k + t) (h_trl k) in
             set_h s h (hset_pc k1 (HInSend (hdr_frame k1 (h_hdr k1)) KHdr))
    | HSetTrailer t => add_log (set_h s h (hset_md k (h_hsent k) (h_hdr k) (h_trl k + t))) [SvOp h OOk]
    | HAwaitCtx => set_h s h (hset_pc k HInAwait)
    | HReturn _ e =>
        add_log (set_h s h (hset_pc (hset_md k true (h_hdr k) (h_trl k)) (HInSend (trl_frame k e) KTrl)))
                [SvRet h; SvTrailer h (trl_frame k e)]
    end.

Definition ext (s : state) (a : act) : state :=
  match a with
  | ADeliver f => set_inbox s (inbox s ++ [f])
  | AFailRead => set_env s true (wfail s) (wblock s) (srv_stop s) (serve_ctx s)
  | ASetWriteFail b => set_env s (inbox_failed s) b (wblock s) (srv_stop s) (serve_ctx s)
  | ABlockWrites b => set_env s (inbox_failed s) (wfail s) b (srv_stop s) (serve_ctx s)
  | AStop => set_env s (inbox_failed s) (wfail s) (wblock s) true (serve_ctx s)
  | ACancelServeCtx => set_env s (inbox_failed s) (wfail s) (wblock s) (srv_stop s) true
  | AHandlerStep h o =>
      match nth_error (hs s) h with
      | Some k => match h_pc k with HGate => hstep s h k o | _ => s end
      | None => s
      end
  end.

Definition fuel_of (s : state) : nat := 64 + 16 * (length (hs s) + length (inbox s) + length (wk s)).

Definition react (s : state) (a : act) : state :=
  let s1 := ext s a in settle (fuel_of s1) s1.

Definition run (acts : list act) : state := fold_left react acts init.

(* ---------- the LTS of the theorems: any order ---------- *)
Inductive label := LExt (a : act) | LInt (n : nat).    (* n-th entry of [rules s] *)

Definition lstep (s : state) (l : label) : option state :=
  match l with
  | LExt a => Some (ext s a)
  | LInt n => match nth_error (rules s) n with Some r => r s | None => None end
  end.

Fixpoint lrun (s : state) (ls : list label) : option state :=
  match ls with
  | [] => Some s
  | l :: rest => match lstep s l with Some s' => lrun s' rest | None => None end
  end.

Definition reachable (s : state) : Prop := exists ls, lrun init ls = Some s.

(* ---------- observations ---------- *)
Definition registry_size (s : state) : nat := length (filter h_reg (hs s)).
Definition h_alive (k : hnd) : bool := match h_pc k with HDead => false | _ => true end.
Definition hs_alive (k : hnd) : bool := negb (h_unary k) && h_alive k.           (* a runStream goroutine *)
Definition h_returned (k : hnd) : bool := match h_pc k with HUnreg | HDead | HInSend _ KTrl => true | _ => false end.
Definition h_blocked (k : hnd) : bool := match h_pc k with HInRecv | HInSend _ _ | HInAwait => true | _ => false end.
Definition wk_alive (p : wkpc) : bool := match p with WkDead => false | _ => true end.
Definition wr_alive (s : state) : bool := match wr s with WrDead => false | _ => true end.
Definition serve_returned (s : state) : bool := match rd s with RdDead _ => true | _ => false end.
Definition wr_blocked (s : state) : bool := match wr s with WrWrite _ => true | _ => false end.

(* Byte-level model of the protobuf wire encoding of the GOAT envelope
   (gen/goatorepo/rpc.pb.go: Rpc, RequestHeader, KeyValue, ResponseStatus with
   google.protobuf.Any details, Body, Trailer, Reset), as produced by
   proto.Marshal and accepted by proto.Unmarshal of google.golang.org/protobuf
   (internal/impl/decode.go, encoding/protowire/wire.go):

   - varints (at most 10 bytes; the 10th byte must be 0 or 1; non-minimal
     encodings are accepted), tags = field number * 8 + wire type, field numbers
     1 .. 2^29-1 at message level (1 .. 2^31-1 inside a skipped group);
   - proto3: scalar fields are omitted when zero / empty, message fields when
     absent (a present empty message is encoded), repeated fields element by
     element; fields are emitted in field-number order;
   - string fields must be valid UTF-8 (Go's utf8.Valid) in both directions;
   - decoding: fields in any order, the last value of a scalar wins, repeated
     fields accumulate, a message field occurring twice is merged, a known field
     number with another wire type and every unknown field number is skipped
     (fixed32/fixed64/varint/bytes/groups, groups nested at most 10001 deep as in
     protowire.ConsumeFieldValue), a stray end-group, wire types 6 and 7,
     truncation and varint overflow are errors;
   - int32 [code] is sign-extended to 64 bits on the wire and truncated to 32
     bits when read.

   Not modelled: the unknown fields that Go keeps in the decoded message (the
   model drops them; the correspondence check compares the known fields), the
   2 GiB size limit of proto.Marshal, the recursion limit of message nesting
   (the schema nests 3 deep).

   The decoder works in two phases: [fields] splits a byte string into raw
   fields (number, wire value), [fold_*] interprets them. The encoder produces
   raw fields ([toks_*]) and renders them. *)
From Goat Require Import Base.Bytes.
Open Scope N_scope.

(* ---------- the envelope ---------- *)
Record kv := mkKV { kv_key : bytes; kv_val : bytes }.
Record any := mkAny { any_url : bytes; any_val : bytes }.
Record header := mkHeader {
  h_method : bytes; h_headers : list kv; h_source : bytes; h_dest : bytes;
  h_record : list bytes; h_next : list bytes }.
Record rstatus := mkStatus { s_code : Z; s_msg : bytes; s_details : list any }.
Record rpc := mkRpc {
  r_id : N;
  r_header : option header;
  r_status : option rstatus;
  r_body : option bytes;            (* Body{data} *)
  r_trailer : option (list kv);     (* Trailer{metadata} *)
  r_reset : option bytes }.         (* Reset{type} *)

Definition kv0 := mkKV [] [].
Definition any0 := mkAny [] [].
Definition header0 := mkHeader [] [] [] [] [] [].
Definition status0 := mkStatus 0%Z [] [].
Definition rpc0 := mkRpc 0 None None None None None.

(* ---------- UTF-8 (Go's unicode/utf8.Valid) ---------- *)
Definition cont (c : N) : bool := (128 <=? c) && (c <=? 191).

Fixpoint utf8_valid (s : bytes) : bool :=
  match s with
  | [] => true
  | c0 :: r0 =>
      if c0 <? 128 then utf8_valid r0
      else if (194 <=? c0) && (c0 <=? 223) then
        match r0 with c1 :: r1 => cont c1 && utf8_valid r1 | _ => false end
      else if (224 <=? c0) && (c0 <=? 239) then
        match r0 with
        | c1 :: c2 :: r2 =>
            (if c0 =? 224 then (160 <=? c1) && (c1 <=? 191)
             else if c0 =? 237 then (128 <=? c1) && (c1 <=? 159)
             else cont c1) && cont c2 && utf8_valid r2
        | _ => false
        end
      else if (240 <=? c0) && (c0 <=? 244) then
        match r0 with
        | c1 :: c2 :: c3 :: r3 =>
            (if c0 =? 240 then (144 <=? c1) && (c1 <=? 191)
             else if c0 =? 244 then (128 <=? c1) && (c1 <=? 143)
             else cont c1) && cont c2 && cont c3 && utf8_valid r3
        | _ => false
        end
      else false
  end.

(* ---------- varints ---------- *)
Fixpoint varint_enc (fuel : nat) (v : N) : bytes :=
  match fuel with
  | O => [v]
  | S f => if v <? 128 then [v] else (128 + v mod 128) :: varint_enc f (v / 128)
  end.
(* at most 10 bytes: enough for every v < 2^64 *)
Definition enc_varint (v : N) : bytes := varint_enc 9 v.

(* protowire.ConsumeVarint: [n] = bytes still allowed, [sh] = weight of the next byte *)
Fixpoint varint_dec (n : nat) (sh : N) (b : bytes) : option (N * bytes) :=
  match n, b with
  | O, _ => None
  | _, [] => None                                  (* truncated *)
  | S O, y :: rest => if y <? 2 then Some (y * sh, rest) else None   (* 10th byte: overflow *)
  | S n', y :: rest =>
      if y <? 128 then Some (y * sh, rest)
      else match varint_dec n' (sh * 128) rest with
           | Some (v, r) => Some ((y - 128) * sh + v, r)
           | None => None
           end
  end.
Definition dec_varint (b : bytes) : option (N * bytes) := varint_dec 10 1 b.

(* ---------- raw fields ---------- *)
Inductive wval :=
| WVarint (v : N)
| WFixed64
| WFixed32
| WBytes (bs : bytes)
| WGroup.
Definition tok := (N * wval)%type.

Definition max_num : N := 536870911.        (* 2^29 - 1 *)
Definition max_group_num : N := 2147483647. (* protowire.DecodeTag: MaxInt32 *)
Definition max_group_depth : nat := 10001.

(* protowire.consumeFieldValueD for a start-group: [stack] = numbers of the open
   groups, innermost first; returns what follows the end of the outermost *)
Fixpoint skip_groups (fuel : nat) (stack : list N) (b : bytes) : option bytes :=
  match stack with
  | [] => Some b
  | top :: below =>
      match fuel with
      | O => None
      | S f =>
          match dec_varint b with
          | None => None
          | Some (tag, b1) =>
              let num := tag / 8 in
              if (num <? 1) || (max_group_num <? num) then None else
              match tag mod 8 with
              | 0 => match dec_varint b1 with Some (_, r) => skip_groups f stack r | None => None end
              | 1 => if Nat.ltb (length b1) 8 then None else skip_groups f stack (skipn 8 b1)
              | 2 => match dec_varint b1 with
                     | Some (m, r) => if N.of_nat (length r) <? m then None
                                      else skip_groups f stack (skipn (N.to_nat m) r)
                     | None => None
                     end
              | 3 => if Nat.ltb max_group_depth (S (length stack)) then None
                     else skip_groups f (num :: stack) b1
              | 4 => if num =? top then skip_groups f below b1 else None
              | 5 => if Nat.ltb (length b1) 4 then None else skip_groups f stack (skipn 4 b1)
              | _ => None
              end
          end
      end
  end.

(* one field at message level: tag, then protowire.ConsumeFieldValue *)
Definition dec_field (b : bytes) : option (N * wval * bytes) :=
  match dec_varint b with
  | None => None
  | Some (tag, b1) =>
      let num := tag / 8 in
      if (num <? 1) || (max_num <? num) then None else
      match tag mod 8 with
      | 0 => match dec_varint b1 with Some (v, r) => Some (num, WVarint v, r) | None => None end
      | 1 => if Nat.ltb (length b1) 8 then None else Some (num, WFixed64, skipn 8 b1)
      | 2 => match dec_varint b1 with
             | Some (m, r) => if N.of_nat (length r) <? m then None
                              else Some (num, WBytes (firstn (N.to_nat m) r), skipn (N.to_nat m) r)
             | None => None
             end
      | 3 => match skip_groups (S (length b1)) [num] b1 with
             | Some r => Some (num, WGroup, r)
             | None => None
             end
      | 5 => if Nat.ltb (length b1) 4 then None else Some (num, WFixed32, skipn 4 b1)
      | _ => None          (* stray end-group; reserved wire types 6, 7 *)
      end
  end.

Fixpoint fields_fuel (fuel : nat) (b : bytes) : option (list tok) :=
  match b with
  | [] => Some []
  | _ :: _ =>
      match fuel with
      | O => None
      | S f =>
          match dec_field b with
          | None => None
          | Some (num, w, rest) =>
              match fields_fuel f rest with
              | Some l => Some ((num, w) :: l)
              | None => None
              end
          end
      end
  end.
(* every field consumes at least one byte, so [length b] steps suffice *)
Definition fields (b : bytes) : option (list tok) := fields_fuel (length b) b.

(* ---------- interpretation of the raw fields ---------- *)
Fixpoint fold_toks {A} (upd : N -> wval -> A -> option A) (l : list tok) (acc : A) : option A :=
  match l with
  | [] => Some acc
  | (num, w) :: rest =>
      match upd num w acc with
      | Some acc' => fold_toks upd rest acc'
      | None => None
      end
  end.

Definition dec_msg {A} (upd : N -> wval -> A -> option A) (b : bytes) (acc : A) : option A :=
  match fields b with
  | Some l => fold_toks upd l acc
  | None => None
  end.

Definition str (bs : bytes) : option bytes := if utf8_valid bs then Some bs else None.

Definition upd_kv (num : N) (w : wval) (k : kv) : option kv :=
  match num, w with
  | 1, WBytes bs => match str bs with Some s => Some (mkKV s (kv_val k)) | None => None end
  | 2, WBytes bs => match str bs with Some s => Some (mkKV (kv_key k) s) | None => None end
  | _, _ => Some k
  end.

Definition upd_any (num : N) (w : wval) (a : any) : option any :=
  match num, w with
  | 1, WBytes bs => match str bs with Some s => Some (mkAny s (any_val a)) | None => None end
  | 2, WBytes bs => Some (mkAny (any_url a) bs)
  | _, _ => Some a
  end.

Definition upd_header (num : N) (w : wval) (h : header) : option header :=
  match num, w with
  | 1, WBytes bs => match str bs with
                    | Some s => Some (mkHeader s (h_headers h) (h_source h) (h_dest h) (h_record h) (h_next h))
                    | None => None end
  | 2, WBytes bs => match dec_msg upd_kv bs kv0 with
                    | Some k => Some (mkHeader (h_method h) (h_headers h ++ [k]) (h_source h) (h_dest h) (h_record h) (h_next h))
                    | None => None end
  | 3, WBytes bs => match str bs with
                    | Some s => Some (mkHeader (h_method h) (h_headers h) s (h_dest h) (h_record h) (h_next h))
                    | None => None end
  | 4, WBytes bs => match str bs with
                    | Some s => Some (mkHeader (h_method h) (h_headers h) (h_source h) s (h_record h) (h_next h))
                    | None => None end
  | 5, WBytes bs => match str bs with
                    | Some s => Some (mkHeader (h_method h) (h_headers h) (h_source h) (h_dest h) (h_record h ++ [s]) (h_next h))
                    | None => None end
  | 6, WBytes bs => match str bs with
                    | Some s => Some (mkHeader (h_method h) (h_headers h) (h_source h) (h_dest h) (h_record h) (h_next h ++ [s]))
                    | None => None end
  | _, _ => Some h
  end.

(* int32(v): the low 32 bits, two's complement *)
Definition int32_of (v : N) : Z :=
  let x := Z.of_N (v mod 4294967296) in
  if (x <? 2147483648)%Z then x else (x - 4294967296)%Z.
(* uint64(int32 c): sign extension *)
Definition of_int32 (c : Z) : N := Z.to_N (c mod 18446744073709551616)%Z.

Definition upd_status (num : N) (w : wval) (s : rstatus) : option rstatus :=
  match num, w with
  | 1, WVarint v => Some (mkStatus (int32_of v) (s_msg s) (s_details s))
  | 2, WBytes bs => match str bs with Some m => Some (mkStatus (s_code s) m (s_details s)) | None => None end
  | 3, WBytes bs => match dec_msg upd_any bs any0 with
                    | Some a => Some (mkStatus (s_code s) (s_msg s) (s_details s ++ [a]))
                    | None => None end
  | _, _ => Some s
  end.

Definition upd_body (num : N) (w : wval) (d : bytes) : option bytes :=
  match num, w with
  | 1, WBytes bs => Some bs
  | _, _ => Some d
  end.

Definition upd_trailer (num : N) (w : wval) (t : list kv) : option (list kv) :=
  match num, w with
  | 1, WBytes bs => match dec_msg upd_kv bs kv0 with Some k => Some (t ++ [k]) | None => None end
  | _, _ => Some t
  end.

Definition upd_reset (num : N) (w : wval) (t : bytes) : option bytes :=
  match num, w with
  | 1, WBytes bs => str bs
  | _, _ => Some t
  end.

Definition dflt {A} (o : option A) (d : A) : A := match o with Some x => x | None => d end.

(* a message field that occurs again is merged into the value already there *)
Definition upd_rpc (num : N) (w : wval) (e : rpc) : option rpc :=
  match num, w with
  | 1, WVarint v => Some (mkRpc v (r_header e) (r_status e) (r_body e) (r_trailer e) (r_reset e))
  | 2, WBytes bs => match dec_msg upd_header bs (dflt (r_header e) header0) with
                    | Some h => Some (mkRpc (r_id e) (Some h) (r_status e) (r_body e) (r_trailer e) (r_reset e))
                    | None => None end
  | 3, WBytes bs => match dec_msg upd_status bs (dflt (r_status e) status0) with
                    | Some s => Some (mkRpc (r_id e) (r_header e) (Some s) (r_body e) (r_trailer e) (r_reset e))
                    | None => None end
  | 4, WBytes bs => match dec_msg upd_body bs (dflt (r_body e) []) with
                    | Some d => Some (mkRpc (r_id e) (r_header e) (r_status e) (Some d) (r_trailer e) (r_reset e))
                    | None => None end
  | 5, WBytes bs => match dec_msg upd_trailer bs (dflt (r_trailer e) []) with
                    | Some t => Some (mkRpc (r_id e) (r_header e) (r_status e) (r_body e) (Some t) (r_reset e))
                    | None => None end
  | 6, WBytes bs => match dec_msg upd_reset bs (dflt (r_reset e) []) with
                    | Some t => Some (mkRpc (r_id e) (r_header e) (r_status e) (r_body e) (r_trailer e) (Some t))
                    | None => None end
  | _, _ => Some e
  end.

Definition decode (b : bytes) : option rpc := dec_msg upd_rpc b rpc0.

(* ---------- encoding ---------- *)
Definition enc_tok (t : tok) : bytes :=
  match t with
  | (num, WVarint v) => enc_varint (num * 8) ++ enc_varint v
  | (num, WBytes bs) => enc_varint (num * 8 + 2) ++ enc_varint (N.of_nat (length bs)) ++ bs
  | (num, _) => []        (* never produced by the encoder *)
  end.
Definition render (l : list tok) : bytes := flat_map enc_tok l.

(* proto3 scalars: omitted when empty / zero *)
Definition t_str (num : N) (s : bytes) : list tok := match s with [] => [] | _ => [(num, WBytes s)] end.
Definition t_opt {A} (num : N) (f : A -> list tok) (o : option A) : list tok :=
  match o with Some x => [(num, WBytes (render (f x)))] | None => [] end.

Definition toks_kv (k : kv) : list tok := t_str 1 (kv_key k) ++ t_str 2 (kv_val k).
Definition toks_any (a : any) : list tok := t_str 1 (any_url a) ++ t_str 2 (any_val a).
Definition toks_header (h : header) : list tok :=
  t_str 1 (h_method h) ++ map (fun k => (2, WBytes (render (toks_kv k)))) (h_headers h)
  ++ t_str 3 (h_source h) ++ t_str 4 (h_dest h)
  ++ map (fun s => (5, WBytes s)) (h_record h) ++ map (fun s => (6, WBytes s)) (h_next h).
Definition toks_status (s : rstatus) : list tok :=
  (if (s_code s =? 0)%Z then [] else [(1, WVarint (of_int32 (s_code s)))])
  ++ t_str 2 (s_msg s) ++ map (fun a => (3, WBytes (render (toks_any a)))) (s_details s).
Definition toks_body (d : bytes) : list tok := t_str 1 d.
Definition toks_trailer (t : list kv) : list tok := map (fun k => (1, WBytes (render (toks_kv k)))) t.
Definition toks_reset (t : bytes) : list tok := t_str 1 t.
Definition toks_rpc (e : rpc) : list tok :=
  (if r_id e =? 0 then [] else [(1, WVarint (r_id e))])
  ++ t_opt 2 toks_header (r_header e) ++ t_opt 3 toks_status (r_status e)
  ++ t_opt 4 toks_body (r_body e) ++ t_opt 5 toks_trailer (r_trailer e)
  ++ t_opt 6 toks_reset (r_reset e).

Definition encode (e : rpc) : bytes := render (toks_rpc e).

(* ---------- canonical form: what proto.Marshal accepts and the wire can carry ---------- *)
Definition two64 : N := 18446744073709551616.
Definition is_bytes (s : bytes) : bool := forallb (fun c => c <? 256) s.
Definition len_ok (s : bytes) : bool := N.of_nat (length s) <? two64.
Definition wf_bin (s : bytes) : bool := is_bytes s && len_ok s.
Definition wf_str (s : bytes) : bool := is_bytes s && utf8_valid s && len_ok s.

Definition wf_kv (k : kv) : bool :=
  wf_str (kv_key k) && wf_str (kv_val k) && len_ok (render (toks_kv k)).
Definition wf_any (a : any) : bool :=
  wf_str (any_url a) && wf_bin (any_val a) && len_ok (render (toks_any a)).
Definition wf_header (h : header) : bool :=
  wf_str (h_method h) && forallb wf_kv (h_headers h) && wf_str (h_source h) && wf_str (h_dest h)
  && forallb wf_str (h_record h) && forallb wf_str (h_next h) && len_ok (render (toks_header h)).
Definition wf_status (s : rstatus) : bool :=
  (-2147483648 <=? s_code s)%Z && (s_code s <? 2147483648)%Z && wf_str (s_msg s)
  && forallb wf_any (s_details s) && len_ok (render (toks_status s)).
Definition wf_body (d : bytes) : bool := wf_bin d && len_ok (render (toks_body d)).
Definition wf_trailer (t : list kv) : bool := forallb wf_kv t && len_ok (render (toks_trailer t)).
Definition wf_reset (t : bytes) : bool := wf_str t && len_ok (render (toks_reset t)).
Definition wf_opt {A} (f : A -> bool) (o : option A) : bool := match o with Some x => f x | None => true end.

Definition wf (e : rpc) : bool :=
  (r_id e <? two64) && wf_opt wf_header (r_header e) && wf_opt wf_status (r_status e)
  && wf_opt wf_body (r_body e) && wf_opt wf_trailer (r_trailer e) && wf_opt wf_reset (r_reset e).

(* ---------- helper of the correspondence check ---------- *)
(* deterministic filler for large bodies (mirrored by the Go rig): the ZX81
   generator x' = 75 x + 74 mod 65537, one byte per step *)
Fixpoint lcg_bytes (n : nat) (x : N) : bytes :=
  match n with
  | O => []
  | S m => let x' := (x * 75 + 74) mod 65537 in (x' mod 256) :: lcg_bytes m x'
  end.
Definition lcg_body (seed len : Z) : bytes := lcg_bytes (Z.to_nat len) (Z.to_N seed).

(* C01 - a unary call returns exactly the handler's reply to exactly the caller's request.

   Model: Model/Sys.v = Model/Client.v x Model/Server.v joined by two reliable FIFO wires; any number of
   calls and streams, any interleaving of user actions, internal rules of both components, handler steps and
   wire transfers; unary handlers return [f request] for an arbitrary function [f] on payload tokens
   ([pol_c01 f]).

   The pairing clause [C01_pairing] is proved at full strength by composition: the client's part (work
   package cl: a success carries the body of an envelope read with the call's id; a unary call writes only
   its own request), the wires (nothing lost, duplicated, reordered, altered, fabricated), the projections
   of system runs onto component runs, and the server's part (Proofs/SysFacts.v [srv_reply_origin]: every
   body-carrying frame the server writes is the reply of a handler started for a frame read from the
   transport with the same id). *)
From Coq Require Import List ZArith Bool.
Import ListNotations.
From Goat Require Import Model.Client Model.Server Model.Sys Proofs.SysLog Proofs.SysProofs Proofs.SysFacts Proofs.SysC01 Proofs.SysC01b Proofs.SysC01c Proofs.SysC01d Proofs.SysC01f.
Open Scope Z_scope.

(* every run of the system is a run of the client model and a run of the server model *)
Theorem C01_projection_client : forall pol ls s s',
  Sys.lrun pol s ls = Some s' -> Client.lrun (cl s) (proj_c pol s ls) = Some (cl s').
Proof. exact proj_c_run. Qed.
Print Assumptions C01_projection_client.

Theorem C01_projection_server : forall pol ls s s',
  Sys.lrun pol s ls = Some s' -> Server.lrun (sv s) (proj_s pol s ls) = Some (sv s').
Proof. exact proj_s_run. Qed.
Print Assumptions C01_projection_server.

(* the transport: what the server has read is a prefix of what the client wrote, and conversely: no
   envelope lost, duplicated, reordered, altered or fabricated, whatever the interleaving *)
Theorem C01_wire_c2s : forall pol ls s, Sys.lrun pol Sys.init ls = Some s ->
  is_prefix (map f_env (sreads (Server.log (sv s)))) (cwrites (Client.log (cl s))).
Proof. exact wire_c2s_prefix. Qed.
Print Assumptions C01_wire_c2s.

Theorem C01_wire_s2c : forall pol ls s, Sys.lrun pol Sys.init ls = Some s ->
  is_prefix (creads (Client.log (cl s))) (map f_env (swrites (Server.log (sv s)))).
Proof. exact wire_s2c_prefix. Qed.
Print Assumptions C01_wire_s2c.

(* a unary call only ever writes its own request envelope: id of the call, payload of the call *)
Theorem C01_request_exact : forall ls s c k e,
  Client.lrun Client.init ls = Some s -> nth_error (calls s) c = Some k -> k_unary k = true ->
  In (EvWrite e) (Client.log s) -> eid e = k_id k -> e = req_env (k_id k) (k_payload k).
Proof. exact unary_writes. Qed.
Print Assumptions C01_request_exact.

(* the server: a frame with a body that it writes is the reply of a handler started for a frame it read
   with the same id; a unary handler's reply is f of that frame's body (whatever the peer sends) *)
Theorem C01_server_reply_origin : forall f ls v fr b,
  SysFacts.srun_pol (pol_c01 f) Server.init ls = Some v ->
  In (SvWrite fr) (Server.log v) -> ebody (f_env fr) = Some b ->
  exists h k, nth_error (hs v) h = Some k /\ fid (h_req k) = fid fr /\ In (SvRead (h_req k)) (Server.log v) /\
              (if h_unary k then b = f (body_tok (h_req k)) else has_body (h_req k) = false).
Proof. exact SysFacts.srv_reply_origin. Qed.
Print Assumptions C01_server_reply_origin.

(* pairing: every successful unary call returned f (its own payload): for every f, every number of calls and
   streams, every interleaving *)
Theorem C01_pairing : forall f ls s c k b, Sys.lrun (pol_c01 f) Sys.init ls = Some s ->
    nth_error (calls (cl s)) c = Some k -> k_unary k = true ->
    In (EvUnaryRet c (UOk b)) (Client.log (cl s)) -> b = f (k_payload k).
Proof. exact SysC01.C01_pairing. Qed.
Print Assumptions C01_pairing.

(* exactly once: for a unary call that returned successfully the server's handler-invocation log has exactly
   one unary entry with the call's id *)
Theorem C01_exactly_once : forall f ls s c k b, Sys.lrun (pol_c01 f) Sys.init ls = Some s ->
  nth_error (calls (cl s)) c = Some k -> k_unary k = true ->
  In (EvUnaryRet c (UOk b)) (Client.log (cl s)) ->
  inv_count (k_id k) (Server.log (sv s)) = 1%nat.
Proof. exact SysC01b.C01_exactly_once. Qed.
Print Assumptions C01_exactly_once.

(* no fabrication: every unary handler invocation belongs to exactly one call, that call is unary, and the
   request the handler was given is that call's payload *)
Theorem C01_no_fabrication : forall f ls s h id m p md, Sys.lrun (pol_c01 f) Sys.init ls = Some s ->
  In (SvInvoke h true id m p md) (Server.log (sv s)) ->
  exists c k, nth_error (calls (cl s)) c = Some k /\ k_id k = id /\ k_unary k = true /\ p = k_payload k /\
              (forall c' k', nth_error (calls (cl s)) c' = Some k' -> k_id k' = id -> c' = c).
Proof. exact SysC01b.C01_no_fabrication. Qed.
Print Assumptions C01_no_fabrication.

(* never two: the client's log holds at most one result per call, whatever the peer and the wires do *)
Theorem C01_never_two : forall pol ls s c, Sys.lrun pol Sys.init ls = Some s ->
  (ret_count c (Client.log (cl s)) <= 1)%nat.
Proof. intros pol ls s c H. exact (ret_at_most_once _ _ c (proj_c_run _ _ _ _ H)). Qed.
Print Assumptions C01_never_two.

(* complete (Q-form): in a quiescent state of the system (both components quiescent, both wires empty, no
   handler waiting at its gate) reached without an injected fault by Invoke programs (every call unary, none
   parked at a yield point) every call has returned *)
Theorem C01_complete : forall f ls s, Sys.lrun (pol_c01 f) Sys.init ls = Some s -> fault_free ls = true ->
  Sys.quiescent s = true ->
  (forall c k, nth_error (calls (cl s)) c = Some k -> k_unary k = true /\ k_pc k <> PParked) ->
  forall c k, nth_error (calls (cl s)) c = Some k -> k_pc k = PRet.
Proof. exact SysC01d.C01_complete. Qed.
Print Assumptions C01_complete.

(* "never none", OK-form: [C01_complete] only says "returned" and [fault_free] admits cancellation, so a run in which
   every call returns an error satisfies it. With nobody cancelling (no_cancel), payloads non-negative and f preserving
   non-negativity (a negative token stands for an undecodable message), every call has returned OK with f (its own
   request): proved from the server invariant OKS (every frame on its way to the transport is an OK-shaped reply or is
   excused by a frame READ under its id that is not a well-formed unary request) and the client invariant UX (without
   fault and cancellation a unary result is the classification of an envelope the call took). *)
Theorem C01_complete_ok : forall f ls s,
  (forall x, 0 <= x -> 0 <= f x) ->
  Sys.lrun (pol_c01 f) Sys.init ls = Some s -> fault_free ls = true -> no_cancel ls = true ->
  Sys.quiescent s = true ->
  (forall c k, nth_error (calls (cl s)) c = Some k -> k_unary k = true /\ k_pc k <> PParked /\ 0 <= k_payload k) ->
  forall c k, nth_error (calls (cl s)) c = Some k -> In (EvUnaryRet c (UOk (f (k_payload k)))) (Client.log (cl s)).
Proof. exact SysC01f.C01_complete_ok. Qed.
Print Assumptions C01_complete_ok.

(* the hypotheses are met by concrete, non-trivial runs: three calls one after the other, and three calls
   in flight at once; each returns mix3 of its own payload, and the final state is quiescent *)
Example C01_demo_sequential :
  match Sys.lrun (pol_c01 mix3) Sys.init demo_c01 with
  | Some s => In (EvUnaryRet 0 (UOk (mix3 5))) (Client.log (cl s)) /\ In (EvUnaryRet 1 (UOk (mix3 7))) (Client.log (cl s))
              /\ In (EvUnaryRet 2 (UOk (mix3 0))) (Client.log (cl s)) /\ Sys.quiescent s = true
  | None => False
  end.
Proof. vm_compute. tauto. Qed.

Example C01_demo_concurrent :
  match Sys.lrun (pol_c01 mix3) Sys.init demo_c01_conc with
  | Some s => In (EvUnaryRet 0 (UOk (mix3 5))) (Client.log (cl s)) /\ In (EvUnaryRet 1 (UOk (mix3 7))) (Client.log (cl s))
              /\ In (EvUnaryRet 2 (UOk (mix3 0))) (Client.log (cl s)) /\ Sys.quiescent s = true
              /\ length (filter h_unary (hs (sv s))) = 3%nat
              /\ inv_count 1 (Server.log (sv s)) = 1%nat /\ inv_count 2 (Server.log (sv s)) = 1%nat
              /\ fault_free demo_c01_conc = true
              /\ forallb (fun k => k_unary k && match k_pc k with PRet => true | _ => false end) (calls (cl s)) = true
  | None => False
  end.
Proof. vm_compute. tauto. Qed.

(* ====================== product-level termination and the composed C01_complete (builder sv; appended, nothing above
   was touched). Proofs in the new files Proofs/SysTerm.v, Proofs/ClientWcap.v, Proofs/ServerWrites.v. ======================
   The CLOSED system of the product: internal rules of the client and of the server, the two wire transfers, and returns
   of handlers from their bodies ([sys_closed_at]; runs: [sys_crun]). No user action, no fault, no cancellation. *)
From Goat Require Proofs.ClientTerm Proofs.ServerTerm Proofs.ServerClosed Proofs.ClientWcap Proofs.ServerWrites Proofs.SysTerm.

(* (T) every closed step from a reachable state of the product strictly decreases one weighted sum:
   mu (client, C09_measure) + 201 * wcap (the envelopes the client's calls can still write) + 10 * measure (server,
   C10_measure) + 201 per envelope in flight to the server + 9 per envelope in flight to the client *)
Theorem Sys_measure : forall pol ls s l s', Sys.lrun pol Sys.init ls = Some s ->
  SysTerm.sys_closed_at s l = true -> Sys.lstep pol s l = Some s' ->
  (SysTerm.sys_measure s' < SysTerm.sys_measure s)%nat.
Proof. exact SysTerm.sys_closed_step. Qed.
Print Assumptions Sys_measure.

(* ... so every closed continuation of a reachable state is at most [sys_measure s] steps long (no live-lock between the
   components: no ping-pong over the wires goes on for ever), under ANY handler policy *)
Theorem Sys_closed_terminates : forall pol ls s, Sys.lrun pol Sys.init ls = Some s ->
  forall ls' s', SysTerm.sys_crun pol s ls' = Some s' -> (length ls' + SysTerm.sys_measure s' <= SysTerm.sys_measure s)%nat.
Proof. exact SysTerm.Sys_closed_terminates_l. Qed.
Print Assumptions Sys_closed_terminates.

(* ... and it can always be extended to a state in which NO closed step is enabled, which is exactly [Sys.quiescent]: both
   components quiescent, both wires empty, no handler left in its body - provided the policy lets a handler in its body
   return somehow ([pol_returns]: true of pol_any and of pol_c01 f) *)
Theorem Sys_closed_reaches_final : forall pol ls s, SysTerm.pol_returns pol -> Sys.lrun pol Sys.init ls = Some s ->
  exists ls' s', SysTerm.sys_crun pol s ls' = Some s' /\ Sys.quiescent s' = true.
Proof. exact SysTerm.Sys_closed_reaches_final_l. Qed.
Print Assumptions Sys_closed_reaches_final.

Theorem Sys_final_iff_quiescent : forall pol s, SysTerm.pol_returns pol ->
  (Sys.quiescent s = true <-> forall l, SysTerm.sys_closed_at s l = true -> Sys.lstep pol s l = None).
Proof. exact SysTerm.final_iff_quiescent. Qed.
Print Assumptions Sys_final_iff_quiescent.

(* C01 completeness, composed: no quiescence hypothesis left to the reader. From every state reached without faults and
   without cancellation, EVERY closed continuation that ends where no closed step is enabled (it exists and is reached
   within [sys_measure s] steps: the two theorems above) ends with every call - all unary, none held by the environment at
   its yield point, payloads non-negative - returned OK with f of its own request. *)
Theorem C01_complete_closed : forall f ls s ls' s',
  (forall x, 0 <= x -> 0 <= f x) ->
  Sys.lrun (pol_c01 f) Sys.init ls = Some s -> fault_free ls = true -> no_cancel ls = true ->
  SysTerm.sys_crun (pol_c01 f) s ls' = Some s' ->
  (forall l, SysTerm.sys_closed_at s' l = true -> Sys.lstep (pol_c01 f) s' l = None) ->
  (forall c k, nth_error (calls (cl s')) c = Some k -> k_unary k = true /\ k_pc k <> PParked /\ 0 <= k_payload k) ->
  forall c k, nth_error (calls (cl s')) c = Some k -> In (EvUnaryRet c (UOk (f (k_payload k)))) (Client.log (cl s')).
Proof.
  intros f ls s ls' s' Hf H FF NC Hr Hfin Hcalls.
  destruct (SysTerm.sys_crun_fault_free _ _ _ _ Hr) as [F2 N2].
  apply (SysC01f.C01_complete_ok f (ls ++ ls') s' Hf).
  - rewrite SysTerm.sys_lrun_app, H. now apply SysTerm.sys_crun_lrun.
  - unfold fault_free in *. now rewrite forallb_app, FF, F2.
  - unfold no_cancel in *. now rewrite forallb_app, NC, N2.
  - apply (SysTerm.final_iff_quiescent (pol_c01 f) s' (SysTerm.pol_c01_returns f)). exact Hfin.
  - exact Hcalls.
Qed.
Print Assumptions C01_complete_closed.

(* non-vacuity: three calls started at once (demo_c01_concurrent's user actions only), then the closed system alone: it
   runs to a quiescent state in which each call has returned mix3 of its own payload *)
Definition start3 : list Sys.label :=
  [LC (Client.LExt (Client.ANewUnary 5 false)); LC (Client.LExt (Client.ANewUnary 7 false)); LC (Client.LExt (Client.ANewUnary 0 false))].
Example C01_complete_closed_ex :
  match Sys.lrun (pol_c01 mix3) Sys.init start3 with
  | Some s =>
      let ls' := drive 400 (pol_c01 mix3) mix3 s in
      match SysTerm.sys_crun (pol_c01 mix3) s ls' with
      | Some s' => Sys.quiescent s = false /\ Sys.quiescent s' = true /\ fault_free start3 = true /\ no_cancel start3 = true
                   /\ Nat.leb 20 (length ls') = true /\ Nat.leb (length ls') (SysTerm.sys_measure s) = true
                   /\ In (EvUnaryRet 0 (UOk (mix3 5))) (Client.log (cl s')) /\ In (EvUnaryRet 1 (UOk (mix3 7))) (Client.log (cl s'))
                   /\ In (EvUnaryRet 2 (UOk (mix3 0))) (Client.log (cl s'))
      | None => False
      end
  | None => False
  end.
Proof. vm_compute. intuition. Qed.

(* ... and with the condition on the calls stated at the START of the closed continuation (internal rules change neither
   the kind nor the payload of a call and never park one that is not about to be parked): from every state reached
   without faults and cancellation in which every call is unary, has a non-negative payload and is neither held nor about
   to be held at its yield point ([okc]: k_pc is not PParked / PCheck true), every closed continuation ending in a
   quiescent (= final) state has every call returned OK with f of its own request *)
From Goat Require Proofs.ClientCallsOk Proofs.SysTermC01.
Theorem C01_complete_closed_from : forall f ls s ls' s',
  (forall x, 0 <= x -> 0 <= f x) ->
  Sys.lrun (pol_c01 f) Sys.init ls = Some s -> fault_free ls = true -> no_cancel ls = true ->
  forallb ClientCallsOk.okc (calls (cl s)) = true ->
  SysTerm.sys_crun (pol_c01 f) s ls' = Some s' -> Sys.quiescent s' = true ->
  forall c k, nth_error (calls (cl s')) c = Some k -> In (EvUnaryRet c (UOk (f (k_payload k)))) (Client.log (cl s')).
Proof. exact SysTermC01.C01_complete_closed_from_l. Qed.
Print Assumptions C01_complete_closed_from.

Example C01_complete_closed_from_ex :
  match Sys.lrun (pol_c01 mix3) Sys.init start3 with
  | Some s => forallb ClientCallsOk.okc (calls (cl s)) = true /\ length (calls (cl s)) = 3%nat
  | None => False
  end.
Proof. vm_compute. auto. Qed.

(* C10 - Server connections end cleanly: Serve returns, handlers cancelled, no leaks.
   Property theorems only; model: Model/Server.v (the code as it is after the D-10 fix: handler contexts
   derive from a context cancelled at serve exit, the worker hand-off selects on the connection context).
   All theorems quantify over every label sequence: any traffic, any handler behaviour, the trigger (read
   failure, write failure, Stop) at any point, any interleaving of the goroutines. *)
From Coq Require Import List ZArith Bool.
Import ListNotations.
From Goat Require Import Model.Client Model.Server Proofs.ServerProofs Proofs.ServerInv Proofs.ServerLive Proofs.ServerTrace Proofs.ServerTerm.
Open Scope Z_scope.

(* Serve returns (Q) after Stop or a failed transport write: both end the connection context. In every reachable
   quiescent state in which the connection context is done and every handler whose context is done has returned
   (the handler programs honour their context), the goroutine that called Serve has returned from it. *)
Theorem C10_returns : forall ls s, lrun init ls = Some s ->
  quiescent s = true ->
  (forall h k, nth_error (hs s) h = Some k -> hdone s k = true -> h_returned k = true) ->
  hctx_done s = true ->
  serve_returned s = true.
Proof. intros ls s H. apply (srv_serve_returns nworkers). exact (inv_reach nworkers ls s H). Qed.
Print Assumptions C10_returns.

(* a write failure does end the connection context: the writer cancels it *)
Theorem C10_write_failure_cancels : forall ls s, lrun init ls = Some s ->
  forall f, In (SvWFail f) (log s) -> hctx_done s = true.
Proof. exact (srv_wfail_cancels nworkers). Qed.
Print Assumptions C10_write_failure_cancels.

(* Serve returns (Q) after a transport read failure: the failure is seen by the next rw.Read. The read loop can
   be kept from reading only by a handler (all workers busy, or a stream handler that does not drain its queue -
   the hypothesis of C11) or by a transport that blocks writes; without those it has returned. *)
Theorem C10_returns_readfail : forall ls s, lrun init ls = Some s ->
  quiescent s = true ->
  (forall h k, nth_error (hs s) h = Some k -> h_returned k = true) ->
  wblock s = false -> inbox_failed s = true ->
  serve_returned s = true.
Proof.
  intros ls s H. apply (srv_serve_returns_readfail nworkers); [unfold nworkers; auto with arith | exact (inv_reach nworkers ls s H)].
Qed.
Print Assumptions C10_returns_readfail.

(* at (and after) the return of Serve every stream handler goroutine has finished ... *)
Theorem C10_streams_done : forall ls s, lrun init ls = Some s -> serve_returned s = true ->
  forall h k, nth_error (hs s) h = Some k -> h_unary k = false -> h_pc k = HDead.
Proof. intros ls s H. apply (srv_streams_done nworkers). exact (inv_reach nworkers ls s H). Qed.
Print Assumptions C10_streams_done.

(* ... and the context of every handler ever started on the connection, unary or streaming, is done *)
Theorem C10_ctx : forall ls s, lrun init ls = Some s -> serve_returned s = true ->
  forall h k, nth_error (hs s) h = Some k -> hdone s k = true.
Proof. intros ls s H. apply (srv_ctx_done nworkers). exact (inv_reach nworkers ls s H). Qed.
Print Assumptions C10_ctx.

(* no leak (Q): once Serve has returned and the handlers have returned, no goroutine of the connection is alive:
   the writer, every worker and every handler goroutine are dead (and nothing else was ever started) *)
Theorem C10_no_leak : forall ls s, lrun init ls = Some s ->
  quiescent s = true -> serve_returned s = true ->
  (forall h k, nth_error (hs s) h = Some k -> h_returned k = true) ->
  wr s = WrDead /\ (forall w p, nth_error (wk s) w = Some p -> p = WkDead)
  /\ (forall h k, nth_error (hs s) h = Some k -> h_pc k = HDead).
Proof. intros ls s H. apply (srv_no_leak nworkers). exact (inv_reach nworkers ls s H). Qed.
Print Assumptions C10_no_leak.

(* (T) no live-lock: [measure] (12 per unread envelope + a weight per goroutine state) strictly decreases with every
   internal step from a reachable state, so every sequence of internal steps from a reachable state is at most
   [measure s] long: once the environment (peer, handlers, faults) stops acting, the connection reaches a quiescent
   state - to which the (Q) theorems above apply *)
Theorem C10_measure : forall ls s i s', lrun init ls = Some s -> rule_of i s = Some s' ->
  (measure s' < measure s)%nat.
Proof. exact (srv_measure nworkers). Qed.
Print Assumptions C10_measure.

Theorem C10_terminates : forall ls s, lrun init ls = Some s ->
  forall ls' s', all_internal ls' = true -> lrun s ls' = Some s' -> (length ls' + measure s' <= measure s)%nat.
Proof. exact (srv_internal_runs_bounded nworkers). Qed.
Print Assumptions C10_terminates.

(* non-vacuity: two unary and two stream handlers in flight (one parked in RecvMsg, one on its context), then Stop;
   the handlers return; everything is dead *)
Definition ex_req (id : Z) (k : mkind) (b : option Z) : frame := mkFrame (mkEnv id (Some (MdOk 0)) None b None false) k 2 1.
Definition ex_acts : list act :=
  [ ADeliver (ex_req 1 (MStream 3) None); ADeliver (ex_req 2 (MStream 1) None);
    ADeliver (ex_req 3 (MUnary 1) (Some 5)); ADeliver (ex_req 4 (MUnary 2) (Some 6));
    AHandlerStep 0 HRecv; AHandlerStep 1 HAwaitCtx; AHandlerStep 2 HAwaitCtx;
    AStop ].
Definition ex_rets : list act :=
  [ AHandlerStep 0 (HReturn None HCanceled); AHandlerStep 1 (HReturn None HNil);
    AHandlerStep 2 (HReturn None HCanceled); AHandlerStep 3 (HReturn (Some 6) HNil) ].

(* the hypothesis on the handlers is needed: as long as a stream handler ignores its cancelled context Serve waits *)
Example C10_returns_needs_honour :
  exists s, lrun init (labels_of ex_acts) = Some s /\ quiescent s = true /\ hctx_done s = true
            /\ forallb (fun k => implb (hdone s k) (h_returned k)) (hs s) = false
            /\ serve_returned s = false /\ length (hs s) = 4%nat.
Proof. eexists. vm_compute. repeat split. Qed.

Example C10_ex :
  exists s, lrun init (labels_of (ex_acts ++ ex_rets)) = Some s /\ quiescent s = true /\ hctx_done s = true
            /\ serve_returned s = true
            /\ forallb h_returned (hs s) = true /\ length (hs s) = 4%nat /\ wr s = WrDead.
Proof. eexists. vm_compute. repeat split. Qed.

(* C10 - Server connections end cleanly: Serve returns, handlers cancelled, no leaks.
   Property theorems only; model: Model/Server.v (the code as it is after the D-10 fix: handler contexts
   derive from a context cancelled at serve exit, the worker hand-off selects on the connection context).
   All theorems quantify over every label sequence: any traffic, any handler behaviour, the trigger (read
   failure, write failure, Stop) at any point, any interleaving of the goroutines. *)
From Coq Require Import List ZArith Bool.
Import ListNotations.
From Goat Require Import Model.Client Model.Server Proofs.ServerProofs Proofs.ServerInv Proofs.ServerLive Proofs.ServerTrace Proofs.ServerTerm Proofs.ServerClosed.
Open Scope Z_scope.

(* Serve returns (Q) after Stop or a failed transport write: both end the connection context. In every reachable
   quiescent state in which the connection context is done and every handler whose context is done has returned
   (the handler programs honour their context), the goroutine that called Serve has returned from it. *)
Theorem C10_returns : forall ls s, lrun init ls = Some s ->
  quiescent s = true ->
  (forall h k, nth_error (hs s) h = Some k -> hdone s k = true -> h_returned k = true) ->
  hctx_done s = true ->
  serve_returned s = true.
Proof. intros ls s H. apply (srv_serve_returns nworkers). exact (inv_reach nworkers ls s H). Qed.
Print Assumptions C10_returns.

(* a write failure does end the connection context: the writer cancels it *)
Theorem C10_write_failure_cancels : forall ls s, lrun init ls = Some s ->
  forall f, In (SvWFail f) (log s) -> hctx_done s = true.
Proof. exact (srv_wfail_cancels nworkers). Qed.
Print Assumptions C10_write_failure_cancels.

(* Serve returns (Q) after a transport read failure: the failure is seen by the next rw.Read. The read loop can
   be kept from reading only by a handler (all workers busy, or a stream handler that does not drain its queue -
   the hypothesis of C11) or by a transport that blocks writes; without those it has returned. *)
Theorem C10_returns_readfail : forall ls s, lrun init ls = Some s ->
  quiescent s = true ->
  (forall h k, nth_error (hs s) h = Some k -> h_returned k = true) ->
  wblock s = false -> inbox_failed s = true ->
  serve_returned s = true.
Proof.
  intros ls s H. apply (srv_serve_returns_readfail nworkers); [unfold nworkers; auto with arith | exact (inv_reach nworkers ls s H)].
Qed.
Print Assumptions C10_returns_readfail.

(* at (and after) the return of Serve every stream handler goroutine has finished ... *)
Theorem C10_streams_done : forall ls s, lrun init ls = Some s -> serve_returned s = true ->
  forall h k, nth_error (hs s) h = Some k -> h_unary k = false -> h_pc k = HDead.
Proof. intros ls s H. apply (srv_streams_done nworkers). exact (inv_reach nworkers ls s H). Qed.
Print Assumptions C10_streams_done.

(* ... and the context of every handler ever started on the connection, unary or streaming, is done *)
Theorem C10_ctx : forall ls s, lrun init ls = Some s -> serve_returned s = true ->
  forall h k, nth_error (hs s) h = Some k -> hdone s k = true.
Proof. intros ls s H. apply (srv_ctx_done nworkers). exact (inv_reach nworkers ls s H). Qed.
Print Assumptions C10_ctx.

(* no leak (Q): once Serve has returned and the handlers have returned, no goroutine of the connection is alive:
   the writer, every worker and every handler goroutine are dead (and nothing else was ever started) *)
Theorem C10_no_leak : forall ls s, lrun init ls = Some s ->
  quiescent s = true -> serve_returned s = true ->
  (forall h k, nth_error (hs s) h = Some k -> h_returned k = true) ->
  wr s = WrDead /\ (forall w p, nth_error (wk s) w = Some p -> p = WkDead)
  /\ (forall h k, nth_error (hs s) h = Some k -> h_pc k = HDead).
Proof. intros ls s H. apply (srv_no_leak nworkers). exact (inv_reach nworkers ls s H). Qed.
Print Assumptions C10_no_leak.

(* (T) no live-lock: [measure] (20 per unread envelope + a weight per goroutine state) strictly decreases with every
   internal step from a reachable state, so every sequence of internal steps from a reachable state is at most
   [measure s] long: once the environment (peer, handlers, faults) stops acting, the connection reaches a quiescent
   state - to which the (Q) theorems above apply *)
Theorem C10_measure : forall ls s i s', lrun init ls = Some s -> rule_of i s = Some s' ->
  (measure s' < measure s)%nat.
Proof. exact (srv_measure nworkers). Qed.
Print Assumptions C10_measure.

Theorem C10_terminates : forall ls s, lrun init ls = Some s ->
  forall ls' s', all_internal ls' = true -> lrun s ls' = Some s' -> (length ls' + measure s' <= measure s)%nat.
Proof. exact (srv_internal_runs_bounded nworkers). Qed.
Print Assumptions C10_terminates.

(* non-vacuity: two unary and two stream handlers in flight (one parked in RecvMsg, one on its context), then Stop;
   the handlers return; everything is dead *)
Definition ex_req (id : Z) (k : mkind) (b : option Z) : frame := mkFrame (mkEnv id (Some (MdOk 0)) None b None false) k 2 1.
Definition ex_acts : list act :=
  [ ADeliver (ex_req 1 (MStream 3) None); ADeliver (ex_req 2 (MStream 1) None);
    ADeliver (ex_req 3 (MUnary 1) (Some 5)); ADeliver (ex_req 4 (MUnary 2) (Some 6));
    AHandlerStep 0 HRecv; AHandlerStep 1 HAwaitCtx; AHandlerStep 2 HAwaitCtx;
    AStop ].
Definition ex_rets : list act :=
  [ AHandlerStep 0 (HReturn None HCanceled); AHandlerStep 1 (HReturn None HNil);
    AHandlerStep 2 (HReturn None HCanceled); AHandlerStep 3 (HReturn (Some 6) HNil) ].

(* the hypothesis on the handlers is needed: as long as a stream handler ignores its cancelled context Serve waits *)
Example C10_returns_needs_honour :
  exists s, lrun init (labels_of ex_acts) = Some s /\ quiescent s = true /\ hctx_done s = true
            /\ forallb (fun k => implb (hdone s k) (h_returned k)) (hs s) = false
            /\ serve_returned s = false /\ length (hs s) = 4%nat.
Proof. eexists. vm_compute. repeat split. Qed.

Example C10_ex :
  exists s, lrun init (labels_of (ex_acts ++ ex_rets)) = Some s /\ quiescent s = true /\ hctx_done s = true
            /\ serve_returned s = true
            /\ forallb h_returned (hs s) = true /\ length (hs s) = 4%nat /\ wr s = WrDead.
Proof. eexists. vm_compute. repeat split. Qed.

(* ---------- composed: trigger => Serve returns, nothing left; no Q-form hypothesis left to the reader ----------
   The closed system: the connection together with handlers that honour their context. Its steps ([crun]) are the
   internal rules and "a handler that is in its body returns" ([closed_at]); [final s]: no internal rule is enabled
   and no handler whose context is done is still in its body - a handler that honours its context would return
   there, so a state that is not final is not where such a system stops.
   (T) every closed run from a reachable state is at most [measure s] steps long, and
   (E) it can always be extended to a final state; so "the closed system runs until it stops" names a final state. *)
Theorem C10_closed_terminates : forall ls s, lrun init ls = Some s ->
  forall ls' s', crun s ls' = Some s' -> (length ls' + measure s' <= measure s)%nat.
Proof. exact (srv_closed_runs_bounded nworkers). Qed.
Print Assumptions C10_closed_terminates.

Theorem C10_closed_reaches_final : forall ls s, lrun init ls = Some s ->
  exists ls' s', crun s ls' = Some s' /\ final s' = true.
Proof. exact (srv_closed_reaches_final nworkers). Qed.
Print Assumptions C10_closed_reaches_final.

(* Stop, or a failed transport write, at ANY point of ANY run (any traffic, handlers in any state, any interleaving),
   followed by ANY continuation ls' - closed or not: more envelopes, more faults, handlers doing anything: wherever
   that ends in a final state, Serve has returned, the context of every handler ever started is done, every handler
   goroutine, every worker and the writer are gone, and the registry is empty. The only thing asked of the handlers is
   in [final]: none of them sits in its body with a done context. *)
Theorem C10_trigger_returns : forall ls s, lrun init ls = Some s ->
  (srv_stop s = true \/ exists f, In (SvWFail f) (log s)) ->
  forall ls' s', lrun s ls' = Some s' -> final s' = true ->
    serve_returned s' = true
    /\ (forall h k, nth_error (hs s') h = Some k -> hdone s' k = true)
    /\ (forall h k, nth_error (hs s') h = Some k -> h_pc k = HDead)
    /\ wr s' = WrDead
    /\ (forall w p, nth_error (wk s') w = Some p -> p = WkDead)
    /\ registry_size s' = 0%nat.
Proof.
  intros ls s H T. apply (srv_trigger_returns nworkers ls s H).
  destruct T as [T | [f T]]; [unfold hctx_done; now rewrite T | exact (srv_wfail_cancels nworkers ls s H f T)].
Qed.
Print Assumptions C10_trigger_returns.

(* a failed transport READ is seen by the next rw.Read only, and the read loop can be kept from ever getting there:
   by a transport that blocks writes, by unary handlers that occupy every worker, by a stream handler that leaves an
   envelope in its queue. Those are not granted by "handlers honour their context" (their contexts are not done: the
   failure has not been seen), so for this trigger a hypothesis stays: at the final state the transport does not block
   writes, some worker is not running a handler, and every stream handler with an envelope in its queue has returned.
   Each of the three is needed: C10_readfail_refuted_* below. *)
Theorem C10_trigger_returns_readfail_partial : forall ls s, lrun init ls = Some s -> inbox_failed s = true ->
  forall ls' s', lrun s ls' = Some s' -> final s' = true ->
    wblock s' = false ->
    (exists w p, nth_error (wk s') w = Some p /\ forall h, p <> WkRun h) ->
    (forall h k, nth_error (hs s') h = Some k -> h_q k <> None -> h_returned k = true) ->
    serve_returned s' = true
    /\ (forall h k, nth_error (hs s') h = Some k -> hdone s' k = true)
    /\ (forall h k, nth_error (hs s') h = Some k -> h_pc k = HDead)
    /\ wr s' = WrDead
    /\ (forall w p, nth_error (wk s') w = Some p -> p = WkDead)
    /\ registry_size s' = 0%nat.
Proof.
  intros ls s H Hf ls' s' Hr F B W Q.
  apply (srv_trigger_returns_readfail nworkers ls s ltac:(unfold nworkers; auto with arith) H Hf ls' s' Hr F).
  unfold rd_not_kept. auto.
Qed.
Print Assumptions C10_trigger_returns_readfail_partial.

(* the three hypotheses of the read-failure form cannot be dropped: final states after a read failure in which Serve
   has not returned. (a) nine unary requests, the eight handlers stay in their bodies (contexts live), the ninth is on
   offer; (b) a stream handler that never receives: one message queued, the read loop holds the next (and the
   registry lock); (c) a transport that blocks writes: the writer holds one reset, the read loop the next *)
Definition rf_a : list act := map (fun i => ADeliver (ex_req (Z.of_nat i) (MUnary 1) (Some 5))) (seq 1 9) ++ [AFailRead].
Definition rf_b : list act :=
  [ADeliver (ex_req 1 (MStream 3) None); ADeliver (ex_req 1 (MStream 3) (Some 7)); ADeliver (ex_req 1 (MStream 3) (Some 8)); AFailRead].
Definition rf_c : list act :=
  [ABlockWrites true; ADeliver (ex_req 5 (MStream 3) (Some 7)); ADeliver (ex_req 6 (MStream 3) (Some 8)); AFailRead].
Definition st_of (acts : list act) : state := match lrun init (labels_of acts) with Some s => s | None => init end.
Definition closed_end (s : state) : state := match crun s (closed_labels 200 s) with Some s' => s' | None => s end.
Definition no_full_queue (s : state) : bool := forallb (fun k => match h_q k with None => true | Some _ => h_returned k end) (hs s).
Definition free_worker (s : state) : bool := existsb (fun p => match p with WkRun _ => false | _ => true end) (wk s).

Example C10_readfail_refuted_workers :
  exists s, lrun init (labels_of rf_a) = Some s /\ final s = true /\ inbox_failed s = true /\ serve_returned s = false
            /\ wblock s = false /\ no_full_queue s = true /\ free_worker s = false /\ length (hs s) = 8%nat.
Proof. exists (st_of rf_a). vm_compute. repeat split. Qed.
Example C10_readfail_refuted_queue :
  exists s, lrun init (labels_of rf_b) = Some s /\ final s = true /\ inbox_failed s = true /\ serve_returned s = false
            /\ wblock s = false /\ no_full_queue s = false /\ free_worker s = true.
Proof. exists (st_of rf_b). vm_compute. repeat split. Qed.
Example C10_readfail_refuted_wblock :
  exists s, lrun init (labels_of rf_c) = Some s /\ final s = true /\ inbox_failed s = true /\ serve_returned s = false
            /\ wblock s = true /\ no_full_queue s = true /\ free_worker s = true.
Proof. exists (st_of rf_c). vm_compute. repeat split. Qed.

(* non-vacuity of the composed theorems. Stop with four handlers in flight (ex_acts above: one parked in RecvMsg, two
   on their context, one in its body): the closed system runs 30-odd steps to a final state with everything gone *)
Example C10_trigger_ex :
  exists s ls' s', lrun init (labels_of ex_acts) = Some s /\ srv_stop s = true /\ serve_returned s = false
    /\ ls' = closed_labels 200 s /\ crun s ls' = Some s' /\ final s' = true
    /\ serve_returned s' = true /\ length (hs s') = 4%nat /\ forallb (fun k => match h_pc k with HDead => true | _ => false end) (hs s') = true
    /\ Nat.leb 10 (length ls') = true /\ Nat.leb (length ls') (measure s) = true.
Proof. exists (st_of ex_acts), (closed_labels 200 (st_of ex_acts)), (closed_end (st_of ex_acts)). vm_compute. repeat split. Qed.

(* ... a failed write: a stream handler's message is refused by the transport *)
Definition wf_acts : list act :=
  [ ADeliver (ex_req 1 (MStream 3) None); ADeliver (ex_req 3 (MUnary 1) (Some 5)); AHandlerStep 1 HAwaitCtx;
    ASetWriteFail true; AHandlerStep 0 (HSend 9) ].
Example C10_trigger_wfail_ex :
  exists s ls' s', lrun init (labels_of wf_acts) = Some s /\ srv_stop s = false
    /\ existsb (fun e => match e with SvWFail _ => true | _ => false end) (log s) = true
    /\ ls' = closed_labels 200 s /\ crun s ls' = Some s' /\ final s' = true
    /\ serve_returned s' = true /\ length (hs s') = 2%nat /\ wr s' = WrDead.
Proof. exists (st_of wf_acts), (closed_labels 200 (st_of wf_acts)), (closed_end (st_of wf_acts)). vm_compute. repeat split. Qed.

(* ... and a read failure with a stream handler parked in RecvMsg and a unary handler on its context: the hypotheses
   of the read-failure form hold at the final state *)
Definition rf_ok : list act :=
  [ ADeliver (ex_req 1 (MStream 3) None); ADeliver (ex_req 3 (MUnary 1) (Some 5)); AHandlerStep 0 HRecv;
    AHandlerStep 1 HAwaitCtx; AFailRead ].
Example C10_trigger_readfail_ex :
  exists s ls' s', lrun init (labels_of rf_ok) = Some s /\ inbox_failed s = true
    /\ ls' = closed_labels 200 s /\ crun s ls' = Some s' /\ final s' = true
    /\ wblock s' = false /\ free_worker s' = true /\ no_full_queue s' = true
    /\ serve_returned s' = true /\ length (hs s') = 2%nat /\ wr s' = WrDead.
Proof. exists (st_of rf_ok), (closed_labels 200 (st_of rf_ok)), (closed_end (st_of rf_ok)). vm_compute. repeat split. Qed.

(* C13 - No envelope sequence from a peer can crash a client or leave a call
   hanging. Property theorems only; the model is Model/Client.v (as the code is
   after the D-03a, D-13b, D-13c, D-13d, D-13e fixes), the proofs are in
   Proofs/Client{Inv,Log,Live,Props}.v. Every theorem quantifies over all label
   sequences: EVERY inbound envelope sequence the type [env] can express - any
   id, header absent / decodable / undecodable metadata, any status (explicit OK
   included), body absent / present / not a message, trailer absent / decodable /
   undecodable, reset - addressed to any call or to nobody, any number of
   envelopes after a call completed, several replies to one unary call.

   The model has no stats-handler flag: since the D-13d fix the stats path reads
   the header through nil-safe getters and differs in nothing the model observes;
   the rig runs every scenario with and without a stats handler installed. *)
From Coq Require Import List ZArith Bool.
Import ListNotations.
From Goat Require Import Model.Client Proofs.ClientBase Proofs.ClientInv Proofs.ClientLog Proofs.ClientLive Proofs.ClientProps Proofs.ClientCrash.
Open Scope Z_scope.

(* total: no reachable state has a panic in its history (the only panic the client code contains - "rCh was
   closed but done == false" in RecvMsg - is unreachable) *)
Theorem C13_total : forall ls s, lrun init ls = Some s -> forall c, ~ In (EvPanic c) (log s).
Proof. exact C13_no_panic_l. Qed.
Print Assumptions C13_total.

(* (Q) settles: once the connection is closed (read failure recorded), in every quiescent state every call that
   the environment does not hold at a yield point has terminated all its operations *)
Theorem C13_settles : forall ls s, lrun init ls = Some s -> quiescent s = true -> rerr s = true ->
  forall c k, nth_error (calls s) c = Some k -> parked k = false -> any_pending k = false.
Proof. exact C09_settles_l. Qed.
Print Assumptions C13_settles.

(* honest: a call reports success only with data that an envelope addressed to it (its id, routed to it, taken
   by it) carried; there is no success without data: UOk / RMsg always carry the body of such an envelope *)
Theorem C13_honest : forall ls s, lrun init ls = Some s ->
  (forall c b, In (EvUnaryRet c (UOk b)) (log s) -> backed s c b) /\
  (forall c b, In (EvRecvRet c (RMsg b)) (log s) -> backed s c b).
Proof. exact honest_l. Qed.
Print Assumptions C13_honest.

(* no success by default: the model's RecvMsg / SendMsg on a finished stream report [s_rerr]; the model text has a
   normal-looking default for "finished without an error" (Model/Client.v recv_final: io.EOF; r_send: nil). That
   case is unreachable: a finished stream always carries its terminal error, and its loop is dead *)
Theorem C13_done_has_error : forall ls s, lrun init ls = Some s ->
  forall c k, nth_error (calls s) c = Some k -> s_done k = true ->
    loop_alive k = false /\ is_some (s_rerr k) = true /\ k_pc k = POpen.
Proof. intros ls s H c k Hn Hd. exact (ki_done_dead _ (cinv_call _ _ _ (proj1 (inv_reach _ _ H)) Hn) Hd). Qed.
Print Assumptions C13_done_has_error.

(* does not crash, site by site: every panic-capable operation of the client path on state that the peer or the
   order of the goroutines controls (Proofs/ClientCrash.v lists them with file:line and the guard the code relies on:
   A close of a closed done channel, B send on the closed rCh, C second close of rCh, D second Done() of the header
   WaitGroup, E the explicit panic of RecvMsg) is never enabled in a reachable state. C13_total is clause E. *)
Theorem C13_no_crash : forall ls s, lrun init ls = Some s -> ~ crash_site s.
Proof. exact no_crash_site_l. Qed.
Print Assumptions C13_no_crash.

(* the site predicates are not empty by definition: call records that would crash exist (they are just never reached) *)
Definition crashy (reg : bool) (l : slpc) (latch : option (mdv + cerr)) (rch : bool) : call :=
  mkCall false 0 POpen 1 (mkChan None true) reg CtxLive l false latch rch false None None None None false false RNone ONone [] ONone.
Example crash_sites_inhabited :
  crash_A (crashy true LRead None false) /\ crash_B (crashy false (LHand 5) None true) /\
  crash_C (crashy false LExit None true) /\ crash_D (crashy false LRead (Some (inr EBadMd)) false).
Proof. unfold crash_A, crash_B, crash_C, crash_D; simpl. repeat split; eauto. Qed.

(* ---------- the hypotheses are satisfiable ---------- *)
Definition weird1 (id : Z) : env := mkEnv id (Some MdBad) (Some (mkSt 0 0)) (Some 5) (Some MdBad) false.   (* undecodable metadata, explicit OK, body *)
Definition weird2 (id : Z) : env := mkEnv id None None None None true.                                      (* bare reset, no header *)
Definition weird3 (id : Z) : env := mkEnv id None (Some (mkSt 0 0)) (Some (-1)) None false.               (* no header, OK status, body that is not a message *)

Example C13_ex : exists ls s,
  run_trace [ANewUnary 7 false; ANewStream false; AHeader 1; ARecv 1 false; ATrailer 1;
             ADeliver (weird1 2); ADeliver (weird1 1); ADeliver (weird3 1); ADeliver (weird2 2); ADeliver (weird2 77);
             ARecv 1 false; ATrailer 1; AFailRead] = (ls, s) /\
  lrun init ls = Some s /\ quiescent s = true /\ rerr s = true /\
  forallb (fun k => negb (any_pending k)) (calls s) = true /\
  In (EvUnaryRet 0 (UOk 5)) (log s) /\ In (EvHeaderRet 1 (inr EBadMd)) (log s) /\ In (EvRecvRet 1 (RErr EBadMd)) (log s).
Proof. eexists. eexists. split. vm_compute. reflexivity. vm_compute. intuition. Qed.

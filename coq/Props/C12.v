(* C12 - No envelope sequence from a peer can crash or stall a server.
   Property theorems only; the model is Model/Server.v (one connection of
   goat.Server.Serve as the code is now, against an arbitrary peer and arbitrary
   handler behaviour), the proofs are in Proofs/Server*.v. Every theorem
   quantifies over all label sequences of the LTS: any envelopes (every field
   present, absent or undecodable, any id, any method string class, any
   destination), any handler operations, transport faults, Stop, at any point,
   in any order of the enabled internal rules. *)
From Coq Require Import List ZArith Bool.
Import ListNotations.
From Goat Require Import Model.Client Model.Server Proofs.ServerProofs.
Open Scope Z_scope.

(* no reachable state is crashed: the places where the code dereferences the
   header of an envelope (processUnaryRpc, resetStream, runStream) are only reached
   with envelopes that passed the read loop's filters *)
Theorem C12_no_crash : forall ls s, lrun init ls = Some s -> crashed s = false.
Proof. exact (srv_no_crash nworkers). Qed.
Print Assumptions C12_no_crash.

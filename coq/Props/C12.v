(* C12 - No envelope sequence from a peer can crash or stall a server.
   Property theorems only; the model is Model/Server.v (one connection of
   goat.Server.Serve as the code is now, against an arbitrary peer and arbitrary
   handler behaviour), the proofs are in Proofs/Server*.v. Every theorem
   quantifies over all label sequences of the LTS: any envelopes (every field
   present, absent or undecodable, any id, any method string class, any
   destination), any handler operations, transport faults, Stop, at any point,
   in any order of the enabled internal rules. *)
From Coq Require Import List ZArith Bool.
Import ListNotations.
From Goat Require Import Model.Client Model.Server Proofs.ServerProofs Proofs.ServerInv Proofs.ServerLive.
Open Scope Z_scope.

(* no reachable state is crashed: the places where the code dereferences the
   header of an envelope (processUnaryRpc, resetStream, runStream) are only reached
   with envelopes that passed the read loop's filters *)
Theorem C12_no_crash : forall ls s, lrun init ls = Some s -> crashed s = false.
Proof. exact (srv_no_crash nworkers). Qed.
Print Assumptions C12_no_crash.

(* never stalls (Q): in every reachable quiescent state in which every handler that was started has returned,
   the transport does not block writes and the connection has not been ended (no Stop, no failed write, Serve
   not left), the read loop sits in rw.Read with nothing unread: whatever the peer sent before, it has all been
   consumed; the writer waits for work, every worker is idle, no stream handler goroutine is left and the
   registry is empty - the connection is exactly as idle as a fresh one. *)
Theorem C12_never_stalls : forall ls s, lrun init ls = Some s ->
  quiescent s = true ->
  (forall h k, nth_error (hs s) h = Some k -> h_returned k = true) ->
  wblock s = false -> hctx_done s = false ->
  rd s = RdRead /\ inbox s = [] /\ wr s = WrSel
  /\ (forall w p, nth_error (wk s) w = Some p -> p = WkIdle)
  /\ (forall h k, nth_error (hs s) h = Some k -> h_pc k = HDead)
  /\ registry_size s = 0%nat.
Proof.
  intros ls s H. apply (srv_quiescent_idle nworkers); [unfold nworkers; auto with arith | exact (inv_reach nworkers ls s H)].
Qed.
Print Assumptions C12_never_stalls.

(* the hypotheses are met by a non-trivial reachable state: garbage, a stream that was opened, fed and closed,
   an undecodable unary request, and an answered unary request *)
Definition ex_hdr (id : Z) (k : mkind) (e : env) : frame := mkFrame e k 2 1.
Definition ex_acts : list act :=
  [ ADeliver (ex_hdr 5 MBad (mkEnv 5 (Some (MdOk 0)) None (Some 3) None false));
    ADeliver (mkFrame (mkEnv 6 None None (Some 4) None false) MBad 0 0);
    ADeliver (ex_hdr 1 (MStream 3) (mkEnv 1 (Some (MdOk 0)) None None None false));
    AHandlerStep 0 HRecv;
    ADeliver (ex_hdr 1 (MStream 3) (mkEnv 1 (Some (MdOk 0)) None (Some 11) None false));
    ADeliver (ex_hdr 2 (MStream 3) (mkEnv 2 (Some (MdOk 0)) None (Some 12) None false));
    ADeliver (ex_hdr 7 (MUnary 1) (mkEnv 7 (Some MdBad) None (Some 13) None false));
    AHandlerStep 0 (HSend 21);
    AHandlerStep 0 (HReturn None HNil);
    ADeliver (ex_hdr 9 (MUnary 1) (mkEnv 9 (Some (MdOk 0)) None (Some 14) None false));
    AHandlerStep 1 (HReturn (Some 14) HNil) ].

Example C12_never_stalls_ex :
  exists s, lrun init (labels_of ex_acts) = Some s /\ quiescent s = true
            /\ forallb h_returned (hs s) = true /\ wblock s = false /\ hctx_done s = false
            /\ length (hs s) = 2%nat /\ length (filter (fun e => match e with SvWrite _ => true | _ => false end) (log s)) = 5%nat.
Proof. eexists. vm_compute. repeat split. Qed.

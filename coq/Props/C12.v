(* C12 - No envelope sequence from a peer can crash or stall a server.
   Property theorems only; the model is Model/Server.v (one connection of
   goat.Server.Serve as the code is now, against an arbitrary peer and arbitrary
   handler behaviour), the proofs are in Proofs/Server*.v. Every theorem
   quantifies over all label sequences of the LTS: any envelopes (every field
   present, absent or undecodable, any id, any method string class, any
   destination), any handler operations, transport faults, Stop, at any point,
   in any order of the enabled internal rules. *)
From Coq Require Import List ZArith Bool.
Import ListNotations.
From Goat Require Import Model.Client Model.Server Proofs.ServerProofs Proofs.ServerInv Proofs.ServerLive Proofs.ServerTrace Proofs.ServerRoute Proofs.ServerDispatch Proofs.ServerProbe Proofs.ServerWriter Proofs.ServerResetW Proofs.ServerServing Proofs.ServerStall.
Open Scope Z_scope.

(* no reachable state is crashed: the places where the code dereferences the
   header of an envelope (processUnaryRpc, resetStream, runStream) are only reached
   with envelopes that passed the read loop's filters *)
Theorem C12_no_crash : forall ls s, lrun init ls = Some s -> crashed s = false.
Proof. exact (srv_no_crash nworkers). Qed.
Print Assumptions C12_no_crash.

(* does not stop serving: in every run whose environment actions are only envelopes from the peer (of any shape),
   handler operations and a transport that blocks / unblocks writes - no Stop, no cancellation of Serve's context, no
   transport read or write failure - the connection is never ended: the connection context and the handlers' parent
   context stay live, the read loop never leaves serve, the writer and every worker stay alive. (So the hypotheses
   "hctx_done s = false" / "rd_exited s = false" of the theorems below are CONSEQUENCES of "only the peer acted",
   whatever it sent: no envelope sequence makes Serve return.) *)
Theorem C12_stays_serving : forall ls s, forallb peer_only ls = true -> lrun init ls = Some s ->
  hctx_done s = false /\ cctx_done s = false /\ rd_exited s = false /\ wr s <> WrDead
  /\ (forall w, nth_error (wk s) w <> Some WkDead).
Proof.
  intros ls s Hp H. pose proof (srv_stays_serving nworkers ls s Hp H) as S. destruct (serving_hctx s S) as [A B].
  destruct S as [_ [_ [_ [_ [_ [_ [G [W K]]]]]]]]. auto.
Qed.
Print Assumptions C12_stays_serving.

(* never stalls (Q): in every reachable quiescent state in which every handler that was started has returned,
   the transport does not block writes and the connection has not been ended (no Stop, no failed write, Serve
   not left), the read loop sits in rw.Read with nothing unread: whatever the peer sent before, it has all been
   consumed; the writer waits for work, every worker is idle, no stream handler goroutine is left and the
   registry is empty - the connection is exactly as idle as a fresh one. *)
Theorem C12_never_stalls : forall ls s, lrun init ls = Some s ->
  quiescent s = true ->
  (forall h k, nth_error (hs s) h = Some k -> h_returned k = true) ->
  wblock s = false -> hctx_done s = false ->
  rd s = RdRead /\ inbox s = [] /\ wr s = WrSel
  /\ (forall w p, nth_error (wk s) w = Some p -> p = WkIdle)
  /\ (forall h k, nth_error (hs s) h = Some k -> h_pc k = HDead)
  /\ registry_size s = 0%nat.
Proof.
  intros ls s H. apply (srv_quiescent_idle nworkers); [unfold nworkers; auto with arith | exact (inv_reach nworkers ls s H)].
Qed.
Print Assumptions C12_never_stalls.

(* dispatch, exactly once and only for qualifying envelopes: the handler-invocation events in the history are
   exactly one per handler ever started, in start order, each carrying the id, method, payload (unary) and
   metadata of the envelope that started it ([sigs s] lists (unary?, starting envelope) of the handlers); and
   every such envelope passed the filters: header present, method parses and is registered, destination = the
   server's name, metadata decodes, and - unary - the body decodes, - stream - no reset, no body, no trailer. *)
Theorem C12_dispatch_sound : forall ls s, lrun init ls = Some s ->
  filter is_invoke (log s) = invs_from 0 (sigs s) /\ (forall p, In p (sigs s) -> req_ok p).
Proof. exact (srv_dispatch nworkers). Qed.
Print Assumptions C12_dispatch_sound.

(* dispatch, complete direction for unary requests, over histories. [ureads l]: the envelopes read that name a
   registered unary method of this server (header, method, destination pass the filters), in order; [jobs l]: those
   handed to a worker; [ureqs s]: the envelopes that started the unary handlers, in start order.
   Always: a unary handler was started for exactly the requests handed to a worker whose metadata and body decode,
   in order, once each. *)
Theorem C12_dispatch_unary : forall ls s, lrun init ls = Some s ->
  ureqs s = filter unary_ok (jobs (log s)).
Proof. exact (srv_dispatch_unary nworkers). Qed.
Print Assumptions C12_dispatch_unary.

(* (Q) every qualifying envelope is eventually invoked: in every reachable quiescent state in which the read loop
   still serves and some worker is idle, every unary request read so far has been handed to a worker, and a handler
   has been started for exactly those whose metadata and body decode - in order, once each, none left waiting *)
Theorem C12_dispatch_complete : forall ls s, lrun init ls = Some s ->
  quiescent s = true -> rd_exited s = false -> (exists w, nth_error (wk s) w = Some WkIdle) ->
  ureads (log s) = jobs (log s) /\ ureqs s = filter unary_ok (ureads (log s)).
Proof. exact (srv_dispatch_complete nworkers). Qed.
Print Assumptions C12_dispatch_complete.

(* ... and what the read loop does with an envelope naming a stream method that passed the filters, in full:
   a handler is started iff the id is not open and the envelope is a pure open; it is forwarded to the open
   stream's queue iff the id is open and it is not a reset (whatever else it carries: body, trailer, a second
   open, undecodable metadata); a reset is due (the read loop enters resetStream with it) iff the id is not open,
   it is not a reset and it carries a body or - with neither body nor trailer - undecodable metadata; in the
   remaining cases (reset / trailer for an unknown id, reset for an open id = cancel) nothing is started,
   forwarded or answered. *)
Theorem C12_dispatch_stream : forall s f rest,
  rd s = RdRead -> inbox s = f :: rest -> dispatch f = DStream ->
  exists s', r_rd_read s = Some s'
    /\ (length (hs s') = S (length (hs s))
        <-> (find_reg (fid f) (hs s) 0 = None /\ is_rst f = false /\ has_body f = false /\ has_trl f = false /\ md_bad f = false))
    /\ (rd s' = RdRst f
        <-> (find_reg (fid f) (hs s) 0 = None /\ is_rst f = false /\ (has_body f = true \/ (has_trl f = false /\ md_bad f = true))))
    /\ ((exists h, rd s' = RdFwd h f) <-> (exists h, find_reg (fid f) (hs s) 0 = Some h /\ is_rst f = false)).
Proof. exact srv_dispatch_stream_step. Qed.
Print Assumptions C12_dispatch_stream.

(* reset: the envelope the read loop hands to the writer from resetStream is the reset for that id, source and
   destination swapped, same method *)
Theorem C12_reset : forall s f s',
  rd s = RdRst f -> r_rd_rst s = Some s' -> crashed s' = false ->
  wr s' = WrWrite (rst_reply f) /\ rd s' = RdRead
  /\ eid (f_env (rst_reply f)) = fid f /\ f_src (rst_reply f) = f_dst f /\ f_dst (rst_reply f) = f_src f
  /\ f_mth (rst_reply f) = f_mth f /\ erst (f_env (rst_reply f)) = true.
Proof. exact srv_reset_step. Qed.
Print Assumptions C12_reset.

(* reset, over histories. [rst_due l] scans the history l: a stream id is open from the invocation of its handler to
   its unregistration; the envelopes read meanwhile-not-open that call for a reset ([calls_for_reset]: a stream-method
   envelope for this server, not itself a reset, with a body or - without body and trailer - undecodable metadata).
   Always: they are, in order and once each, answered by the resets the writer has taken ([rsts_taken]; only the read
   loop's resetStream produces reset envelopes), then the one being handed over, then at most one abandoned when the
   connection ended. *)
Theorem C12_reset_accounting : forall ls s, lrun init ls = Some s ->
  exists tail, map rst_reply (rst_due (log s)) = rsts_taken (log s) ++ map rst_reply (rst_pend s) ++ tail
               /\ (tail = [] \/ (rd_exited s = true /\ exists f, tail = [f])).
Proof. exact (srv_reset_accounting nworkers). Qed.
Print Assumptions C12_reset_accounting.

(* (Q) exactly one reset is WRITTEN per such envelope: in every reachable quiescent state in which the transport does
   not block writes and the connection has not been ended, the resets on the wire are exactly, in order,
   [rst_reply f] (f's id and method, source and destination swapped) for the envelopes f that called for one;
   trailers and resets for unknown ids, and anything for open ids, produce none *)
Theorem C12_reset_written : forall ls s, lrun init ls = Some s ->
  quiescent s = true -> wblock s = false -> hctx_done s = false ->
  filter is_rst (written (log s)) = map rst_reply (rst_due (log s)).
Proof. exact (srv_reset_written nworkers). Qed.
Print Assumptions C12_reset_written.

(* probe (Q): in every reachable quiescent state in which every handler has returned, the transport does not block
   writes and the connection has not been ended - whatever the peer sent before -, the response built from the
   return of EVERY unary handler (SvReply h f: f = unary_reply of handler h: the request's id and method, source and
   destination swapped, the handler's reply as body, its error as status, its header / trailer metadata) has been
   accepted by the transport. With C12_never_stalls (the request is read) and C12_dispatch_complete (it is handed
   to a worker and, if it decodes, its handler is started) this is: a valid unary probe is answered with the
   handler's reply under the same id. *)
Theorem C12_probe : forall ls s, lrun init ls = Some s ->
  quiescent s = true ->
  (forall h k, nth_error (hs s) h = Some k -> h_returned k = true) ->
  wblock s = false -> hctx_done s = false ->
  forall h f, In (SvReply h f) (log s) -> In (SvWrite f) (log s).
Proof. intros ls s H. apply (srv_probe nworkers ls s); [unfold nworkers; auto with arith | exact H]. Qed.
Print Assumptions C12_probe.

(* the hypotheses are met by a non-trivial reachable state: garbage, a stream that was opened, fed and closed,
   an undecodable unary request, and an answered unary request *)
Definition ex_hdr (id : Z) (k : mkind) (e : env) : frame := mkFrame e k 2 1.
Definition ex_acts : list act :=
  [ ADeliver (ex_hdr 5 MBad (mkEnv 5 (Some (MdOk 0)) None (Some 3) None false));
    ADeliver (mkFrame (mkEnv 6 None None (Some 4) None false) MBad 0 0);
    ADeliver (ex_hdr 1 (MStream 3) (mkEnv 1 (Some (MdOk 0)) None None None false));
    AHandlerStep 0 HRecv;
    ADeliver (ex_hdr 1 (MStream 3) (mkEnv 1 (Some (MdOk 0)) None (Some 11) None false));
    ADeliver (ex_hdr 2 (MStream 3) (mkEnv 2 (Some (MdOk 0)) None (Some 12) None false));
    ADeliver (ex_hdr 7 (MUnary 1) (mkEnv 7 (Some MdBad) None (Some 13) None false));
    AHandlerStep 0 (HSend 21);
    AHandlerStep 0 (HReturn None HNil);
    ADeliver (ex_hdr 9 (MUnary 1) (mkEnv 9 (Some (MdOk 0)) None (Some 14) None false));
    AHandlerStep 1 (HReturn (Some 14) HNil) ].

Example C12_never_stalls_ex :
  exists s, lrun init (labels_of ex_acts) = Some s /\ quiescent s = true
            /\ forallb h_returned (hs s) = true /\ wblock s = false /\ hctx_done s = false
            /\ length (hs s) = 2%nat /\ length (filter (fun e => match e with SvWrite _ => true | _ => false end) (log s)) = 5%nat
            /\ length (filter (fun e => match e with SvReply _ _ => true | _ => false end) (log s)) = 1%nat
            /\ ureads (log s) = jobs (log s) /\ length (jobs (log s)) = 2%nat
            /\ length (rst_due (log s)) = 1%nat /\ length (filter is_rst (written (log s))) = 1%nat.
Proof. eexists. vm_compute. repeat split. Qed.

(* ---------- composed: no envelope sequence stalls the server; nothing about the connection left to the reader ----------
   For EVERY run in which only the peer and the handlers act ([peer_only]: envelopes of any shape, handler operations,
   a transport that blocks / unblocks writes, any interleaving of the internal rules) the Q theorems above hold with
   their "connection not ended" hypotheses ([hctx_done s = false], [rd_exited s = false]) discharged by
   C12_stays_serving:
   - never crashed, never stops serving (always);
   - wherever the run is at rest ([quiescent]; C10_terminates: reached once the environment stops acting):
     * if some worker is idle every unary request read has been handed to a worker and a handler was started for
       exactly those that decode, in order, once each;
     * if the transport does not block writes the resets on the wire are exactly those due, and EVERYTHING the writer
       took - unary replies, stream headers, messages, trailers, resets - is on the wire in the order taken (the probe
       clause for stream probes: what a stream handler's SendMsg / return handed over has been written);
     * if moreover every handler has returned the connection is as idle as a fresh one, nothing is unread, and the reply
       of every unary handler has been written. *)
Theorem C12_peer_cannot_stall : forall ls s, forallb peer_only ls = true -> lrun init ls = Some s ->
  crashed s = false
  /\ (hctx_done s = false /\ cctx_done s = false /\ rd_exited s = false /\ wr s <> WrDead
      /\ (forall w, nth_error (wk s) w <> Some WkDead))
  /\ (quiescent s = true ->
      ((exists w, nth_error (wk s) w = Some WkIdle) ->
         ureads (log s) = jobs (log s) /\ ureqs s = filter unary_ok (ureads (log s)))
      /\ (wblock s = false ->
          filter is_rst (written (log s)) = map rst_reply (rst_due (log s))
          /\ taken_of (log s) = written (log s)
          /\ ((forall h k, nth_error (hs s) h = Some k -> h_returned k = true) ->
              rd s = RdRead /\ inbox s = [] /\ wr s = WrSel
              /\ (forall w p, nth_error (wk s) w = Some p -> p = WkIdle)
              /\ (forall h k, nth_error (hs s) h = Some k -> h_pc k = HDead)
              /\ registry_size s = 0%nat
              /\ ureads (log s) = jobs (log s) /\ ureqs s = filter unary_ok (ureads (log s))
              /\ (forall h f, In (SvReply h f) (log s) -> In (SvWrite f) (log s))))).
Proof. intros ls s. apply (srv_peer_cannot_stall nworkers). unfold nworkers; auto with arith. Qed.
Print Assumptions C12_peer_cannot_stall.

(* its hypotheses are met by the run of C12_never_stalls_ex (garbage, a stream opened, fed and closed, an undecodable
   and an answered unary request): peer-only, at rest, every handler returned, writes not blocked; 5 envelopes taken
   and written, among them the stream's message and trailer *)
Example C12_peer_cannot_stall_ex :
  exists s, lrun init (labels_of ex_acts) = Some s /\ forallb peer_only (labels_of ex_acts) = true
            /\ quiescent s = true /\ wblock s = false /\ forallb h_returned (hs s) = true
            /\ length (taken_of (log s)) = 5%nat /\ taken_of (log s) = written (log s)
            /\ length (filter (fun e => match e with SvTrailer _ _ => true | _ => false end) (log s)) = 1%nat.
Proof. eexists. vm_compute. repeat split. Qed.

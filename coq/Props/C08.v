(* C08 - Caller deadlines reach the handler; timeout header values mean what
   they say.  Property theorems only; proofs are in Proofs/TimeoutProofs.v. *)
From Goat Require Import Base.Bytes Model.Timeout Proofs.TimeoutProofs.
Open Scope Z_scope.

(* (a) every value of the wire grammar - one to eight digits and a unit - is
   read as exactly that duration, saturating at the largest duration *)
Theorem C08_grammar : forall ds u unit,
  ds <> [] -> forallb is_digit ds = true -> (length ds <= 8)%nat ->
  unit_of u = Some unit ->
  parse (ds ++ [u]) = Some (Z.min (val ds * unit) maxInt64).
Proof. exact grammar. Qed.
Print Assumptions C08_grammar.

(* (b) nothing is misread: whatever byte string is accepted is an unsigned,
   non-empty digit string followed by a unit, and is read at its (saturated)
   natural value - so empty, signed, unit-less and non-digit strings are
   ignored, and no accepted value is negative or wrapped *)
Theorem C08_no_misread : forall s d,
  parse s = Some d ->
  exists ds u unit,
    s = ds ++ [u] /\ ds <> [] /\ forallb is_digit ds = true /\
    unit_of u = Some unit /\ val ds <= maxInt64 /\
    d = Z.min (val ds * unit) maxInt64 /\ 0 <= d.
Proof. exact no_misread. Qed.
Print Assumptions C08_no_misread.

(* (c) transfer: the header the client emits for a remaining time r (any
   int64 duration, expired ones included) is read back by the server as d with
   max(r - 1ms, 1ms) <= d <= max(r, 1ms) *)
Theorem C08_transfer : forall r,
  r <= maxInt64 ->
  exists d, parse (encode r) = Some d /\
            Z.max (r - 1000000) 1000000 <= d <= Z.max r 1000000.
Proof.
  intros r Hr. exists (encode_ms r * 1000000). split.
  - exact (parse_encode r Hr).
  - exact (transfer_bounds r).
Qed.
Print Assumptions C08_transfer.

(* ... hence, with the header built at time t0 for the caller deadline t0 + r
   and decoded at t1 >= t0, the handler deadline t1 + d is not earlier than the
   caller's minus 1ms and not later than the caller's plus the transit time;
   an expired or closer-than-1ms deadline is conveyed as exactly 1ms *)
Theorem C08_deadline : forall t0 t1 r,
  t0 <= t1 -> r <= maxInt64 ->
  exists d, parse (encode r) = Some d /\
    (1000000 <= r -> (t0 + r) - 1000000 <= t1 + d <= (t0 + r) + (t1 - t0)) /\
    (r < 1000000 -> d = 1000000).
Proof.
  intros t0 t1 r Ht Hr. exists (encode_ms r * 1000000). split; [exact (parse_encode r Hr)|].
  pose proof (transfer_bounds r). split; intros; lia.
Qed.
Print Assumptions C08_deadline.

(* (d) no timeout header (under any letter case) => no handler deadline; a
   header named grpc-timeout in any letter case is honoured *)
Theorem C08_none : forall hdrs,
  (forall k v, In (k, v) hdrs -> lower k <> timeout_key) -> pick hdrs = None.
Proof. exact pick_none. Qed.
Print Assumptions C08_none.

Theorem C08_key_case_insensitive : forall k v d rest,
  lower k = timeout_key -> parse v = Some d -> pick ((k, v) :: rest) = Some d.
Proof. exact pick_first. Qed.
Print Assumptions C08_key_case_insensitive.

Theorem C08_pick_sound : forall hdrs d,
  pick hdrs = Some d ->
  exists k v, In (k, v) hdrs /\ lower k = timeout_key /\ parse v = Some d.
Proof. exact pick_sound. Qed.
Print Assumptions C08_pick_sound.

(* (e) the whole transfer, for unary and streaming calls alike ([sys_deadline]:
   caller context -> headersFromContext -> wire -> contextFromHeaders -> handler
   context; both kinds run the same two functions, at their own call sites).
   For every caller deadline t0 + r (r any int64 duration: already expired,
   sub-millisecond, up to any number of hours), every clock reading t1 >= t0 of
   the server and every caller metadata that does not itself use the reserved
   key: the handler has a deadline, not earlier than the caller's minus 1 ms and
   not later than the caller's plus the transit time t1 - t0; an expired or
   closer-than-1ms deadline is conveyed as exactly 1 ms from the server's now *)
Theorem C08_sys_deadline : forall (k : rkind) t0 t1 r md,
  t0 <= t1 -> r <= maxInt64 ->
  (forall key v, In (key, v) md -> lower key <> timeout_key) ->
  exists d, sys_deadline k t0 t1 md (Some (t0 + r)) = Some (t1 + d) /\
    (1000000 <= r -> (t0 + r) - 1000000 <= t1 + d <= (t0 + r) + (t1 - t0)) /\
    (r < 1000000 -> d = 1000000).
Proof.
  intros k t0 t1 r md Ht Hr Hmd. exists (encode_ms r * 1000000).
  split; [exact (sys_some k t0 t1 md r Hr Hmd)|].
  pose proof (transfer_bounds r). split; intros; lia.
Qed.
Print Assumptions C08_sys_deadline.

(* ... and when the caller has no deadline the handler has none *)
Theorem C08_sys_none : forall (k : rkind) t0 t1 md,
  (forall key v, In (key, v) md -> lower key <> timeout_key) ->
  sys_deadline k t0 t1 md None = None.
Proof. exact sys_none. Qed.
Print Assumptions C08_sys_none.

(* a header value put on the wire by any peer means what it says for both
   kinds: the handler's deadline is its own now + the parsed duration of the
   first grpc-timeout header (any letter case) that is a value, or none *)
Theorem C08_sys_foreign : forall t1 hdrs,
  server_deadline t1 hdrs = match pick hdrs with Some d => Some (t1 + d) | None => None end /\
  forall t0 md dl, sys_deadline KUnary t0 t1 md dl = sys_deadline KStream t0 t1 md dl.
Proof. intros t1 hdrs. split; [reflexivity|]. intros. apply sys_kinds_alike. Qed.
Print Assumptions C08_sys_foreign.

(* non-vacuity: concrete instances of the hypotheses and of both branches *)
Example C08_ex_saturates : parse (B"99999999H") = Some maxInt64.
Proof. vm_compute. reflexivity. Qed.
Example C08_ex_exact : parse (B"2562047H") = Some 9223369200000000000.
Proof. vm_compute. reflexivity. Qed.
Example C08_ex_signed_ignored : parse (B"-5S") = None /\ parse (B"+5S") = None.
Proof. vm_compute. split; reflexivity. Qed.
Example C08_ex_transfer : parse (encode 18000000000000) = Some 18000000000000.
Proof. vm_compute. reflexivity. Qed.
Example C08_ex_pick : pick [(B"x", B"1S"); (B"GRPC-Timeout", B"5S")] = Some 5000000000.
Proof. vm_compute. reflexivity. Qed.
Example C08_ex_sys : sys_deadline KStream 100 350 [(B"x-a", B"v")] (Some (100 + 18000000000000)) = Some (350 + 18000000000000).
Proof. vm_compute. reflexivity. Qed.
Example C08_ex_sys_expired : sys_deadline KUnary 100 100 [] (Some (100 - 3600000000000)) = Some (100 + 1000000).
Proof. vm_compute. reflexivity. Qed.

(* C05 - Multiplexed calls are isolated: unique ids, envelopes reach only their
   owner (client half). Property theorems only; the model is Model/Client.v, the
   proofs are in Proofs/Client{Inv,Log,Props}.v. Every theorem quantifies over
   all label sequences of the LTS: any number of concurrent calls of both kinds,
   ANY inbound envelope sequence (any ids, any interleaving of the envelopes of
   different calls, foreign ids), any order of the enabled internal rules.

   History variables (ghost events of the log): [EvRead e to] - the read loop
   took e from the transport and routed it to call [to] (None: no call is
   registered under its id); [EvTake c e] - call c (its Wait / its stream loop)
   took e from its queue. *)
From Coq Require Import List ZArith Bool.
Import ListNotations.
From Goat Require Import Model.Client Proofs.ClientBase Proofs.ClientInv Proofs.ClientLog Proofs.ClientProps Proofs.ClientRoute Proofs.ClientNI Proofs.ClientFin Proofs.ClientOrder.
From Goat Require Model.Server Proofs.ServerProofs Proofs.ServerInv Proofs.ServerLive Proofs.ServerRoute Proofs.ServerWriter Proofs.ServerOrder.
Open Scope Z_scope.

(* ids: the ids of calls are pairwise distinct as 64-bit values as long as fewer than 2^64 ids have been
   allocated on the connection (the counter wraps after that: explicit hypothesis) *)
Theorem C05_unique : forall ls s, lrun init ls = Some s -> counter s < two64 ->
  forall c1 c2 k1 k2, nth_error (calls s) c1 = Some k1 -> nth_error (calls s) c2 = Some k2 -> c1 <> c2 ->
    0 < k_id k1 -> wire_id k1 <> wire_id k2.
Proof. exact C05_unique_l. Qed.
Print Assumptions C05_unique.

(* ids are handed out by the counter: every id lies in 0..counter (0 = none yet) *)
Theorem C05_counter : forall ls s, lrun init ls = Some s ->
  forall c k, nth_error (calls s) c = Some k -> 0 <= k_id k <= counter s.
Proof. exact C05_counter_l. Qed.
Print Assumptions C05_counter.

(* every id the client puts on the wire belongs to exactly one call *)
Theorem C05_wire : forall ls s, lrun init ls = Some s ->
  forall e, In (EvWrite e) (log s) ->
    exists c k, nth_error (calls s) c = Some k /\ k_id k = eid e /\ 0 < eid e /\
                forall c' k', nth_error (calls s) c' = Some k' -> k_id k' = eid e -> c' = c.
Proof. exact C05_wire_l. Qed.
Print Assumptions C05_wire.

(* routing: a registered call is the one the read loop finds under its id (nobody shadows it) ... *)
Theorem C05_route_found : forall ls s, lrun init ls = Some s ->
  forall c k, nth_error (calls s) c = Some k -> k_reg k = true -> find_reg (k_id k) (calls s) 0 = Some c.
Proof. exact C05_found_l. Qed.
Print Assumptions C05_route_found.

(* ... an envelope is routed only to the call that owns its id; an envelope with an id nobody is registered
   under is logged as unhandled and routed to nobody *)
Theorem C05_route_owner : forall ls s, lrun init ls = Some s ->
  forall e, (forall c, In (EvRead e (Some c)) (log s) -> exists k, nth_error (calls s) c = Some k /\ k_id k = eid e /\ 0 < eid e) /\
            (In (EvRead e None) (log s) -> In (EvUnhandled (eid e)) (log s)).
Proof. exact C05_read_l. Qed.
Print Assumptions C05_route_owner.

(* ... whatever a call takes from its queue was read from the transport, routed to this very call, and carries
   its id; so does what is still queued or held for it *)
Theorem C05_route_take : forall ls s, lrun init ls = Some s ->
  forall c e, In (EvTake c e) (log s) ->
    In (EvRead e (Some c)) (log s) /\ exists k, nth_error (calls s) c = Some k /\ k_id k = eid e /\ 0 < eid e.
Proof. exact C05_take_l. Qed.
Print Assumptions C05_route_take.

Theorem C05_route_queue : forall ls s, lrun init ls = Some s ->
  (forall c k e, nth_error (calls s) c = Some k -> cbuf (k_chan k) = Some e -> eid e = k_id k /\ In (EvRead e (Some c)) (log s)) /\
  (forall c e, rl s = RLHold c e -> In (EvRead e (Some c)) (log s) /\ exists k, nth_error (calls s) c = Some k /\ k_id k = eid e).
Proof. exact C05_queue_l. Qed.
Print Assumptions C05_route_queue.

(* route, EXACT accounting per call c (history invariant; [routed c l] / [taken c l] / [dropped c l] are the
   envelopes of the EvRead _ (Some c) / EvTake c _ / EvDrop c _ events of l, in order): the envelopes the read loop
   routed to c are, in order and once each, those c has taken from its queue, then the one still in its queue,
   then the one the read loop is holding for it, then the dropped one. Hence the sequence a call takes is exactly
   the routed sub-sequence of the read log minus its undelivered tail.
   What is dropped and when: at most ONE envelope per call, namely the envelope the read loop was holding for c
   (c's one-slot queue being full) at the moment it found that c had unregistered (its done channel closed); it
   had been read for c; while c is registered, and while the read loop holds something for c, nothing of c's is
   dropped. Envelopes arriving later for that id are routed to nobody (C05_route_owner: unhandled). *)
Theorem C05_route_exact : forall ls s, lrun init ls = Some s ->
  forall c k, nth_error (calls s) c = Some k ->
    routed c (log s) = taken c (log s) ++ chan_q k ++ held s c ++ dropped c (log s) /\
    (length (dropped c (log s)) <= 1)%nat /\
    (dropped c (log s) <> [] -> k_reg k = false /\ cclosed (k_chan k) = true /\ held s c = []) /\
    (forall e, In (EvDrop c e) (log s) -> In (EvRead e (Some c)) (log s)).
Proof. exact C05_route_exact_l. Qed.
Print Assumptions C05_route_exact.

(* the ORDER of what RecvMsg returns (list level): in every reachable state, for every call, the messages RecvMsg has
   returned - in the order of the returns - are a PREFIX of the bodies of the envelopes the call took for its id, in the
   order it took them, up to its first final envelope (stream_bodies), bodies that do not unmarshal left out (they are
   reported as errors, not messages: good); and while the stream loop is reading with nothing in its hand they are
   exactly those. With C05_route_exact (taken is a prefix of routed, routed = what the read loop read for this call in
   the transport's order) this is the per-call order of delivery from the wire to the caller. [pfx a b] is
   [exists r, b = a ++ r]. *)
Theorem C05_recv_order : forall ls s, lrun init ls = Some s ->
  forall c k, nth_error (calls s) c = Some k ->
    pfx (msgs c (log s)) (good (stream_bodies (taken c (log s)))) /\
    (loop_running k = true -> s_loop k = LRead -> msgs c (log s) = good (stream_bodies (taken c (log s)))).
Proof. exact C05_recv_order_l. Qed.
Print Assumptions C05_recv_order.

(* from the transport to the caller in one statement: what RecvMsg returned is a prefix of the good bodies, before the
   first final envelope, of what the read loop read for this call - in the transport's order *)
Theorem C05_wire_to_caller_order : forall ls s, lrun init ls = Some s ->
  forall c k, nth_error (calls s) c = Some k ->
    pfx (msgs c (log s)) (good (stream_bodies (routed c (log s)))).
Proof.
  intros ls s H c k Hn. destruct (C05_recv_order_l _ _ H _ _ Hn) as [P _].
  destruct (C05_route_exact_l _ _ H _ _ Hn) as [R _]. rewrite R.
  eapply pfx_trans; [exact P|]. apply pfx_good, sb_mono.
Qed.
Print Assumptions C05_wire_to_caller_order.

(* ... and an index that is not a call is routed nothing and takes nothing *)
Theorem C05_route_nobody : forall ls s, lrun init ls = Some s ->
  forall c, (length (calls s) <= c)%nat -> routed c (log s) = [] /\ taken c (log s) = [].
Proof. exact C05_route_nobody_l. Qed.
Print Assumptions C05_route_nobody.

(* non-interference, every API return of call c (record k) is justified by the sub-history carrying c's id - the
   envelopes c itself took from its queue: all carry c's id and were routed to c -, by c's own context, or by the
   connection-wide read failure, and by nothing else:
   - a unary result is the classification of the FIRST envelope c took, or a non-response error [jerr];
   - a stream message is the body of an envelope c took (order: C05_route_exact + the loop hands over in take order);
   - every error of RecvMsg / Header / SendMsg / CloseSend / NewStream [jerr s c k x]: Canceled / DeadlineExceeded only
     if c's OWN context is done, the connection error only if the read failure is recorded, EClosed / EWrite /
     EUnmarshal (c's own unregistration, transport write, message), anything else (status, EOF, reset, undecodable
     metadata) only if an envelope c took says so;
   - Header metadata is the header of the first envelope c took; Trailer metadata is the trailer of an envelope c took. *)
Theorem C05_noninterference : forall ls s, lrun init ls = Some s ->
  forall c k, nth_error (calls s) c = Some k ->
    (forall e, In e (taken c (log s)) -> eid e = k_id k /\ In (EvRead e (Some c)) (log s)) /\
    (forall r, In (EvUnaryRet c r) (log s) -> junary s c k r) /\
    (forall b, In (EvRecvRet c (RMsg b)) (log s) -> exists e, In e (taken c (log s)) /\ ebody e = Some b) /\
    (forall x, In (EvRecvRet c (RErr x)) (log s) -> jerr s c k x) /\
    (forall v, In (EvHeaderRet c v) (log s) -> jlatch s c k v) /\
    (forall t, In (EvTrailerRet c (Some t)) (log s) -> jtrl s c (MdOk t)) /\
    (forall x, In (EvSendRet c (Some x)) (log s) \/ In (EvCloseSendRet c (Some x)) (log s) \/ In (EvOpenRet c (Some x)) (log s) ->
               jerr s c k x).
Proof. exact C05_noninterference_l. Qed.
Print Assumptions C05_noninterference.

(* (the round-1 form, kept: successes are bodies of envelopes of the call) *)
Theorem C05_noninterference_partial : forall ls s, lrun init ls = Some s ->
  (forall c b, In (EvUnaryRet c (UOk b)) (log s) -> backed s c b) /\
  (forall c b, In (EvRecvRet c (RMsg b)) (log s) -> backed s c b).
Proof. exact honest_l. Qed.
Print Assumptions C05_noninterference_partial.

(* ---------- server side (Model/Server.v, proofs in Proofs/ServerRoute.v) ---------- *)
(* Every theorem below is over all label sequences of the server-connection model: any envelopes from the peer,
   any handler behaviour, transport faults, Stop, any interleaving.

   Stream handlers. For handler h (record k, started by envelope [h_req k]): [routed h id l] scans the history l -
   h is the registered entry of its id from its invocation to its unregistration; the envelopes read meanwhile
   that name a stream method, carry that id and are not resets (a reset cancels h instead) are the sub-sequence of
   the inbox that belongs to h. They are, in order and once each: those the read loop settled for h ([settled]:
   put into h's queue, or dropped because h's context was already done), then the one it is holding for h, then
   at most one that it abandoned when it left serve (the connection ended). And the envelopes put into h's queue
   ([fwds]) are, in order and once each, those h took ([takes]) followed by the one still queued. [regflag] =
   the scan's idea of "registered" agrees with the registry. *)
Theorem C05_server_route : forall ls s, Server.lrun Server.init ls = Some s ->
  forall h k, nth_error (Server.hs s) h = Some k -> Server.h_unary k = false ->
    (exists tail, ServerRoute.routed h (Server.fid (Server.h_req k)) (Server.log s)
                  = ServerRoute.settled h (Server.log s) ++ ServerRoute.held s h ++ tail
                  /\ (tail = [] \/ (ServerInv.rd_exited s = true /\ exists f, tail = [f])))
    /\ ServerRoute.fwds h (Server.log s) = ServerRoute.takes h (Server.log s) ++ ServerRoute.queue k
    /\ ServerRoute.regflag h (Server.fid (Server.h_req k)) (Server.log s) = Server.h_reg k.
Proof. exact (ServerRoute.srv_route_exact Server.nworkers). Qed.
Print Assumptions C05_server_route.

(* ... while the read loop serves, nothing is lost: routed = settled ++ held *)
Theorem C05_server_route_serving : forall ls s, Server.lrun Server.init ls = Some s -> ServerInv.rd_exited s = false ->
  forall h k, nth_error (Server.hs s) h = Some k -> Server.h_unary k = false ->
    ServerRoute.routed h (Server.fid (Server.h_req k)) (Server.log s)
    = ServerRoute.settled h (Server.log s) ++ ServerRoute.held s h.
Proof. exact (ServerRoute.srv_route_exact_serving Server.nworkers). Qed.
Print Assumptions C05_server_route_serving.

(* ... and an index that is no handler is routed nothing and takes nothing *)
Theorem C05_server_route_nobody : forall ls s, Server.lrun Server.init ls = Some s ->
  forall h id, (length (Server.hs s) <= h)%nat ->
    ServerRoute.routed h id (Server.log s) = [] /\ ServerRoute.settled h (Server.log s) = []
    /\ ServerRoute.takes h (Server.log s) = [].
Proof. exact (ServerRoute.srv_route_nobody Server.nworkers). Qed.
Print Assumptions C05_server_route_nobody.

(* Unary requests: the envelopes read that name a registered unary method of this server (header present,
   method parses, destination = the server's name) are, in order and once each, those handed to a worker (one
   SvJob event each: exactly one worker, exactly once), then the one on offer, then at most one abandoned when the
   read loop left serve. *)
Theorem C05_server_unary_once : forall ls s, Server.lrun Server.init ls = Some s ->
  exists tail, ServerRoute.ureads (Server.log s) = ServerRoute.jobs (Server.log s) ++ ServerRoute.offered s ++ tail
               /\ (tail = [] \/ (ServerInv.rd_exited s = true /\ exists f, tail = [f])).
Proof. exact (ServerRoute.srv_unary_once Server.nworkers). Qed.
Print Assumptions C05_server_unary_once.

(* ORDER, list level, all runs. For stream handler h (record k): the envelopes h took from its queue, in the order it
   took them, are a sub-sequence ([subseq]: order kept, nothing twice) of the envelopes of its id read from the
   transport during its registration, in the order read - whatever else was interleaved on the wire. If none was
   dropped (a drop happens only once h's context is done) the sequence read is EXACTLY: those taken, then the one
   queued, then the one in the read loop's hands, then at most one abandoned when the connection ended. (The server
   routes by id alone; the source of an envelope plays no part.) *)
Theorem C05_server_order : forall ls s, Server.lrun Server.init ls = Some s ->
  forall h k, nth_error (Server.hs s) h = Some k -> Server.h_unary k = false ->
    ServerWriter.subseq (ServerRoute.takes h (Server.log s)) (ServerRoute.routed h (Server.fid (Server.h_req k)) (Server.log s))
    /\ (ServerOrder.drops h (Server.log s) = [] ->
        exists tail, ServerRoute.routed h (Server.fid (Server.h_req k)) (Server.log s)
                     = ServerRoute.takes h (Server.log s) ++ ServerRoute.queue k ++ ServerRoute.held s h ++ tail
                     /\ (tail = [] \/ (ServerInv.rd_exited s = true /\ exists f, tail = [f]))).
Proof. exact (ServerOrder.srv_stream_order Server.nworkers). Qed.
Print Assumptions C05_server_order.

(* ... and what RecvMsg RETURNED to handler h, in order, is exactly the decoding ([recv_res]: message, EOF, status,
   unmarshal error) of the envelopes it took: with C05_server_order, the messages a handler sees are those the peer
   sent under its id, in the order sent *)
Theorem C05_server_recv_results : forall ls s, Server.lrun Server.init ls = Some s ->
  forall h, ServerOrder.recv_ops h (Server.log s) = map Server.recv_res (ServerRoute.takes h (Server.log s)).
Proof. exact (ServerOrder.srv_recv_results Server.nworkers). Qed.
Print Assumptions C05_server_recv_results.

(* non-vacuity: two streams whose messages are interleaved on the wire, each handler receiving twice: each took its
   own two messages in the order sent, nothing was dropped *)
Example C05_server_order_ex :
  let mk := fun id b => Server.mkFrame (mkEnv id (Some (MdOk 0)) None b None false) (Server.MStream 3) 2 1 in
  exists s, Server.lrun Server.init (ServerLive.labels_of
              [Server.ADeliver (mk 1 None); Server.ADeliver (mk 2 None);
               Server.AHandlerStep 0 Server.HRecv; Server.AHandlerStep 1 Server.HRecv;
               Server.ADeliver (mk 1 (Some 11)); Server.ADeliver (mk 2 (Some 21));
               Server.AHandlerStep 1 Server.HRecv; Server.AHandlerStep 0 Server.HRecv;
               Server.ADeliver (mk 2 (Some 22)); Server.ADeliver (mk 1 (Some 12)); Server.ADeliver (mk 1 (Some 13))]) = Some s
    /\ ServerRoute.takes 0 (Server.log s) = [mk 1 (Some 11); mk 1 (Some 12)]
    /\ ServerRoute.takes 1 (Server.log s) = [mk 2 (Some 21); mk 2 (Some 22)]
    /\ ServerOrder.recv_ops 0 (Server.log s) = [Server.ORecvMsg 11; Server.ORecvMsg 12]
    /\ ServerRoute.routed 0 1 (Server.log s) = [mk 1 (Some 11); mk 1 (Some 12); mk 1 (Some 13)]
    /\ ServerOrder.drops 0 (Server.log s) = [] /\ ServerOrder.drops 1 (Server.log s) = [].
Proof. eexists. vm_compute. repeat split. Qed.

(* non-vacuity of the server theorems: a stream that received two messages (one taken, one queued) and a unary
   request handed to a worker *)
Example C05_server_ex :
  let mk := fun id k b => Server.mkFrame (mkEnv id (Some (MdOk 0)) None b None false) k 2 1 in
  exists s, Server.lrun Server.init (ServerLive.labels_of
              [Server.ADeliver (mk 1 (Server.MStream 3) None); Server.AHandlerStep 0 Server.HRecv;
               Server.ADeliver (mk 1 (Server.MStream 3) (Some 11)); Server.ADeliver (mk 1 (Server.MStream 3) (Some 12));
               Server.ADeliver (mk 7 (Server.MUnary 1) (Some 13))]) = Some s
    /\ length (ServerRoute.routed 0 1 (Server.log s)) = 2%nat /\ length (ServerRoute.takes 0 (Server.log s)) = 1%nat
    /\ length (ServerRoute.jobs (Server.log s)) = 1%nat /\ length (Server.hs s) = 2%nat.
Proof. eexists. vm_compute. repeat split. Qed.

(* ---------- the hypotheses are satisfiable ---------- *)
Definition msg (id b : Z) : env := mkEnv id (Some (MdOk 0)) None (Some b) None false.
Definition reply (id b : Z) : env := mkEnv id (Some (MdOk 0)) None (Some b) (Some (MdOk 0)) false.

(* two calls, the responses interleaved with an envelope for an unknown id: each call sees its own *)
Example C05_ex : exists ls s,
  run_trace [ANewUnary 7 false; ANewStream false; ADeliver (msg 2 50); ADeliver (reply 99 60); ADeliver (reply 1 8); ARecv 1 false] = (ls, s) /\
  lrun init ls = Some s /\ counter s = 2 /\
  In (EvUnaryRet 0 (UOk 8)) (log s) /\ In (EvRecvRet 1 (RMsg 50)) (log s) /\ In (EvUnhandled 99) (log s) /\
  In (EvTake 0 (reply 1 8)) (log s) /\ In (EvRead (reply 99 60) None) (log s) /\ In (EvWrite (req_env 1 7)) (log s) /\
  routed 1 (log s) = [msg 2 50] /\ taken 1 (log s) = [msg 2 50].
Proof. eexists. eexists. split. vm_compute. reflexivity. vm_compute. intuition. Qed.

(* a stream that stops reading: one message taken by its loop, one queued, one held by the read loop; the caller
   cancels: the held one is dropped (the only kind of drop) *)
Example C05_ex_drop : exists ls s,
  run_trace [ANewStream false; ADeliver (msg 1 50); ADeliver (msg 1 51); ADeliver (msg 1 52); ACancel 0] = (ls, s) /\
  lrun init ls = Some s /\ routed 0 (log s) = [msg 1 50; msg 1 51; msg 1 52] /\ taken 0 (log s) = [msg 1 50] /\
  dropped 0 (log s) = [msg 1 52] /\ (exists k, nth_error (calls s) 0 = Some k /\ chan_q k = [msg 1 51] /\ k_reg k = false) /\ held s 0 = [].
Proof. eexists. eexists. split. vm_compute. reflexivity. vm_compute. intuition. eexists. intuition. Qed.

(* the order theorem is not vacuous: three messages (the second does not unmarshal) and the OK trailer, all read *)
Example C05_ex_order : exists ls s,
  run_trace [ANewStream false; ADeliver (msg 1 50); ARecv 0 false; ADeliver (msg 1 (-5)); ARecv 0 false; ADeliver (msg 1 52); ARecv 0 false;
             ADeliver (mkEnv 1 (Some (MdOk 0)) (Some (mkSt 0 0)) None (Some (MdOk 0)) false); ARecv 0 false] = (ls, s) /\
  lrun init ls = Some s /\ msgs 0 (log s) = [50; 52] /\ stream_bodies (taken 0 (log s)) = [50; -5; 52] /\
  good (stream_bodies (taken 0 (log s))) = [50; 52] /\ In (EvRecvRet 0 (RErr EUnmarshal)) (log s) /\ In (EvRecvRet 0 (RErr EEof)) (log s).
Proof. eexists. eexists. split. vm_compute. reflexivity. vm_compute. intuition. Qed.

(* C20 - Interceptors and stats handlers see every RPC exactly once, in order.
   Property theorems only; proofs are in Proofs/ChainProofs.v and Proofs/StatsProofs.v. *)
From Coq Require Import List ZArith Bool.
Import ListNotations.
From Goat Require Import Model.Chain Proofs.ChainProofs Model.Stats Proofs.StatsProofs Model.StatsAuto Proofs.StatsAutoProofs.

(* ---- (a) interceptor chains ---- *)

(* For every non-empty list of interceptors (arbitrary functions over arbitrary
   argument and result types: effects live in the result type) and every final
   handler, the interceptor installed by ChainUnaryInterceptor - built by the
   index recursion getChainUnaryHandler with its [curr == len-1] test - IS the
   nesting in registration order: interceptor 1 around interceptor 2 ... around
   the handler. Equality of functions, hence each stage is invoked exactly as
   often as its predecessor calls its [next] argument, and whatever stage j
   passes to [next] (context, request) is what stage j+1 receives, whatever
   stage j+1 returns (reply, error) is what stage j gets back. *)
Theorem C20_chain : forall (A B : Type) (i0 : interceptor A B) (rest : list (interceptor A B)) (c : interceptor A B),
  chain (i0 :: rest) = Some c -> forall h : handler A B, c h = nest (i0 :: rest) h.
Proof. intros A B. exact chain_is_nest. Qed.
Print Assumptions C20_chain.

(* the stream twin (getChainStreamHandler / ChainStreamInterceptor) *)
Theorem C20_chain_stream : forall (Srv SS E : Type) (i0 : sinterceptor Srv SS E) (rest : list (sinterceptor Srv SS E))
                                  (c : sinterceptor Srv SS E),
  schain (i0 :: rest) = Some c ->
  forall (srv : Srv) (ss : SS) (h : shandler Srv SS E), c srv ss h = snest (i0 :: rest) h srv ss.
Proof. intros Srv SS E. exact schain_is_nest. Qed.
Print Assumptions C20_chain_stream.

(* an empty chain is not an interceptor: the installed closure indexes
   interceptors[0] (panic at the first RPC) *)
Theorem C20_chain_empty : forall (A B : Type), chain (@nil (interceptor A B)) = None.
Proof. intros A B. exact chain_empty. Qed.
Print Assumptions C20_chain_empty.

(* exactly once, in registration order: for logging interceptors t0 .. tn the
   events of one RPC are pre t0 .. pre tn, handler, post tn .. post t0 *)
Theorem C20_chain_order : forall (Req Rep : Type) (t0 : nat) (tags : list nat) c (f : Req -> Rep) (req : Req),
  chain (map logging (t0 :: tags)) = Some c ->
  c (final_of f) req = (f req, map Pre (t0 :: tags) ++ [Handler] ++ map Post (rev (t0 :: tags))).
Proof. intros Req Rep. exact chain_event_order. Qed.
Print Assumptions C20_chain_order.

Theorem C20_chain_order_stream : forall (Srv SS : Type) (t0 : nat) (tags : list nat) c (f : Srv -> SS -> nat) srv ss,
  schain (map slogging (t0 :: tags)) = Some c ->
  c srv ss (sfinal_of f) = (f srv ss, map Pre (t0 :: tags) ++ [Handler] ++ map Post (rev (t0 :: tags))).
Proof. intros Srv SS. exact schain_event_order. Qed.
Print Assumptions C20_chain_order_stream.

(* what they change is what the next stage and finally the handler / the peer
   observes: if stage j rewrites what it passes on by f_j and what it returns by
   g_j, the handler receives f_n (.. (f_1 a)) and the caller of the chain gets
   g_1 (.. (g_n (h ..))) *)
Theorem C20_chain_transform : forall (A B : Type) p0 (ps : list ((A -> A) * (B -> B))) c (h : handler A B) (a : A),
  chain (map (fun p => transform (fst p) (snd p)) (p0 :: ps)) = Some c ->
  c h a = post_all (p0 :: ps) (h (pre_all (p0 :: ps) a)).
Proof. intros A B. exact chain_transform. Qed.
Print Assumptions C20_chain_transform.

(* call sites. Options are applied in order and the interceptor options assign
   one field: with no interceptor option the handler runs (once); with a single
   interceptor i the RPC is i around the handler; with a chain it is the nesting.
   [pre] is any list of earlier options (earlier interceptor options included:
   they are overwritten), [post] later options that do not touch the field. *)
Theorem C20_site_none : forall (A B : Type) (opts : list (sopt A B)) (h : handler A B) (a : A),
  Forall (fun o => o = OOther) opts -> site (installed opts) h a = Some (h a).
Proof. intros A B. exact site_none. Qed.
Print Assumptions C20_site_none.

Theorem C20_site_single : forall (A B : Type) (pre post : list (sopt A B)) (i : interceptor A B) (h : handler A B) (a : A),
  Forall (fun o => o = OOther) post ->
  site (installed (pre ++ OSingle i :: post)) h a = Some (i h a).
Proof. intros A B. exact site_single. Qed.
Print Assumptions C20_site_single.

Theorem C20_site_chain : forall (A B : Type) (pre post : list (sopt A B)) (i0 : interceptor A B) (rest : list (interceptor A B))
                                (h : handler A B) (a : A),
  Forall (fun o => o = OOther) post ->
  site (installed (pre ++ OChain (i0 :: rest) :: post)) h a = Some (nest (i0 :: rest) h a).
Proof. intros A B. exact site_chain. Qed.
Print Assumptions C20_site_chain.

(* client side: a connection has zero or one interceptor per kind (dialoption.go
   offers no chaining); Invoke / NewStream run it exactly once around invoke /
   newStream, or call these directly *)
Theorem C20_client_site : forall (A B : Type) (ic : option (interceptor A B)) (invoke : handler A B) (a : A),
  client_site ic invoke a = match ic with None => invoke a | Some i => i invoke a end.
Proof. intros A B ic invoke a. destruct ic; reflexivity. Qed.
Print Assumptions C20_client_site.

(* non-vacuity: three interceptors (the off-by-one of the recursion only shows from three) *)
Example C20_ex_chain3 :
  match chain (map (@logging nat nat) [1; 2; 3]%nat) with
  | Some c => c (final_of (fun x => x)) 5%nat = (5%nat, [Pre 1; Pre 2; Pre 3; Handler; Post 3; Post 2; Post 1]%nat)
  | None => False
  end.
Proof. vm_compute. reflexivity. Qed.
Example C20_ex_transform :
  match chain (map (fun p => transform (fst p) (snd p)) [(Nat.add 1, Nat.mul 2); (Nat.mul 3, Nat.add 5)])%nat with
  | Some c => c (fun x => x) 1%nat = 22%nat      (* ((1+1)*3 + 5) * 2 *)
  | None => False
  end.
Proof. vm_compute. reflexivity. Qed.
Example C20_ex_site :
  site (installed [OSingle (transform (Nat.add 1) (fun x => x)); OOther; OChain [transform (Nat.mul 2) (fun x : nat => x)]; OOther])
       (fun x => x) 5%nat = Some 10%nat.
Proof. vm_compute. reflexivity. Qed.

(* ---- (b) stats handlers: Model/Stats.v gives, for every role and every exit of
   the code path, the events one installed handler receives for one RPC.
   [wf_finished l b]: l = TagRPC, Begin, plain events, End b - exactly one
   Begin, before every other event; exactly one End, last; b = (End.Error == nil). ---- *)

(* client, unary (invoke + CallUnaryMethod), EVERY exit - marshal error, failed
   open / fail-fast, write failure, cancel, deadline, connection lost, error
   status, malformed reply, undecodable reply, ok; the error may be io.EOF -:
   one Begin first, one End last, End.Error nil iff Invoke returned nil.
   ([cu_wf]: the exits that return an error do return one.) This is the full
   statement since fix 9827a73 (before it the io.EOF exits ended with a nil
   End.Error: former finding client-end-eof-nil). *)
Theorem C20_stats_client_unary : forall x : cu_exit,
  cu_wf x = true -> wf_finished (cu_events x) (cu_success x).
Proof. exact cu_wf_finished. Qed.
Print Assumptions C20_stats_client_unary.

(* client, stream: a failed open (refused on a failed connection - fix D-20a -
   or failing opening write) is a finished, failed RPC *)
Theorem C20_stats_client_stream_open_failed : forall (op : cs_open) (ops : list cs_op),
  op <> CSO_ok -> wf_finished (cs_events op ops) false.
Proof. exact cs_failed_open. Qed.
Print Assumptions C20_stats_client_stream_open_failed.

(* ... and an opened stream, for EVERY sequence of caller calls and arrivals:
   Begin first; no End while nothing ended the stream; exactly one End once
   something did, with Error nil iff the first ending step is a trailer with an
   OK status ([cs_outcome]); after it only the OutTrailer events of CloseSend
   calls made after the end (CloseSend does not look at the stream's state) *)
Theorem C20_stats_client_stream : forall ops : list cs_op,
  match cs_outcome false ops with
  | None => exists mid, cs_events CSO_ok ops = TagRPC :: Begin :: mid /\ Forall (fun e => is_plain e = true) mid
  | Some b => exists mid post, cs_events CSO_ok ops = TagRPC :: Begin :: mid ++ End b :: post /\
                Forall (fun e => is_plain e = true) mid /\ Forall (fun e => e = OutTrailer) post
  end.
Proof. exact cs_open_events. Qed.
Print Assumptions C20_stats_client_stream.

(* server, unary (processUnaryRpc): every handled request is well-formed; End.Error
   is nil iff the handler returned nil - EXCEPT for io.EOF (StatsEndRPC) *)
Theorem C20_stats_server_unary_partial : forall (d : su_dec) (r : res),
  wf_finished (su_events (SU_run d r)) (res_flag r) /\ (r <> REof -> res_flag r = res_ok r).
Proof. intros d r. split; [apply su_wf_finished|apply res_flag_ok]. Qed.
Print Assumptions C20_stats_server_unary_partial.

(* server, stream (runStream + the stream object), for every program of the handler *)
Theorem C20_stats_server_stream_partial : forall (ops : list ss_op) (r : res),
  wf_finished (ss_events (SS_run ops r)) (res_flag r) /\ (r <> REof -> res_flag r = res_ok r).
Proof. intros ops r. split; [apply ss_wf_finished|apply res_flag_ok]. Qed.
Print Assumptions C20_stats_server_stream_partial.

(* the exception is real on the server (finding server-end-eof-nil): a handler
   returning io.EOF ends with End.Error = nil although it failed *)
Theorem C20_stats_end_eof_refuted :
  (exists d r, res_ok r = false /\ wf_finished (su_events (SU_run d r)) true) /\
  (exists ops r, res_ok r = false /\ wf_finished (ss_events (SS_run ops r)) true).
Proof.
  split.
  - exists DecOk, REof. split; [reflexivity|apply (su_wf_finished DecOk REof)].
  - exists [], REof. split; [reflexivity|apply (ss_wf_finished [] REof)].
Qed.
Print Assumptions C20_stats_end_eof_refuted.

(* a request refused before dispatch (undecodable metadata) reaches no stats handler at all *)
Theorem C20_stats_refused :
  su_events SU_bad_metadata = [] /\ ss_events SS_bad_metadata = [] /\
  (* ... nor does a request that was still waiting for a worker when its connection ended *)
  su_events SU_undispatched = [].
Proof. repeat split; reflexivity. Qed.
Print Assumptions C20_stats_refused.

(* exactly one ConnBegin and one ConnEnd (tagged with TagConn's context) per
   served connection, on every exit of serve *)
Theorem C20_conn : forall x : serve_exit, serve_events x = [TagConn; ConnBegin true; ConnEnd true].
Proof. exact serve_conn. Qed.
Print Assumptions C20_conn.

(* the tag clause: for every role, every exit, every number n of installed
   handlers and every handler i < n: each event of the RPC is delivered to handler
   i with a context that carries the value ITS TagRPC stored (depth > i: the
   context TagRPC returned, or one the later handlers' TagRPC derived from it), and
   the events are those of the per-exit lists above *)
Theorem C20_stats_tagged : forall (server : bool) (n i : nat) (evs : list sev),
  i < n ->
  Forall (fun p : sev * nat => S i <= snd p) (tag_depths server n i evs) /\
  map fst (tag_depths server n i evs) = evs.
Proof. intros server n i evs H. split; [apply tag_depths_ge; exact H|apply tag_depths_events]. Qed.
Print Assumptions C20_stats_tagged.

Example C20_ex_tagged :
  tag_depths true 3 1 (su_events (SU_run DecOk RNil)) =
  [(TagRPC, 2); (Begin, 2); (InHeader, 2); (InPayload, 3); (OutHeader, 3); (OutPayload, 3); (OutTrailer, 3); (End true, 3)]%nat.
Proof. vm_compute. reflexivity. Qed.
(* ---- the emission points as a small-step automaton (Model/StatsAuto.v): states
   = program points of invoke / newStream + stream object / processUnaryRpc /
   runStream + stream object between two stats calls, transitions labelled with the
   events emitted, Done = the RPC is over at that role. [apath s evs]: evs is the
   event list of a COMPLETE path from s. ---- *)

(* the per-exit tables of Model/Stats.v are exactly the path language of the
   automaton, role by role (so the rig's per-exit comparison with the tables is a
   comparison with the automaton's paths) *)
Theorem C20_stats_tables_are_paths :
  (forall evs, apath CU_entry evs <-> exists x, cu_wf x = true /\ evs = cu_events x) /\
  (forall evs, apath SU_entry evs <-> exists x, su_ok x /\ evs = su_events x) /\
  (forall evs, apath SS_entry evs <-> evs = ss_events SS_bad_metadata \/ exists ops r, evs = ss_events (SS_run ops r)) /\
  (forall evs, apath CS_entry evs <-> evs = cs_events CSO_refused [] \/ evs = cs_events CSO_write_fail []) /\
  (forall evs, (exists e h, arun CS_entry evs (CS_open e h)) <-> exists ops, evs = cs_events CSO_ok ops).
Proof.
  split; [exact cu_language|]. split; [exact su_language|]. split; [exact ss_language|].
  split; intro evs; apply cs_language.
Qed.
Print Assumptions C20_stats_tables_are_paths.

(* on EVERY complete path of every role (failed open, write failure, cancel,
   handler error, ... included): nothing at all (a request refused before dispatch)
   or the tagging call and exactly one Begin before every other event *)
Theorem C20_stats_begin_first : forall s0 evs,
  s0 = CU_entry \/ s0 = SU_entry \/ s0 = SS_entry \/ s0 = CS_entry -> apath s0 evs ->
  evs = [] \/ exists rest, evs = TagRPC :: Begin :: rest /\ ~ In Begin rest /\ ~ In TagRPC rest.
Proof. exact begin_first_all_paths. Qed.
Print Assumptions C20_stats_begin_first.

(* ... and exactly one End, nothing after it. (An OPENED client stream is not a
   complete path - the object lives on -: for it C20_stats_client_stream, through
   the last clause of C20_stats_tables_are_paths, gives one End and after it only
   the OutTrailer events of late CloseSend calls.) *)
Theorem C20_stats_end_once_last : forall s0 evs,
  s0 = CU_entry \/ s0 = SU_entry \/ s0 = SS_entry \/ s0 = CS_entry -> apath s0 evs ->
  evs = [] \/ exists pre b, evs = pre ++ [End b] /\ forall b', ~ In (End b') pre.
Proof. exact end_once_last_all_paths. Qed.
Print Assumptions C20_stats_end_once_last.

(* order: on every complete path of a unary or server role every InPayload comes
   after the InHeader *)
Theorem C20_stats_order : forall s0 evs,
  s0 = CU_entry \/ s0 = SU_entry \/ s0 = SS_entry -> apath s0 evs -> before InHeader InPayload evs.
Proof. exact inheader_before_inpayload. Qed.
Print Assumptions C20_stats_order.

Example C20_ex_path :
  apath SS_entry [TagRPC; Begin; InHeader; OutHeader; OutHeader; OutPayload; OutTrailer; End false].
Proof.
  apply (proj2 (ss_language _)). right. exists [SSendHeader false; SSendMsg], RErr. reflexivity.
Qed.
Example C20_ex_client_unary_eof :
  cu_wf (CU_early REof) = true /\ cu_events (CU_early REof) = [TagRPC; Begin; OutHeader; OutPayload; End false].
Proof. vm_compute. split; reflexivity. Qed.
Example C20_ex_client_stream :
  cs_events CSO_ok [CSendOk; PMsg; CRecvOk; CCloseSend; PTrailer true; CCloseSend; PFail] =
  [TagRPC; Begin; OutHeader; OutPayload; InHeader; InPayload; OutTrailer; End true; OutTrailer].
Proof. vm_compute. reflexivity. Qed.
Example C20_ex_server_stream :
  ss_events (SS_run [SRecvOk; SSetHeader; SSendMsg; SSendMsg] RErr) =
  [TagRPC; Begin; InHeader; InPayload; OutHeader; OutPayload; OutPayload; OutTrailer; End false].
Proof. vm_compute. reflexivity. Qed.

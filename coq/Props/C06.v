(* C06 - every emitted envelope sequence conforms to the documented wire protocol.
   The automata of the README are Model/Protocol.v (proto_c2s / proto_s2c, per stream
   id and direction). *)
From Coq Require Import List ZArith Bool Lia.
Import ListNotations.
From Goat Require Import Model.Client Model.Protocol Proofs.ClientBase Proofs.ProtocolClient.
From Goat Require Model.Server Model.Sys Proofs.SysC01.
From Goat Require Import Proofs.ServerOrigin Proofs.SysLog Proofs.ServerWriter Proofs.ServerProto Proofs.SysCancel Proofs.ServerTrailer Proofs.ServerUnary Proofs.ServerUnaryProto.
Open Scope Z_scope.

(* Client half. For EVERY run of the client model (any peer, any interleaving of the internal rules with
   the environment: cancellations, deadline expiry, transport failures), with API-conformant users
   ([api_ok]: per stream at most one CloseSend and no Send after it), the envelopes the client wrote for
   stream id [i] are accepted by the client-to-server automaton: a unary call wrote exactly one request;
   a stream wrote one header-only open, then bodies, at most one trailer carrying a status, at most one
   reset, the reset last, nothing after it; every envelope carries the id and a header with a constant
   route ([rt] maps the id to the method / source / destination captured when the call was made).
   The hypothesis on [l_abort] excludes the streams that the client itself aborted because the FIRST
   response carried undecodable metadata: for those the statement is false, see C06_client_refuted. *)
Theorem C06_client : forall ls s rt i,
  lrun init ls = Some s -> api_ok ls ->
  (forall c k, nth_error (calls s) c = Some k -> k_id k = i -> l_abort k = false) ->
  proto_c2s (proj i (map (lift rt) (wr s))) = true.
Proof. exact C06_client_l. Qed.
Print Assumptions C06_client.

(* The full statement (without the l_abort hypothesis) is false of the model of the code as it is:
   the peer's first response has undecodable metadata, the stream loop writes the reset (its context is
   still live) and, before it has unregistered and cancelled the stream context, a CloseSend of the
   user writes its trailer AFTER the reset. *)
Definition refute_ls : list label :=
  [LExt (ANewStream false); LInt 2; LInt 3;
   LExt (ADeliver (mkEnv 1 (Some MdBad) None (Some 5) None false)); LInt 1; LInt 7; LInt 11;
   LExt (ACloseSend 0); LInt 16].

Theorem C06_client_refuted : exists ls s rt i,
  lrun init ls = Some s /\ api_ok ls /\ proto_c2s (proj i (map (lift rt) (wr s))) = false.
Proof.
  exists refute_ls. destruct (lrun init refute_ls) as [s|] eqn:E; [|vm_compute in E; discriminate].
  exists s, (fun _ => (4, 1, 2)), 1. split; [reflexivity|]. split.
  - apply api_okb_sound. vm_compute. reflexivity.
  - vm_compute in E. inversion E; subst. vm_compute. reflexivity.
Qed.
Print Assumptions C06_client_refuted.

(* Server half. For every run of the server model (Model/Server.v: any handler programs, any interleaving, any
   transport behaviour) every envelope the server writes answers an envelope it has read - it carries the id of a
   received envelope ("a server emits envelopes only for ids it has received"), echoes its method, and has the
   request's source and destination exchanged. *)
Theorem C06_server_origin : forall nw ls (s : Server.state) f,
  Server.lrun (Server.init_n nw) ls = Some s -> In (Server.SvWrite f) (Server.log s) ->
  exists g, In (Server.SvRead g) (Server.log s) /\ Server.fid f = Server.fid g /\
            Server.f_src f = Server.f_dst g /\ Server.f_dst f = Server.f_src g /\ Server.f_mth f = Server.f_mth g.
Proof. exact ServerOrigin.C06_server_origin_l. Qed.
Print Assumptions C06_server_origin.

(* C06_server, streams. [sconf i reads] is the peer's side of the bargain for stream id i, a condition on the envelopes
   the server has READ (what C06_client guarantees of the Go client): no unary-method envelope carries the id, only the
   FIRST envelope of the id is header-only (ids are not reused for a second stream), method / source / destination of
   the id's envelopes are constant. Then, for every run, the envelopes of id i that the server has WRITTEN (in wire
   order; `written` of sv's Proofs/ServerWriter.v) are accepted by the server-to-client automaton: at most one
   header-only envelope and only first, bodies, at most one trailer carrying a status, response metadata only on the
   first envelope, after the trailer only resets, nothing but resets after a reset; constant route.
   Proof: invariant [pinv] on the envelopes handed to the writer per id, coupled with the handler's program counter
   and its headersSent flag (Proofs/ServerProto.v) + sv's writer accounting (written is a subsequence of taken) + the
   automaton is closed under subsequences. *)
Theorem C06_server_stream : forall nw ls (s : Server.state) i,
  Server.lrun (Server.init_n nw) ls = Some s -> sconf i (sreads (Server.log s)) ->
  proto_s2c false (proj i (map pf (written (Server.log s)))) = true.
Proof. exact ServerProto.C06_server_stream_l. Qed.
Print Assumptions C06_server_stream.

(* C06_reset_order: on the wire, no trailer of a stream id follows a reset of that id (the reset never overtakes
   the trailer: D-06a stays repaired) *)
Theorem C06_reset_order : forall nw ls (s : Server.state) i pre r post,
  Server.lrun (Server.init_n nw) ls = Some s -> sconf i (sreads (Server.log s)) ->
  proj i (map pf (written (Server.log s))) = pre ++ r :: post -> Protocol.is_rst r = true ->
  forall t, In t post -> is_trailer t = false.
Proof. exact ServerProto.C06_reset_order_l. Qed.
Print Assumptions C06_reset_order.

(* C06_sys: end to end, on the product model Model/Sys.v (client x server x two FIFO wires). For every run of the system
   with API-conformant users and every stream call of the client that was not aborted: the envelopes the SERVER writes
   for the call's id are accepted by proto_s2c and the envelopes the CLIENT writes for it by proto_c2s. (What the
   client puts on the wire satisfies [sconf] - lemma C06_sys_sconf - and the server reads a prefix of it.) *)
Theorem C06_sys : forall pol ls (s : Sys.state) c k,
  Sys.lrun pol Sys.init ls = Some s -> api_ok (Sys.proj_c pol Sys.init ls) ->
  nth_error (calls (Sys.cl s)) c = Some k -> k_pc k = POpen -> l_abort k = false ->
  proto_s2c false (proj (k_id k) (map pf (written (Server.log (Sys.sv s))))) = true /\
  forall rt, proto_c2s (proj (k_id k) (map (lift rt) (wr (Sys.cl s)))) = true.
Proof. exact SysCancel.C06_sys_l. Qed.
Print Assumptions C06_sys.

(* C06_trailer_present: in every reachable state of the server model, for every STREAM handler that has returned
   (program counter at unregisterStream or past it), a trailer envelope of its stream id was handed to the writer - and
   was then written, refused by the transport, or is in the writer's Write call ([writer_fate]) - unless the handler's
   context was done when it offered the trailer (rule r_h_send_ctx: the select in the server's write path took
   ctx.Done): then the envelope may be given up (SvLost), and in that case the caller's reset for the id had been read
   or the connection's context was done (the context given to Serve cancelled, or Serve leaving): [excused].
   The model has no GRPC-Timeout: the handler's OWN deadline (finding trailer-lost-on-handler-deadline) is outside it. *)
Theorem C06_trailer_present : forall nw ls (s : Server.state) h k,
  Server.lrun (Server.init_n nw) ls = Some s -> nth_error (Server.hs s) h = Some k -> Server.h_unary k = false ->
  returned k ->
  exists f, Server.fid f = Server.fid (Server.h_req k) /\ is_trailer (pf f) = true /\
            ((In (Server.SvTaken f) (Server.log s) /\ writer_fate s f) \/
             (In (Server.SvLost f) (Server.log s) /\ excused s k)).
Proof. exact ServerTrailer.C06_trailer_present_l. Qed.
Print Assumptions C06_trailer_present.

(* C06_server, unary half. [uconf i log] is the peer's side for id i: every envelope READ with id i is a unary-method
   request and there is at most one such envelope (what C06_client gives for a unary call: exactly one request). Then,
   for every run, the server WRITES at most one envelope of id i, and that envelope has a header and a trailer, is no
   reset and carries a unary method. Assembly (Proofs/ServerUnaryProto.v) of sv's Proofs/ServerUnary.v (shape and
   count of the unary responses taken by the writer), ServerRoute.v (the unary envelopes read are, in order, the jobs
   handed to workers), ServerWriter.v (written is a subsequence of taken), ServerOrigin.v (method echoed).
   NOT PROVED: "a body or a non-OK status" (needs a hypothesis on unary handler programs: a reply or an error) and
   "exactly one" beyond sv's srv_unary_exactly_once (idle workers, live connection: every job's response was taken);
   the automaton's acceptance of the unary projection is checked on the real server by the monitor. *)
Theorem C06_server_unary : forall nw ls (s : Server.state) i,
  Server.lrun (Server.init_n nw) ls = Some s -> uconf i (Server.log s) ->
  (length (idf i (written (Server.log s))) <= 1)%nat /\
  forall f, In f (idf i (written (Server.log s))) -> ushape f = true /\ umth f = true.
Proof. exact ServerUnaryProto.C06_server_unary_l. Qed.
Print Assumptions C06_server_unary.

(* the hypotheses of C06_client are met by a non-trivial run: open, two bodies, half-close, then the
   caller cancels: the client wrote open, body, body, trailer, reset - and the automaton accepts it *)
Definition ex_acts : list act :=
  [ANewStream false; ASend 0 7; ASend 0 8; ACloseSend 0; ANewUnary 9 false; ACancel 0].

Example C06_client_applies :
  let (ls, s) := run_trace ex_acts in
  lrun init ls = Some s /\ api_okb ls = true /\
  forallb (fun k => negb (l_abort k)) (calls s) = true /\
  map (fun e => (eid e, erst e)) (wr s) = [(1, false); (1, false); (1, false); (1, false); (2, false); (1, true)] /\
  proto_c2s (proj 1 (map (lift (fun _ => (4, 1, 2))) (wr s))) = true.
Proof. vm_compute. repeat split; reflexivity. Qed.

(* the automaton is not trivially true: it rejects a body after the trailer, a second trailer, anything
   after the reset, a route that changes, a stream that does not begin with a header-only envelope *)
Example proto_c2s_rejects :
  let h := Some (mkHd 4 1 2 0) in
  let o := mkP 1 h None None None false in
  let b := mkP 1 h None (Some 7) None false in
  let t := mkP 1 h (Some 0) None (Some 0) false in
  let r := mkP 1 h None None None true in
  (proto_c2s [o; b; t; r], proto_c2s [o; t; b], proto_c2s [o; t; t], proto_c2s [o; r; b], proto_c2s [o; r; t],
   proto_c2s [o; r; r], proto_c2s [o; o], proto_c2s [b; b], proto_c2s [t],
   proto_c2s [o; mkP 1 (Some (mkHd 4 2 1 0)) None (Some 7) None false])
  = (true, false, false, false, false, false, false, false, false, false).
Proof. vm_compute. reflexivity. Qed.

(* the hypotheses of C06_server_stream are met by a non-trivial run: sy's end-to-end demo of a bidirectional stream
   (two messages echoed, half-close, the handler returns nil) projected on the server: the peer's envelopes satisfy
   [sconf], the server wrote message, message, trailer for the stream's id - accepted *)
Example C06_server_applies :
  match Sys.lrun Sys.pol_any Sys.init SysC01.demo_c02 with
  | Some s =>
      sconfb 1 (sreads (Server.log (Sys.sv s))) = true /\
      map (fun f => (Server.has_body f, Server.has_trl f)) (idf 1 (written (Server.log (Sys.sv s)))) = [(true, false); (true, false); (false, true)] /\
      proto_s2c false (proj 1 (map pf (written (Server.log (Sys.sv s))))) = true
  | None => False
  end.
Proof. vm_compute. repeat split; reflexivity. Qed.

(* C06_trailer_present is not vacuous: in the same run the stream handler has returned, nothing excuses a lost trailer
   (no reset read, the connection's context live), and its trailer is on the wire *)
Example C06_trailer_applies :
  match Sys.lrun Sys.pol_any Sys.init SysC01.demo_c02 with
  | Some s =>
      existsb (fun k => negb (Server.h_unary k) && match Server.h_pc k with Server.HUnreg | Server.HDead => true | _ => false end)
              (Server.hs (Sys.sv s)) = true /\
      Server.cctx_done (Sys.sv s) = false /\
      existsb Server.is_rst (sreads (Server.log (Sys.sv s))) = false /\
      existsb (fun f => is_trailer (pf f)) (written (Server.log (Sys.sv s))) = true
  | None => False
  end.
Proof. vm_compute. repeat split; reflexivity. Qed.

(* ====================== server side, appended by builder sv (round 8; cw's theorems above are untouched) ======================
   Proofs in Proofs/ServerRstOrigin.v (over sv's reset accounting, Proofs/ServerResetW.v). Model/Server.v, all label sequences. *)
From Goat Require Proofs.ServerResetW Proofs.ServerRstOrigin Proofs.ServerLive.

(* "a server reset answers a body for an unknown stream", all runs: EVERY reset the transport accepted is [rst_reply f] -
   f's id and method, source and destination swapped - for an envelope f that the server read BEFORE (the history splits
   as l1 ++ SvRead f :: l2): a stream-method envelope addressed to it, not itself a reset, carrying a body or - with
   neither body nor trailer - undecodable metadata ([calls_for_reset]), whose id was not open at that point (no handler
   invoked for it and not yet unregistered in l1: never opened, or no longer known). Nothing else makes the server write a
   reset. (The converse, one reset per such envelope, in order: C12_reset_accounting / C12_reset_written.) *)
Theorem C06_server_reset_only_answers_unknown_body : forall ls (s : Server.state) r,
  Server.lrun Server.init ls = Some s -> In (Server.SvWrite r) (Server.log s) -> Server.is_rst r = true ->
  exists f l1 l2, r = Server.rst_reply f /\ Server.log s = l1 ++ Server.SvRead f :: l2
                  /\ ServerResetW.calls_for_reset f = true
                  /\ ServerResetW.id_open (fst (ServerResetW.dscan l1)) (Server.fid f) = false.
Proof. intros ls s r. exact (ServerRstOrigin.srv_reset_only_answers Server.nworkers ls s r). Qed.
Print Assumptions C06_server_reset_only_answers_unknown_body.

(* non-vacuity: a stream is opened and closed by its handler; a body for its id arrives afterwards (no longer known) and
   one for an id never opened: two resets on the wire, in that order *)
Definition sv6_frame (id : Z) (b : option Z) : Server.frame :=
  Server.mkFrame (mkEnv id (Some (MdOk 0)) None b None false) (Server.MStream 3) 2 1.
Definition sv6_state (acts : list Server.act) : Server.state :=
  match Server.lrun Server.init (ServerLive.labels_of acts) with Some s => s | None => Server.init end.
Definition sv6_acts : list Server.act :=
  [ Server.ADeliver (sv6_frame 1 None); Server.AHandlerStep 0 (Server.HReturn None Server.HNil);
    Server.ADeliver (sv6_frame 1 (Some 11)); Server.ADeliver (sv6_frame 2 (Some 12)) ].
Example C06_server_reset_ex :
  exists s, Server.lrun Server.init (ServerLive.labels_of sv6_acts) = Some s
    /\ filter Server.is_rst (written (Server.log s)) = [Server.rst_reply (sv6_frame 1 (Some 11)); Server.rst_reply (sv6_frame 2 (Some 12))]
    /\ ServerResetW.rst_due (Server.log s) = [sv6_frame 1 (Some 11); sv6_frame 2 (Some 12)].
Proof. exists (sv6_state sv6_acts). vm_compute. repeat split. Qed.

(* ---------------------- unary, server side: exactly one response, its full shape (sv, round 8; Proofs/ServerUnaryOne.v) ---------------------- *)
From Goat Require Proofs.ServerUnaryOne.

(* EXACTLY one, without [uconf]: wherever a live connection (no Stop, no failed write: hctx_done = false) is at rest with
   a transport that does not block writes - in particular in every FINAL state of the closed system (ServerClosed.final
   implies quiescent; such a state is reached: C10_closed_reaches_final, within [measure] steps: C10_closed_terminates) -,
   per id i: the unary requests of id i handed to workers (C05_server_unary_once: in order, once each, those read) are
   exactly as many as the unary-method envelopes of id i on the wire plus the workers still RUNNING a handler for such a
   request (no worker is left holding a response). So every dispatched unary request whose handler has returned - or that
   the worker refused as undecodable - has exactly ONE response envelope on the wire, one whose handler still runs has
   none, and nothing else with a unary method and that id is ever written. *)
Theorem C06_server_unary_exactly_one : forall ls (s : Server.state) i,
  Server.lrun Server.init ls = Some s ->
  Server.quiescent s = true -> Server.wblock s = false -> Server.hctx_done s = false ->
  cnt i (ServerUnary.jobs (Server.log s)) = (cnt i (ServerUnaryOne.uwritten (Server.log s)) + busy i s)%nat
  /\ (forall w p, nth_error (Server.wk s) w = Some p -> busyp i (Server.hs s) p = true -> exists h, p = Server.WkRun h).
Proof. intros ls s i. exact (ServerUnaryOne.srv_unary_exactly_one Server.nworkers ls s i). Qed.
Print Assumptions C06_server_unary_exactly_one.

(* its shape, all runs: every unary-method envelope the transport accepted is a unary response in the sense of the
   protocol text ([uresp] = Protocol.is_unary_resp on frames: header, trailer, no reset, AND a body or a non-OK status) -
   or it is [unary_reply k rep e] built from a handler that itself returned neither a reply nor a non-OK error
   ([ret_ok rep e = false]: rep = None and e nil or a status error with code OK). The latter is a fact about the handler
   PROGRAM, not about the library: a generated grpc handler returns a non-nil reply whenever its error is nil. With
   C06_server_origin (id, method, source/destination mirror a request read) this is the full shape. *)
Theorem C06_server_unary_resp_shape : forall ls (s : Server.state) f,
  Server.lrun Server.init ls = Some s -> In (Server.SvWrite f) (Server.log s) -> umth f = true ->
  ServerUnaryOne.uresp f = true
  \/ exists k rep e, f = Server.unary_reply k rep e /\ ServerUnaryOne.ret_ok rep e = false.
Proof. intros ls s f. exact (ServerUnaryOne.srv_unary_resp_full Server.nworkers ls s f). Qed.
Print Assumptions C06_server_unary_resp_shape.

(* [uconf i] (hypothesis of C06_server_unary) speaks of what the server READS: it is a hypothesis on the PEER and cannot be
   discharged by a theorem about the server alone; for goat's own client it is C06_client (one request envelope per unary
   call) + C05_unique (ids pairwise distinct). It is satisfiable (first Example: its two conjuncts in boolean form) and needed for "at most one envelope of
   id i" (second Example: two unary requests with EQUAL ids, e.g. from two clients sharing the connection, are both
   answered: two envelopes of that id) - which is why C06_server_unary_exactly_one counts per request instead. *)
Definition sv6u_frame (id src : Z) (b : Z) : Server.frame :=
  Server.mkFrame (mkEnv id (Some (MdOk 0)) None (Some b) None false) (Server.MUnary 1) src 1.
Definition sv6u_one : list Server.act :=
  [ Server.ADeliver (sv6_frame 1 None); Server.ADeliver (sv6u_frame 9 2 5); Server.AHandlerStep 1 (Server.HReturn (Some 6) Server.HNil) ].
Definition sv6u_two : list Server.act :=
  [ Server.ADeliver (sv6u_frame 7 2 5); Server.ADeliver (sv6u_frame 7 3 5);
    Server.AHandlerStep 0 (Server.HReturn (Some 6) Server.HNil); Server.AHandlerStep 1 (Server.HReturn None (Server.HStatus 5 0)) ].

Example C06_server_unary_one_ex :
  exists s, Server.lrun Server.init (ServerLive.labels_of sv6u_one) = Some s
    /\ cnt 9 (ServerRoute.ureads (Server.log s)) = 1%nat
    /\ forallb (fun e => match e with Server.SvRead g => negb (Server.fid g =? 9) || ServerRoute.is_unary_req g | _ => true end) (Server.log s) = true
    /\ Server.quiescent s = true /\ Server.wblock s = false /\ Server.hctx_done s = false
    /\ cnt 9 (ServerUnary.jobs (Server.log s)) = 1%nat /\ cnt 9 (ServerUnaryOne.uwritten (Server.log s)) = 1%nat /\ busy 9 s = 0%nat
    /\ forallb ServerUnaryOne.uresp (ServerUnaryOne.uwritten (Server.log s)) = true.
Proof. exists (sv6_state sv6u_one). vm_compute. repeat split. Qed.

Example C06_server_unary_uconf_needed :
  exists s, Server.lrun Server.init (ServerLive.labels_of sv6u_two) = Some s
    /\ Server.quiescent s = true /\ Server.wblock s = false /\ Server.hctx_done s = false
    /\ cnt 7 (ServerRoute.ureads (Server.log s)) = 2%nat /\ length (idf 7 (written (Server.log s))) = 2%nat
    /\ cnt 7 (ServerUnary.jobs (Server.log s)) = 2%nat /\ busy 7 s = 0%nat
    /\ forallb ServerUnaryOne.uresp (ServerUnaryOne.uwritten (Server.log s)) = true.
Proof. exists (sv6_state sv6u_two). vm_compute. repeat split. Qed.

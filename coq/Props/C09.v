(* C09 - When the client's transport fails, every call fails promptly and none
   hangs. Property theorems only; the model is Model/Client.v (as the code is
   after the D-09 fix: the read error is re-checked inside the registration
   critical section), the proofs are in Proofs/Client{Inv,Log,Live,Props}.v.
   Every theorem quantifies over all label sequences: the read failure after ANY
   prefix of ANY inbound envelope sequence, writes failing or succeeding, calls
   started before, concurrently with (parked between the fail-fast check and the
   registration) and after the failure, any order of the enabled internal rules.

   [rerr s = true]: the read loop has recorded the failure (closeError ran). *)
From Coq Require Import List ZArith Bool.
Import ListNotations.
From Goat Require Import Model.Client Proofs.ClientBase Proofs.ClientInv Proofs.ClientLog Proofs.ClientLive Proofs.ClientProps Proofs.ClientTerm Proofs.ClientAfter Proofs.ClientRoute Proofs.ClientNI Proofs.ClientExact.
Open Scope Z_scope.

(* (Q) settles: after the failure, in every quiescent state, a call none of whose threads the environment holds
   at a yield point has nothing pending: not Invoke / NewStream, no RecvMsg, SendMsg / CloseSend, Header, Trailer *)
Theorem C09_settles : forall ls s, lrun init ls = Some s -> quiescent s = true -> rerr s = true ->
  forall c k, nth_error (calls s) c = Some k -> parked k = false -> any_pending k = false.
Proof. exact C09_settles_l. Qed.
Print Assumptions C09_settles.

(* ... the registry is empty, the read loop is dead, and a stream loop is alive only while it holds a message
   that no RecvMsg has come to take (it dies with the next RecvMsg or with the stream's context) *)
Theorem C09_dead : forall ls s, lrun init ls = Some s -> rerr s = true -> rl s = RLDead /\ registry_size s = 0%nat.
Proof. exact C09_unreg_l. Qed.
Print Assumptions C09_dead.

Theorem C09_loops : forall ls s, lrun init ls = Some s -> quiescent s = true -> rerr s = true ->
  forall c k, nth_error (calls s) c = Some k -> loop_alive k = true -> exists b, s_loop k = LHand b /\ s_recv k <> RSel.
Proof. exact C09_loops_l. Qed.
Print Assumptions C09_loops.

(* no fabrication: a success - before or after the failure - carries the body of an envelope that the call took
   from its queue, that had been read from the transport with the call's id *)
Theorem C09_no_fabrication : forall ls s, lrun init ls = Some s ->
  (forall c b, In (EvUnaryRet c (UOk b)) (log s) -> backed s c b) /\
  (forall c b, In (EvRecvRet c (RMsg b)) (log s) -> backed s c b).
Proof. exact honest_l. Qed.
Print Assumptions C09_no_fabrication.

(* calls started afterwards: the failure is sticky, and a call that reaches its fail-fast check - or, having
   passed the check before the failure, its registration (the D-09 window) - returns the connection error in
   that very step: it does not register, write or wait *)
Theorem C09_sticky : forall s ls s', rerr s = true -> lrun s ls = Some s' -> rerr s' = true.
Proof. exact C09_sticky_l. Qed.
Print Assumptions C09_sticky.

Theorem C09_failfast : forall s c k, rerr s = true -> nth_error (calls s) c = Some k ->
  (forall park, k_pc k = PCheck park ->
     exists s', r_check c s = Some s' /\
       log s' = log s ++ [if k_unary k then EvUnaryRet c (UErr EConn) else EvOpenRet c (Some EConn)] /\
       exists k', nth_error (calls s') c = Some k' /\ call_pending k' = false /\ k_reg k' = k_reg k) /\
  (k_pc k = PReg ->
     exists s', r_reg c s = Some s' /\
       log s' = log s ++ [if k_unary k then EvUnaryRet c (UErr EConn) else EvOpenRet c (Some EConn)] /\
       exists k', nth_error (calls s') c = Some k' /\ call_pending k' = false /\ k_reg k' = k_reg k).
Proof. exact C09_failfast_l. Qed.
Print Assumptions C09_failfast.

(* when is an injected read failure NOT yet recorded ([rerr s = false]) in a quiescent state? Only when the read loop
   cannot get to its next Read: it is holding an envelope for a registered call whose one-slot queue is full - a
   stream whose caller does not read (head-of-line blocking; the transport's Read has not been called again, so nobody
   has observed the failure). Until that caller reads, cancels or its context ends, every other call keeps waiting:
   C09's "once reading has failed" starts when the read loop sees the error (see docs/COVERAGE.md, C09 and C11). *)
Theorem C09_unrecorded_only_behind_a_full_queue : forall ls s, lrun init ls = Some s -> quiescent s = true ->
  inbox_failed s = true -> rerr s = false ->
  exists c e k, rl s = RLHold c e /\ nth_error (calls s) c = Some k /\ k_reg k = true /\ is_some (cbuf (k_chan k)) = true.
Proof. exact C09_unrecorded_l. Qed.
Print Assumptions C09_unrecorded_only_behind_a_full_queue.

(* calls started afterwards, as ONE trace theorem: in every run, once the failure is recorded (state s1), a call
   whose ANew.. action comes later (index >= the number of calls issued so far) never registers, never takes an
   envelope, has no stream-loop, and the only thing it ever returns - in every later state s2, whatever the
   environment and the peer do - is the connection error: never UOk, never RMsg, never a nil open error; and in
   every quiescent s2 it HAS returned (it does not wait, parked or not) *)
Theorem C09_after_fails : forall ls1 s1 ls2 s2,
  lrun init ls1 = Some s1 -> rerr s1 = true -> lrun s1 ls2 = Some s2 ->
  forall c, (length (calls s1) <= c)%nat ->
    (forall r, In (EvUnaryRet c r) (log s2) -> r = UErr EConn) /\
    (forall r, In (EvOpenRet c r) (log s2) -> r = Some EConn) /\
    (forall r, ~ In (EvRecvRet c r) (log s2)) /\ (forall e, ~ In (EvTake c e) (log s2)) /\
    (forall k, nth_error (calls s2) c = Some k ->
       k_reg k = false /\ loop_alive k = false /\
       (quiescent s2 = true -> call_pending k = false /\ (k_pc k = PRet \/ k_pc k = POpenFailed))).
Proof. exact C09_after_l. Qed.
Print Assumptions C09_after_fails.

(* "... or the exact result, if its complete response had already been delivered": the failure never overtakes a
   delivered envelope. A stream whose read loop ended with the connection error (what every later RecvMsg / SendMsg
   then reports) had nothing left that was read for it: its queue is empty, the read loop holds nothing for it, and
   every envelope the read loop ever routed to it it had taken (at most one was lost, by the stream's own earlier
   unregistration: C05_route_exact). So a reply / final status / message that reached the call's queue before the
   failure was recorded is always what the call gets first. (Unary calls take their reply the moment it is queued;
   on the observed histories this is spec reason 10.) *)
Theorem C09_exact_result : forall ls s, lrun init ls = Some s ->
  forall c k, nth_error (calls s) c = Some k -> l_rerr k = Some EConn ->
    rerr s = true /\ chan_q k = [] /\ held s c = [] /\ routed c (log s) = taken c (log s) ++ dropped c (log s).
Proof. exact C09_exact_l. Qed.
Print Assumptions C09_exact_result.

(* the VALUE of the transport's read error does not matter. The model is parametric in it (AFailRead carries no
   value: the recorded error is the token EConn whatever Read failed with, io.EOF included; the stream loop turns it
   into a status, never into io.EOF; that the real code is just as indifferent is CHECKED on every run for eight
   error values - io.EOF, wrapped EOF, websocket-style EOF, ErrUnexpectedEOF, context errors, a status error - by
   TestC09Errors, whose observations must equal the model's). In every run RecvMsg reports the clean end of the
   stream (io.EOF, "completed with status OK") only if an envelope the call took carries a trailer with an OK
   status (or none); so a read failure, after any prefix and without a trailer, never yields a successful end. *)
Theorem C09_eof_not_success : forall ls s, lrun init ls = Some s ->
  forall c k, nth_error (calls s) c = Some k ->
    (In (EvRecvRet c (RErr EEof)) (log s) -> exists e, In e (taken c (log s)) /\ final_of e = Some EEof) /\
    (In (EvHeaderRet c (inr EEof)) (log s) -> exists e, In e (taken c (log s)) /\ final_of e = Some EEof).
Proof. exact C09_eof_not_success_l. Qed.
Print Assumptions C09_eof_not_success.

(* (T) no live-lock. [mu] (Proofs/ClientTerm.v) weighs the unread transport input (8 per envelope), the read loop
   (holding 8 > reading 1 > dead 0) and per call 5 x the rank of the call thread + the ranks of the stream loop and
   of RecvMsg + the operations waiting + 6 for a queued envelope. EVERY internal rule - in every state, reachable or
   not, whatever the environment did before - strictly decreases it: *)
Theorem C09_measure : forall s n s', lstep s (LInt n) = Some s' -> (mu s' < mu s)%nat.
Proof. exact C09_measure_l. Qed.
Print Assumptions C09_measure.

(* ... hence every run of internal rules from s has at most [mu s] steps (every maximal one is finite) ... *)
Theorem C09_terminates : forall s ns s', lrun s (map LInt ns) = Some s' -> (length ns + mu s' <= mu s)%nat.
Proof. exact C09_terminates_l. Qed.
Print Assumptions C09_terminates.

(* ... a run that cannot be extended by an internal rule ends in a quiescent state, and from every state one is
   reached by internal rules alone *)
Theorem C09_maximal_quiescent : forall s, (forall n, lstep s (LInt n) = None) -> quiescent s = true.
Proof. exact maximal_quiescent_l. Qed.
Print Assumptions C09_maximal_quiescent.

Theorem C09_reaches_quiescent : forall s,
  exists ns s', lrun s (map LInt ns) = Some s' /\ quiescent s' = true /\ (length ns <= mu s)%nat.
Proof. exact C09_reaches_quiescent_l. Qed.
Print Assumptions C09_reaches_quiescent.

(* ---------- the hypotheses are satisfiable ---------- *)
Definition reply (id b : Z) : env := mkEnv id (Some (MdOk 0)) None (Some b) (Some (MdOk 0)) false.

(* a unary call answered before the failure, one waiting, a stream with a RecvMsg waiting, a caller parked in the
   D-09 window and released after the failure, a call started after it: everything has returned *)
Example C09_ex : exists ls s,
  run_trace [ANewUnary 7 false; ADeliver (reply 1 8); ANewUnary 9 false; ANewStream false; ARecv 2 false; ANewUnary 5 true;
             AFailRead; ARelease 3; ANewUnary 6 false; ANewStream false] = (ls, s) /\
  lrun init ls = Some s /\ quiescent s = true /\ rerr s = true /\
  forallb (fun k => negb (parked k) && negb (any_pending k)) (calls s) = true /\
  In (EvUnaryRet 0 (UOk 8)) (log s) /\ In (EvUnaryRet 1 (UErr EClosed)) (log s) /\ In (EvRecvRet 2 (RErr EConn)) (log s) /\
  In (EvUnaryRet 3 (UErr EConn)) (log s) /\ In (EvUnaryRet 4 (UErr EConn)) (log s) /\ In (EvOpenRet 5 (Some EConn)) (log s).
Proof. eexists. eexists. split. vm_compute. reflexivity. vm_compute. intuition. Qed.

(* ... and such a state exists: a stream that does not read, three responses (one offered by its loop, one queued,
   one held by the read loop), a unary call in flight, then the read fails: quiescent, failure not recorded, the
   unary call still waiting *)
Example C09_ex_unrecorded : exists ls s,
  run_trace [ANewStream false; ANewUnary 7 false; ADeliver (mkEnv 1 (Some (MdOk 0)) None (Some 50) None false);
             ADeliver (mkEnv 1 (Some (MdOk 0)) None (Some 51) None false); ADeliver (mkEnv 1 (Some (MdOk 0)) None (Some 52) None false);
             AFailRead] = (ls, s) /\
  lrun init ls = Some s /\ quiescent s = true /\ inbox_failed s = true /\ rerr s = false /\ rl_blocked s = true /\
  (exists k, nth_error (calls s) 1 = Some k /\ k_pc k = PWait).
Proof. eexists. eexists. split. vm_compute. reflexivity. vm_compute. intuition. eexists. intuition. Qed.

(* C15 - API-permitted concurrent use is free of data races (PARTIAL).
   Property theorems only; proofs are in Proofs/AccessProofs.v. *)
From Coq Require Import List ZArith Bool Lia.
Import ListNotations.
From Goat Require Import Model.Access Proofs.AccessProofs.
Open Scope Z_scope.

(* the classical lockset statement: if every location is consistently guarded
   by one mutex, or only accessed atomically, or confined to one thread, or
   written only by one thread before a publishing event that every other
   thread's access is after, then no well-formed trace has two conflicting
   accesses that happens-before does not order *)
Theorem C15_lockset_sound_classes : forall tr,
  wf_trace tr -> (forall l, exists d, obeys tr l d) -> race_free tr.
Proof. exact lockset_sound_classes. Qed.
Print Assumptions C15_lockset_sound_classes.

(* the table form used by the check: a trace all of whose accesses come from
   rows of the table (holding the mutexes the row says, honouring the row's
   justification class) has no data race when the boolean checker accepts the
   table - the sites may guard one field by different mutexes as long as every
   two sites of the field are pairwise safe *)
Theorem C15_lockset_sound : forall tbl tr I,
  wf_trace tr -> conforms tbl tr I -> race_free_table tbl = true -> race_free tr.
Proof. exact lockset_sound. Qed.
Print Assumptions C15_lockset_sound.

(* what the checker decides *)
Theorem C15_checker_spec : forall tbl,
  race_free_table tbl = true <->
  forall r1 r2, In r1 tbl -> In r2 tbl -> r_field r1 = r_field r2 -> pair_safe r1 r2 = true.
Proof. exact race_free_table_spec. Qed.
Print Assumptions C15_checker_spec.

(* a write site and another site of the same field without a common mutex and
   without justification: the table is rejected *)
Theorem C15_unguarded_rejected : forall tbl r1 r2,
  In r1 tbl -> In r2 tbl -> r_field r1 = r_field r2 ->
  r_write r1 = true -> r_class r1 = JPlain -> r_class r2 = JPlain -> share_lock r1 r2 = false ->
  race_free_table tbl = false.
Proof. exact unguarded_write_rejected. Qed.
Print Assumptions C15_unguarded_rejected.

(* happens-before never runs against the trace order *)
Theorem C15_hb_forward : forall tr i j, hb tr i j -> (i < j)%nat.
Proof. exact hb_lt. Qed.
Print Assumptions C15_hb_forward.

(* ---------- non-vacuity ---------- *)
(* two goroutines increment a field under one mutex: well formed, guarded, and the accesses are ordered *)
Definition ex_trace : trace :=
  [Acc 0 (7, 1) true false; Go 0 1; Go 0 2;
   Lock 1 (7, 9); Acc 1 (7, 1) false false; Acc 1 (7, 1) true false; Unlock 1 (7, 9);
   Lock 2 (7, 9); Acc 2 (7, 1) false false; Acc 2 (7, 1) true false; Unlock 2 (7, 9)].
Definition ex_table : table :=
  [mkRow 1 true 100 [] JInit; mkRow 1 false 101 [9] JPlain; mkRow 1 true 101 [9] JPlain].
Example C15_ex_table : race_free_table ex_table = true.
Proof. vm_compute. reflexivity. Qed.
Example C15_ex_ordered : hb ex_trace 5 8.
Proof.
  apply hb_trans with 6%nat; [eapply hb_po; [| reflexivity | reflexivity | reflexivity]; lia|].
  apply hb_trans with 7%nat; [eapply hb_sync; [| reflexivity | reflexivity | reflexivity]; lia|].
  eapply hb_po; [| reflexivity | reflexivity | reflexivity]; lia.
Qed.
(* the same field also written without the mutex somewhere: rejected *)
Example C15_ex_rejected : race_free_table (mkRow 1 true 102 [] JPlain :: ex_table) = false.
Proof. vm_compute. reflexivity. Qed.
(* a counter accessed atomically in one place and plainly in another: rejected *)
Example C15_ex_mixed_atomic : race_free_table [mkRow 2 true 1 [] JAtomic; mkRow 2 true 2 [] JPlain] = false.
Proof. vm_compute. reflexivity. Qed.

(* C15 - API-permitted concurrent use is free of data races (PARTIAL).
   Property theorems only; proofs are in Proofs/AccessProofs.v. *)
From Coq Require Import List ZArith Bool Lia.
Import ListNotations.
From Goat Require Import Model.Access Proofs.AccessProofs.
Open Scope Z_scope.

(* the classical lockset statement: if every location is consistently guarded
   by one mutex, or only accessed atomically, or confined to one thread, or
   written only by one thread before a publishing event that every other
   thread's access is after, then no well-formed trace has two conflicting
   accesses that happens-before does not order *)
Theorem C15_lockset_sound_classes : forall tr,
  wf_trace tr -> (forall l, exists d, obeys tr l d) -> race_free tr.
Proof. exact lockset_sound_classes. Qed.
Print Assumptions C15_lockset_sound_classes.

(* the table form used by the check: a trace all of whose accesses come from
   rows of the table (holding the mutexes the row says, honouring the row's
   justification class) has no data race when the boolean checker accepts the
   table - the sites may guard one field by different mutexes as long as every
   two sites of the field are pairwise safe *)
Theorem C15_lockset_sound : forall tbl tr I,
  wf_trace tr -> conforms tbl tr I -> race_free_table tbl = true -> race_free tr.
Proof. exact lockset_sound. Qed.
Print Assumptions C15_lockset_sound.

(* what the checker decides *)
Theorem C15_checker_spec : forall tbl,
  race_free_table tbl = true <->
  forall r1 r2, In r1 tbl -> In r2 tbl -> r_field r1 = r_field r2 -> pair_safe r1 r2 = true.
Proof. exact race_free_table_spec. Qed.
Print Assumptions C15_checker_spec.

(* a write site and another site of the same field without a common mutex and
   without justification: the table is rejected *)
Theorem C15_unguarded_rejected : forall tbl r1 r2,
  In r1 tbl -> In r2 tbl -> r_field r1 = r_field r2 ->
  r_write r1 = true -> r_class r1 = JPlain -> r_class r2 = JPlain -> share_lock r1 r2 = false ->
  race_free_table tbl = false.
Proof. exact unguarded_write_rejected. Qed.
Print Assumptions C15_unguarded_rejected.

(* field-level publication is NOT object-level initialisation: a write that publishes a field of
   an already shared object (class JPub tag) is accepted only next to object-level initialisations,
   other sites of the publishing goroutine, the sites explicitly listed as ordered after it
   (JAfter tag) and sites sharing a mutex with it. Any other site of the field - a plain,
   unlisted access in particular - makes the checker reject the table *)
Theorem C15_pub_unlisted_rejected : forall tbl r1 r2 tag,
  In r1 tbl -> In r2 tbl -> r_field r1 = r_field r2 ->
  r_write r1 = true -> r_class r1 = JPub tag ->
  r_class r2 <> JInit -> r_class r2 <> JPub tag -> r_class r2 <> JAfter tag ->
  share_lock r1 r2 = false ->
  race_free_table tbl = false.
Proof. exact pub_unlisted_rejected. Qed.
Print Assumptions C15_pub_unlisted_rejected.

(* what a JAfter justification has to establish (the last clause of conforms), in its two usual
   forms: the accessing goroutine was started by a go statement that the publisher executed at or
   after its publishing event p ... *)
Theorem C15_after_by_go : forall tr p g i ep eg ei t0 t1,
  (p <= g)%nat -> (g < i)%nat ->
  nth_error tr p = Some ep -> nth_error tr g = Some eg -> nth_error tr i = Some ei ->
  thread_of ep = t0 -> eg = Go t0 t1 -> thread_of ei = t1 -> hb tr p i.
Proof. exact hb_go_child. Qed.
Print Assumptions C15_after_by_go.

(* ... or it accesses the field after receiving a message that the publisher sent at or after p *)
Theorem C15_after_by_send : forall tr p s r i ep er ei t0 t1 c k,
  (p <= s)%nat -> (s < r)%nat -> (r <= i)%nat ->
  nth_error tr p = Some ep -> nth_error tr s = Some (Send t0 c k) -> nth_error tr r = Some er ->
  nth_error tr i = Some ei ->
  thread_of ep = t0 -> er = Recv t1 c k -> thread_of ei = t1 -> hb tr p i.
Proof. exact hb_send_recv. Qed.
Print Assumptions C15_after_by_send.

(* happens-before never runs against the trace order *)
Theorem C15_hb_forward : forall tr i j, hb tr i j -> (i < j)%nat.
Proof. exact hb_lt. Qed.
Print Assumptions C15_hb_forward.

(* ---------- non-vacuity ---------- *)
(* two goroutines increment a field under one mutex: well formed, guarded, and the accesses are ordered *)
Definition ex_trace : trace :=
  [Acc 0 (7, 1) true false; Go 0 1; Go 0 2;
   Lock 1 (7, 9); Acc 1 (7, 1) false false; Acc 1 (7, 1) true false; Unlock 1 (7, 9);
   Lock 2 (7, 9); Acc 2 (7, 1) false false; Acc 2 (7, 1) true false; Unlock 2 (7, 9)].
Definition ex_table : table :=
  [mkRow 1 true 100 [] JInit; mkRow 1 false 101 [9] JPlain; mkRow 1 true 101 [9] JPlain].
Example C15_ex_table : race_free_table ex_table = true.
Proof. vm_compute. reflexivity. Qed.
Example C15_ex_ordered : hb ex_trace 5 8.
Proof.
  apply hb_trans with 6%nat; [eapply hb_po; [| reflexivity | reflexivity | reflexivity]; lia|].
  apply hb_trans with 7%nat; [eapply hb_sync; [| reflexivity | reflexivity | reflexivity]; lia|].
  eapply hb_po; [| reflexivity | reflexivity | reflexivity]; lia.
Qed.
(* the same field also written without the mutex somewhere: rejected *)
Example C15_ex_rejected : race_free_table (mkRow 1 true 102 [] JPlain :: ex_table) = false.
Proof. vm_compute. reflexivity. Qed.
(* a counter accessed atomically in one place and plainly in another: rejected *)
Example C15_ex_mixed_atomic : race_free_table [mkRow 2 true 1 [] JAtomic; mkRow 2 true 2 [] JPlain] = false.
Proof. vm_compute. reflexivity. Qed.

(* ---------- field-level publication (the proxy's outgoing connection) ---------- *)
(* goroutine 0 (Serve) creates object 5 (init of field 2), stores it in a shared table and starts
   goroutine 1 (connect); 1 writes field 1 (conn: JPub 0) and then starts goroutine 2 (readLoop),
   which reads it (JAfter 0) *)
Definition ex_pub_table : table :=
  [mkRow 2 true 100 [] JInit; mkRow 1 true 101 [] (JPub 0); mkRow 1 false 102 [] (JAfter 0)].
Definition ex_pub_trace : trace :=
  [Acc 0 (5, 2) true false; Go 0 1; Acc 1 (5, 1) true false; Go 1 2; Acc 2 (5, 1) false false].
Example C15_ex_pub_table : race_free_table ex_pub_table = true.
Proof. vm_compute. reflexivity. Qed.
Example C15_ex_pub_ordered : hb ex_pub_trace 2 4.
Proof. eapply (C15_after_by_go ex_pub_trace 2 3 4); try reflexivity; lia. Qed.
(* the same field also read by a site that is not listed (goroutine 0, which found the object in
   the shared table: function 103): rejected - with object-level JInit for the write it would
   have been accepted *)
Example C15_ex_pub_rejected : race_free_table (mkRow 1 false 103 [] JPlain :: ex_pub_table) = false.
Proof. vm_compute. reflexivity. Qed.
Example C15_ex_pub_as_init_accepted :
  race_free_table [mkRow 1 false 103 [] JPlain; mkRow 1 true 101 [] JInit; mkRow 1 false 102 [] JPlain] = true.
Proof. vm_compute. reflexivity. Qed.
(* and rightly so: with that read the execution below has a data race (events 2 and 3) *)
Definition ex_pub_bad : trace :=
  [Acc 0 (5, 2) true false; Go 0 1; Acc 0 (5, 1) false false; Acc 1 (5, 1) true false; Go 1 2; Acc 2 (5, 1) false false].
Example C15_ex_pub_race : race ex_pub_bad 2 3.
Proof.
  split.
  - split; [lia|]. exists 0, 1, (5, 1), false, true, false, false. repeat split; try reflexivity. discriminate.
  - assert (H : forall i j, hb ex_pub_bad i j -> i <> 2%nat).
    { induction 1 as [i j e1 e2 Hij H1 H2 Ht | i j e1 e2 Hij H1 H2 Hs | i j k _ IH1 _ _]; [| |exact IH1].
      - intros ->. cbn in H1. inversion H1; subst e1.
        do 6 (destruct j as [|j]; [cbn in H2; try lia; inversion H2; subst e2; cbn in Ht; discriminate|]).
        cbn in H2. destruct j; discriminate.
      - intros ->. cbn in H1. inversion H1; subst e1. cbn in Hs. exact Hs. }
    intro Hhb. exact (H _ _ Hhb eq_refl).
Qed.

(* ---------- the hypotheses of C15_lockset_sound are satisfiable ---------- *)
(* goroutine 0 starts goroutines 1 and 2; each writes field 1 of object 7 while holding mutex 9 of object 7 *)
Definition ex_conf_trace : trace :=
  [Go 0 1; Go 0 2;
   Lock 1 (7, 9); Acc 1 (7, 1) true false; Unlock 1 (7, 9);
   Lock 2 (7, 9); Acc 2 (7, 1) true false; Unlock 2 (7, 9)].
Definition ex_conf_table : table := [mkRow 1 true 101 [9] JPlain].
Definition ex_conf_interp : interp :=
  mkInterp (fun _ => 0%nat) (fun _ => 0) (fun _ => 0%nat) (fun o _ => o) (fun _ _ => 0) (fun _ _ => 0%nat).

Example C15_ex_wf : wf_trace ex_conf_trace.
Proof.
  intros n e H.
  destruct n as [|[|[|[|[|[|[|[|n]]]]]]]]; cbn in H; try (inversion H; subst e; reflexivity).
  destruct n; discriminate.
Qed.

Example C15_ex_conforms : conforms ex_conf_table ex_conf_trace ex_conf_interp.
Proof.
  split.
  - intros i t o f w a H.
    assert (Hrow : forall t0, (t0 = 1 /\ i = 3%nat) \/ (t0 = 2 /\ i = 6%nat) -> t = t0 -> o = 7 -> f = 1 -> w = true -> a = false ->
              hb ex_conf_trace 0 i ->
              exists r, nth_error ex_conf_table (site ex_conf_interp i) = Some r /\ r_field r = f /\ r_write r = w /\
                is_atomic r = a /\ (forall m, In m (r_locks r) -> holds ex_conf_trace i t (lockobj ex_conf_interp o m, m)) /\
                (is_init r = true -> t = creator ex_conf_interp o /\ (i < pubidx ex_conf_interp o)%nat /\
                   exists e, nth_error ex_conf_trace (pubidx ex_conf_interp o) = Some e /\ thread_of e = creator ex_conf_interp o) /\
                (is_init r = false -> t = creator ex_conf_interp o \/ hb ex_conf_trace (pubidx ex_conf_interp o) i) /\
                (forall tag, r_class r = JPub tag -> t = publisher ex_conf_interp o tag /\ (i < pubat ex_conf_interp o tag)%nat /\
                   exists e, nth_error ex_conf_trace (pubat ex_conf_interp o tag) = Some e /\ thread_of e = publisher ex_conf_interp o tag /\ is_pub_event e = true) /\
                (forall tag, r_class r = JAfter tag -> t = publisher ex_conf_interp o tag \/ hb ex_conf_trace (pubat ex_conf_interp o tag) i)).
    { intros t0 Hi -> -> -> -> -> Hhb. exists (mkRow 1 true 101 [9] JPlain). cbn [ex_conf_interp site creator pubidx lockobj publisher pubat].
      repeat split; try reflexivity.
      - intros m [<-|[]]. destruct Hi as [[-> ->]|[-> ->]]; reflexivity.
      - discriminate.
      - discriminate.
      - discriminate.
      - intros _. right. exact Hhb.
      - discriminate.
      - discriminate.
      - discriminate.
      - discriminate. }
    destruct i as [|[|[|[|[|[|[|[|i]]]]]]]]; cbn in H; try discriminate.
    + inversion H; subst. apply (Hrow 1); auto.
      eapply hb_sync; [|reflexivity|reflexivity|reflexivity]. lia.
    + inversion H; subst. apply (Hrow 2); auto.
      apply hb_trans with 1%nat.
      * eapply hb_po; [|reflexivity|reflexivity|reflexivity]. lia.
      * eapply hb_sync; [|reflexivity|reflexivity|reflexivity]. lia.
    + destruct i; discriminate.
  - intros i j t t' o f w w' a a' r r' _ _ Hr Hr' Hs. cbn in Hr, Hr'. inversion Hr; inversion Hr'; subst. discriminate.
Qed.

(* hence, by the theorem, the two unordered-looking writes are ordered *)
Example C15_ex_race_free : race_free ex_conf_trace.
Proof. exact (C15_lockset_sound ex_conf_table ex_conf_trace ex_conf_interp C15_ex_wf C15_ex_conforms eq_refl). Qed.

(* ---------- ownership of an envelope passes with Write on a by-reference transport ---------- *)
(* goroutine 0 (a client stream's SendMsg) fills envelope 9, hands it to the in-process channel transport (Send), goroutine 1
   (the proxy) receives it and edits it in place; what goroutine 0 did BEFORE the Write is ordered before the proxy's access
   (ex_own_before) - what it does AFTER the Write (reading the envelope once more, e.g. to report its size to a stats
   handler) is not: a data race (ex_own_race; seeded/C15_13). In the model this is no new rule: happens-before has the
   channel edge Send -> Recv and nothing leads back from the receiver to the sender. The envelope is not a tracked struct
   of the static table (protobuf messages are outside it: see the claim), so only the race detector sees such an access:
   workload byref. *)
Definition ex_own : trace :=
  [Acc 0 (9, 1) true false; Send 0 5 0; Recv 1 5 0; Acc 1 (9, 1) true false; Acc 0 (9, 1) false false].
Example C15_ex_own_before : hb ex_own 0 3.
Proof.
  apply hb_trans with 1%nat; [eapply hb_po; [| reflexivity | reflexivity | reflexivity]; lia|].
  apply hb_trans with 2%nat; [eapply hb_sync; [| reflexivity | reflexivity | cbn; auto]; lia|].
  eapply hb_po; [| reflexivity | reflexivity | reflexivity]; lia.
Qed.
Example C15_ex_own_race : race ex_own 3 4.
Proof.
  split.
  - split; [lia|]. exists 1, 0, (9, 1), true, false, false, false. repeat split; try reflexivity. discriminate.
  - assert (H : forall i j, hb ex_own i j -> i <> 3%nat).
    { induction 1 as [i j e1 e2 Hij H1 H2 Ht | i j e1 e2 Hij H1 H2 Hs | i j k _ IH1 _ _]; [| |exact IH1].
      - intros ->. cbn in H1. inversion H1; subst e1.
        do 5 (destruct j as [|j]; [cbn in H2; try lia; inversion H2; subst e2; cbn in Ht; discriminate|]).
        cbn in H2. destruct j; discriminate.
      - intros ->. cbn in H1. inversion H1; subst e1. cbn in Hs. exact Hs. }
    intro Hhb. exact (H _ _ Hhb eq_refl).
Qed.

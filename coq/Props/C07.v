(* C07 - cancelling a streaming call cancels its handler and fails the caller's calls.
   Client half on Model/Client.v, server half on Model/Server.v; the two are joined by the FIFO wire (the reset
   is the client's last envelope for the id, C06_client; the server reads envelopes in order). *)
From Coq Require Import List ZArith Bool Lia.
Import ListNotations.
From Goat Require Import Model.Client Proofs.ClientBase Proofs.ProtocolClient Proofs.ClientCancel.
From Goat Require Model.Server Model.Sys.
From Goat Require Import Proofs.ServerCancel Proofs.ServerReset Proofs.SysLog Proofs.SysC01 Proofs.SysCancel.
Open Scope Z_scope.

(* ---- the caller ---- *)
(* (Q) In EVERY quiescent state of EVERY run: an open stream whose context is done (explicit cancel, deadline
   expiry, or its own teardown) has a dead loop, is done and unregistered, and none of its operations is blocked:
   no RecvMsg, SendMsg / CloseSend, Header() or Trailer() is pending (a RecvMsg held by the environment at its
   yield point aside); its terminal error is published. *)
Theorem C07_caller_unblocked : forall ls s c k,
  lrun init ls = Some s -> quiescent s = true -> nth_error (calls s) c = Some k ->
  k_pc k = POpen -> sctx_done k = true ->
  s_loop k = LDead /\ s_done k = true /\ k_reg k = false /\ recv_idle (s_recv k) = true /\
  s_sendq k = [] /\ s_header k = ONone /\ s_trailerq k = ONone /\ exists x, s_rerr k = Some x.
Proof. exact C07_caller_unblocked_l. Qed.
Print Assumptions C07_caller_unblocked.

(* From a state in which the stream is done with terminal error x, along EVERY continuation: every RecvMsg of
   that stream that returns returns RErr x and every SendMsg that returns returns Some x. With C07_status_reset
   below: x is the Canceled / DeadlineExceeded status exactly when the loop ended because of the context. *)
Theorem C07_after_done : forall ls2 ls1 s1 s2 c x,
  lrun init ls1 = Some s1 -> done_with s1 c x -> lrun s1 ls2 = Some s2 ->
  done_with s2 c x /\ exists evs, log s2 = log s1 ++ evs /\ Forall (ok_ev c x) evs.
Proof. exact C07_after_done_l. Qed.
Print Assumptions C07_after_done.

(* ---- the reset ---- *)
(* never two resets for a stream; one is written only for an open stream whose loop has ended, never after a
   received trailer, and only because of an abort or a done context *)
Theorem C07_reset_once : forall ls s c k,
  lrun init ls = Some s -> nth_error (calls s) c = Some k ->
  (rsts (k_id k) s <= 1)%nat /\
  (rsts (k_id k) s = 1%nat -> k_pc k = POpen /\ rst_loop (s_loop k) = true /\ l_hastrl k = false /\
                              (l_abort k = true \/ sctx_done k = true)).
Proof. exact C07_reset_once_l. Qed.
Print Assumptions C07_reset_once.

(* none for any other id: every reset on the wire carries the id of such a stream *)
Theorem C07_reset_owner : forall ls s e,
  lrun init ls = Some s -> In e (wr s) -> erst e = true ->
  exists c k, nth_error (calls s) c = Some k /\ k_id k = eid e /\ k_pc k = POpen /\ rst_loop (s_loop k) = true /\
              l_hastrl k = false /\ (l_abort k = true \/ sctx_done k = true).
Proof. exact C07_reset_owner_l. Qed.
Print Assumptions C07_reset_owner.

(* the reset IS written: a done stream whose terminal error is the Canceled / DeadlineExceeded status (the loop
   ended because of the context, not because a trailer or a failure got there first) and that has received no
   trailer has exactly one reset on the wire - unless the environment made transport writes fail *)
Theorem C07_status_reset : forall ls s c k,
  lrun init ls = Some s -> no_wfail ls -> nth_error (calls s) c = Some k ->
  k_pc k = POpen -> s_done k = true -> is_ctx_err (s_rerr k) = true -> l_hastrl k = false ->
  rsts (k_id k) s = 1%nat.
Proof. exact C07_status_reset_l. Qed.
Print Assumptions C07_status_reset.

(* ---- the handler (server) ---- *)
(* once the server's read loop has read a reset for a registered stream, that stream's handler context is done
   in every later state *)
Theorem C07_reset_cancels : forall (s s' : Server.state) f rest h ls s2,
  Server.rd s = Server.RdRead -> Server.inbox s = f :: rest -> Server.dispatch f = Server.DStream ->
  Server.is_rst f = true -> Server.find_reg (Server.fid f) (Server.hs s) 0 = Some h ->
  Server.r_rd_read s = Some s' -> Server.lrun s' ls = Some s2 ->
  exists k, nth_error (Server.hs s2) h = Some k /\ Server.hdone s2 k = true.
Proof. exact ServerCancel.C07_reset_cancels_l. Qed.
Print Assumptions C07_reset_cancels.

(* (Q) a handler whose context is done is parked in no operation (RecvMsg, SendMsg / SendHeader / the trailer,
   waiting for its context): its reads and writes unblock on its context *)
Theorem C07_handler_unblocks : forall (s : Server.state) h k,
  Server.quiescent s = true -> nth_error (Server.hs s) h = Some k -> Server.hdone s k = true ->
  Server.h_blocked k = false.
Proof. exact ServerCancel.C07_handler_unblocks_l. Qed.
Print Assumptions C07_handler_unblocks.

(* (Q) no orphan, as far as it holds: with the read loop at its Read, every envelope handed to the server's
   transport has been read - so every delivered reset for a registered stream has cancelled its handler. The
   read loop held in the forwarding select (C11_server_held) is the known finding reset-behind-backpressure. *)
Theorem C07_no_orphan_partial : forall (s : Server.state),
  Server.quiescent s = true -> Server.rd s = Server.RdRead ->
  Server.inbox s = [] /\ Server.inbox_failed s = false /\ Server.hctx_done s = false.
Proof. exact ServerCancel.C07_srv_all_read_l. Qed.
Print Assumptions C07_no_orphan_partial.

(* if the LAST stream-method envelope of id i that the server has read is a reset ([armed]: a later envelope of the id
   that could open a new stream disarms it), every registered handler of id i has a done context *)
Theorem C07_last_reset_cancels : forall nw ls (s : Server.state) i h k,
  Server.lrun (Server.init_n nw) ls = Some s -> armed i (sreads (Server.log s)) = true ->
  nth_error (Server.hs s) h = Some k -> Server.h_reg k = true -> Server.fid (Server.h_req k) = i ->
  Server.hdone s k = true.
Proof. exact ServerReset.C07_last_reset_cancels_l. Qed.
Print Assumptions C07_last_reset_cancels.

(* ---- end to end, on the product model Model/Sys.v (client x server x two FIFO wires) ---- *)
(* For every run of the system (any handler policy, any interleaving): a stream call of the client that is done with
   the Canceled / DeadlineExceeded status, received no trailer and was not aborted - API-conformant users, transport
   writes never made to fail (conditions on the client's projected label sequence) - has put EXACTLY ONE reset on the
   client-to-server wire; and once that wire is empty and the server has read everything handed to it, every registered
   handler of the stream's id has a done context. *)
Theorem C07_sys : forall pol ls (s : Sys.state) c k,
  Sys.lrun pol Sys.init ls = Some s ->
  no_wfail (Sys.proj_c pol Sys.init ls) -> api_ok (Sys.proj_c pol Sys.init ls) ->
  nth_error (calls (Sys.cl s)) c = Some k -> k_pc k = POpen -> s_done k = true -> is_ctx_err (s_rerr k) = true ->
  l_hastrl k = false -> l_abort k = false ->
  nrst (projE (k_id k) (map Server.f_env (Sys.sent_c2s s))) = 1%nat /\
  (Sys.c2s s = [] -> Server.inbox (Sys.sv s) = [] ->
   forall h kh, nth_error (Server.hs (Sys.sv s)) h = Some kh -> Server.h_reg kh = true ->
                Server.fid (Server.h_req kh) = k_id k -> Server.hdone (Sys.sv s) kh = true).
Proof. exact SysCancel.C07_sys_l. Qed.
Print Assumptions C07_sys.

(* (Q) in every quiescent state of the system whose server read loop is at its Read (not held by back-pressure -
   finding reset-behind-backpressure - and not gone): after the caller's context has ended, exactly one reset is on
   the wire and the handler context of that id is done *)
Theorem C07_sys_quiescent : forall pol ls (s : Sys.state) c k,
  Sys.lrun pol Sys.init ls = Some s ->
  no_wfail (Sys.proj_c pol Sys.init ls) -> api_ok (Sys.proj_c pol Sys.init ls) ->
  Sys.quiescent s = true -> Server.rd (Sys.sv s) = Server.RdRead ->
  nth_error (calls (Sys.cl s)) c = Some k -> k_pc k = POpen -> sctx_done k = true -> is_ctx_err (s_rerr k) = true ->
  l_hastrl k = false -> l_abort k = false ->
  nrst (projE (k_id k) (map Server.f_env (Sys.sent_c2s s))) = 1%nat /\
  forall h kh, nth_error (Server.hs (Sys.sv s)) h = Some kh -> Server.h_reg kh = true ->
               Server.fid (Server.h_req kh) = k_id k -> Server.hdone (Sys.sv s) kh = true.
Proof. exact SysCancel.C07_sys_quiescent_l. Qed.
Print Assumptions C07_sys_quiescent.

(* ---- the strict receive statement ---- *)
(* A stream whose loop was still running when its context ended (the call had not completed: cancelled_running) ends,
   in every quiescent state of every continuation, done with a terminal error x that is the Canceled /
   DeadlineExceeded status - or the outcome of a terminal envelope that the loop took in the race with the
   cancellation (EOF, the handler's status, reset), or the undecodable-metadata abort - and NEVER "respChan closed" or
   the connection error; by C07_after_done every later RecvMsg returns RErr x and every SendMsg Some x.
   (Before fix 72f38d7 of /repo this was false: D-07s, a SendMsg observing the cancellation tore the registration
   down and the loop's next Read reported "respChan closed".) *)
Theorem C07_recv_strict : forall ls1 ls2 s1 s2 c k2,
  lrun init ls1 = Some s1 -> cancelled_running s1 c -> lrun s1 ls2 = Some s2 ->
  quiescent s2 = true -> nth_error (calls s2) c = Some k2 -> k_pc k2 = POpen ->
  exists x, s_rerr k2 = Some x /\ allowed x = true /\ done_with s2 c x.
Proof. exact C07_recv_strict_l. Qed.
Print Assumptions C07_recv_strict.

(* the schedule of D-07s (cancel, a SendMsg that tears the registration down, then the loop's Read on the closed
   handler) now ends with the Canceled status *)
Definition c07_race_ls : list label :=
  [LExt (ANewStream false); LInt 2; LInt 3; LExt (ACancel 0); LExt (ASend 0 5); LInt 16; LInt 7; LInt 11; LInt 12;
   LExt (ARecv 0 false); LInt 13].

Example C07_race_repaired :
  match lrun init c07_race_ls with
  | Some s => In (EvRecvRet 0 (RErr ECanceled)) (log s) /\ ~ In (EvRecvRet 0 (RErr EClosed)) (log s)
  | None => False
  end.
Proof. vm_compute. split; [tauto|]. intros H. repeat (destruct H as [H|H]; [discriminate H|]). exact H. Qed.

(* ---- the hypotheses are satisfiable by non-trivial runs ---- *)
(* open, one body, two responses delivered and unread, cancel: at quiescence the stream is done with the Canceled
   status, nothing is pending, exactly one reset is on the wire; a later Recv and Send return that status *)
Definition c07_acts : list act :=
  [ANewStream false; ASend 0 7;
   ADeliver (mkEnv 1 (Some (MdOk 0)) None (Some 21) None false);
   ADeliver (mkEnv 1 (Some (MdOk 0)) None (Some 22) None false);
   ACancel 0; ARecv 0 false; ASend 0 8].

Example C07_applies :
  let (ls, s) := run_trace c07_acts in
  lrun init ls = Some s /\ quiescent s = true /\
  match nth_error (calls s) 0 with
  | Some k => k_pc k = POpen /\ sctx_done k = true /\ s_done k = true /\ s_rerr k = Some ECanceled /\
              l_hastrl k = false /\ rsts (k_id k) s = 1%nat
  | None => False
  end /\
  filter (fun e => match e with EvRecvRet _ _ | EvSendRet _ _ => true | _ => false end) (log s)
  = [EvSendRet 0 None; EvRecvRet 0 (RErr ECanceled); EvSendRet 0 (Some ECanceled)].
Proof. vm_compute. repeat split; reflexivity. Qed.

(* end to end: a bidi stream, one message read by the handler, then the caller cancels: the reset crosses the wire,
   the handler (still registered, at its gate) is cancelled; exactly one reset was sent *)
Definition c07_sys_ls : list Sys.label :=
  drive_labels Sys.pol_any mix3 Sys.init
    [U (ANewStream false); U (ASend 0 11); Hs 0 Server.HRecv; U (ACancel 0)].

Example C07_sys_applies :
  match Sys.lrun Sys.pol_any Sys.init c07_sys_ls with
  | Some s =>
      api_okb (Sys.proj_c Sys.pol_any Sys.init c07_sys_ls) = true /\
      forallb (fun l => negb (is_wfail_on l)) (Sys.proj_c Sys.pol_any Sys.init c07_sys_ls) = true /\
      Sys.c2s s = [] /\ Server.inbox (Sys.sv s) = [] /\
      match nth_error (calls (Sys.cl s)) 0 with
      | Some k => k_pc k = POpen /\ s_done k = true /\ s_rerr k = Some ECanceled /\ l_hastrl k = false /\ l_abort k = false /\
                  nrst (projE (k_id k) (map Server.f_env (Sys.sent_c2s s))) = 1%nat
      | None => False
      end /\
      match nth_error (Server.hs (Sys.sv s)) 0 with
      | Some kh => Server.h_reg kh = true /\ Server.h_cancel kh = true
      | None => False
      end
  | None => False
  end.
Proof. vm_compute. repeat split; reflexivity. Qed.

(* ====================== server side, appended by builder sv (round 8; cw's theorems above are untouched) ======================
   Proofs/ServerResetC.v: cw's C07_reset_cancels / C07_handler_unblocks composed with sv's closed system (Proofs/ServerClosed.v). *)
From Goat Require Proofs.ServerProofs Proofs.ServerInv Proofs.ServerLive Proofs.ServerTerm Proofs.ServerClosed Proofs.ServerResetC.

(* handler cancellation WITHOUT "the server has read everything": in every reachable state in which the read loop is in
   rw.Read and the next envelope is a reset for a registered stream id (handler h), taking it is enabled, and in EVERY
   later state - any continuation: more traffic, faults, any interleaving, the rest of the inbox unread or not - handler
   h's context is done; wherever the connection is then at rest h is parked in no operation (its RecvMsg / SendMsg /
   <-ctx.Done() have returned), and wherever the closed system stops ([final]: handlers that honour their context have
   returned from their bodies) h has returned. *)
Theorem C07_server_reset_cancels : forall ls (s : Server.state) f rest h,
  Server.lrun Server.init ls = Some s ->
  Server.rd s = Server.RdRead -> Server.inbox s = f :: rest -> Server.dispatch f = Server.DStream ->
  Server.is_rst f = true -> Server.find_reg (Server.fid f) (Server.hs s) 0 = Some h ->
  exists s1, Server.r_rd_read s = Some s1 /\
    forall ls' s', Server.lrun s1 ls' = Some s' ->
      exists k, nth_error (Server.hs s') h = Some k /\ Server.hdone s' k = true
                /\ (Server.quiescent s' = true -> Server.h_blocked k = false)
                /\ (ServerClosed.final s' = true -> Server.h_returned k = true).
Proof. intros ls s f rest h _. exact (ServerResetC.srv_reset_cancels s f rest h). Qed.
Print Assumptions C07_server_reset_cancels.

(* finding D-07r (reset behind back-pressure) as a witness: "a reset DELIVERED to the server cancels the handler" is
   false. Stream 1's handler never reads; two messages arrive - one queued, the read loop parks on the second -; the
   reset for stream 1 arrives behind them: the state is at rest (even final: no closed step is enabled), the reset is
   in the transport unread, the handler's context is NOT done. Only a reset TAKEN cancels (theorem above). *)
Definition sv7_frame (id : Z) (b : option Z) (rst : bool) : Server.frame :=
  Server.mkFrame (mkEnv id (Some (MdOk 0)) None b None rst) (Server.MStream 3) 2 1.
Definition sv7_state (acts : list Server.act) : Server.state :=
  match Server.lrun Server.init (ServerLive.labels_of acts) with Some s => s | None => Server.init end.
Definition sv7_closed_end (s : Server.state) : Server.state :=
  match ServerClosed.crun s (ServerClosed.closed_labels 200 s) with Some s' => s' | None => s end.
Definition sv7_behind : list Server.act :=
  [ Server.ADeliver (sv7_frame 1 None false); Server.ADeliver (sv7_frame 1 (Some 21) false);
    Server.ADeliver (sv7_frame 1 (Some 22) false); Server.ADeliver (sv7_frame 1 None true) ].
Example C07_server_reset_behind_backpressure_refuted :
  exists s k, Server.lrun Server.init (ServerLive.labels_of sv7_behind) = Some s /\ ServerClosed.final s = true
    /\ Server.inbox s = [sv7_frame 1 None true] /\ (exists f, Server.rd s = Server.RdFwd 0 f)
    /\ nth_error (Server.hs s) 0 = Some k /\ Server.hdone s k = false /\ Server.h_reg k = true.
Proof. exists (sv7_state sv7_behind). eexists. vm_compute. repeat split. eexists; reflexivity. Qed.

(* non-vacuity of C07_server_reset_cancels: the handler parked in RecvMsg, the reset taken: its context is done, RecvMsg
   has returned, and the closed system ends with the handler returned and unregistered *)
Definition sv7_taken : list Server.act :=
  [ Server.ADeliver (sv7_frame 1 None false); Server.AHandlerStep 0 Server.HRecv; Server.ADeliver (sv7_frame 1 None true) ].
Example C07_server_reset_cancels_ex :
  exists s s' k k', Server.lrun Server.init (ServerLive.labels_of sv7_taken) = Some s /\ Server.quiescent s = true
    /\ nth_error (Server.hs s) 0 = Some k /\ Server.hdone s k = true /\ Server.h_blocked k = false /\ Server.h_returned k = false
    /\ ServerClosed.crun s (ServerClosed.closed_labels 200 s) = Some s' /\ ServerClosed.final s' = true
    /\ nth_error (Server.hs s') 0 = Some k' /\ Server.h_returned k' = true /\ Server.registry_size s' = 0%nat.
Proof. exists (sv7_state sv7_taken), (sv7_closed_end (sv7_state sv7_taken)). eexists. eexists. vm_compute. repeat split. Qed.

(* C04 - Request metadata, response headers and trailers arrive intact.
   Property theorems only; proofs are in Proofs/{Base64,Meta,SrvStream}Proofs.v. *)
From Goat Require Import Base.Bytes Model.Base64 Model.Meta Model.SrvStream.
From Goat Require Import Proofs.Base64Proofs Proofs.MetaProofs Proofs.SrvStreamProofs.
Open Scope N_scope.

(* base64 under -bin keys is byte-exact for every byte string (NUL, 0xFF and
   the empty string included) *)
Theorem C04_base64_roundtrip : forall bs, wf_bytes bs = true -> dec (enc bs) = Some bs.
Proof. exact dec_enc. Qed.
Print Assumptions C04_base64_roundtrip.

(* the wire codec: whatever the iteration order [m] of the sender's map,
   decoding what ToKeyValue emitted yields exactly the normalised map
   (lower-cased keys, values concatenated per key in order) *)
Theorem C04_codec_exact : forall m, wf_md m = true -> to_md (to_kv m) = Some (norm m).
Proof. exact codec_exact. Qed.
Print Assumptions C04_codec_exact.

(* ... in which every key keeps exactly its own values, in order, as long as
   keys stay distinct after lower-casing - for every iteration order, since the
   statement does not depend on the position of the entry *)
Theorem C04_values_kept : forall k vs m,
  NoDup (map (fun e => lower (fst e)) m) -> In (k, vs) m ->
  vals_of (lower k) (norm m) = vs.
Proof. exact norm_keeps. Qed.
Print Assumptions C04_values_kept.

(* ... and nothing is invented: a key that no sent key lower-cases to has no
   value on the receiving side *)
Theorem C04_no_invention : forall k m,
  (forall e, In e m -> lower (fst e) <> k) -> vals_of k (norm m) = [].
Proof. exact norm_no_invention. Qed.
Print Assumptions C04_no_invention.

(* general form (keys that collide after lower-casing): the values are the
   concatenation, in entry order, of all colliding entries *)
Theorem C04_values_general : forall k m, vals_of k (norm m) = collect k m.
Proof. exact vals_of_norm. Qed.
Print Assumptions C04_values_general.

(* server stream object: for every program of SetHeader / SendHeader /
   SetTrailer / SendMsg / SendTrailer calls, the first envelope written carries
   all header metadata accepted (whichever flush path fires: explicit, with the
   first message, with the final status), no later envelope carries any *)
Theorem C04_flush_headers : forall (MD P ST : Type) (s : sstate MD) (ops : list (sop MD P ST)),
  hsent s = false ->
  match swritten s ops with
  | [] => True
  | e :: rest =>
      hdr_md e = Some (hdrs s ++ accepted_hdrs s ops) /\
      Forall (fun e' => hdr_md e' = None) rest
  end.
Proof. intros MD P ST. exact flush_headers. Qed.
Print Assumptions C04_flush_headers.

(* ... and the single trailer envelope carries every accepted SetTrailer
   argument, in order *)
Theorem C04_flush_trailers : forall (MD P ST : Type) (s : sstate MD) (ops : list (sop MD P ST)),
  tsent s = false ->
  forall pre e post, swritten s ops = pre ++ e :: post -> is_trailer e = true ->
    Forall (fun e' => is_trailer e' = false) pre /\
    Forall (fun e' => is_trailer e' = false) post /\
    trl_md e = trls s ++ accepted_trls s ops.
Proof. intros MD P ST. exact flush_trailers. Qed.
Print Assumptions C04_flush_trailers.

(* non-vacuity *)
Example C04_ex_codec :
  to_md (to_kv [(B"Trace-Bin", [bz [0; 255; 10]%Z; []]); (B"X-Key", [B"a"; B"b"])])
  = Some [(B"trace-bin", [bz [0; 255; 10]%Z; []]); (B"x-key", [B"a"; B"b"])].
Proof. vm_compute. reflexivity. Qed.
Example C04_ex_flush :
  swritten (@sinit nat) [SetHeader 1%nat; SetTrailer 7%nat; SendMsg 5%nat; SetHeader 2%nat; SendTrailer 0%nat]
  = [WMsg (Some [1%nat]) 5%nat; WTrailer None [7%nat] 0%nat].
Proof. vm_compute. reflexivity. Qed.

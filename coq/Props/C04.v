(* C04 - Request metadata, response headers and trailers arrive intact.
   Property theorems only; proofs are in Proofs/{Base64,Meta,SrvStream}Proofs.v. *)
From Coq Require Import Permutation.
From Goat Require Import Base.Bytes Model.Base64 Model.Meta Model.SrvStream Model.MetaSys.
From Goat Require Import Proofs.Base64Proofs Proofs.MetaProofs Proofs.SrvStreamProofs Proofs.MetaSysProofs Proofs.SrvStreamFaults.
Open Scope N_scope.

(* base64 under -bin keys is byte-exact for every byte string (NUL, 0xFF and
   the empty string included) *)
Theorem C04_base64_roundtrip : forall bs, wf_bytes bs = true -> dec (enc bs) = Some bs.
Proof. exact dec_enc. Qed.
Print Assumptions C04_base64_roundtrip.

(* the wire codec: whatever the iteration order [m] of the sender's map,
   decoding what ToKeyValue emitted yields exactly the normalised map
   (lower-cased keys, values concatenated per key in order) *)
Theorem C04_codec_exact : forall m, wf_md m = true -> to_md (to_kv m) = Some (norm m).
Proof. exact codec_exact. Qed.
Print Assumptions C04_codec_exact.

(* ... in which every key keeps exactly its own values, in order, as long as
   keys stay distinct after lower-casing - for every iteration order, since the
   statement does not depend on the position of the entry *)
Theorem C04_values_kept : forall k vs m,
  NoDup (map (fun e => lower (fst e)) m) -> In (k, vs) m ->
  vals_of (lower k) (norm m) = vs.
Proof. exact norm_keeps. Qed.
Print Assumptions C04_values_kept.

(* ... and nothing is invented: a key that no sent key lower-cases to has no
   value on the receiving side *)
Theorem C04_no_invention : forall k m,
  (forall e, In e m -> lower (fst e) <> k) -> vals_of k (norm m) = [].
Proof. exact norm_no_invention. Qed.
Print Assumptions C04_no_invention.

(* general form (keys that collide after lower-casing): the values are the
   concatenation, in entry order, of all colliding entries *)
Theorem C04_values_general : forall k m, vals_of k (norm m) = collect k m.
Proof. exact vals_of_norm. Qed.
Print Assumptions C04_values_general.

(* server stream object: for every program of SetHeader / SendHeader /
   SetTrailer / SendMsg / SendMsg-rejected-by-the-codec / SendTrailer calls (a
   SendMsg that fails before writing does not consume the pending headers), the first envelope written carries
   all header metadata accepted (whichever flush path fires: explicit, with the
   first message, with the final status), no later envelope carries any *)
Theorem C04_flush_headers : forall (MD P ST : Type) (s : sstate MD) (ops : list (sop MD P ST)),
  hsent s = false ->
  match swritten s ops with
  | [] => True
  | e :: rest =>
      hdr_md e = Some (hdrs s ++ accepted_hdrs s ops) /\
      Forall (fun e' => hdr_md e' = None) rest
  end.
Proof. intros MD P ST. exact flush_headers. Qed.
Print Assumptions C04_flush_headers.

(* ... and the single trailer envelope carries every accepted SetTrailer
   argument, in order *)
Theorem C04_flush_trailers : forall (MD P ST : Type) (s : sstate MD) (ops : list (sop MD P ST)),
  tsent s = false ->
  forall pre e post, swritten s ops = pre ++ e :: post -> is_trailer e = true ->
    Forall (fun e' => is_trailer e' = false) pre /\
    Forall (fun e' => is_trailer e' = false) post /\
    trl_md e = trls s ++ accepted_trls s ops.
Proof. intros MD P ST. exact flush_trailers. Qed.
Print Assumptions C04_flush_trailers.

(* ---- the whole RPC (Model/MetaSys.v: composition of the models above with
   the client-side functions) ---- *)

(* request: for every outgoing metadata map (in any iteration order), with or
   without a deadline: the handler's incoming metadata is the normalised caller
   metadata plus, when there is a deadline, the injected grpc-timeout entry ... *)
Theorem C04_sys_request : forall om,
  wf_md om = true ->
  handler_md (request_kvs om None) = Some (norm om) /\
  forall v, handler_md (request_kvs om (Some v)) = Some (md_append injected_lkey v (norm om)).
Proof.
  intros om H. split; [apply request_without_deadline; exact H|].
  intro v. apply request_with_deadline. exact H.
Qed.
Print Assumptions C04_sys_request.

(* ... and minus that key it is exactly the normalised caller metadata *)
Theorem C04_sys_request_exact : forall om tmo,
  wf_md om = true ->
  (forall e, In e om -> lower (fst e) <> injected_lkey) ->
  option_map (drop_key injected_lkey) (handler_md (request_kvs om tmo)) = Some (norm om).
Proof. exact request_minus_injected. Qed.
Print Assumptions C04_sys_request_exact.

(* response headers of a streaming RPC (client-, server-, bidirectional alike:
   one server stream object): for EVERY handler program over SetHeader,
   SendHeader, SetTrailer, SendMsg followed by runStream's SendTrailer with the
   handler's result st (nil or any error) and every iteration order [emit] of the
   joined map, the caller's Header() is the normalised join of every accepted
   header map - whichever of the three ways the headers leave (SendHeader, with
   the first message, with the final status) - and no later envelope carries
   header metadata *)
Theorem C04_sys_stream_header : forall (P ST : Type) (emit : mdmap -> mdmap) (ops : list (sop mdmap P ST)) (st : ST),
  Forall not_trailer ops ->
  wf_md (emit (join (accepted_hdrs sinit ops))) = true ->
  client_header emit (stream_envs ops st) = Some (Some (norm (emit (join (accepted_hdrs sinit ops))))) /\
  match stream_envs ops st with
  | [] => False
  | _ :: rest => Forall (fun e => env_kvs emit e = []) rest
  end.
Proof. intros P ST. exact sys_stream_header. Qed.
Print Assumptions C04_sys_stream_header.

(* the caller's Trailer() is the normalised join of every SetTrailer argument,
   on a nil and on an error return alike *)
Theorem C04_sys_stream_trailer : forall (P ST : Type) (emit : mdmap -> mdmap) (ops : list (sop mdmap P ST)) (st : ST),
  Forall not_trailer ops ->
  wf_md (emit (join (accepted_trls sinit ops))) = true ->
  client_trailer emit (stream_envs ops st) = Some (Some (norm (emit (join (accepted_trls sinit ops))))).
Proof. intros P ST. exact sys_stream_trailer. Qed.
Print Assumptions C04_sys_stream_trailer.

(* unary: what grpc.SetHeader / SendHeader / SetTrailer collected decodes (stats
   InHeader event; trailer list on the wire) to the normalised join *)
Theorem C04_sys_unary : forall (emit : mdmap -> mdmap) (s : ustate mdmap),
  (wf_md (emit (join (uh s))) = true -> to_md (unary_header_kvs emit s) = Some (norm (emit (join (uh s))))) /\
  (wf_md (emit (join (ut s))) = true -> to_md (unary_trailer_kvs emit s) = Some (norm (emit (join (ut s))))).
Proof. exact sys_unary. Qed.
Print Assumptions C04_sys_unary.

(* in all of these the iteration order does not matter: under keys that stay
   distinct after lower-casing the normalised map holds, under each lower-cased
   key, exactly that key's values in order, and nothing else *)
Theorem C04_sys_values : forall (m m' : mdmap) k vs,
  Permutation m' m ->
  NoDup (map (fun e => lower (fst e)) m) -> In (k, vs) m ->
  vals_of (lower k) (norm m') = vs.
Proof. exact perm_values. Qed.
Print Assumptions C04_sys_values.

Theorem C04_sys_no_invention : forall (m m' : mdmap) k,
  Permutation m' m -> (forall e, In e m -> lower (fst e) <> k) -> vals_of k (norm m') = [].
Proof. exact perm_no_invention. Qed.
Print Assumptions C04_sys_no_invention.

(* unary: for EVERY program of grpc.SetHeader / SendHeader / SetTrailer calls of a
   unary handler ([urun] on the collector) and every iteration order of the joined
   maps: what the caller side decodes from the reply envelope (header list: stats
   InHeader; trailer list: on the wire) is the normalised join of the maps the
   accepted calls passed, in call order - a call after SendHeader is refused and
   contributes nothing *)
Theorem C04_unary_program : forall (emit : mdmap -> mdmap) (ops : list (uop mdmap)),
  (wf_md (emit (join (uaccepted_h uinit ops))) = true ->
   to_md (unary_header_kvs emit (fst (urun uinit ops))) = Some (norm (emit (join (uaccepted_h uinit ops))))) /\
  (wf_md (emit (join (uaccepted_t ops))) = true ->
   to_md (unary_trailer_kvs emit (fst (urun uinit ops))) = Some (norm (emit (join (uaccepted_t ops))))).
Proof.
  intros emit ops. destruct (urun_collects (uinit (MD := mdmap)) ops) as [Hh Ht]. cbn [uinit uh ut app] in Hh, Ht.
  unfold unary_header_kvs, unary_trailer_kvs. rewrite Hh, Ht.
  split; intro H; apply codec_exact; exact H.
Qed.
Print Assumptions C04_unary_program.

(* the server stream object under transport-write failures: for EVERY program and
   EVERY pattern of failing writes, at most one envelope that reaches the peer
   carries header metadata, and it carries exactly the maps the object retained
   (a SendHeader whose write failed is retried by the next flush), in order *)
Theorem C04_faults_headers : forall (MD P ST : Type) (s : sstate MD) (w : list (sop MD P ST * bool)),
  hsent s = false ->
  match filter has_hdr (sdelivered s w) with
  | [] => True
  | e :: rest => rest = [] /\ hdr_md e = Some (hdrs s ++ retained_hdrs s w)
  end.
Proof. intros MD P ST. exact faults_headers. Qed.
Print Assumptions C04_faults_headers.

(* ... what the code LOSES: the first message (or the final status) marks the
   pending headers sent before it is written; if that write fails no envelope will
   ever carry them *)
Theorem C04_faults_headers_lost : forall (MD P ST : Type) (s : sstate MD) (o : sop MD P ST) (w : list (sop MD P ST * bool)),
  hsent s = false ->
  (exists p, o = SendMsg p) \/ (exists st, o = SendTrailer st /\ tsent s = false) ->
  filter has_hdr (sdelivered s ((o, false) :: w)) = [].
Proof. intros MD P ST. exact faults_headers_lost. Qed.
Print Assumptions C04_faults_headers_lost.

(* ... what it KEEPS: a SendHeader whose write failed leaves its map pending *)
Theorem C04_faults_sendheader_retried : forall (MD P ST : Type) (s : sstate MD) (md : MD) (p : P) (w : list (sop MD P ST * bool)),
  hsent s = false ->
  sdelivered s ((SendHeader md, false) :: (SendMsg p, true) :: w) =
  WMsg (Some (hdrs s ++ [md])) p :: sdelivered (mkS (hdrs s ++ [md]) true (trls s) (tsent s)) w.
Proof. intros MD P ST. exact faults_sendheader_retried. Qed.
Print Assumptions C04_faults_sendheader_retried.

(* ... and the first SendTrailer, successful or not, closes the stream for
   writing: no trailer envelope follows it *)
Theorem C04_faults_trailer_once : forall (MD P ST : Type) (s : sstate MD) (st : ST) (wok : bool) (w : list (sop MD P ST * bool)),
  tsent s = false ->
  Forall (fun e : wenv MD P ST => is_trailer e = false)
         (sdelivered (fst (fst (sstep s (SendTrailer st : sop MD P ST) wok))) w).
Proof. intros MD P ST. exact faults_trailer_once. Qed.
Print Assumptions C04_faults_trailer_once.

(* non-vacuity *)
Example C04_ex_codec :
  to_md (to_kv [(B"Trace-Bin", [bz [0; 255; 10]%Z; []]); (B"X-Key", [B"a"; B"b"])])
  = Some [(B"trace-bin", [bz [0; 255; 10]%Z; []]); (B"x-key", [B"a"; B"b"])].
Proof. vm_compute. reflexivity. Qed.
Example C04_ex_flush :
  swritten (@sinit nat) [SetHeader 1%nat; SetTrailer 7%nat; SendMsg 5%nat; SetHeader 2%nat; SendTrailer 0%nat]
  = [WMsg (Some [1%nat]) 5%nat; WTrailer None [7%nat] 0%nat].
Proof. vm_compute. reflexivity. Qed.
Example C04_ex_sys_request :
  option_map (drop_key injected_lkey) (handler_md (request_kvs [(B"trace-bin", [bz [0; 255]%Z]); (B"x-key", [B"a"; B"b"])] (Some (B"250m"))))
  = Some [(B"trace-bin", [bz [0; 255]%Z]); (B"x-key", [B"a"; B"b"])].
Proof. vm_compute. reflexivity. Qed.
Example C04_ex_sys_header_with_status :
  client_header (fun m => m) (@stream_envs nat nat [SetHeader [(B"A-Bin", [bz [7]%Z])]; SetTrailer [(B"t", [B"1"])]; SetHeader [(B"A-Bin", [bz [0]%Z])]] 5%nat)
  = Some (Some [(B"a-bin", [bz [7]%Z; bz [0]%Z])]).
Proof. vm_compute. reflexivity. Qed.
Example C04_ex_failed_send_keeps_headers :
  swritten (@sinit nat) [SetHeader 1%nat; SendMsgBad 9%nat; SetHeader 2%nat; SendTrailer 0%nat]
  = [WTrailer (Some [1%nat; 2%nat]) [] 0%nat].
Proof. vm_compute. reflexivity. Qed.
Example C04_ex_unary_program :
  to_md (unary_header_kvs (fun m => m)
           (fst (urun uinit [USetHeader [(B"A-Bin", [bz [7]%Z])]; USendHeader [(B"a-bin", [bz [0]%Z]); (B"x", [B"1"])];
                             USetHeader [(B"late", [B"refused"])]; USetTrailer [(B"t", [B"z"])]])))
  = Some [(B"a-bin", [bz [7]%Z; bz [0]%Z]); (B"x", [B"1"])].
Proof. vm_compute. reflexivity. Qed.
Example C04_ex_faults_lost :
  sdelivered (@sinit nat) [(SetHeader 1%nat, true); (SendMsg 5%nat, false); (SendMsg 6%nat, true); (SendTrailer 0%nat, true)]
  = [WMsg None 6%nat; @WTrailer nat nat nat None [] 0%nat].
Proof. vm_compute. reflexivity. Qed.
Example C04_ex_faults_retried :
  sdelivered (@sinit nat) [(SetHeader 1%nat, true); (SendHeader 2%nat, false); (SendTrailer 0%nat, true)]
  = [@WTrailer nat nat nat (Some [1%nat; 2%nat]) [] 0%nat].
Proof. vm_compute. reflexivity. Qed.

(* C03 - The status a handler finishes with is the status the caller observes.
   Property theorems only; proofs are in Proofs/StatusProofs.v.

   [E] is the type of non-nil Go error values a handler can return, [M] of
   status messages, [D] of detail values (protobuf Any), [P] of message bodies:
   all arbitrary. grpc's own conversions are arguments of the model:
     from_error e = status.FromError(e)         (status, ok)
     from_ctx e   = status.FromContextError(e)
   The only fact used about them in the round-trip theorems is that status codes
   are uint32 values ([code_ok]); the theorems that speak of "a non-status
   error" state grpc's laws for such errors as explicit premises. The rig
   validates every premise on the real grpc library on every run (case CConv of
   Check/C03c.v). *)
From Coq Require Import List ZArith Bool.
Import ListNotations.
From Goat Require Import Model.Status Proofs.StatusProofs.
From Goat Require Model.Client Model.Server Model.Sys Proofs.SysStatus.
Open Scope Z_scope.

(* Unary, for EVERY handler result: with a nil error the caller gets the reply;
   with a non-nil error e the caller gets a status error which is exactly
   [spec_unary e]: the status grpc finds in e (status errors, wrapped ones
   included: code, message and details unchanged) or FromContextError's status
   (all other errors), an OK code replaced by Internal - whether or not the
   handler also returned a reply. *)
Theorem C03_unary_roundtrip : forall (M D P E : Type)
    (from_error : E -> status M D * bool) (from_ctx : E -> status M D) (decodes : P -> bool)
    (h : option E) (reply : option P),
  (forall e, code_ok (st_code (fst (from_error e)))) ->
  (forall e, code_ok (st_code (from_ctx e))) ->
  client_unary decodes (unary_final from_error from_ctx h reply) =
  match h with
  | None => match reply with
            | Some b => if decodes b then UOk b else UBadBody
            | None => UMalformed
            end
  | Some e => UErr (spec_unary from_error from_ctx e)
  end.
Proof. intros M D P E. exact unary_roundtrip. Qed.
Print Assumptions C03_unary_roundtrip.

(* Streams (client-, server-, bidirectional): the trailer the server writes
   for handler result h ends the caller's stream with io.EOF iff h is nil, else
   with exactly [spec_stream e] *)
Theorem C03_stream_roundtrip : forall (M D P E : Type)
    (from_error : E -> status M D * bool) (m_ok m_reset : M) (h : option E),
  (forall e, code_ok (st_code (fst (from_error e)))) ->
  client_stream_final m_reset (@stream_final M D P E from_error m_ok h) =
  Some (match h with None => SEof | Some e => SErr (spec_stream from_error e) end).
Proof. intros M D P E. exact stream_roundtrip. Qed.
Print Assumptions C03_stream_roundtrip.

(* ... at every position of the RPC: whatever messages ms the handler sent
   before returning (none, some, all) and whatever arrives after the trailer,
   the caller receives exactly ms and then the handler's outcome *)
Theorem C03_stream_program : forall (M D P E : Type)
    (from_error : E -> status M D * bool) (m_ok m_reset : M) (ms : list P) (h : option E) (late : list (fenv M D P)),
  (forall e, code_ok (st_code (fst (from_error e)))) ->
  client_stream_run m_reset (map msg_env ms ++ @stream_final M D P E from_error m_ok h :: late) =
  (ms, Some (match h with None => SEof | Some e => SErr (spec_stream from_error e) end)).
Proof. intros M D P E. exact stream_program. Qed.
Print Assumptions C03_stream_program.

(* the expected status is never OK, and keeps message and details *)
Theorem C03_expected_nonok : forall (M D : Type) (st : status M D),
  st_code (force_nonok st) <> cOK /\
  st_msg (force_nonok st) = st_msg st /\ st_det (force_nonok st) = st_det st /\
  (st_code st <> cOK -> force_nonok st = st).
Proof.
  intros M D st. split; [apply force_nonok_nonok|].
  destruct (force_nonok_fields st) as [H1 H2]. repeat split; try assumption. apply force_nonok_id.
Qed.
Print Assumptions C03_expected_nonok.

(* a status error (a *status.Error of any code, or any error that wraps one or
   implements GRPCStatus: grpc finds its status st): code, message and details
   of st reach the caller unchanged (an OK code becomes Internal) *)
Theorem C03_unary_status_error : forall (M D P E : Type)
    (from_error : E -> status M D * bool) (from_ctx : E -> status M D) (decodes : P -> bool)
    (e : E) (st : status M D) (reply : option P),
  (forall e, code_ok (st_code (fst (from_error e)))) ->
  (forall e, code_ok (st_code (from_ctx e))) ->
  from_error e = (st, true) ->
  client_unary decodes (unary_final from_error from_ctx (Some e) reply) =
  UErr (if st_code st =? cOK then mkSt cInternal (st_msg st) (st_det st) else st).
Proof. intros M D P E. exact unary_status_error. Qed.
Print Assumptions C03_unary_status_error.

Theorem C03_stream_status_error : forall (M D P E : Type)
    (from_error : E -> status M D * bool) (m_ok m_reset : M) (e : E) (st : status M D) (ok : bool),
  (forall e, code_ok (st_code (fst (from_error e)))) ->
  from_error e = (st, ok) ->
  client_stream_final m_reset (@stream_final M D P E from_error m_ok (Some e)) =
  Some (SErr (if st_code st =? cOK then mkSt cInternal (st_msg st) (st_det st) else st)).
Proof. intros M D P E. exact stream_status_error. Qed.
Print Assumptions C03_stream_status_error.

(* a non-status error (plain, context, io.EOF): grpc's FromContextError yields
   a non-OK code with the error text as message - the caller of a unary RPC
   observes a non-OK status carrying the error text. (For streams the same
   follows from C03_stream_status_error with grpc's law FromError e =
   (Unknown, text e, []), false.) *)
Theorem C03_unary_plain_error : forall (M D P E : Type)
    (from_error : E -> status M D * bool) (from_ctx : E -> status M D) (decodes : P -> bool)
    (text : E -> M) (e : E) (st : status M D) (reply : option P),
  (forall e, code_ok (st_code (fst (from_error e)))) ->
  (forall e, code_ok (st_code (from_ctx e))) ->
  (forall e, st_code (from_ctx e) <> cOK /\ st_msg (from_ctx e) = text e /\ st_det (from_ctx e) = []) ->
  from_error e = (st, false) ->
  exists c, c <> cOK /\
    client_unary decodes (unary_final from_error from_ctx (Some e) reply) = UErr (mkSt c (text e) []).
Proof. intros M D P E. exact unary_plain_error. Qed.
Print Assumptions C03_unary_plain_error.

(* No false success, for EVERY final envelope (any peer, any combination of
   fields). Unary: Invoke returns nil exactly when the reply carries a decodable
   body and no status or an OK status. (The reset and trailer fields of a unary
   reply are not consulted by the code: C03_unary_foreign below.) *)
Theorem C03_no_false_success_unary : forall (M D P : Type) (decodes : P -> bool) (v : fenv M D P) (b : P),
  client_unary decodes v = UOk b <->
  (e_body v = Some b /\ decodes b = true /\
   (e_status v = None \/ exists ws, e_status v = Some ws /\ ws_code ws = 0)).
Proof.
  intros M D P decodes v b. split.
  - apply unary_success_only_if.
  - intros [H1 [H2 H3]]. apply unary_success_if; assumption.
Qed.
Print Assumptions C03_no_false_success_unary.

(* Streams: an envelope ends the stream with io.EOF exactly when it carries a
   trailer, NO reset, and no status or an OK status *)
Theorem C03_no_false_success_stream : forall (M D P : Type) (m_reset : M) (v : fenv M D P),
  client_stream_final m_reset v = Some SEof <->
  (e_reset v = false /\ e_trailer v = true /\
   (e_status v = None \/ exists ws, e_status v = Some ws /\ ws_code ws = 0)).
Proof.
  intros M D P m_reset v. split.
  - apply stream_eof_only_if.
  - intros [H1 [H2 H3]]. apply stream_eof_if; assumption.
Qed.
Print Assumptions C03_no_false_success_stream.

(* ... and for every response sequence a peer can send: a clean end is reported
   only if the first stream-ending envelope is such a trailer, after delivering
   exactly the bodies before it *)
Theorem C03_no_false_success_run : forall (M D P : Type) (m_reset : M) (vs : list (fenv M D P)) (bs : list P),
  client_stream_run m_reset vs = (bs, Some SEof) ->
  exists pre v post, vs = pre ++ v :: post /\
    Forall (fun x => e_reset x = false /\ e_trailer x = false) pre /\
    e_reset v = false /\ e_trailer v = true /\
    (e_status v = None \/ exists ws, e_status v = Some ws /\ ws_code ws = 0) /\
    bs = bodies pre.
Proof. intros M D P. exact run_eof_only_if. Qed.
Print Assumptions C03_no_false_success_run.

(* a stream reset by the peer is never a success: any envelope with a reset -
   with or without trailer, status (OK included), body - ends the stream with
   Unavailable *)
Theorem C03_reset_not_success : forall (M D P : Type) (m_reset : M) (v : fenv M D P),
  e_reset v = true -> client_stream_final m_reset v = Some (SErr (mkSt cUnavailable m_reset [])).
Proof. intros M D P. exact stream_reset. Qed.
Print Assumptions C03_reset_not_success.

(* a unary reply with an explicit OK status and a body is a success with that body *)
Theorem C03_ok_with_body : forall (M D P : Type) (decodes : P -> bool) (m : M) (d : list D) (b : P) (tr rst : bool),
  decodes b = true ->
  client_unary decodes (mkEnv (Some (mkWs 0 m d)) (Some b) tr rst) = UOk b.
Proof. intros M D P. exact unary_ok_with_body. Qed.
Print Assumptions C03_ok_with_body.

(* foreign shapes, exactly as the code treats them.
   Unary: a non-OK status wins over a body; trailer and reset are not consulted
   (so the server's reset envelope, which has neither status nor body, is the
   error "malformed response"). *)
Theorem C03_unary_foreign : forall (M D P : Type) (decodes : P -> bool),
  (forall (ws : wstatus M D) (ob : option P) (tr rst : bool),
     ws_code ws <> 0 -> client_unary decodes (mkEnv (Some ws) ob tr rst) = UErr (of_wire ws)) /\
  (forall (os : option (wstatus M D)) (ob : option P) (tr rst tr' rst' : bool),
     client_unary decodes (mkEnv os ob tr rst) = client_unary decodes (mkEnv os ob tr' rst')) /\
  client_unary decodes (@reset_env M D P) = UMalformed.
Proof.
  intros M D P decodes. split; [|split].
  - apply unary_status_wins.
  - apply unary_ignores_trailer_reset.
  - apply unary_reset_env.
Qed.
Print Assumptions C03_unary_foreign.

(* Streams: a status without trailer (and without reset) does not end the
   stream, whatever its code; a trailer with a non-OK status ends it with that
   status even if a body rides along *)
Theorem C03_stream_foreign : forall (M D P : Type) (m_reset : M),
  (forall (os : option (wstatus M D)) (ob : option P), client_stream_final m_reset (mkEnv os ob false false) = None) /\
  (forall (ws : wstatus M D) (ob : option P),
     ws_code ws <> 0 -> client_stream_final m_reset (mkEnv (Some ws) ob true false) = Some (SErr (of_wire ws))).
Proof.
  intros M D P m_reset. split.
  - apply stream_no_trailer.
  - apply stream_trailer_status.
Qed.
Print Assumptions C03_stream_foreign.

(* the status error the caller gets from a non-zero wire code is never OK,
   also for codes outside the 17 defined ones *)
Theorem C03_wire_code_nonok : forall (M D : Type) (ws : wstatus M D),
  - two31 <= ws_code ws < two31 -> ws_code ws <> 0 -> st_code (of_wire ws) <> cOK.
Proof. intros M D. exact of_wire_nonok. Qed.
Print Assumptions C03_wire_code_nonok.

(* ---- on interleavings: every run of the concurrent models (Model/Client.v,
   Model/Server.v and their product Model/Sys.v - builders cl, sv, sy; the lemmas
   are in Proofs/SysStatus.v). Any order of caller operations, handler steps,
   transport deliveries, resets, cancellations, read and write failures. ---- *)

(* client: whatever RecvMsg returns at the end of a stream is io.EOF / a status /
   Unavailable only as the classification of an envelope THIS call took (a clean
   trailer; a trailer with that non-OK status; a reset), Canceled /
   DeadlineExceeded only when the call's own context is done, the connection's
   error only after the transport's read failed *)
Theorem C03_client_observes : forall ls (s : Client.state),
  Client.lrun Client.init ls = Some s ->
  forall c k x, nth_error (Client.calls s) c = Some k ->
    In (Client.EvRecvRet c (Client.RErr x)) (Client.log s) -> SysStatus.recv_error_ok s c k x.
Proof. exact SysStatus.client_recv_error_kinds. Qed.
Print Assumptions C03_client_observes.

(* the classification used by the concurrent client model is the one of this
   file's theorems (client_stream_final), envelope by envelope *)
Theorem C03_client_model_link : forall (m_reset : Z) (e : Client.env),
  (forall st, Client.estatus e = Some st -> 0 <= Client.st_code st < two31) ->
  Client.final_of e = SysStatus.of_outcome e (client_stream_final m_reset (SysStatus.abs_env e)).
Proof. exact SysStatus.final_of_is_status_model. Qed.
Print Assumptions C03_client_model_link.

(* server: the trailer SendTrailer builds for stream handler h is a function of
   what h returned: status [sstatus e], OK exactly for nil, no reset, no body *)
Theorem C03_server_trailer : forall nw ls (s : Server.state) h fr,
  Server.lrun (Server.init_n nw) ls = Some s -> In (Server.SvTrailer h fr) (Server.log s) ->
  In (Server.SvRet h) (Server.log s) /\
  exists k e, fr = Server.trl_frame k e /\
              Client.estatus (Server.f_env fr) = Some (Server.sstatus e) /\ Client.etrl (Server.f_env fr) <> None /\
              Client.erst (Server.f_env fr) = false /\ Client.ebody (Server.f_env fr) = None /\
              (Client.st_code (Server.sstatus e) = 0 <-> e = Server.HNil).
Proof. exact SysStatus.server_trailer_status. Qed.
Print Assumptions C03_server_trailer.

(* the system: in EVERY run - reset overtaking the trailer, cancellation with
   unread messages, faults - a stream call is reported successful (io.EOF) only if
   the handler serving it returned nil and its OK trailer is the envelope the
   caller took. (That every message was delivered before it: C02_caller_eof_complete.)
   PARTIAL on the product model: for a NON-OK status the identification "the status
   the caller observes is sstatus of what the handler returned" is stated per
   component (C03_client_observes: the status is that of an envelope the call took,
   with trailer and without reset; C03_server_trailer: the only envelopes with a
   trailer and a status that a server writes for a stream are SendTrailer's;
   the wire carries them unchanged: C02_wire_s2c_prefix / client_read_was_written)
   and composed by hand; the product-model invariant behind C02_caller_eof_sound
   (Proofs/SysC02c.v EI) is specialised to OK trailers. *)
Theorem C03_sys_no_false_success_partial : forall pol ls (s : Sys.state) c k,
  Sys.lrun pol Sys.init ls = Some s ->
  nth_error (Client.calls (Sys.cl s)) c = Some k -> Client.k_unary k = false ->
  In (Client.EvRecvRet c (Client.RErr Client.EEof)) (Client.log (Sys.cl s)) ->
  exists h kh k2, nth_error (Server.hs (Sys.sv s)) h = Some kh /\ Server.fid (Server.h_req kh) = Client.k_id k /\
                  In (Server.SvRet h) (Server.log (Sys.sv s)) /\
                  In (Server.SvTrailer h (Server.trl_frame k2 Server.HNil)) (Server.log (Sys.sv s)) /\
                  In (Client.EvTake c (Server.f_env (Server.trl_frame k2 Server.HNil))) (Client.log (Sys.cl s)).
Proof. exact SysStatus.sys_eof_only_if_handler_nil. Qed.
Print Assumptions C03_sys_no_false_success_partial.

(* the wire: in every run of the system, the envelope a call takes from its queue
   is a frame the SERVER WROTE, with the call's id (no fabrication, no cross-talk) *)
Theorem C03_wire_carries_status : forall pol ls (s : Sys.state) c e,
  Sys.lrun pol Sys.init ls = Some s -> In (Client.EvTake c e) (Client.log (Sys.cl s)) ->
  (exists k, nth_error (Client.calls (Sys.cl s)) c = Some k /\ Client.k_id k = Client.eid e) /\
  exists fr, In (Server.SvWrite fr) (Server.log (Sys.sv s)) /\ Server.f_env fr = e /\ Server.fid fr = Client.eid e.
Proof. exact SysStatus.wire_carries_status. Qed.
Print Assumptions C03_wire_carries_status.

(* C03_sys_status, PARTIAL. In every run of the system: a non-OK status st that
   RecvMsg returns (i.e. not Canceled / DeadlineExceeded of the caller's own
   context, not Unavailable after a reset, not the connection's error: those are
   other constructors, C03_client_observes) is carried - code and message - by a
   frame with a trailer and without reset that the server wrote for THIS call's id
   and that this call took. What is NOT proved on the product model: that every
   such frame the server writes for a stream id is SendTrailer's for the handler
   serving that id (then st = sstatus of what ITS handler returned, by
   C03_server_trailer) or one of the server's own error replies. The server half
   exists per handler (C03_server_trailer: every SvTrailer frame is trl_frame k e);
   the missing link is a shape invariant over ALL frames pending at the server
   ("a status-final frame is a trl_frame, a unary_reply or an error reply"), i.e.
   sy's origin invariant (Proofs/SysC02c.v EI) generalised from OK trailers to
   status-carrying frames of both origins; it did not fit the round. *)
Theorem C03_sys_status_partial : forall pol ls (s : Sys.state) c k st,
  Sys.lrun pol Sys.init ls = Some s ->
  nth_error (Client.calls (Sys.cl s)) c = Some k ->
  In (Client.EvRecvRet c (Client.RErr (Client.EStatus st))) (Client.log (Sys.cl s)) ->
  exists fr, In (Server.SvWrite fr) (Server.log (Sys.sv s)) /\ Server.fid fr = Client.k_id k /\
             In (Client.EvTake c (Server.f_env fr)) (Client.log (Sys.cl s)) /\
             Client.estatus (Server.f_env fr) = Some st /\ Client.st_code st <> 0 /\
             Client.etrl (Server.f_env fr) <> None /\ Client.erst (Server.f_env fr) = false.
Proof. exact SysStatus.sys_status_from_server_frame. Qed.
Print Assumptions C03_sys_status_partial.

(* streams, non-status errors (the audit: "the stream form is not a theorem"):
   with grpc's law FromError e = (Unknown, text e, []), false for such errors, the
   caller observes Unknown with the error text *)
Theorem C03_stream_plain_error : forall (M D P E : Type)
    (from_error : E -> status M D * bool) (m_ok m_reset : M) (text : E -> M) (e : E),
  (forall e, code_ok (st_code (fst (from_error e)))) ->
  from_error e = (mkSt cUnknown (text e) [], false) ->
  client_stream_final m_reset (@stream_final M D P E from_error m_ok (Some e)) =
  Some (SErr (mkSt cUnknown (text e) [])).
Proof.
  intros M D P E from_error m_ok m_reset text e H1 Hfe.
  rewrite (stream_status_error from_error m_ok m_reset e _ false H1 Hfe). reflexivity.
Qed.
Print Assumptions C03_stream_plain_error.

(* a stream envelope {OK status, body, trailer}: clean end, the body is not delivered *)
Theorem C03_stream_ok_trailer_with_body : forall (M D P : Type) (m_reset m : M) (d : list D) (b : P) (rest : list (fenv M D P)),
  client_stream_run m_reset (mkEnv (Some (mkWs 0 m d)) (Some b) true false :: rest) = ([], Some SEof).
Proof. reflexivity. Qed.
Print Assumptions C03_stream_ok_trailer_with_body.

(* non-vacuity: concrete instances (messages, details, bodies, errors are numbers;
   error n "is" a status error with code n when n < 17, a plain error otherwise) *)
Definition ex_from_error (e : Z) : status Z Z * bool :=
  if e <? 17 then (mkSt e 100 [1; 2], true) else (mkSt cUnknown e [], false).
Definition ex_from_ctx (e : Z) : status Z Z := mkSt (if e =? 99 then cCanceled else cUnknown) e [].

Example C03_ex_unary_notfound :
  client_unary (fun _ : Z => true) (unary_final ex_from_error ex_from_ctx (Some 5) (Some 8)) = UErr (mkSt 5 100 [1; 2]).
Proof. vm_compute. reflexivity. Qed.
Example C03_ex_unary_okcode :
  client_unary (fun _ : Z => true) (unary_final ex_from_error ex_from_ctx (Some 0) (Some 8)) = UErr (mkSt cInternal 100 [1; 2]).
Proof. vm_compute. reflexivity. Qed.
Example C03_ex_unary_canceled :
  client_unary (fun _ : Z => true) (unary_final ex_from_error ex_from_ctx (Some 99) None) = UErr (mkSt cCanceled 99 []).
Proof. vm_compute. reflexivity. Qed.
Example C03_ex_stream :
  client_stream_run 77 (map msg_env [1; 2] ++ [@stream_final Z Z Z Z ex_from_error 0 (Some 16); reset_env]) =
  ([1; 2], Some (SErr (mkSt 16 100 [1; 2]))).
Proof. vm_compute. reflexivity. Qed.
Example C03_ex_reset :
  client_stream_run 77 [msg_env 1; mkEnv (Some (mkWs 0 0 [])) (@None Z) true true] = ([1], Some (SErr (mkSt cUnavailable 77 (@nil Z)))).
Proof. vm_compute. reflexivity. Qed.
(* the concurrent client model produces each kind of terminal observation the
   interleaving theorems speak of (Client.run = the model's executable semantics:
   every environment action followed by its internal rules to quiescence) *)
Example C03_ex_client_status :
  In (Client.EvRecvRet 0 (Client.RErr (Client.EStatus (Client.mkSt 5 7))))
     (Client.log (Client.run [Client.ANewStream false;
                              Client.ADeliver (Client.mkEnv 1 (Some (Client.MdOk 0)) (Some (Client.mkSt 5 7)) None (Some (Client.MdOk 0)) false);
                              Client.ARecv 0 false])).
Proof. vm_compute. tauto. Qed.
Example C03_ex_client_reset_overtakes :
  In (Client.EvRecvRet 0 (Client.RErr Client.EReset))
     (Client.log (Client.run [Client.ANewStream false;
                              Client.ADeliver (Client.mkEnv 1 (Some (Client.MdOk 0)) None None (Some (Client.MdOk 0)) true);
                              Client.ADeliver (Client.mkEnv 1 (Some (Client.MdOk 0)) (Some (Client.mkSt 0 0)) None (Some (Client.MdOk 0)) false);
                              Client.ARecv 0 false])).
Proof. vm_compute. tauto. Qed.
Example C03_ex_client_cancel :
  In (Client.EvRecvRet 0 (Client.RErr Client.ECanceled))
     (Client.log (Client.run [Client.ANewStream false; Client.ARecv 0 false; Client.ACancel 0])).
Proof. vm_compute. tauto. Qed.
Example C03_ex_model_link :
  Client.final_of (Client.mkEnv 1 None (Some (Client.mkSt 9 3)) (Some 4) (Some (Client.MdOk 0)) false)
  = SysStatus.of_outcome (Client.mkEnv 1 None (Some (Client.mkSt 9 3)) (Some 4) (Some (Client.MdOk 0)) false)
      (client_stream_final 77 (SysStatus.abs_env (Client.mkEnv 1 None (Some (Client.mkSt 9 3)) (Some 4) (Some (Client.MdOk 0)) false))).
Proof. vm_compute. reflexivity. Qed.


(* C16 - A proxy delivers each accepted envelope once, in order, to the right
   peer. Property theorems only; the model is Model/Proxy.v (goat.Proxy as the
   code is now), the proofs are in Proofs/ProxyProofs.v. Every theorem
   quantifies over every configuration [cf] (proxy name, buffer size, any
   interceptor function) and all label sequences of the LTS: any number of
   peers, envelopes, faults, any interleaving of the goroutines. *)
From Coq Require Import List ZArith Bool.
Import ListNotations.
From Goat Require Import Model.Proxy Proofs.ProxyProofs Proofs.ProxyOrder.
Open Scope Z_scope.

(* per destination record i: what was enqueued for i is, in order, what i's connection was handed, then at
   most one envelope whose Write failed, then the one being written, then the buffer content: the sequence
   handed to the connection is a prefix of the enqueued sequence - in order, each at most once; the enqueued
   sequence is the accepted-and-routed sequence minus the envelopes dropped by the non-blocking enqueue *)
Theorem C16_accounting : forall cf ls s, lrun cf init ls = Some s -> forall i,
  enqs i (log s) = outs i (log s) ++ wfails i (log s) ++ wr_pend s i ++ buf_of s i /\
  (length (wfails i (log s)) <= 1)%nat /\
  enqs i (log s) = map fst (filter snd (fwdsb i (log s))) /\
  (length (buf_of s i) <= cf_buf cf)%nat.
Proof. exact C16_accounting_l. Qed.
Print Assumptions C16_accounting.

(* every accepted envelope (j: sender, e: as received, i: destination record, e': as enqueued) passed the source
   check, went to the record whose name is the rewritten destination (or the last hop of the return route,
   which is popped), and is unchanged except for the routing fields; the proxy's name is appended to the route
   record exactly once *)
Theorem C16_route : forall cf ls s, lrun cf init ls = Some s -> forall j e i e' ok, In (EvFwd j e i e' ok) (log s) ->
  exists cj ci, nth_error (clients s) j = Some cj /\ nth_error (clients s) i = Some ci /\
    e_hdr e = true /\ e_src e = p_name cj /\
    (exists d1, cf_icp cf (e_src e) (e_dst e) = Some d1 /\ e_dst e' = d1 /\
                p_name ci = match e_next e with Some (x :: l) => last (x :: l) 0 | _ => d1 end) /\
    e_hdr e' = true /\ e_src e' = e_src e /\ e_pay e' = e_pay e /\
    e_rec e' = e_rec e ++ [cf_name cf] /\
    e_next e' = match e_next e with Some (x :: l) => Some (removelast (x :: l)) | o => o end.
Proof. exact C16_route_l. Qed.
Print Assumptions C16_route.

(* a drop happens only at a moment at which the destination's buffer holds cf_buf envelopes *)
Theorem C16_drop_only_when_full : forall cf ls s, lrun cf init ls = Some s -> drops_only_when_full (cf_buf cf) (log s).
Proof. exact C16_drop_only_when_full_l. Qed.
Print Assumptions C16_drop_only_when_full.

(* hence, while no envelope routed to i ever finds cf_buf envelopes waiting in i's buffer, nothing is lost:
   everything accepted for i is, exactly once and in order, handed to the connection / being written / waiting *)
Theorem C16_no_loss : forall cf ls s, lrun cf init ls = Some s -> forall i,
  (forall pre j e e' ok post, log s = pre ++ EvFwd j e i e' ok :: post -> (occupancy i pre < cf_buf cf)%nat) ->
  dropped i (log s) = [] /\
  fwds i (log s) = outs i (log s) ++ wfails i (log s) ++ wr_pend s i ++ buf_of s i.
Proof. exact C16_no_loss_l. Qed.
Print Assumptions C16_no_loss.

(* per source: the forwarding loop receives the envelopes of record j's peer in the order the peer sent them,
   each once (at most one is lost: the one being offered when the record's context ends) *)
Theorem C16_source_order : forall cf ls s, lrun cf init ls = Some s -> forall j,
  delivered_of s j = cmds j (log s) ++ rd_pend s j ++ rd_lost j (log s) ++ inbox_of s j /\
  (length (rd_lost j (log s)) <= 1)%nat.
Proof. exact C16_source_order_l. Qed.
Print Assumptions C16_source_order.

(* dial on demand: exactly one newConnection per record created by the forwarding loop, and such a record is
   created only when its name has no table entry (of two records with one name the earlier lost its entry) *)
Theorem C16_dial_once : forall cf ls s, lrun cf init ls = Some s ->
  dials (log s) = dialled_from (clients s) 0 /\
  (forall i1 i2 c1 c2, nth_error (clients s) i1 = Some c1 -> nth_error (clients s) i2 = Some c2 ->
     p_name c1 = p_name c2 -> (i1 < i2)%nat -> p_reg c1 = false).
Proof. exact C16_dial_once_l. Qed.
Print Assumptions C16_dial_once.

(* ... and dialled again: whenever the routed name of an accepted envelope has no table entry - it never had one,
   or every record that carried it failed and lost it (C17_remove: also a record dialled on demand) - the forwarding
   step creates a new record for the name, starts exactly one dial and buffers the envelope for it *)
Theorem C16_redial : forall cf s p cp e d e',
  fw s = true -> nth_error (clients s) p = Some cp -> p_rd cp = RDOffer e ->
  forward cf (p_name cp) e = FRoute d e' ->
  find_reg d (upd p (set_rd cp RDRead false) (clients s)) 0 = None ->
  exists s', r_fw_cmd cf p s = Some s' /\
    dials (log s') = dials (log s) ++ [(length (clients s), d)] /\
    nth_error (clients s') (length (clients s)) = Some (fst (enqueue_c cf (new_dialled d) e')) /\
    In (EvFwd p e (length (clients s)) e' (snd (enqueue_c cf (new_dialled d) e'))) (log s').
Proof. exact C16_redial_l. Qed.
Print Assumptions C16_redial.

(* order per source-destination pair: the envelopes of source record j enqueued for destination record i, taken in
   the order of the history, are - as received - an in-order sub-sequence of the envelopes the proxy accepted from
   j, which are an in-order sub-sequence of what the forwarding loop received from j (by C16_source_order: of what
   j's peer sent, in its order); and - as handed on - an in-order sub-sequence of what was enqueued for i (by
   C16_accounting: handed to i's connection in exactly that order). One list of pairs, two projections: the
   k-th envelope of j among those handed to i is the transformation of the k-th envelope j sent to i *)
Theorem C16_pair_order : forall cf ls s, lrun cf init ls = Some s -> forall j i,
  Subseq (map fst (pairs j i (log s))) (accepted j (log s)) /\
  Subseq (accepted j (log s)) (cmds j (log s)) /\
  Subseq (map snd (pairs j i (log s))) (enqs i (log s)).
Proof. exact C16_pair_order_l. Qed.
Print Assumptions C16_pair_order.

(* The unconditional statement - every accepted envelope is eventually handed on, hence "a relayed stream is never
   reported complete with messages missing" - is FALSE of the code as it is: beyond the per-destination buffer the
   non-blocking enqueue drops (finding proxy-overflow>buf, D-16; by design: it is what C17's isolation relies on).
   Witness: a quiescent reachable state in which an accepted envelope is in no queue, was not handed on and was
   not the object of a failed write. C16_no_loss above is the strongest true statement (no loss while no envelope
   finds the buffer full); C16_drop_only_when_full says these are the only losses. The rig replays the witness on
   the real proxy (burst scenarios: 18 envelopes to a destination whose writer is blocked). *)
Theorem C16_complete_means_complete_refuted : exists cf ls s i x,
  lrun cf init ls = Some s /\ quiescent cf s = true /\ In x (fwds i (log s)) /\
  ~ In x (outs i (log s) ++ wfails i (log s) ++ wr_pend s i ++ buf_of s i).
Proof. exact C16_no_loss_refuted_l. Qed.
Print Assumptions C16_complete_means_complete_refuted.

(* ---------- the hypotheses are satisfiable ---------- *)
Definition cf0 : cfg := mkCfg 99 2 (fun _ d => Some d).
Definition m (src dst pay : Z) : env := mkEnv true src dst [] None pay.
(* peers 1 and 2 attached; 1 sends two envelopes to 2 and one to the unknown name 3 (dialled on demand) *)
Definition ex16 : list label :=
  [LExt (AAttach 1 true); LExt (AAttach 2 true);
   LExt (ADeliver 0 (m 1 2 70)); LExt (ADeliver 0 (m 1 2 71)); LExt (ADeliver 0 (m 1 3 72));
   LInt 5; LInt 1; LInt 5; LInt 1; LInt 5; LInt 1;         (* read loop of 0 / forwarding loop, three times *)
   LInt 21; LInt 23; LInt 21; LInt 23;                     (* write loop of 1: take, write, take, write *)
   LExt (ADialOk 2 true); LInt 34; LInt 36].               (* the dial completes; write loop of 2 *)
Example C16_ex : exists s, lrun cf0 init ex16 = Some s /\
  outs 1 (log s) = [mkEnv true 1 2 [99] None 70; mkEnv true 1 2 [99] None 71] /\
  outs 2 (log s) = [mkEnv true 1 3 [99] None 72] /\ dials (log s) = [(2%nat, 3)] /\
  dropped 1 (log s) = [] /\ quiescent cf0 s = true /\
  pairs 0 1 (log s) = [(m 1 2 70, mkEnv true 1 2 [99] None 70); (m 1 2 71, mkEnv true 1 2 [99] None 71)].
Proof. eexists. split. vm_compute. reflexivity. vm_compute. repeat split; reflexivity. Qed.

(* the known limit (finding proxy-overflow>buf): with the destination's write loop stalled, the envelope that
   finds the buffer full is dropped - and only that one *)
Example C16_ex_overflow : exists s,
  lrun cf0 init [LExt (AAttach 1 true); LExt (AAttach 2 true); LExt (ASetWrite 1 WBlock);
                 LExt (ADeliver 0 (m 1 2 70)); LExt (ADeliver 0 (m 1 2 71)); LExt (ADeliver 0 (m 1 2 72)); LExt (ADeliver 0 (m 1 2 73));
                 LInt 5; LInt 1; LInt 21; LInt 5; LInt 1; LInt 5; LInt 1; LInt 5; LInt 1] = Some s /\
  wr_pend s 1 = [mkEnv true 1 2 [99] None 70] /\ length (buf_of s 1) = 2%nat /\
  dropped 1 (log s) = [mkEnv true 1 2 [99] None 73].
Proof. eexists. split. vm_compute. reflexivity. vm_compute. repeat split; reflexivity. Qed.

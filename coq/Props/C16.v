(* C16 - A proxy delivers each accepted envelope once, in order, to the right
   peer. Property theorems only; the model is Model/Proxy.v (goat.Proxy as the
   code is now), the proofs are in Proofs/ProxyProofs.v. Every theorem
   quantifies over every configuration [cf] (proxy name, buffer size, any
   interceptor that is a function (source, destination) -> rewritten
   destination | rejection: the real interceptor gets the header and could
   also change other fields; such interceptors are outside the model and the
   rig's family) and all label sequences of the LTS: any number of
   peers, envelopes, faults, any interleaving of the goroutines. *)
From Coq Require Import List ZArith Bool.
Import ListNotations.
From Goat Require Import Model.Proxy Proofs.ProxyProofs Proofs.ProxyOrder Proofs.ProxyWire Proofs.ProxyMeasure Proofs.ProxyIsWire.
Open Scope Z_scope.

(* per destination record i: what was enqueued for i is, in order, what i's connection was handed, then at
   most one envelope whose Write failed, then the one being written, then the buffer content: the sequence
   handed to the connection is a prefix of the enqueued sequence - in order, each at most once; the enqueued
   sequence is the accepted-and-routed sequence minus the envelopes dropped by the non-blocking enqueue *)
Theorem C16_accounting : forall cf ls s, lrun cf init ls = Some s -> forall i,
  enqs i (log s) = outs i (log s) ++ wfails i (log s) ++ wr_pend s i ++ buf_of s i /\
  (length (wfails i (log s)) <= 1)%nat /\
  enqs i (log s) = map fst (filter snd (fwdsb i (log s))) /\
  (length (buf_of s i) <= cf_buf cf)%nat.
Proof. exact C16_accounting_l. Qed.
Print Assumptions C16_accounting.

(* every accepted envelope (j: sender, e: as received, i: destination record, e': as enqueued) passed the source
   check, went to the record whose name is the rewritten destination (or the last hop of the return route,
   which is popped), and is unchanged except for the routing fields; the proxy's name is appended to the route
   record exactly once *)
Theorem C16_route : forall cf ls s, lrun cf init ls = Some s -> forall j e i e' ok, In (EvFwd j e i e' ok) (log s) ->
  exists cj ci, nth_error (clients s) j = Some cj /\ nth_error (clients s) i = Some ci /\
    e_hdr e = true /\ e_src e = p_name cj /\
    (exists d1, cf_icp cf (e_src e) (e_dst e) = Some d1 /\ e_dst e' = d1 /\
                p_name ci = match e_next e with Some (x :: l) => last (x :: l) 0 | _ => d1 end) /\
    e_hdr e' = true /\ e_src e' = e_src e /\ e_pay e' = e_pay e /\
    e_rec e' = e_rec e ++ [cf_name cf] /\
    e_next e' = match e_next e with Some (x :: l) => Some (removelast (x :: l)) | o => o end.
Proof. exact C16_route_l. Qed.
Print Assumptions C16_route.

(* a drop happens only at a moment at which the destination's buffer holds cf_buf envelopes *)
Theorem C16_drop_only_when_full : forall cf ls s, lrun cf init ls = Some s -> drops_only_when_full (cf_buf cf) (log s).
Proof. exact C16_drop_only_when_full_l. Qed.
Print Assumptions C16_drop_only_when_full.

(* hence, while no envelope routed to i ever finds cf_buf envelopes waiting in i's buffer, nothing is lost:
   everything accepted for i is, exactly once and in order, handed to the connection / being written / waiting *)
Theorem C16_no_loss : forall cf ls s, lrun cf init ls = Some s -> forall i,
  (forall pre j e e' ok post, log s = pre ++ EvFwd j e i e' ok :: post -> (occupancy i pre < cf_buf cf)%nat) ->
  dropped i (log s) = [] /\
  fwds i (log s) = outs i (log s) ++ wfails i (log s) ++ wr_pend s i ++ buf_of s i.
Proof. exact C16_no_loss_l. Qed.
Print Assumptions C16_no_loss.

(* per source: the forwarding loop receives the envelopes of record j's peer in the order the peer sent them,
   each once (at most one is lost: the one being offered when the record's context ends) *)
Theorem C16_source_order : forall cf ls s, lrun cf init ls = Some s -> forall j,
  delivered_of s j = cmds j (log s) ++ rd_pend s j ++ rd_lost j (log s) ++ inbox_of s j /\
  (length (rd_lost j (log s)) <= 1)%nat.
Proof. exact C16_source_order_l. Qed.
Print Assumptions C16_source_order.

(* dial on demand: exactly one newConnection per record created by the forwarding loop, and such a record is
   created only when its name has no table entry (of two records with one name the earlier lost its entry) *)
Theorem C16_dial_once : forall cf ls s, lrun cf init ls = Some s ->
  dials (log s) = dialled_from (clients s) 0 /\
  (forall i1 i2 c1 c2, nth_error (clients s) i1 = Some c1 -> nth_error (clients s) i2 = Some c2 ->
     p_name c1 = p_name c2 -> (i1 < i2)%nat -> p_reg c1 = false).
Proof. exact C16_dial_once_l. Qed.
Print Assumptions C16_dial_once.

(* ... and dialled again: whenever the routed name of an accepted envelope has no table entry - it never had one,
   or every record that carried it failed and lost it (C17_remove: also a record dialled on demand) - the forwarding
   step creates a new record for the name, starts exactly one dial and buffers the envelope for it *)
Theorem C16_redial : forall cf s p cp e d e',
  fw s = true -> nth_error (clients s) p = Some cp -> p_rd cp = RDOffer e ->
  forward cf (p_name cp) e = FRoute d e' ->
  find_reg d (upd p (set_rd cp RDRead false) (clients s)) 0 = None ->
  exists s', r_fw_cmd cf p s = Some s' /\
    dials (log s') = dials (log s) ++ [(length (clients s), d)] /\
    nth_error (clients s') (length (clients s)) = Some (fst (enqueue_c cf (new_dialled d) e')) /\
    In (EvFwd p e (length (clients s)) e' (snd (enqueue_c cf (new_dialled d) e'))) (log s').
Proof. exact C16_redial_l. Qed.
Print Assumptions C16_redial.

(* order per source-destination pair: the envelopes of source record j enqueued for destination record i, taken in
   the order of the history, are - as received - an in-order sub-sequence of the envelopes the proxy accepted from
   j, which are an in-order sub-sequence of what the forwarding loop received from j (by C16_source_order: of what
   j's peer sent, in its order); and - as handed on - an in-order sub-sequence of what was enqueued for i (by
   C16_accounting: handed to i's connection in exactly that order). One list of pairs, two projections: the
   k-th envelope of j among those handed to i is the transformation of the k-th envelope j sent to i *)
Theorem C16_pair_order : forall cf ls s, lrun cf init ls = Some s -> forall j i,
  Subseq (map fst (pairs j i (log s))) (accepted j (log s)) /\
  Subseq (accepted j (log s)) (cmds j (log s)) /\
  Subseq (map snd (pairs j i (log s))) (enqs i (log s)).
Proof. exact C16_pair_order_l. Qed.
Print Assumptions C16_pair_order.

(* C16_no_loss in the form the property uses: if never more than B <= buffer envelopes are outstanding for
   destination record i - after every prefix of the history: (accepted and routed to i so far) <= (handed to i's
   connection so far) + B - then nothing for i is ever dropped and everything accepted for i is, in order and once
   each, handed to its connection / being written / waiting. (0 < buffer: an unbuffered queue is another program;
   the rig measures 16 and the check demands >= 12.) *)
Theorem C16_no_loss_outstanding : forall cf ls s, lrun cf init ls = Some s -> forall i B,
  (0 < cf_buf cf)%nat -> (B <= cf_buf cf)%nat ->
  (forall pre post, log s = pre ++ post -> (length (fwds i pre) <= length (outs i pre) + B)%nat) ->
  dropped i (log s) = [] /\
  fwds i (log s) = outs i (log s) ++ wfails i (log s) ++ wr_pend s i ++ buf_of s i.
Proof. exact C16_no_loss_outstanding_l. Qed.
Print Assumptions C16_no_loss_outstanding.

(* (Q) delivery - "hands every envelope it accepts ... to the peer": in EVERY quiescent state, a record whose write loop
   is alive and idle (in its select: not inside a blocked Write, not failed, not ended) has an empty buffer and
   nothing in flight: everything ever enqueued for it has been handed to its connection (in order, once:
   C16_accounting), and if nothing was dropped for it (below the buffer: C16_no_loss_outstanding) that is everything
   accepted and routed to it *)
Theorem C16_delivered_Q : forall cf ls s, lrun cf init ls = Some s -> quiescent cf s = true ->
  forall i ci, nth_error (clients s) i = Some ci -> p_wr ci = WRSel ->
  buf_of s i = [] /\ wr_pend s i = [] /\ wfails i (log s) = [] /\
  outs i (log s) = enqs i (log s) /\
  (dropped i (log s) = [] -> outs i (log s) = fwds i (log s)).
Proof. exact C16_delivered_Q_l. Qed.
Print Assumptions C16_delivered_Q.

(* ---------- termination: no quiescence hypothesis left to the reader ---------- *)
(* every internal rule strictly decreases [measure] (per record: 5 per envelope still to be read, 3 per buffered
   envelope, a few units for the position of each loop; 1 for the running forwarding loop) *)
Theorem C16_measure : forall cf s n s', lstep cf s (LInt n) = Some s' -> (measure s' < measure s)%nat.
Proof. exact C16_measure_l. Qed.
Print Assumptions C16_measure.

(* hence every continuation by internal rules alone, from ANY state, has at most [measure s] steps ... *)
Theorem C16_terminates : forall cf ns s s', lrun cf s (ints ns) = Some s' -> (length ns + measure s' <= measure s)%nat.
Proof. exact C16_terminates_l. Qed.
Print Assumptions C16_terminates.

(* ... and from every state a maximal one exists (it ends in a state in which no internal rule is enabled) *)
Theorem C16_run_to_quiescence : forall cf s,
  exists ns s', lrun cf s (ints ns) = Some s' /\ quiescent cf s' = true /\ (length ns <= measure s)%nat.
Proof. exact C16_run_to_quiescence_l. Qed.
Print Assumptions C16_run_to_quiescence.

(* C16_delivered: from every reachable state s, along EVERY maximal continuation by internal rules (the environment
   does nothing more; the continuation is finite by C16_terminates and exists by C16_run_to_quiescence), a record
   whose write loop is alive and idle at the end - its peer reachable: connected, its Write not stalled, not failed -
   has been handed, in order and once each (C16_accounting), everything ever enqueued for it; and when nothing was
   dropped-when-full for it (C16_no_loss_outstanding), exactly everything accepted and routed to it: what had been
   accepted at s, then what the continuation accepted. "To the right peer, unchanged": C16_route / C16_wire. *)
Theorem C16_delivered : forall cf ls s, lrun cf init ls = Some s ->
  forall ns s', lrun cf s (ints ns) = Some s' -> quiescent cf s' = true ->
  forall i ci, nth_error (clients s') i = Some ci -> p_wr ci = WRSel ->
    buf_of s' i = [] /\ wr_pend s' i = [] /\ wfails i (log s') = [] /\
    outs i (log s') = enqs i (log s') /\
    (dropped i (log s') = [] ->
       outs i (log s') = fwds i (log s') /\ exists later, outs i (log s') = fwds i (log s) ++ later).
Proof. exact C16_delivered_l. Qed.
Print Assumptions C16_delivered.

(* the proxy as a wire: when nothing was ever dropped for destination record i (which the two theorems above
   guarantee below the buffer), then for EVERY source record j: the enqueued sequence of i (each envelope tagged
   with the record it came from) is what i's connection was handed ++ at most one failed write ++ the one being
   written ++ the buffer; its restriction to j is - in order, once each - exactly the sequence of envelopes accepted
   from j and routed to i, with the route transformation applied; those were received from j in that order
   (C16_source_order: sent by j's peer in that order); and "route applied" means [forward] (C16_route spells it
   out: only routing fields change). So between two attached parties the proxy is a reliable ordered wire that
   only rewrites routing fields *)
Theorem C16_wire : forall cf ls s, lrun cf init ls = Some s -> forall j i, dropped i (log s) = [] ->
  map snd (enqs_from i (log s)) = outs i (log s) ++ wfails i (log s) ++ wr_pend s i ++ buf_of s i /\
  map snd (filter (fun p => Nat.eqb (fst p) j) (enqs_from i (log s))) = map snd (routed j i (log s)) /\
  Subseq (map fst (routed j i (log s))) (cmds j (log s)) /\
  (forall e e', In (e, e') (routed j i (log s)) ->
     exists cj ci, nth_error (clients s) j = Some cj /\ nth_error (clients s) i = Some ci /\
                   forward cf (p_name cj) e = FRoute (p_name ci) e').
Proof. exact C16_wire_l. Qed.
Print Assumptions C16_wire.

(* ---------- the end-to-end clause, proxy side: the proxy IS a pair of FIFO wires (Proofs/ProxyIsWire.v) ---------- *)
(* Abstraction, per (source record j, destination record i): [wire_sent] = accepted from j, routed to i, route applied
   (only routing fields rewritten: C16_route); [wire_delivered] = what came out at i's connection from j;
   [proxy_as_wire] = what is in flight (in i's write loop or buffer). Model/Sys.v joins Client.v and Server.v by FIFO
   lists with "append at write, remove the head at transfer"; this is that wire. *)

(* C16_is_wire: whenever nothing was dropped for i: sent = delivered ++ in flight, for every source j - in order, each
   once; the envelopes in flight, all sources together, are exactly what i's write loop and buffer hold, and the
   delivered ones exactly what its connection was handed (plus the at most one failed write) *)
Theorem C16_is_wire : forall cf ls s, lrun cf init ls = Some s -> forall j i, dropped i (log s) = [] ->
  wire_sent s j i = wire_delivered s j i ++ proxy_as_wire s j i /\
  map snd (skipn (gone s i) (enqs_from i (log s))) = wr_pend s i ++ buf_of s i /\
  map snd (firstn (gone s i) (enqs_from i (log s))) = outs i (log s) ++ wfails i (log s).
Proof. exact C16_is_wire_l. Qed.
Print Assumptions C16_is_wire.

(* the forward simulation, step by step: ANY step of the proxy moves the wire of every pair only forwards (sent and
   delivered are extended at the end; nothing removed, reordered, inserted) with delivered a prefix of sent before and
   after: the step is a sequence of enqueues at the tail and dequeues of the head of the abstract wire, or a stutter *)
Theorem C16_wire_step : forall cf ls s l s', lrun cf init ls = Some s -> lstep cf s l = Some s' ->
  forall j i, dropped i (log s') = [] ->
  (exists a, wire_sent s' j i = wire_sent s j i ++ a) /\
  (exists b, wire_delivered s' j i = wire_delivered s j i ++ b) /\
  wire_sent s j i = wire_delivered s j i ++ proxy_as_wire s j i /\
  wire_sent s' j i = wire_delivered s' j i ++ proxy_as_wire s' j i.
Proof. exact C16_wire_step_l. Qed.
Print Assumptions C16_wire_step.

(* the transfer lemma: EVERY invariant of the abstract FIFO wire (true of the empty wire, preserved by "enqueue at the
   tail" and by "dequeue the head") holds of the proxy's projection onto any pair of records *)
Theorem C16_wire_transfer : forall P, wire_invariant P ->
  forall cf ls s, lrun cf init ls = Some s -> forall j i, dropped i (log s) = [] ->
  P (wire_sent s j i) (wire_delivered s j i).
Proof. exact C16_wire_transfer_l. Qed.
Print Assumptions C16_wire_transfer.

(* one instance, the wire fact behind C02 ("what the reader has got is a prefix of what the writer sent") and behind
   the pairing of C01: through the proxy the reader's sequence is a prefix of the writer's, route applied.
   PARTIAL as to the property's clause "C01-C04 hold through the proxied topology": that needs the product
   Client.v x Proxy.v x Server.v and a simulation onto Model/Sys.v (whose wires are these lists) - not built; what is
   proved is the proxy's half: it satisfies every wire invariant Sys.v's theorems can rely on. *)
Theorem C16_prefix_through_proxy_partial : forall cf ls s, lrun cf init ls = Some s -> forall j i, dropped i (log s) = [] ->
  exists rest, wire_sent s j i = wire_delivered s j i ++ rest.
Proof. exact C16_prefix_through_proxy_l. Qed.
Print Assumptions C16_prefix_through_proxy_partial.

(* the return route: [reply_of e' pay] is what a goat server answers to a request that reached it as e' (source and
   destination exchanged, return route = all but the last hop of the request's route record when it has more than
   one hop: server.go; the end-to-end rig ties it). The reply is routed to the hop the request came from (popped off
   the return route) or, for a request from a peer attached here, to the (rewritten) name of the request's source *)
Theorem C16_return_route : forall cf n e d e' pay d2,
  forward cf n e = FRoute d e' ->
  cf_icp cf (e_dst e') (e_src e') = Some d2 ->
  exists r', forward cf (e_dst e') (reply_of e' pay) =
               FRoute (match e_rec e with [] => d2 | _ => last (e_rec e) 0%Z end) r' /\
             e_dst r' = d2 /\ e_src r' = e_dst e' /\ e_pay r' = pay /\ e_rec r' = [cf_name cf] /\
             e_next r' = match e_rec e with
                         | [] => None
                         | _ => Some (removelast (e_rec e)) end.
Proof. exact C16_return_route_l. Qed.
Print Assumptions C16_return_route.

(* The unconditional statement - every accepted envelope is eventually handed on, hence "a relayed stream is never
   reported complete with messages missing" - is FALSE of the code as it is: beyond the per-destination buffer the
   non-blocking enqueue drops (finding proxy-overflow>buf, D-16; by design: it is what C17's isolation relies on).
   Witness: a quiescent reachable state in which an accepted envelope is in no queue, was not handed on and was
   not the object of a failed write. C16_no_loss above is the strongest true statement (no loss while no envelope
   finds the buffer full); C16_drop_only_when_full says these are the only losses. The rig replays the witness on
   the real proxy (burst scenarios: 18 envelopes to a destination whose writer is blocked). *)
Theorem C16_complete_means_complete_refuted : exists cf ls s i x,
  lrun cf init ls = Some s /\ quiescent cf s = true /\ In x (fwds i (log s)) /\
  ~ In x (outs i (log s) ++ wfails i (log s) ++ wr_pend s i ++ buf_of s i).
Proof. exact C16_no_loss_refuted_l. Qed.
Print Assumptions C16_complete_means_complete_refuted.

(* ---------- the hypotheses are satisfiable ---------- *)
Definition cf0 : cfg := mkCfg 99 2 (fun _ d => Some d).
Definition m (src dst pay : Z) : env := mkEnv true src dst [] None pay.
(* peers 1 and 2 attached; 1 sends two envelopes to 2 and one to the unknown name 3 (dialled on demand) *)
Definition ex16 : list label :=
  [LExt (AAttach 1 true); LExt (AAttach 2 true);
   LExt (ADeliver 0 (m 1 2 70)); LExt (ADeliver 0 (m 1 2 71)); LExt (ADeliver 0 (m 1 3 72));
   LInt 5; LInt 1; LInt 5; LInt 1; LInt 5; LInt 1;         (* read loop of 0 / forwarding loop, three times *)
   LInt 21; LInt 23; LInt 21; LInt 23;                     (* write loop of 1: take, write, take, write *)
   LExt (ADialOk 2 true); LInt 34; LInt 36].               (* the dial completes; write loop of 2 *)
Example C16_ex : exists s, lrun cf0 init ex16 = Some s /\
  outs 1 (log s) = [mkEnv true 1 2 [99] None 70; mkEnv true 1 2 [99] None 71] /\
  outs 2 (log s) = [mkEnv true 1 3 [99] None 72] /\ dials (log s) = [(2%nat, 3)] /\
  dropped 1 (log s) = [] /\ quiescent cf0 s = true /\
  pairs 0 1 (log s) = [(m 1 2 70, mkEnv true 1 2 [99] None 70); (m 1 2 71, mkEnv true 1 2 [99] None 71)] /\
  routed 0 1 (log s) = pairs 0 1 (log s) /\ enqs_from 2 (log s) = [(0%nat, mkEnv true 1 3 [99] None 72)] /\
  option_map p_wr (nth_error (clients s) 1) = Some WRSel /\ outs 1 (log s) = fwds 1 (log s).
Proof. eexists. split. vm_compute. reflexivity. vm_compute. repeat split; reflexivity. Qed.

(* the known limit (finding proxy-overflow>buf): with the destination's write loop stalled, the envelope that
   finds the buffer full is dropped - and only that one *)
Example C16_ex_overflow : exists s,
  lrun cf0 init [LExt (AAttach 1 true); LExt (AAttach 2 true); LExt (ASetWrite 1 WBlock);
                 LExt (ADeliver 0 (m 1 2 70)); LExt (ADeliver 0 (m 1 2 71)); LExt (ADeliver 0 (m 1 2 72)); LExt (ADeliver 0 (m 1 2 73));
                 LInt 5; LInt 1; LInt 21; LInt 5; LInt 1; LInt 5; LInt 1; LInt 5; LInt 1] = Some s /\
  wr_pend s 1 = [mkEnv true 1 2 [99] None 70] /\ length (buf_of s 1) = 2%nat /\
  dropped 1 (log s) = [mkEnv true 1 2 [99] None 73].
Proof. eexists. split. vm_compute. reflexivity. vm_compute. repeat split; reflexivity. Qed.

(* the hypothesis of C16_no_loss_outstanding is met by the run ex16 with B = 2 = the buffer of cf0: after every
   prefix of its history at most 2 envelopes are outstanding for record 1 *)
Example C16_ex_outstanding : exists s, lrun cf0 init ex16 = Some s /\
  forallb (fun k => Nat.leb (length (fwds 1 (firstn k (log s)))) (length (outs 1 (firstn k (log s))) + 2))
          (seq 0 (S (length (log s)))) = true /\ length (fwds 1 (log s)) = 2%nat.
Proof. eexists. split. vm_compute. reflexivity. vm_compute. split; reflexivity. Qed.

(* non-vacuity of C16_delivered: from the state after the three deliveries of ex16 (nothing forwarded yet, the dial of
   name 3 answered at once) a maximal internal continuation exists, is as long as the measure allows at most, and
   ends with both envelopes for record 1 handed over *)
Definition ex16_pre : list label :=
  [LExt (AAttach 1 true); LExt (AAttach 2 true);
   LExt (ADeliver 0 (m 1 2 70)); LExt (ADeliver 0 (m 1 2 71))].
Example C16_ex_delivered : exists s s', lrun cf0 init ex16_pre = Some s /\ measure s = 19%nat /\
  lrun cf0 s (ints [5; 1; 5; 1; 21; 23; 21; 23]%nat) = Some s' /\ quiescent cf0 s' = true /\
  outs 1 (log s') = [mkEnv true 1 2 [99] None 70; mkEnv true 1 2 [99] None 71] /\ fwds 1 (log s) = [].
Proof. eexists. eexists. split. vm_compute. reflexivity. split. vm_compute. reflexivity.
  split. vm_compute. reflexivity. vm_compute. repeat split; reflexivity. Qed.

(* non-vacuity of C16_is_wire: in the final state of ex16 the wire 0 -> 1 has carried two envelopes, both delivered,
   none in flight; before the write loop of record 1 ran, both were in flight *)
Example C16_ex_wire : exists s, lrun cf0 init ex16 = Some s /\
  wire_sent s 0 1 = [mkEnv true 1 2 [99] None 70; mkEnv true 1 2 [99] None 71] /\
  wire_delivered s 0 1 = wire_sent s 0 1 /\ proxy_as_wire s 0 1 = [] /\ dropped 1 (log s) = [].
Proof. eexists. split. vm_compute. reflexivity. vm_compute. repeat split; reflexivity. Qed.
Example C16_ex_wire_in_flight : exists s, lrun cf0 init (firstn 11 ex16) = Some s /\
  wire_delivered s 0 1 = [] /\ proxy_as_wire s 0 1 = [mkEnv true 1 2 [99] None 70; mkEnv true 1 2 [99] None 71].
Proof. eexists. split. vm_compute. reflexivity. vm_compute. split; reflexivity. Qed.

(* C19 - Shipped transports carry every envelope unchanged and reject what is
   not one. Property theorems only; proofs are in Proofs/WireFormatProofs.v and
   Proofs/TransportsProofs.v. The transport theorems hold for every codec
   (explicit arguments [enc] / [dec]); the end-to-end corollaries instantiate
   them with the concrete wire format of the Rpc envelope, whose round trip is
   a theorem here (no codec assumption is left). *)
From Coq Require Import List ZArith Bool Lia.
Import ListNotations.
From Goat Require Import Base.Bytes Model.WireFormat Model.Transports.
From Goat Require Import Proofs.WireFormatProofs Proofs.TransportsProofs Proofs.TransportsWireProofs.
From Goat Require Import Model.HttpLink Proofs.HttpLinkProofs Proofs.WireFuel Model.WsFrag Proofs.WsFragProofs.
Open Scope Z_scope.

(* ---------- the wire format ---------- *)
(* every canonical envelope (ids over the whole uint64 range, any combination of
   present / absent sub-messages, empty and non-ASCII strings, repeated fields,
   bodies of any size) survives encode / decode unchanged *)
Theorem C19_wire_roundtrip : forall e, wf e = true -> decode (encode e) = Some e.
Proof. exact decode_encode. Qed.
Print Assumptions C19_wire_roundtrip.

Theorem C19_wire_injective : forall e1 e2, wf e1 = true -> wf e2 = true -> encode e1 = encode e2 -> e1 = e2.
Proof. exact encode_injective. Qed.
Print Assumptions C19_wire_injective.

(* ---------- channel transport ---------- *)
(* FIFO: whatever the order of calls, cancellations and internal steps, the
   values returned by successful Reads (in return order) followed by what is
   still buffered are exactly the values of the successful Writes (in return
   order): nothing lost, duplicated, reordered or invented *)
Theorem C19_chan_fifo : forall (V : Type) cap (ls : list (label (cact V))) s,
  ch_run cap ls = Some s ->
  ch_written (ch_log s) = ch_read (ch_log s) ++ ch_buf s /\ (length (ch_buf s) <= ch_cap s)%nat.
Proof. intros V cap ls s H. exact (ch_fifo cap ls s H). Qed.
Print Assumptions C19_chan_fifo.

(* every call returns at most once, and exactly the calls that are not blocked have returned *)
Theorem C19_chan_once : forall (V : Type) cap (ls : list (label (cact V))) s,
  ch_run cap ls = Some s ->
  (forall i, ch_wevents i (ch_log s) =
             match nth_error (ch_ws s) i with Some w => if cw_pend w then O else 1%nat | None => O end) /\
  (forall j, ch_revents j (ch_log s) =
             match nth_error (ch_rs s) j with Some r => if cr_pend r then O else 1%nat | None => O end).
Proof. intros V cap ls s H. exact (ch_once cap ls s H). Qed.
Print Assumptions C19_chan_once.

(* Q-form: at a quiescent point a Write is blocked only if its context is live,
   the buffer is full and no Read is waiting on an empty buffer; a Read only if
   its context is live, nothing is buffered and the channel is open *)
Theorem C19_chan_blocked_write : forall (V : Type) (s : chst V) i w,
  quiescent ch_rules s -> nth_error (ch_ws s) i = Some w -> cw_pend w = true ->
  cw_done w = false /\ (ch_cap s <= length (ch_buf s))%nat /\
  (ch_buf s = [] -> forall j r, nth_error (ch_rs s) j = Some r -> cr_pend r = false).
Proof. intros V. exact ch_quiescent_writer. Qed.
Print Assumptions C19_chan_blocked_write.

Theorem C19_chan_blocked_read : forall (V : Type) (s : chst V) j r,
  quiescent ch_rules s -> nth_error (ch_rs s) j = Some r -> cr_pend r = true ->
  cr_done r = false /\ ch_buf s = [] /\ ch_closed s = false.
Proof. intros V. exact ch_quiescent_reader. Qed.
Print Assumptions C19_chan_blocked_read.

(* ---------- WebSocket ---------- *)
(* the results of the Reads that consumed a frame are, in order, the
   classification of the frames put on the wire (one binary frame per Write):
   FIFO, nothing skipped, nothing invented ... *)
Theorem C19_ws_results : forall (E F : Type) (enc : E -> F) (dec : F -> option E) ls s,
  ws_run enc dec ls = Some s ->
  map (ws_classify dec) (ws_sent s) = ws_frame_results (ws_log s) ++ map (ws_classify dec) (ws_wire s).
Proof. exact @ws_results. Qed.
Print Assumptions C19_ws_results.

(* ... where a frame is delivered iff it is binary and decodes, as the decoded
   value; a text frame or undecodable bytes are an error *)
Theorem C19_ws_deliver_iff : forall (E F : Type) (dec : F -> option E) f e,
  ws_classify dec f = WsMsg e <-> f_bin f = true /\ dec (f_data f) = Some e.
Proof. exact @ws_classify_msg. Qed.
Print Assumptions C19_ws_deliver_iff.

(* ... and only frame results are ever delivered *)
Theorem C19_ws_delivered : forall (E : Type) (log : list (wsev E)), ws_delivered log = ws_msgs (ws_frame_results log).
Proof. exact @ws_delivered_results. Qed.
Print Assumptions C19_ws_delivered.

(* Q-form: a Read whose context is done is not left pending *)
Theorem C19_ws_blocked_read : forall (E F : Type) (dec : F -> option E) (s : wsst E F) d,
  quiescent (ws_rules dec) s -> ws_rd s = Some d -> d = false /\ ws_wire s = [] /\ ws_rclosed s = false.
Proof. exact @ws_quiescent. Qed.
Print Assumptions C19_ws_blocked_read.

(* end to end over the concrete wire format: when only canonical envelopes are
   written (no raw frames injected), the envelopes read are exactly a prefix of
   the envelopes written, equal and in order; the rest is still in flight *)
Theorem C19_ws_end_to_end : forall ls s,
  ws_run encode decode ls = Some s -> ws_clean wf ls ->
  map (@WsMsg rpc) (ws_written (ws_log s)) =
  ws_frame_results (ws_log s) ++ map (ws_classify decode) (ws_wire s).
Proof. exact ws_end_to_end. Qed.
Print Assumptions C19_ws_end_to_end.

(* ---------- HTTP ---------- *)
(* a request is answered 400 iff its body is absent, unreadable, undecodable,
   without header, without source or with a source that does not map ... *)
Theorem C19_http_400_iff : forall (E F : Type) (dec : F -> option E) rt iv tmo now ls (s : hst E F) q,
  h_run dec rt iv tmo now ls = Some s ->
  (In (HEvResp q 400) (hs_log s) <->
   exists b why, In (HEvReq q b) (hs_log s) /\ http_classify dec rt b = V400 why).
Proof. exact @http_400_iff. Qed.
Print Assumptions C19_http_400_iff.

Theorem C19_http_classify : forall (E F : Type) (dec : F -> option E) rt (b : hbody F),
  (exists why, http_classify dec rt b = V400 why) <->
  (b = BNil \/ b = BUnreadable \/
   exists bs, b = BBytes bs /\
     (dec bs = None \/ exists e, dec bs = Some e /\ (rt e = RtNoHeader \/ rt e = RtEmptySource \/ rt e = RtMapErr))).
Proof. exact http_classify_iff. Qed.
Print Assumptions C19_http_classify.

(* ... and such a request is never delivered *)
Theorem C19_http_rejected_not_delivered : forall (E F : Type) (dec : F -> option E) rt iv tmo now ls (s : hst E F) q b why,
  h_run dec rt iv tmo now ls = Some s ->
  In (HEvReq q b) (hs_log s) -> http_classify dec rt b = V400 why ->
  forall c r, ~ In (HEvDeliver q c r) (hs_log s).
Proof. exact @http_rejected_not_delivered. Qed.
Print Assumptions C19_http_rejected_not_delivered.

(* whatever is delivered is the decoded body of an accepted request, handed to a
   Read of the connection of the mapped address, which returned exactly that
   envelope; the request was answered 200 *)
Theorem C19_http_delivery_correct : forall (E F : Type) (dec : F -> option E) rt iv tmo now ls (s : hst E F) q c r,
  h_run dec rt iv tmo now ls = Some s -> In (HEvDeliver q c r) (hs_log s) ->
  exists b a e, In (HEvReq q b) (hs_log s) /\ http_classify dec rt b = VDeliver a e /\
                conn_at s c a /\ In (HEvRead r (HROk e)) (hs_log s) /\ In (HEvResp q 200) (hs_log s).
Proof. exact @http_delivery_correct. Qed.
Print Assumptions C19_http_delivery_correct.

(* a request is answered at most once and delivered at most once *)
Theorem C19_http_at_most_once : forall (E F : Type) (dec : F -> option E) rt iv tmo now ls (s : hst E F) q,
  h_run dec rt iv tmo now ls = Some s -> (nresp q (hs_log s) <= 1)%nat /\ (ndeliv q (hs_log s) <= 1)%nat.
Proof. exact @http_at_most_once. Qed.
Print Assumptions C19_http_at_most_once.

(* a connection is created and announced on the first use of its address only;
   no connection is ever announced twice *)
Theorem C19_http_announce_once : forall (E F : Type) (dec : F -> option E) rt iv tmo now ls (s : hst E F),
  h_run dec rt iv tmo now ls = Some s ->
  NoDup (announced (hs_log s)) /\ forall a c, In (HEvAnnounce a c) (hs_log s) -> conn_at s c a.
Proof. exact @http_announce_once. Qed.
Print Assumptions C19_http_announce_once.

Theorem C19_http_post_step : forall (E F : Type) (dec : F -> option E) rt (s : hst E F) b,
  let s' := h_ext dec rt s (HPost b) in
  let q := length (hs_reqs s) in
  match http_classify dec rt b with
  | V400 _ => hs_log s' = hs_log s ++ [HEvReq q b; HEvResp q 400] /\ hs_tbl s' = hs_tbl s /\ hs_conns s' = hs_conns s
  | VDeliver a e =>
      match tbl_lookup a (hs_tbl s) with
      | Some c => hs_log s' = hs_log s ++ [HEvReq q b] /\ nth_error (hs_reqs s') q = Some (QHandoff c e) /\
                  hs_tbl s' = hs_tbl s /\ hs_conns s' = hs_conns s
      | None => let c := length (hs_conns s) in
                hs_log s' = hs_log s ++ [HEvReq q b; HEvAnnounce a c] /\ nth_error (hs_reqs s') q = Some (QHandoff c e) /\
                hs_tbl s' = hs_tbl s ++ [(a, c)] /\ hs_conns s' = hs_conns s ++ [mkConn a 0 false]
      end
  end.
Proof. exact @http_post_step. Qed.
Print Assumptions C19_http_post_step.

(* no reachable state is Crashed (no channel is closed twice; the data channel is never closed) *)
Theorem C19_http_no_crash : forall (E F : Type) (dec : F -> option E) rt iv tmo now ls (s : hst E F),
  h_run dec rt iv tmo now ls = Some s -> hs_crashed s = false.
Proof. exact @http_no_crash. Qed.
Print Assumptions C19_http_no_crash.

(* one pass of the cleaner in any reachable state: every registered connection
   idle for at least the timeout is unregistered and its done channel closed;
   every other registered connection stays registered and open *)
Theorem C19_http_idle : forall (E F : Type) (dec : F -> option E) rt iv tmo now ls (s s' : hst E F),
  h_run dec rt iv tmo now ls = Some s -> h_clean s = Some s' ->
  forall a c k, In (a, c) (hs_tbl s) -> nth_error (hs_conns s) c = Some k ->
    (idle s k = true ->
       ~ In a (map fst (hs_tbl s')) /\ exists k', nth_error (hs_conns s') c = Some k' /\ c_closed k' = true) /\
    (idle s k = false ->
       In (a, c) (hs_tbl s') /\ exists k', nth_error (hs_conns s') c = Some k' /\ c_closed k' = false).
Proof. exact http_idle. Qed.
Print Assumptions C19_http_idle.

(* Q-form: at a quiescent point of a reachable state
   - a Read is blocked only if its context is live, its connection is still open
     (a removed connection fails its readers) and no request is parked for it;
   - a request is parked only for an open connection that nobody reads;
   - a Write is blocked only if its context is live;
   - the cleaner has handled every tick and has left if it was stopped *)
Theorem C19_http_blocked_read : forall (E F : Type) (dec : F -> option E) rt iv tmo now ls (s : hst E F) r x,
  h_run dec rt iv tmo now ls = Some s -> quiescent h_rules s ->
  nth_error (hs_rds s) r = Some x -> hr_pend x = true ->
  hr_done x = false /\
  (exists k, nth_error (hs_conns s) (hr_conn x) = Some k /\ c_closed k = false) /\
  (forall q e, nth_error (hs_reqs s) q <> Some (QHandoff (hr_conn x) e)).
Proof. exact http_blocked_read. Qed.
Print Assumptions C19_http_blocked_read.

Theorem C19_http_parked_request : forall (E F : Type) (dec : F -> option E) rt iv tmo now ls (s : hst E F) q c e,
  h_run dec rt iv tmo now ls = Some s -> quiescent h_rules s ->
  nth_error (hs_reqs s) q = Some (QHandoff c e) ->
  (exists k, nth_error (hs_conns s) c = Some k /\ c_closed k = false) /\
  (forall r x, nth_error (hs_rds s) r = Some x -> hr_pend x = true -> hr_conn x <> c).
Proof. exact http_parked_request. Qed.
Print Assumptions C19_http_parked_request.

Theorem C19_http_blocked_write : forall (E F : Type) (s : hst E F) w x,
  quiescent h_rules s -> nth_error (hs_wrs s) w = Some x -> hw_pend x = true -> hw_done x = false.
Proof. exact @h_quiescent_writer. Qed.
Print Assumptions C19_http_blocked_write.

Theorem C19_http_cleaner_settled : forall (E F : Type) (s : hst E F),
  quiescent h_rules s -> hs_cl s <> ClStopping /\ (hs_tick s = true -> hs_cl s = ClDead).
Proof. exact @h_quiescent_cleaner. Qed.
Print Assumptions C19_http_cleaner_settled.

(* end to end over the concrete wire format: the envelope a Read returns for a
   request whose body is the encoding of a canonical envelope is that envelope *)
Theorem C19_http_end_to_end : forall rt iv tmo now ls (s : hst rpc bytes) q c r e0,
  h_run decode rt iv tmo now ls = Some s -> wf e0 = true ->
  In (HEvReq q (BBytes (encode e0))) (hs_log s) -> In (HEvDeliver q c r) (hs_log s) ->
  In (HEvRead r (HROk e0)) (hs_log s).
Proof. exact http_end_to_end. Qed.
Print Assumptions C19_http_end_to_end.

(* no refusal depends on size: the encoding of EVERY canonical envelope whose source maps to an
   address - whatever the length of its body - is classified "deliver, as that envelope" ... *)
Theorem C19_http_accepts_every_envelope : forall (rt : rpc -> route) e a,
  wf e = true -> rt e = RtAddr a -> http_classify decode rt (BBytes (encode e)) = VDeliver a e.
Proof. exact http_accepts_every_envelope. Qed.
Print Assumptions C19_http_accepts_every_envelope.

(* ... so a request carrying it is never answered 400 *)
Theorem C19_http_never_400_on_envelope : forall rt iv tmo now ls (s : hst rpc bytes) q e a,
  h_run decode rt iv tmo now ls = Some s -> wf e = true -> rt e = RtAddr a ->
  In (HEvReq q (BBytes (encode e))) (hs_log s) ->
  (forall b, In (HEvReq q b) (hs_log s) -> b = BBytes (encode e)) ->
  ~ In (HEvResp q 400) (hs_log s).
Proof. exact http_never_400_on_envelope. Qed.
Print Assumptions C19_http_never_400_on_envelope.

(* ---------- WebSocket below the frame: whole or nothing (Model/WsFrag.v) ---------- *)
(* Writes put their frame on the connection fragment by fragment, serialised by the connection's write lock; a Write may
   block mid-frame (the wire takes no more) and may give up there (context, closed connection), leaving a partial frame.
   Over all label sequences: the Writes whose envelope a Read returned ([freads], in return order) are a prefix of the
   Writes that put the LAST fragment of their frame on the wire ([lasts], in lock = write order): every envelope returned
   was written whole by exactly one Write, which returned nil; in write order; each once; the frame of a Write that did
   not finish is never returned *)
Theorem C19_ws_whole_or_nothing : forall (E : Type) room ls (s : fstate E), f_run room ls = Some s ->
  (exists rest, lasts (f_log s) = freads (f_log s) ++ rest) /\
  NoDup (freads (f_log s)) /\
  (forall w, In w (freads (f_log s)) -> exists x, nth_error (f_ws s) w = Some x /\ fw_st x = FDone true) /\
  (forall w x, nth_error (f_ws s) w = Some x -> fw_st x <> FDone true -> ~ In w (freads (f_log s))).
Proof. exact @ws_whole_or_nothing. Qed.
Print Assumptions C19_ws_whole_or_nothing.

(* ... and a pending Read waits only on an empty, open wire: a partial frame is consumed, never returned; on a closed
   connection the Read fails (Q form) *)
Theorem C19_ws_partial_waits : forall (E : Type) (s : fstate E),
  quiescent f_rules s -> f_rd s = true -> f_wire s = [] /\ f_closed s = false.
Proof. exact @ws_partial_waits. Qed.
Print Assumptions C19_ws_partial_waits.

(* the rules fire: Write 0 (3 fragments) is parked after 2, Write 1 waits for the lock; room is made, a Read takes the
   whole frame of Write 0; Write 1 sends one fragment, its context ends mid-frame: partial frame, connection closed; the
   next Read consumes the fragment and fails *)
Definition ex_frag : option (fstate Z) :=
  f_run 2 [LExt (FWrite 7 2); LInt 1; LInt 2; LInt 2; LExt (FWrite 8 2); LExt (FRoom 2); LInt 2; LExt FRead; LInt 0; LInt 0; LInt 0;
           LInt 5; LInt 6; LExt (FCancel 1); LInt 7; LExt FRead; LInt 0; LInt 0].
Example C19_ex_frag : exists s, ex_frag = Some s /\ freads (f_log s) = [0%nat] /\ lasts (f_log s) = [0%nat] /\
  map fw_st (f_ws s) = [FDone true; FDone false] /\ f_closed s = true /\ In FEvReadErr (f_log s).
Proof. eexists. split; [vm_compute; reflexivity|]. vm_compute. repeat split. auto 10. Qed.

(* ---------- the decoder's fuel is always enough ---------- *)
(* [fields] gives [fields_fuel] the length of the input as fuel: any larger fuel gives the same answer, so the out-of-fuel
   branch (which answers None, like "undecodable") is never the one that answers - for EVERY byte string, not only for
   encodings of canonical envelopes *)
Theorem C19_decode_fuel_enough : forall b f, (length b <= f)%nat -> fields_fuel f b = fields b.
Proof. exact decode_fuel_enough. Qed.
Print Assumptions C19_decode_fuel_enough.

(* likewise the fuel [dec_field] gives [skip_groups] at a start-group tag (one more than the length of what follows) *)
Theorem C19_skip_groups_fuel_enough : forall b st f, (length b < f)%nat -> skip_groups f st b = skip_groups (S (length b)) st b.
Proof. exact skip_groups_fuel_enough. Qed.
Print Assumptions C19_skip_groups_fuel_enough.

(* ---------- HTTP: the sending half (httpReadWriter.Write) linked to a receiving instance ---------- *)
(* a request is answered 200 only with its delivery *)
Theorem C19_http_200_delivered : forall (E F : Type) (dec : F -> option E) rt iv tmo now ls (s : hst E F) q,
  h_run dec rt iv tmo now ls = Some s -> In (HEvResp q 200) (hs_log s) -> exists c r, In (HEvDeliver q c r) (hs_log s).
Proof. exact @http_200_delivered. Qed.
Print Assumptions C19_http_200_delivered.

(* Write returned nil => its POST was handed to the peer's ServeHTTP as exactly one request (no other Write became that
   request; the peer saw one body under that number), the body is the encoding of the envelope, unchanged; the request
   was answered 200 and delivered, once, to a Read that returned what the body decodes to - the envelope itself when the
   codec round-trips it. Over all label sequences of the link (Model/HttpLink.v): any number of Writes, concurrent or
   not, lost POSTs, dropped connections, cancelled contexts, and anything at all happening to the peer. *)
Theorem C19_http_write_nil : forall (E F : Type) (enc : E -> F) dec rt iv tmo now ls (k : link E F) w x,
  lk_run enc dec rt iv tmo now ls = Some k -> nth_error (lk_ws k) w = Some x -> sw_res x = Some true ->
  exists q,
    sw_q x = Some q /\
    (forall w' x', nth_error (lk_ws k) w' = Some x' -> sw_q x' = Some q -> w' = w) /\
    In (HEvReq q (BBytes (enc (sw_env x)))) (hs_log (lk_peer k)) /\
    (forall b, In (HEvReq q b) (hs_log (lk_peer k)) -> b = BBytes (enc (sw_env x))) /\
    In (HEvResp q 200) (hs_log (lk_peer k)) /\
    (ndeliv q (hs_log (lk_peer k)) <= 1)%nat /\
    exists c r a e', In (HEvDeliver q c r) (hs_log (lk_peer k)) /\ In (HEvRead r (HROk e')) (hs_log (lk_peer k)) /\
                     dec (enc (sw_env x)) = Some e' /\ rt e' = RtAddr a /\
                     (dec (enc (sw_env x)) = Some (sw_env x) -> e' = sw_env x).
Proof. exact @link_write_nil. Qed.
Print Assumptions C19_http_write_nil.

(* with the concrete wire format: written without error => read, equal, for every canonical envelope *)
Theorem C19_http_write_nil_read : forall rt iv tmo now ls (k : link rpc bytes) w x,
  lk_run encode decode rt iv tmo now ls = Some k -> nth_error (lk_ws k) w = Some x -> sw_res x = Some true ->
  wf (sw_env x) = true -> exists r, In (HEvRead r (HROk (sw_env x))) (hs_log (lk_peer k)).
Proof. exact link_write_nil_read. Qed.
Print Assumptions C19_http_write_nil_read.

(* write order under a single sequential writer: if Write w1 had returned nil before Write w2 was issued, the envelope
   of w1 was delivered to a Read of the peer before the request of w2 reached the peer *)
Theorem C19_http_write_order : forall (E F : Type) (enc : E -> F) dec rt iv tmo now ls (k : link E F) w1 w2 x1 q1 q2,
  lk_run enc dec rt iv tmo now ls = Some k ->
  before (SEvRet w1 true) (SEvPost w2 q2) (lk_log k) ->
  nth_error (lk_ws k) w1 = Some x1 -> sw_q x1 = Some q1 ->
  exists c r b, before (HEvDeliver q1 c r) (HEvReq q2 b) (hs_log (lk_peer k)).
Proof. exact @link_write_order. Qed.
Print Assumptions C19_http_write_order.

(* the hypotheses are met: a Write, a Read of the peer, the hand-off, the answer; then a second Write *)
Definition ex_link : option (link rpc bytes) :=
  let e1 := mkRpc 1%N (Some (mkHeader (B"/s/m") [] (B"a") (B"srv") [] [])) None (Some (B"x")) None None in
  let e2 := mkRpc 2%N (Some (mkHeader (B"/s/m") [] (B"a") (B"srv") [] [])) None (Some (B"y")) None None in
  let rt := fun e : rpc => match r_header e with Some _ => RtAddr 0 | None => RtNoHeader end in
  let k1 := lk_ext encode decode rt (lk_ext encode decode rt (lk_init 60 90 0) (LWrite e1)) (LPeer (HRead 0%nat false)) in
  match l_peer (h_handoff 0 0) k1 with
  | Some k2 => match l_answer 0 k2 with
               | Some k3 => Some (lk_ext encode decode rt k3 (LWrite e2))
               | None => None end
  | None => None
  end.
Example C19_ex_link : exists k, ex_link = Some k /\
  map sw_res (lk_ws k) = [Some true; None] /\ lk_log k = [SEvPost 0 0; SEvRet 0 true; SEvPost 1 1] /\
  ndeliv 0 (hs_log (lk_peer k)) = 1%nat.
Proof. eexists. split; [vm_compute; reflexivity|]. vm_compute. repeat split. Qed.

(* ---------- non-vacuity ---------- *)
Example C19_ex_wire :
  let e := mkRpc 18446744073709551615%N
             (Some (mkHeader (B"/svc/M") [mkKV (B"k") (bz [195; 169])] (B"src") [] [B"a"; []] []))
             (Some (mkStatus (-1) (B"msg") [mkAny (B"u") (bz [0; 255])])) (Some []) (Some []) (Some (B"RST")) in
  wf e = true /\ decode (encode e) = Some e /\ decode (bz [8; 1; 8; 2]) = Some (mkRpc 2%N None None None None None)
  /\ decode (bz [18; 1; 255]) = None.
Proof. vm_compute. repeat split; reflexivity. Qed.

Example C19_ex_chan :
  exists s, ch_run 1 [LExt (CWrite 7 false); LInt 0; LExt (CWrite 8 false); LExt (CRead false); LInt 4;
                      LExt (CCancelW 1%nat); LInt 3] = Some s
            /\ ch_read (ch_log s) = [7] /\ ch_written (ch_log s) = [7] /\ quiescent ch_rules s.
Proof.
  eexists. split; [vm_compute; reflexivity|]. split; [reflexivity|]. split; [reflexivity|].
  intros r Hr. vm_compute in Hr. repeat (destruct Hr as [<-|Hr]; [reflexivity|]). destruct Hr.
Qed.

Example C19_ex_ws :
  exists s, ws_run encode decode
              [LExt (WsWrite (mkRpc 5%N None None (Some (B"x")) None None)); LExt (WsInject (mkFrame false (B"hello")));
               LExt WsRead; LInt 0; LExt WsRead; LInt 0] = Some s
            /\ ws_frame_results (ws_log s) = [WsMsg (mkRpc 5%N None None (Some (B"x")) None None); WsNonBinary].
Proof. eexists. split; vm_compute; reflexivity. Qed.

Definition ex_route (e : rpc) : route :=
  match r_header e with
  | None => RtNoHeader
  | Some h => match h_source h with [] => RtEmptySource | [97%N] => RtAddr 0 | _ => RtMapErr end
  end.
Definition ex_env : rpc := mkRpc 9%N (Some (mkHeader (B"/s/m") [] (B"a") (B"srv") [] [])) None (Some (B"p")) None None.

(* a request parked for an idle connection: the cleaner removes the connection,
   the request is answered 503 (no crash); a second request creates a fresh one *)
Example C19_ex_http :
  exists s, h_run decode ex_route 60 90 1000
              [LExt (HPost (BBytes (encode ex_env))); LExt (HAdvance 60); LInt 0; LInt 2;
               LExt (HPost (BBytes (encode ex_env))); LExt (HRead 1%nat false); LInt 7; LExt (HPost BNil)] = Some s
            /\ hs_crashed s = false
            /\ hs_log s = [HEvReq 0%nat (BBytes (encode ex_env)); HEvAnnounce 0 0%nat; HEvRemoved 0%nat; HEvResp 0%nat 503;
                           HEvReq 1%nat (BBytes (encode ex_env)); HEvAnnounce 0 1%nat;
                           HEvDeliver 1%nat 1%nat 0%nat; HEvResp 1%nat 200; HEvRead 0%nat (HROk ex_env);
                           HEvReq 2%nat BNil; HEvResp 2%nat 400].
Proof. eexists. split; [vm_compute; reflexivity|]. split; vm_compute; reflexivity. Qed.

(* C14 - Finishing an RPC releases everything held for it; state stays bounded
   (client half). Property theorems only; the model is Model/Client.v (the
   multiplexer, the per-call code of client.go and clientStream, as the code is
   after the D-14 fix: a failed open unregisters), the proofs are in
   Proofs/ClientInv.v and Proofs/ClientLive.v. Every theorem quantifies over
   all label sequences of the LTS: any number of calls of both kinds, any
   inbound envelopes, cancels, deadlines, read and write failures, parked
   callers, any order of the enabled internal rules.

   [terminated k]: a unary call has returned, a stream open has failed, or the
   read loop of an opened stream (which owns its teardown) is dead. *)
From Coq Require Import List ZArith Bool.
Import ListNotations.
From Goat Require Import Model.Client Proofs.ClientBase Proofs.ClientInv Proofs.ClientLive Proofs.ClientLog Proofs.ClientRoute Proofs.ClientFin.
From Goat Require Model.Server Proofs.ServerProofs Proofs.ServerInv Proofs.ServerLive Proofs.ServerRelease.
From Goat Require Model.Sys Proofs.ProtocolClient Proofs.ClientCancel Proofs.SysRelease.
Open Scope Z_scope.

(* bounded: in EVERY reachable state the registry and the stream-loop goroutines are no more than the calls
   that have not terminated - hence no growth over arbitrarily long histories *)
Theorem C14_bounded : forall ls s, lrun init ls = Some s ->
  (registry_size s <= live_calls s)%nat /\ (live_loops s <= live_calls s)%nat.
Proof. exact C14_bounded_l. Qed.
Print Assumptions C14_bounded.

(* released: a terminated call - whatever its outcome: success, error status, cancel, deadline, reset, read
   failure, failed open - holds no registration and no goroutine, in every reachable state *)
Theorem C14_released : forall ls s, lrun init ls = Some s ->
  forall c k, nth_error (calls s) c = Some k -> terminated k = true -> k_reg k = false /\ loop_alive k = false.
Proof. exact C14_released_l. Qed.
Print Assumptions C14_released.

(* idle (Q): in every reachable quiescent state in which every issued call has terminated the registry is empty,
   no stream loop is alive and the read loop holds no envelope for anybody *)
Theorem C14_idle : forall ls s, lrun init ls = Some s -> quiescent s = true ->
  (forall c k, nth_error (calls s) c = Some k -> terminated k = true) ->
  registry_size s = 0%nat /\ live_loops s = 0%nat /\ rl_blocked s = false.
Proof. exact C14_idle_l. Qed.
Print Assumptions C14_idle.

(* no stream loop survives its RPC: in every reachable quiescent state an opened stream whose context is done
   (caller cancel, deadline, or its own teardown) has terminated, hence is released *)
Theorem C14_cancel_released : forall ls s, lrun init ls = Some s -> quiescent s = true ->
  forall c k, nth_error (calls s) c = Some k -> k_pc k = POpen -> sctx_done k = true -> terminated k = true.
Proof. exact C14_cancel_released_l. Qed.
Print Assumptions C14_cancel_released.

(* ... and every peer-driven outcome releases it: in every reachable quiescent state an opened stream that has taken a
   final envelope - a trailer with ANY status (success, handler error) or a reset by the peer - has terminated, hence
   (C14_released) holds no registration and no goroutine. Together with C14_cancel_released (caller cancel, deadline,
   own teardown), C09_settles / C09_loops (read failure) and the unary / failed-open cases (terminated once returned)
   this covers "however an RPC ends" outcome by outcome *)
Theorem C14_final_released : forall ls s, lrun init ls = Some s -> quiescent s = true ->
  forall c k e, nth_error (calls s) c = Some k -> k_pc k = POpen -> In e (taken c (log s)) -> is_final e = true ->
    terminated k = true.
Proof. exact C14_final_released_l. Qed.
Print Assumptions C14_final_released.

(* ---------- server side (Model/Server.v, proofs in Proofs/ServerInv.v, ServerLive.v) ---------- *)
(* bounded, always: the registry of a server connection holds exactly one entry per LIVE stream handler goroutine
   (a handler is registered from its start until its runStream goroutine has unregistered and ended; unary handlers
   are never registered): over any history the registry is never larger than the number of RPCs in flight *)
Theorem C14_server_bounded : forall ls s, Server.lrun Server.init ls = Some s ->
  Server.registry_size s = length (filter Server.hs_alive (Server.hs s)).
Proof. intros ls s H. exact (ServerLive.srv_registry_bound Server.nworkers s (ServerInv.inv_reach Server.nworkers ls s H)). Qed.
Print Assumptions C14_server_bounded.

(* idle (Q): in every reachable quiescent state in which every handler that was started has returned - however its
   RPC ended: reply, error, reset by the peer, end of the connection - and the transport does not block writes (or the
   connection is over), the registry is empty *)
Theorem C14_server_idle : forall ls s, Server.lrun Server.init ls = Some s -> Server.quiescent s = true ->
  (forall h k, nth_error (Server.hs s) h = Some k -> Server.h_returned k = true) ->
  Server.wblock s = false \/ Server.hctx_done s = true ->
  Server.registry_size s = 0%nat.
Proof. intros ls s H. exact (ServerLive.srv_registry_idle Server.nworkers s (ServerInv.inv_reach Server.nworkers ls s H)). Qed.
Print Assumptions C14_server_idle.

(* ... and so are the goroutines: writer waiting, all workers idle, no handler goroutine (Props/C12.v C12_never_stalls);
   after the end of the connection nothing at all is left (Props/C10.v C10_no_leak). *)

(* released, per RPC and in EVERY reachable state (no "every handler has returned"): a handler whose goroutine has
   ended - unary: the handler function returned; stream: the trailer (or its loss to a done context) is handed over and
   unregisterStream ran - holds nothing on the connection: no registry entry, no goroutine, no worker, no envelope in
   the read loop's hands; an entry under its id, if there is one, belongs to another, LIVE handler (the id reused) *)
Theorem C14_server_released : forall ls s, Server.lrun Server.init ls = Some s ->
  forall h k, nth_error (Server.hs s) h = Some k -> Server.h_pc k = Server.HDead ->
    Server.h_reg k = false /\ Server.hs_alive k = false
    /\ (forall w, nth_error (Server.wk s) w <> Some (Server.WkRun h))
    /\ (forall f, Server.rd s <> Server.RdFwd h f)
    /\ (forall g, Server.find_reg (Server.fid (Server.h_req k)) (Server.hs s) 0 = Some g ->
          g <> h /\ exists kg, nth_error (Server.hs s) g = Some kg /\ Server.hs_alive kg = true).
Proof. intros ls s H h k. exact (ServerRelease.srv_released_when_ended Server.nworkers s h k (ServerInv.inv_reach Server.nworkers ls s H)). Qed.
Print Assumptions C14_server_released.

(* between the hand-over of the trailer and that state lies ONE step, unregisterStream, and it waits for the registry
   lock only: whenever the read loop does not hold the lock the step is enabled, and it ends the goroutine and
   deletes the entry ([hunregister]: cancelled, done signalled, not registered) *)
Theorem C14_server_release_enabled : forall ls s, Server.lrun Server.init ls = Some s ->
  forall h k, nth_error (Server.hs s) h = Some k -> Server.h_pc k = Server.HUnreg -> Server.mu_free s = true ->
    exists s', Server.r_h_unreg h s = Some s'
      /\ nth_error (Server.hs s') h = Some (Server.hunregister (Server.hset_pc k Server.HDead))
      /\ length (Server.hs s') = length (Server.hs s).
Proof. intros ls s H h k. exact (ServerRelease.srv_release_enabled Server.nworkers s h k (ServerInv.inv_reach Server.nworkers ls s H)). Qed.
Print Assumptions C14_server_release_enabled.

(* (Q) per RPC: wherever the connection is at rest, a stream handler that has returned - whatever the other handlers
   do - is gone (hence released, C14_server_released), provided the transport does not block writes (or the connection
   is over) and the read loop is not parked, holding the registry lock, on ANOTHER stream whose handler does not drain
   its queue. The proviso is needed: C14_server_release_refuted. *)
Theorem C14_server_released_Q : forall ls s, Server.lrun Server.init ls = Some s -> Server.quiescent s = true ->
  forall h k, nth_error (Server.hs s) h = Some k -> Server.h_returned k = true ->
    Server.wblock s = false \/ Server.hctx_done s = true ->
    (forall g f, Server.rd s = Server.RdFwd g f -> g = h) ->
    Server.h_pc k = Server.HDead.
Proof. intros ls s H Q h k. exact (ServerRelease.srv_released_Q Server.nworkers s h k (ServerInv.inv_reach Server.nworkers ls s H) Q). Qed.
Print Assumptions C14_server_released_Q.

(* bounded, always: every collection of a server connection is bounded by the number of LIVE stream handlers plus
   constants - the registry (exactly that number), the envelopes in the streams' capacity-1 queues, the goroutines
   (read loop, writer, 8 workers, one per live stream), the envelopes in the hands of read loop / writer / workers
   (the channels are unbuffered). ([hs s] itself is the model's history of handlers, not a collection of the code.) *)
Theorem C14_server_collections_bounded : forall ls s, Server.lrun Server.init ls = Some s ->
  Server.registry_size s = ServerRelease.live_streams s
  /\ (ServerRelease.queued_frames s <= ServerRelease.live_streams s)%nat
  /\ (ServerRelease.goroutines s <= ServerRelease.live_streams s + 8 + 2)%nat
  /\ (ServerRelease.in_hands s <= 8 + 2)%nat.
Proof. intros ls s H. exact (ServerRelease.srv_collections_bounded Server.nworkers s (ServerInv.inv_reach Server.nworkers ls s H)). Qed.
Print Assumptions C14_server_collections_bounded.

(* non-vacuity, server side. Stream 1's handler sits in RecvMsg (live, registered), stream 2's handler has returned, a
   unary request was answered: at rest the two finished handlers are dead and released while stream 1 is still held *)
Definition sv_mk (id : Z) (k : Server.mkind) (b : option Z) : Server.frame :=
  Server.mkFrame (mkEnv id (Some (MdOk 0)) None b None false) k 2 1.
Definition sv_st (acts : list Server.act) : Server.state :=
  match Server.lrun Server.init (ServerLive.labels_of acts) with Some s => s | None => Server.init end.
Definition sv_ex : list Server.act :=
  [ Server.ADeliver (sv_mk 1 (Server.MStream 3) None); Server.ADeliver (sv_mk 2 (Server.MStream 3) None);
    Server.AHandlerStep 0 Server.HRecv; Server.ADeliver (sv_mk 7 (Server.MUnary 1) (Some 5));
    Server.AHandlerStep 1 (Server.HReturn None Server.HNil); Server.AHandlerStep 2 (Server.HReturn (Some 6) Server.HNil) ].
Example C14_server_ex :
  exists s, Server.lrun Server.init (ServerLive.labels_of sv_ex) = Some s /\ Server.quiescent s = true
    /\ Server.wblock s = false /\ Server.rd s = Server.RdRead
    /\ map Server.h_returned (Server.hs s) = [false; true; true]
    /\ map (fun k => match Server.h_pc k with Server.HDead => true | _ => false end) (Server.hs s) = [false; true; true]
    /\ Server.registry_size s = 1%nat /\ ServerRelease.live_streams s = 1%nat /\ ServerRelease.goroutines s = 11%nat.
Proof. exists (sv_st sv_ex). vm_compute. repeat split. Qed.

(* the proviso of C14_server_released_Q is needed: stream 1's handler never receives, two messages for it arrive - the
   read loop parks on its full queue holding the registry lock -, stream 2's handler returns: at rest it has handed its
   trailer over but cannot unregister *)
Definition sv_refute : list Server.act :=
  [ Server.ADeliver (sv_mk 1 (Server.MStream 3) None); Server.ADeliver (sv_mk 2 (Server.MStream 3) None);
    Server.ADeliver (sv_mk 1 (Server.MStream 3) (Some 11)); Server.ADeliver (sv_mk 1 (Server.MStream 3) (Some 12));
    Server.AHandlerStep 1 (Server.HReturn None Server.HNil) ].
Example C14_server_release_refuted :
  exists s k, Server.lrun Server.init (ServerLive.labels_of sv_refute) = Some s /\ Server.quiescent s = true
    /\ Server.wblock s = false /\ nth_error (Server.hs s) 1 = Some k /\ Server.h_returned k = true
    /\ Server.h_pc k = Server.HUnreg /\ Server.h_reg k = true /\ Server.mu_free s = false
    /\ (exists f, Server.rd s = Server.RdFwd 0 f).
Proof.
  exists (sv_st sv_refute). eexists. vm_compute. repeat split. eexists. reflexivity.
Qed.

(* ---------- the hypotheses are satisfiable ---------- *)
Definition reply (id b : Z) : env := mkEnv id (Some (MdOk 0)) None (Some b) (Some (MdOk 0)) false.
Definition trailer_ok (id : Z) : env := mkEnv id (Some (MdOk 0)) (Some (mkSt 0 0)) None (Some (MdOk 0)) false.

(* a unary call answered, a stream ended by an OK trailer, a stream whose open fails in the transport write, a
   stream cancelled by its caller: all four terminated, the state is quiescent and idle *)
Definition ex_acts : list act :=
  [ANewUnary 7 false; ADeliver (reply 1 8); ANewStream false; ADeliver (trailer_ok 2);
   ASetWriteFail true; ANewStream false; ASetWriteFail false; ANewStream false; ACancel 3].

Example C14_ex_idle : exists ls s, run_trace ex_acts = (ls, s) /\ lrun init ls = Some s /\
  quiescent s = true /\ length (calls s) = 4%nat /\ forallb terminated (calls s) = true /\
  registry_size s = 0%nat /\ live_loops s = 0%nat /\ rl_blocked s = false /\ counter s = 4.
Proof. eexists. eexists. split. vm_compute. reflexivity. vm_compute. repeat split; reflexivity. Qed.

(* ... and a state in which three calls are in flight (registered) out of five issued *)
Example C14_ex_bounded : exists ls s, run_trace [ANewUnary 7 false; ANewStream false; ANewUnary 9 false; ADeliver (reply 1 8); ANewStream false; ACancel 1] = (ls, s) /\
  lrun init ls = Some s /\ registry_size s = 2%nat /\ live_loops s = 1%nat /\ live_calls s = 2%nat.
Proof. eexists. eexists. split. vm_compute. reflexivity. vm_compute. repeat split; reflexivity. Qed.


(* ---------- end to end: the product Model/Sys.v (client x server x two FIFO wires) ---------- *)
(* released, in EVERY reachable state of the product and however the CLIENT ended the RPC (trailer taken, reset, its
   context ended, a failed send): a stream handler whose goroutine has ended holds nothing on the server connection - no
   registry entry, no goroutine, no worker, no envelope in the read loop's hands; an entry under its id belongs to
   another, live handler. _partial: the hypothesis "the handler's goroutine has ended" cannot be dropped - the
   application's handler is the environment of Model/Server.v and may ignore its context for ever; what the CLIENT owes
   the server is the cancellation of that context, which is the next theorem. *)
Theorem C14_sys_released_partial : forall pol ls s, Sys.lrun pol Sys.init ls = Some s ->
  forall h k, nth_error (Server.hs (Sys.sv s)) h = Some k -> Server.h_pc k = Server.HDead ->
    Server.h_reg k = false /\ Server.hs_alive k = false
    /\ (forall w, nth_error (Server.wk (Sys.sv s)) w <> Some (Server.WkRun h))
    /\ (forall f, Server.rd (Sys.sv s) <> Server.RdFwd h f)
    /\ (forall g, Server.find_reg (Server.fid (Server.h_req k)) (Server.hs (Sys.sv s)) 0 = Some g ->
          g <> h /\ exists kg, nth_error (Server.hs (Sys.sv s)) g = Some kg /\ Server.hs_alive kg = true).
Proof. exact SysRelease.sys_released_l. Qed.
Print Assumptions C14_sys_released_partial.

(* (Q) the client's part, end to end: in every quiescent state of the product whose server read loop is at its Read,
   after the caller's context ended on a stream that had taken no trailer, exactly ONE reset is on the wire, the context
   of every handler registered under that id is cancelled, and a handler under that id that has returned is gone and
   unregistered. Hypothesis no_wfail: no write fault hit the client - the write-fault case is where D-14f lived (a
   failed SendMsg could end the stream without the reset; fixed in /repo 029d2b2) and is covered by the rig only
   (TestC14SendFail, TestC14Long). The hypotheses are met by a concrete run: Example C07_sys_applies (Props/C07.v). *)
Theorem C14_sys_ctx_release_Q : forall pol ls s c k,
  Sys.lrun pol Sys.init ls = Some s ->
  ProtocolClient.no_wfail (Sys.proj_c pol Sys.init ls) -> ProtocolClient.api_ok (Sys.proj_c pol Sys.init ls) ->
  Sys.quiescent s = true -> Server.rd (Sys.sv s) = Server.RdRead ->
  nth_error (calls (Sys.cl s)) c = Some k -> k_pc k = POpen -> sctx_done k = true -> ProtocolClient.is_ctx_err (s_rerr k) = true ->
  l_hastrl k = false -> l_abort k = false ->
  ProtocolClient.nrst (ProtocolClient.projE (k_id k) (map Server.f_env (Sys.sent_c2s s))) = 1%nat /\
  (forall h kh, nth_error (Server.hs (Sys.sv s)) h = Some kh -> Server.h_reg kh = true ->
                Server.fid (Server.h_req kh) = k_id k -> Server.hdone (Sys.sv s) kh = true) /\
  (forall h kh, nth_error (Server.hs (Sys.sv s)) h = Some kh -> Server.fid (Server.h_req kh) = k_id k ->
                Server.h_returned kh = true -> Server.wblock (Sys.sv s) = false \/ Server.hctx_done (Sys.sv s) = true ->
                Server.h_pc kh = Server.HDead /\ Server.h_reg kh = false).
Proof. exact SysRelease.sys_ctx_release_Q_l. Qed.
Print Assumptions C14_sys_ctx_release_Q.

(* C18 - A demultiplexer gives each key its own ordered connection and shares
   the writer. Property theorems only; the model is Model/Demux.v (goat.Demux
   with its logical connections, as the code is after the D-18 fix), the proofs
   are in Proofs/DemuxProofs.v. Every theorem quantifies over all label
   sequences of the LTS: any number of keys, envelopes, calls, Cancel / Stop at
   any point, any order of the enabled internal rules. *)
From Coq Require Import List ZArith Bool.
Import ListNotations.
From Goat Require Import Model.Demux Proofs.DemuxProofs Proofs.DemuxAlive Proofs.DemuxLive.
Open Scope Z_scope.

(* route, exact accounting per connection instance c: what the run loop routed
   to c is, in order, what the Read calls on c received or what was abandoned
   (Cancel / Stop during the hand-off), plus the one envelope being handed off *)
Theorem C18_route_exact : forall ls s, lrun init ls = Some s ->
  forall c, routed c (log s) = disposed c (log s) ++ rn_pend s c.
Proof. exact C18_route_exact_l. Qed.
Print Assumptions C18_route_exact.

(* ... and nothing is abandoned on a connection that was not cancelled while the
   demultiplexer runs: the sequence read from c is exactly the sequence routed
   to c, in order, each envelope once *)
Theorem C18_route_live : forall ls s, lrun init ls = Some s ->
  forall c, conn_done s c = false -> stopped s = false -> routed c (log s) = handed c (log s) ++ rn_pend s c.
Proof. exact C18_route_live_l. Qed.
Print Assumptions C18_route_live.

(* the instance an envelope is routed to is one created for the envelope's key *)
Theorem C18_route_key : forall ls s, lrun init ls = Some s ->
  forall c e, In (EvShRead c e) (log s) -> exists x, nth_error (conns s) c = Some x /\ c_key x = ekey e.
Proof. exact C18_route_key_l. Qed.
Print Assumptions C18_route_key.

(* key lifetimes: of two instances with the same key the earlier one was cancelled *)
Theorem C18_one_instance : forall ls s, lrun init ls = Some s ->
  forall c1 c2 x1 x2, nth_error (conns s) c1 = Some x1 -> nth_error (conns s) c2 = Some x2 ->
    c_key x1 = c_key x2 -> (c1 < c2)%nat -> c_done x1 = true.
Proof. exact C18_one_instance_l. Qed.
Print Assumptions C18_one_instance.

(* hence for a key that was never cancelled: one instance, and it was routed
   exactly the sub-sequence of the shared read log that carries the key *)
Theorem C18_route_uncancelled : forall ls s, lrun init ls = Some s ->
  forall c x, nth_error (conns s) c = Some x ->
    (forall c' x', nth_error (conns s) c' = Some x' -> c_key x' = c_key x -> c_done x' = false) ->
    routed c (log s) = filter (fun e => ekey e =? c_key x) (sh_reads (log s)).
Proof. exact C18_route_uncancelled_l. Qed.
Print Assumptions C18_route_uncancelled.

(* announce: exactly one onNewConnection per instance, in creation order, for the instance's key ... *)
Theorem C18_announce_once : forall ls s, lrun init ls = Some s ->
  announces (log s) = combine (seq 0 (length (conns s))) (map c_key (conns s)).
Proof. exact C18_announce_once_l. Qed.
Print Assumptions C18_announce_once.

(* ... and an instance only exists because an envelope with its key arrived (first use) *)
Theorem C18_announce_first_use : forall ls s, lrun init ls = Some s ->
  forall c, (c < length (conns s))%nat -> routed c (log s) <> [].
Proof. exact C18_announce_first_use_l. Qed.
Print Assumptions C18_announce_first_use.

(* write, exact accounting per instance: the envelopes accepted from Write calls (the calls that
   returned nil) are, in order and unchanged, those written to the shared transport, then at most one
   whose shared write failed (the writer goroutine is dead afterwards), then the one being written *)
Theorem C18_write_exact : forall ls s, lrun init ls = Some s -> forall c,
  accepted c (log s) = sh_written c (log s) ++ sh_failed c (log s) ++ dw_pend s c /\
  (sh_failed c (log s) = [] \/ (dw_dead s c = true /\ length (sh_failed c (log s)) = 1%nat)).
Proof. exact C18_write_exact_l. Qed.
Print Assumptions C18_write_exact.

(* every call returns at most once, and the history agrees with what the calls saw: a hand-off event is
   a Read call on that instance that returned that envelope; an accept event is a Write call of that
   envelope on that instance that returned nil *)
Theorem C18_calls : forall ls s, lrun init ls = Some s ->
  (forall i, rets i (log s) = res_list s i) /\
  (forall c e i, In (EvHand c e i) (log s) ->
     exists k, nth_error (calls s) i = Some k /\ cl_conn k = c /\ cl_kind k = KRead /\ cl_res k = Some (RGot e)) /\
  (forall c e i, In (EvAccept c e i) (log s) ->
     exists k, nth_error (calls s) i = Some k /\ cl_conn k = c /\ cl_kind k = KWrite e /\ cl_res k = Some RWrote).
Proof. exact C18_calls_l. Qed.
Print Assumptions C18_calls.

(* cancel: no crash (a done channel is closed at most once; the data channels are never closed) *)
Theorem C18_no_crash : forall ls s, lrun init ls = Some s -> crashed s = false.
Proof. exact C18_no_crash_l. Qed.
Print Assumptions C18_no_crash.

(* cancel (Q): in a quiescent state no call on a cancelled instance is blocked *)
Theorem C18_cancel_unblocks : forall ls s, lrun init ls = Some s -> quiescent s = true ->
  forall i k, nth_error (calls s) i = Some k -> conn_done s (cl_conn k) = true -> cl_res k <> None.
Proof. exact C18_cancel_unblocks_l. Qed.
Print Assumptions C18_cancel_unblocks.

(* cancel (Q): in a quiescent state a cancelled instance whose writer goroutine is not inside a blocked
   shared Write is settled ... *)
Theorem C18_cancel_settles : forall ls s, lrun init ls = Some s -> quiescent s = true ->
  forall c, conn_done s c = true -> dw_pend s c = [] -> settled s c = true.
Proof. exact C18_cancel_settles_l. Qed.
Print Assumptions C18_cancel_settles.

(* ... it stays settled, and every Read / Write issued on it from then on that returns, returns an error *)
Theorem C18_cancel_errors : forall ls s, lrun init ls = Some s -> forall c, settled s c = true ->
  forall ls' s', lrun s ls' = Some s' ->
    settled s' c = true /\
    forall i k r, (length (calls s) <= i)%nat -> nth_error (calls s') i = Some k -> cl_conn k = c -> cl_res k = Some r ->
                  is_err r = true.
Proof. exact C18_cancel_errors_l. Qed.
Print Assumptions C18_cancel_errors.

(* stop (Q): after Stop, in every quiescent state, the run loop and all writer goroutines are dead *)
Theorem C18_stop_dead : forall ls s, lrun init ls = Some s -> quiescent s = true -> stopped s = true ->
  rn s = RNDead /\ forall c, (c < length (conns s))%nat -> dw_dead s c = true.
Proof. exact C18_stop_dead_l. Qed.
Print Assumptions C18_stop_dead.

(* the run loop ends only because Stop was called or the shared transport's Read failed: no Cancel(key), envelope,
   logical Read/Write or cancelled call context ever ends it *)
Theorem C18_run_alive : forall ls s, lrun init ls = Some s -> rn s = RNDead -> stopped s = true \/ rfail s = true.
Proof. exact C18_run_alive_l. Qed.
Print Assumptions C18_run_alive.

(* first use AFTER a Cancel: once Cancel(k) has been processed, every envelope with key k that the run loop reads -
   the very next one included, with no envelope of another key in between - is routed to an instance created after
   the Cancel (index >= the number of instances at the Cancel), which exists in the state (hence was announced, once,
   in creation order: C18_announce_once) and carries the key; with C18_route_live nothing routed to it is abandoned
   unless IT is cancelled too. The cancelled instance never receives anything again. *)
Theorem C18_after_cancel_fresh : forall ls s, lrun init ls = Some s ->
  forall k ls' s', lrun (ext s (ACancelKey k)) ls' = Some s' ->
  exists evs : list dev, log s' = (log s ++ evs)%list /\
    forall c e, In (EvShRead c e) evs -> ekey e = k ->
      (length (conns s) <= c)%nat /\ exists x, nth_error (conns s') c = Some x /\ c_key x = k.
Proof. exact C18_after_cancel_fresh_l. Qed.
Print Assumptions C18_after_cancel_fresh.
(* (C18_ex_run below is an instance: Cancel(7) with one instance, the next envelope of key 7 opens instance 1) *)

(* ---------- liveness beyond the quiescent-state form ---------- *)
(* the internal rules terminate: a measure (3 per queued envelope, the run loop's phase, 2 per blocked call, the phase of
   every writer goroutine) that every internal step lowers; no internal continuation of s is longer than mu s *)
Theorem C18_terminates : forall ns s s', lrun s (map LInt ns) = Some s' -> (length ns + mu s' <= mu s)%nat.
Proof. exact demux_terminates. Qed.
Print Assumptions C18_terminates.

(* so every state has a maximal internal continuation, ending in a quiescent state *)
Theorem C18_maximal_exists : forall s, exists ns s', lrun s (map LInt ns) = Some s' /\ quiescent s' = true.
Proof. exact demux_maximal_exists. Qed.
Print Assumptions C18_maximal_exists.

(* delivered: from any reachable state, at the end of ANY maximal internal continuation, while the demultiplexer is not
   stopped: every envelope the run loop took from the shared transport for an instance that is not cancelled and whose
   consumer is reading (a Read call on it is pending: [reading]) has been handed to that instance's Reads, in order, each
   once; the run loop has taken everything that arrived unless it is parked in the hand-off to an instance whose consumer
   is NOT reading (head-of-line blocking, by design) *)
Theorem C18_delivered : forall ls s, lrun init ls = Some s ->
  forall ns s', lrun s (map LInt ns) = Some s' -> quiescent s' = true -> stopped s' = false ->
  (forall c, conn_done s' c = false -> reading s' c -> routed c (log s') = handed c (log s')) /\
  (rn s' = RNRead -> inbox s' = []) /\
  (forall c e, rn s' = RNHand c e -> ~ reading s' c).
Proof. exact demux_delivered. Qed.
Print Assumptions C18_delivered.

(* ---------- the hypotheses are satisfiable ---------- *)
Definition e1 := mkEnv 7 100.
Definition e2 := mkEnv 7 101.
Definition w1 := mkEnv 7 200.
(* an envelope for key 7 arrives, the instance is created and announced, a Read receives it, a Write is
   put on the shared transport, the key is cancelled, a later envelope for key 7 opens a second instance *)
Definition ex_run : list label :=
  [LExt (ADeliver e1); LInt 0; LExt (ARead 0); LInt 4; LExt (AWrite 0 w1); LInt 11; LInt 13;
   LExt (ACancelKey 7); LInt 12; LExt (ADeliver e2); LInt 0].

Example C18_ex_run : exists s, lrun init ex_run = Some s /\
  handed 0 (log s) = [e1] /\ sh_written 0 (log s) = [w1] /\ announces (log s) = [(0%nat, 7); (1%nat, 7)] /\
  routed 1 (log s) = [e2] /\ rn_pend s 1 = [e2] /\ settled s 0 = true /\ quiescent s = true /\ stopped s = false.
Proof. eexists. split. vm_compute. reflexivity. vm_compute. repeat split; reflexivity. Qed.

(* calls issued on the settled instance return errors; after Stop everything is dead *)
Example C18_ex_cancel_stop : exists s, lrun init (ex_run ++ [LExt (ARead 0); LExt (AWrite 0 w1); LInt 14; LInt 18; LExt AStop; LInt 3; LInt 22]) = Some s /\
  res_list s 2 = [RErrCancelled] /\ res_list s 3 = [RErrCancelled] /\ quiescent s = true /\ stopped s = true /\
  rn s = RNDead /\ dw_dead s 1 = true.
Proof. eexists. split. vm_compute. reflexivity. vm_compute. repeat split; reflexivity. Qed.

(* C17 - A proxy rejects spoofed sources, isolates bad peers and shuts down
   cleanly. Property theorems only; the model is Model/Proxy.v, the proofs are
   in Proofs/ProxyProofs.v. All theorems hold for every configuration and all
   label sequences of the LTS. *)
From Coq Require Import List ZArith Bool.
Import ListNotations.
From Goat Require Import Model.Proxy Model.ProxyHeld Proofs.ProxyProofs Proofs.ProxyOrder Proofs.ProxyWire Proofs.ProxyMeasure Proofs.ProxyIsWire Proofs.ProxyHeldProofs.
Open Scope Z_scope.

(* source: whatever is forwarded has a header and the source under which its sender is attached; and nothing
   reaches a connection that was not forwarded that way *)
Theorem C17_source : forall cf ls s, lrun cf init ls = Some s ->
  (forall j e i e' ok, In (EvFwd j e i e' ok) (log s) ->
     exists cj, nth_error (clients s) j = Some cj /\ e_hdr e = true /\ e_src e = p_name cj) /\
  (forall i x, In x (outs i (log s)) -> exists j e, In (EvFwd j e i x true) (log s)).
Proof. exact C17_source_l. Qed.
Print Assumptions C17_source.

(* no envelope of any peer crashes the proxy ... *)
Theorem C17_no_crash : forall cf ls s, lrun cf init ls = Some s -> crashed s = false.
Proof. exact C17_no_crash_l. Qed.
Print Assumptions C17_no_crash.

(* C17_no_crash is about a model that CAN crash: Model/Proxy.v's route decision [forward_gen ghdr gnext] carries the two
   operations of forwardRpc that panic on peer-controlled data, each behind the guard the code gives it (proxy.go
   l.136: "rpc.Header == nil ||" before rpc.Header.Source; l.161: "len(rpc.Header.ProxyNext) > 0" before the index
   and the re-slice of l.162-163); the rule r_fw_cmd sets [crashed] and ends the forwarding loop on FCrash. The code is
   [forward_gen true true]. Without either guard a peer can crash the proxy with one envelope: *)
Theorem C17_no_crash_refuted_before_D17d : exists cf n e, forward_gen true false cf n e = FCrash.
Proof. exact forward_prefix_crash. Qed.
Print Assumptions C17_no_crash_refuted_before_D17d.

Theorem C17_no_crash_refuted_without_header_guard : exists cf n e, forward_gen false true cf n e = FCrash.
Proof. exact forward_nohdr_crash. Qed.
Print Assumptions C17_no_crash_refuted_without_header_guard.

(* ... and with both the route decision is total on every input (the content of C17_no_crash, together with: no other
   rule sets [crashed]). The remaining panic-capable operations of proxy.go are not functions of peer data: the table
   p.clients is read / written only under p.mutex (l.80-82; l.95 inside l.168-173; l.116-122) - in the model, inside
   atomic steps; the source-level lock discipline is C15's; proxy.go closes no channel; c.conn is assigned (l.235)
   before the loops that use it (l.189, l.211) are started. *)
Theorem C17_forward_total : forall cf n e, forward_gen true true cf n e <> FCrash.
Proof. exact forward_guarded_total. Qed.
Print Assumptions C17_forward_total.

(* isolation: while the forwarding loop runs, whatever a goroutine of record j offers (an envelope, an error) is
   taken by ONE step of the forwarding loop that is enabled whatever the state of all other records *)
Theorem C17_isolation : forall cf ls s, lrun cf init ls = Some s -> fw s = true ->
  forall j cj, nth_error (clients s) j = Some cj ->
    (forall e, p_rd cj = RDOffer e -> exists s', r_fw_cmd cf j s = Some s') /\
    (p_rd cj = RDOfferErr -> exists s', r_fw_err_rd j s = Some s') /\
    (p_wr cj = WROfferErr -> exists s', r_fw_err_wr j s = Some s') /\
    (p_dl cj = DLOffer -> exists s', r_fw_err_dl j s = Some s').
Proof. exact C17_isolation_l. Qed.
Print Assumptions C17_isolation.

(* ... and live traffic p -> q (q registered, its write loop idle, its transport working) reaches q's connection
   in three steps of p's and q's own goroutines, whatever third peers are doing (stuck, failing, dialling) *)
Theorem C17_live_traffic : forall cf ls s, lrun cf init ls = Some s -> fw s = true ->
  forall p cp e d e' q cq,
  nth_error (clients s) p = Some cp -> p_rd cp = RDOffer e -> forward cf (p_name cp) e = FRoute d e' ->
  find_reg d (upd p (set_rd cp RDRead false) (clients s)) 0 = Some q -> q <> p ->
  nth_error (clients s) q = Some cq -> p_wr cq = WRSel -> p_buf cq = [] -> p_wmode cq = WOk -> (0 < cf_buf cf)%nat ->
  exists s1 s2 s3, r_fw_cmd cf p s = Some s1 /\ r_wr_take q s1 = Some s2 /\ r_wr_write q s2 = Some s3 /\
                   outs q (log s3) = outs q (log s) ++ [e'].
Proof. exact C17_live_traffic_l. Qed.
Print Assumptions C17_live_traffic.

(* removal: handling the error of record j calls the disconnect callback for j's name, takes the table entry
   away from j only, and touches no other record - in particular not a newer record attached under the name *)
Theorem C17_remove_step : forall cf ls s, lrun cf init ls = Some s -> forall j s',
  (r_fw_err_rd j s = Some s' \/ r_fw_err_wr j s = Some s' \/ r_fw_err_dl j s = Some s') ->
  exists cj, nth_error (clients s) j = Some cj /\
    log s' = log s ++ [EvDisc j (p_name cj) (p_reg cj)] /\
    (forall i, i <> j -> nth_error (clients s') i = nth_error (clients s) i) /\
    (exists cj', nth_error (clients s') j = Some cj' /\ p_reg cj' = false).
Proof. exact C17_remove_step_l. Qed.
Print Assumptions C17_remove_step.

(* ... and while the proxy context is live a record whose read loop or write loop has ended, or whose dial
   failed, has been reported to the callback and has lost its table entry *)
Theorem C17_remove : forall cf ls s, lrun cf init ls = Some s -> cancelled s = false ->
  forall i c, nth_error (clients s) i = Some c ->
    (p_rd c = RDDead \/ p_wr c = WRDead \/ (p_dl c = DLDead /\ p_rd c = RDIdle)) ->
    discs i (log s) <> [] /\ p_reg c = false.
Proof. exact C17_remove_l. Qed.
Print Assumptions C17_remove.

(* (Q) while the forwarding loop runs, in a quiescent state no goroutine is left offering anything *)
Theorem C17_errors_reported : forall cf ls s, lrun cf init ls = Some s -> quiescent cf s = true -> fw s = true ->
  forall i c, nth_error (clients s) i = Some c ->
    p_rd c <> RDOfferErr /\ p_wr c <> WROfferErr /\ p_dl c <> DLOffer /\ (forall e, p_rd c <> RDOffer e).
Proof. exact C17_errors_reported_l. Qed.
Print Assumptions C17_errors_reported.

(* shutdown (Q): after the proxy context is cancelled, every quiescent state in which the peer transports
   honour their context and no dial is outstanding has no live goroutine of the proxy *)
Theorem C17_shutdown : forall cf ls s, lrun cf init ls = Some s -> cancelled s = true -> quiescent cf s = true ->
  (forall i c, nth_error (clients s) i = Some c -> p_honour c = true /\ dial_pending c = false) ->
  fw s = false /\ forall i c, nth_error (clients s) i = Some c -> client_alive c = false.
Proof. exact C17_shutdown_l. Qed.
Print Assumptions C17_shutdown.

(* ---------- the two (Q) theorems over maximal continuations (termination: Props/C16.v C16_measure) ---------- *)
(* shutdown: once the context is cancelled a maximal continuation by internal rules exists, none is longer than the
   measure, and EVERY one ends without any goroutine of the proxy - provided the transports of the final state honour
   their context and no newConnection call is outstanding in it (that goroutine is inside the user's callback).
   The table is NOT emptied by a shutdown, in the code as in the model: the forwarding loop, which alone removes
   entries, is gone. *)
Theorem C17_shutdown_terminates : forall cf ls s, lrun cf init ls = Some s -> cancelled s = true ->
  (exists ns s', lrun cf s (ints ns) = Some s' /\ quiescent cf s' = true /\ (length ns <= measure s)%nat) /\
  forall ns s', lrun cf s (ints ns) = Some s' -> quiescent cf s' = true ->
    (forall i c, nth_error (clients s') i = Some c -> p_honour c = true /\ dial_pending c = false) ->
    fw s' = false /\ forall i c, nth_error (clients s') i = Some c -> client_alive c = false.
Proof. exact C17_shutdown_terminates_l. Qed.
Print Assumptions C17_shutdown_terminates.

(* errors reported: while the context is live, at the end of EVERY maximal continuation by internal rules the
   forwarding loop runs, nobody is left offering an envelope or an error, and every record one of whose loops has
   ended (or whose dial failed) has been reported to the callback and has lost its table entry *)
Theorem C17_errors_reported_run : forall cf ls s, lrun cf init ls = Some s -> cancelled s = false ->
  forall ns s', lrun cf s (ints ns) = Some s' -> quiescent cf s' = true ->
    fw s' = true /\
    forall i c, nth_error (clients s') i = Some c ->
      p_rd c <> RDOfferErr /\ p_wr c <> WROfferErr /\ p_dl c <> DLOffer /\ (forall e, p_rd c <> RDOffer e) /\
      ((p_rd c = RDDead \/ p_wr c = WRDead \/ (p_dl c = DLDead /\ p_rd c = RDIdle)) ->
       discs i (log s') <> [] /\ p_reg c = false).
Proof. exact C17_errors_reported_run_l. Qed.
Print Assumptions C17_errors_reported_run.

(* ---------- isolation in a model in which the serve loop CAN be busy (Model/ProxyHeld.v) ---------- *)
(* Model/Proxy.v makes one iteration of the serve loop one atomic rule, so "a bad peer cannot stall the loop" is
   true there by construction. Model/ProxyHeld.v adds the loop as a resource: busy inside forwardRpc (begin / end of
   a forward) and inside the user's disconnect callback (begin / end of a callback); while it is busy no command is
   received. The theorems below are about that model. *)

(* it refines Model/Proxy.v: the base part of every reachable held state is reachable there - every safety theorem
   of Props/C16.v and of this file holds while the loop is held *)
Theorem C17_held_refines : forall cf ls h, hrun cf hinit ls = Some h -> exists ls', lrun cf init ls' = Some (base h).
Proof. exact held_refines. Qed.
Print Assumptions C17_held_refines.

(* isolation: in EVERY reachable state in which the loop is inside a forward - whatever the other records are doing:
   write loops stuck or failed, read loops failed, dials hanging, buffers full, the context cancelled - the end of
   the forward is enabled: forwardRpc has no blocking action, no peer can keep the loop. (The negation is expressible
   here: a forward whose end needs room in a buffer, or a dial slot, would falsify it - the seeded changes C17_m2,
   C17_10 are such programs.) The only other way the loop is busy is the user's callback (HEndCb is the
   environment's label). *)
Theorem C17_forward_completes : forall cf ls h j, hrun cf hinit ls = Some h -> loop h = InForward j ->
  exists h', hstep cf h HEndFwd = Some h' /\ loop h' = Idle.
Proof. exact C17_forward_completes_l. Qed.
Print Assumptions C17_forward_completes.

(* while the loop is held, no step but the end of the hold adds a forwarding-loop event to the history: nothing is
   forwarded, no failure handled, no dial started ... *)
Theorem C17_held_nothing_forwarded : forall cf h l h', reachable cf (base h) -> loop h <> Idle ->
  hstep cf h l = Some h' -> l <> HEndFwd ->
  loop_events (log (base h')) = loop_events (log (base h)).
Proof. exact C17_held_nothing_forwarded_l. Qed.
Print Assumptions C17_held_nothing_forwarded.

(* ... but nothing is lost and order is kept, on both sides of the loop *)
Theorem C17_held_loop_no_loss : forall cf ls h, hrun cf hinit ls = Some h ->
  (forall j, delivered_of (base h) j = cmds j (log (base h)) ++ rd_pend (base h) j ++ rd_lost j (log (base h)) ++ inbox_of (base h) j /\
             (length (rd_lost j (log (base h))) <= 1)%nat) /\
  (forall i, enqs i (log (base h)) = outs i (log (base h)) ++ wfails i (log (base h)) ++ wr_pend (base h) i ++ buf_of (base h) i /\
             (length (wfails i (log (base h))) <= 1)%nat) /\
  drops_only_when_full (cf_buf cf) (log (base h)) /\ crashed (base h) = false.
Proof. exact C17_held_loop_no_loss_l. Qed.
Print Assumptions C17_held_loop_no_loss.

(* ---------- the hypotheses are satisfiable ---------- *)
Definition cf0 : cfg := mkCfg 99 2 (fun _ d => Some d).
(* a spoofed envelope and a header-less one are dropped, an honest one is forwarded *)
Example C17_ex_source : exists s,
  lrun cf0 init [LExt (AAttach 1 true); LExt (AAttach 2 true);
                 LExt (ADeliver 0 (mkEnv true 5 2 [] None 70)); LExt (ADeliver 0 (mkEnv false 1 2 [] None 71));
                 LExt (ADeliver 0 (mkEnv true 1 2 [] None 72));
                 LInt 5; LInt 1; LInt 5; LInt 1; LInt 5; LInt 1; LInt 21; LInt 23] = Some s /\
  outs 1 (log s) = [mkEnv true 1 2 [99] None 72] /\ quiescent cf0 s = true /\ fw s = true.
Proof. eexists. split. vm_compute. reflexivity. vm_compute. repeat split; reflexivity. Qed.

(* re-attach, then the old connection fails: the callback fires, the new record keeps the table entry;
   then the context is cancelled and everything ends *)
Example C17_ex_remove_shutdown : exists s,
  lrun cf0 init [LExt (AAttach 1 true); LExt (AAttach 2 true); LExt (AAttach 2 true); LExt (AFailRead 1);
                 LInt 18; LInt 15;                          (* record 1: Read fails; the forwarding loop handles the error *)
                 LInt 22;                                   (* its write loop ends with the errgroup context *)
                 LExt ACancel; LInt 0;
                 LInt 6; LInt 7; LInt 9; LInt 32; LInt 33; LInt 35] = Some s /\
  discs 1 (log s) = [(2, false)] /\
  (exists c, nth_error (clients s) 2 = Some c /\ p_reg c = true /\ p_name c = 2) /\
  cancelled s = true /\ quiescent cf0 s = true /\ fw s = false /\ forallb (fun c => negb (client_alive c)) (clients s) = true.
Proof.
  eexists. split. vm_compute. reflexivity. vm_compute. repeat split; try reflexivity.
  eexists. repeat split; reflexivity.
Qed.

(* non-vacuity of C17_errors_reported_run: the context is live, peer 2's Read has just failed; a maximal internal
   continuation (read loop fails, forwarding loop handles the report, write loop ends) reports and removes it *)
Example C17_ex_reported_run : exists s s',
  lrun cf0 init [LExt (AAttach 1 true); LExt (AAttach 2 true); LExt (AFailRead 1)] = Some s /\ cancelled s = false /\
  lrun cf0 s (ints [18; 15; 22]%nat) = Some s' /\ quiescent cf0 s' = true /\ fw s' = true /\
  discs 1 (log s') = [(2, true)] /\ option_map p_reg (nth_error (clients s') 1) = Some false.
Proof. eexists. eexists. split. vm_compute. reflexivity. split. vm_compute. reflexivity.
  split. vm_compute. reflexivity. vm_compute. repeat split; reflexivity. Qed.

(* non-vacuity of the held-loop theorems: peer 2's Read fails, the loop enters its disconnect callback and stays;
   meanwhile peer 1 sends an envelope for 2, its read loop reads and offers it - nothing is forwarded; the callback
   returns; the loop takes the envelope (inside the forward now), ends the forward: name 2, forgotten, is dialled *)
Definition exheld : list hlabel :=
  [HExt (AAttach 1 true); HExt (AAttach 2 true); HExt (AFailRead 1);
   HInt KRdRead 1; HBeginCb 1 0;
   HExt (ADeliver 0 (mkEnv true 1 2 [] None 70)); HInt KRdRead 0; HInt KWrExit 1].
Example C17_ex_held : exists h h2 h3,
  hrun cf0 hinit exheld = Some h /\ loop h = InCallback 1 /\ offers_env (base h) 0 = true /\
  loop_events (log (base h)) = [EvDisc 1 2 true] /\
  hstep cf0 h (HBeginFwd 0) = None /\
  hrun cf0 h [HEndCb; HBeginFwd 0] = Some h2 /\ loop h2 = InForward 0 /\
  hstep cf0 h2 HEndFwd = Some h3 /\ dials (log (base h3)) = [(2%nat, 2)].
Proof.
  eexists. eexists. eexists. split. vm_compute. reflexivity. split. vm_compute. reflexivity.
  split. vm_compute. reflexivity. split. vm_compute. reflexivity. split. vm_compute. reflexivity.
  split. vm_compute. reflexivity. split. vm_compute. reflexivity. split. vm_compute. reflexivity.
  vm_compute. reflexivity.
Qed.

(* C02 - streams deliver every message once, in order, then the correct end-of-stream.

   Model: Model/Sys.v (client model x server model x two FIFO wires), arbitrary caller and handler programs
   ([pol_any]), any number of streams, any interleaving.

   Proved here: (1) the transport-level half of the property, per stream id and position by position - what a
   side has read for a stream is a prefix of what the other side wrote for it (equal once wires and read
   queues are empty); (2) two API-level clauses, end to end: the handler observes io.EOF only if its caller
   half-closed that stream ([C02_handler_eof_sound_partial]), and every message a handler received is the
   body of an envelope its caller wrote on that stream ([C02_handler_recv_was_sent_partial]: no fabrication,
   no alteration towards the handler), and the caller observes io.EOF only if the handler of that stream
   returned nil - the envelope it took is the very trailer SendTrailer built from that nil return
   ([C02_caller_eof_sound_partial]), and ORDER towards the handler: the RecvMsg results of a stream handler, in
   order, are the classifications of a SUBSEQUENCE of the envelopes its caller wrote on that stream, in the
   order of writing - nothing reordered, duplicated, fabricated or altered ([C02_handler_order_partial]; a gap
   in the subsequence is a frame dropped because its handler had gone), and ORDER towards the caller: the
   messages RecvMsg returned on a call, in order, are a subsequence of the bodies of the envelopes the server
   wrote with the call's id, in the order of writing ([C02_caller_order_partial]). NOT proved: no loss in
   fault-free runs (prefix instead of subsequence), "EOF only after all messages", EOF completeness (never
   Canceled on success): they need further facts of the two components (docs/notes-sy.md);
   the boolean predicates of Check/C02c.v judge all clauses on every recorded history of the real code. *)
From Coq Require Import List ZArith Bool.
Import ListNotations.
From Goat Require Import Model.Client Model.Server Model.Sys Proofs.SysLog Proofs.SysProofs Proofs.SysC01 Proofs.SysC02 Proofs.SysC02b Proofs.SysC02c Proofs.SysC02d Proofs.SysC02e Proofs.SysC02f.
Open Scope Z_scope.

Theorem C02_wire_c2s_prefix_partial : forall pol ls s i, Sys.lrun pol Sys.init ls = Some s ->
  is_prefix (by_id i (map f_env (sreads (Server.log (sv s))))) (by_id i (cwrites (Client.log (cl s)))).
Proof. exact wire_c2s_prefix_id. Qed.
Print Assumptions C02_wire_c2s_prefix_partial.

Theorem C02_wire_s2c_prefix_partial : forall pol ls s i, Sys.lrun pol Sys.init ls = Some s ->
  is_prefix (by_id i (creads (Client.log (cl s)))) (by_id i (map f_env (swrites (Server.log (sv s))))).
Proof. exact wire_s2c_prefix_id. Qed.
Print Assumptions C02_wire_s2c_prefix_partial.

Theorem C02_wire_complete_partial : forall pol ls s i, Sys.lrun pol Sys.init ls = Some s ->
  c2s s = [] -> s2c s = [] -> Server.inbox (sv s) = [] -> Client.inbox (cl s) = [] ->
  by_id i (map f_env (sreads (Server.log (sv s)))) = by_id i (cwrites (Client.log (cl s))) /\
  by_id i (creads (Client.log (cl s))) = by_id i (map f_env (swrites (Server.log (sv s)))).
Proof. exact wire_complete_id. Qed.
Print Assumptions C02_wire_complete_partial.

(* the handler observes io.EOF only if its caller half-closed the stream: the OK trailer with the stream's id
   is in the client's write log (CloseSend writes it, nothing else does) *)
Theorem C02_handler_eof_sound_partial : forall pol ls s h, Sys.lrun pol Sys.init ls = Some s ->
  In (SvOp h ORecvEof) (Server.log (sv s)) ->
  exists k, nth_error (hs (sv s)) h = Some k /\ In (EvWrite (close_env (fid (h_req k)))) (Client.log (cl s)).
Proof. exact C02_handler_eof_sound. Qed.
Print Assumptions C02_handler_eof_sound_partial.

(* every (non-empty) message a handler received is the body of an envelope the caller wrote with that stream's id *)
Theorem C02_handler_recv_was_sent_partial : forall pol ls s h b, Sys.lrun pol Sys.init ls = Some s ->
  In (SvOp h (ORecvMsg b)) (Server.log (sv s)) -> b <> 0 ->
  exists k e, nth_error (hs (sv s)) h = Some k /\ In (EvWrite e) (Client.log (cl s)) /\ eid e = fid (h_req k) /\ ebody e = Some b.
Proof. exact C02_handler_recv_was_sent. Qed.
Print Assumptions C02_handler_recv_was_sent_partial.

(* the caller observes io.EOF on a stream only if the handler serving that stream returned nil: the envelope the
   caller took is the trailer that SendTrailer built (status OK) from that return *)
Theorem C02_caller_eof_sound_partial : forall pol ls s c k, Sys.lrun pol Sys.init ls = Some s ->
  nth_error (calls (cl s)) c = Some k -> k_unary k = false ->
  In (EvRecvRet c (RErr EEof)) (Client.log (cl s)) ->
  exists h kh fr, nth_error (hs (sv s)) h = Some kh /\ h_unary kh = false /\ fid (h_req kh) = k_id k /\
                  In (SvRet h) (Server.log (sv s)) /\ In (SvTrailer h fr) (Server.log (sv s)) /\
                  (exists k2, fr = trl_frame k2 HNil) /\ In (EvTake c (f_env fr)) (Client.log (cl s)).
Proof. exact C02_caller_eof_sound. Qed.
Print Assumptions C02_caller_eof_sound_partial.

(* order towards the handler: its RecvMsg results, in order, classify a subsequence (same order, no
   duplication) of the envelopes its caller wrote on the stream *)
Theorem C02_handler_order_partial : forall pol ls s h k, Sys.lrun pol Sys.init ls = Some s ->
  nth_error (hs (sv s)) h = Some k ->
  exists es, subseq es (by_id (fid (h_req k)) (cwrites (Client.log (cl s)))) /\
             exists fs, map f_env fs = es /\ recv_results h (Server.log (sv s)) = map recv_res fs.
Proof. exact C02_handler_results_order. Qed.
Print Assumptions C02_handler_order_partial.

(* order towards the caller: the messages RecvMsg returned on a call, in order, are a subsequence (same order,
   no duplication) of the bodies of the envelopes the server wrote with that call's id *)
Theorem C02_caller_order_partial : forall pol ls s c k, Sys.lrun pol Sys.init ls = Some s ->
  nth_error (calls (cl s)) c = Some k ->
  subseq (msgs c (Client.log (cl s))) (tbodies (by_id (k_id k) (map f_env (swrites (Server.log (sv s)))))).
Proof. exact C02_caller_order_id. Qed.
Print Assumptions C02_caller_order_partial.

(* a concrete run: one stream, two messages echoed, half-close, the handler sees EOF and returns nil, the
   caller sees both messages and then io.EOF; the final state is quiescent with empty wires *)
Example C02_demo :
  match Sys.lrun pol_any Sys.init demo_c02 with
  | Some s =>
      filter (fun e => match e with EvRecvRet _ _ => true | _ => false end) (Client.log (cl s))
        = [EvRecvRet 0 (RMsg 11); EvRecvRet 0 (RMsg 12); EvRecvRet 0 (RErr EEof)]
      /\ filter (fun e => match e with SvOp _ _ => true | _ => false end) (Server.log (sv s))
        = [SvOp 0 (ORecvMsg 11); SvOp 0 OOk; SvOp 0 (ORecvMsg 12); SvOp 0 OOk; SvOp 0 ORecvEof]
      /\ Sys.quiescent s = true /\ c2s s = [] /\ s2c s = []
      /\ In (SvOp 0 ORecvEof) (Server.log (sv s)) /\ In (EvWrite (close_env 1)) (Client.log (cl s))
      /\ recv_results 0 (Server.log (sv s)) = [ORecvMsg 11; ORecvMsg 12; ORecvEof]
      /\ msgs 0 (Client.log (cl s)) = [11; 12]
  | None => False
  end.
Proof. vm_compute. tauto. Qed.

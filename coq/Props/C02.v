(* C02 - streams deliver every message once, in order, then the correct end-of-stream.

   Model: Model/Sys.v (client model x server model x two FIFO wires), arbitrary caller and handler programs
   ([pol_any]), any number of streams and unary calls, any interleaving.

   FAULT-FREE runs ([fault_free]: no read failure, no write failure / blocked write, no Stop, no cancellation of
   Serve's context); the caller -> handler clauses ask that the client wrote no reset UNDER THE ID OF THAT STREAM (= no caller
   cancellation / deadline / abort on that stream; what happens on the other streams of the connection does not matter):
   - [C02_prefix_c2h]: the RecvMsg results of a stream handler are the classifications of a PREFIX of the envelopes
     its caller wrote on the stream after the opening one (SendMsg's bodies, CloseSend's trailer), in order;
   - [C02_prefix_h2c]: the messages a caller's RecvMsg returned are a PREFIX of the messages in the envelopes the
     server's writer accepted under the stream's id (= the SendMsg calls of the handler that returned nil);
   - [C02_handler_eof_after_all] / [C02_handler_eof_complete] / [C02_handler_eof_delivered]: the handler's RecvMsg
     yields io.EOF only after everything the caller wrote before its half-close, and (Q-form) a handler waiting
     in RecvMsg at quiescence has been given everything the caller wrote - io.EOF included if the caller half-closed;
   - [C02_caller_eof_after_all]: a caller told io.EOF has been given ALL the messages its handler sent;
   - [C02_caller_eof_complete] (Q-form; caller's context not ended, no SendMsg of the stream failed, the handler
     returned nil): at quiescence either a message waits for a RecvMsg the caller has not issued, or (done, io.EOF)
     is published, no RecvMsg is pending, all messages were returned and no RecvMsg ever returned another error
     than io.EOF (or Unmarshal for an undecodable message): never Canceled;
   - [C02_link_*]: the step lemmas tying API arguments to envelopes (SendMsg b writes body_env id b and returns nil
     together; a handler's SendMsg b offers msg_frame k b and returns nil exactly when the writer takes it).
   ALL runs (arbitrary faults, cancellation, resets):
   - [C02_wire_c2s_prefix], [C02_wire_s2c_prefix], [C02_wire_complete]: per stream id what a side has read is a
     prefix of what the other side wrote (equal once wires and inboxes are empty);
   - [C02_caller_prefix]: the messages RecvMsg returned are a PREFIX of the messages in the envelopes the server
     WROTE under the stream's id (nothing lost before what was returned; cancellation only truncates);
   - [C02_handler_order]: the handler's RecvMsg results classify a SUBSEQUENCE of what its caller wrote (a gap is an
     envelope dropped because the handler had gone or was reset), [C02_caller_order] likewise towards the caller;
   - [C02_handler_eof_sound], [C02_handler_recv_was_sent], [C02_caller_eof_sound]: io.EOF at the handler only if
     the caller half-closed; every message received was sent; io.EOF at the caller only if the handler returned nil.
   The boolean predicates of Check/C02c.v judge all clauses on every recorded history of the real code. *)
From Coq Require Import List ZArith Bool.
Import ListNotations.
From Goat Require Import Model.Client Model.Server Model.Sys Proofs.SysLog Proofs.SysProofs Proofs.SysC01 Proofs.SysC02 Proofs.SysC02b
  Proofs.SysC02c Proofs.SysC02d Proofs.SysC02e Proofs.SysC02f Proofs.SysC02h Proofs.SysC02j Proofs.SysC02k Proofs.SysC02l Proofs.SysC02m Proofs.SysC02n Proofs.SysC02o Proofs.SysC02p Proofs.SysC02q Proofs.SysC02r.
Open Scope Z_scope.

(* ====================== fault-free runs ====================== *)
Theorem C02_prefix_c2h : forall pol ls s h k,
  Sys.lrun pol Sys.init ls = Some s -> fault_free ls = true ->
  (forall e, In (EvWrite e) (Client.log (cl s)) -> eid e = fid (h_req k) -> erst e = false) ->
  nth_error (hs (sv s)) h = Some k -> h_unary k = false ->
  exists fs, recv_results h (Server.log (sv s)) = map recv_res fs /\
             is_prefix (map f_env fs) (tl (by_id (fid (h_req k)) (cwrites (Client.log (cl s))))).
Proof. exact SysC02h.C02_prefix_c2h. Qed.
Print Assumptions C02_prefix_c2h.

Theorem C02_prefix_h2c : forall pol ls s c k,
  Sys.lrun pol Sys.init ls = Some s -> fault_free ls = true ->
  nth_error (calls (cl s)) c = Some k -> k_unary k = false -> k_pc k = POpen ->
  is_prefix (msgs c (Client.log (cl s))) (pb (accepted (k_id k) (sv s))).
Proof. exact SysC02k.C02_prefix_h2c. Qed.
Print Assumptions C02_prefix_h2c.

Theorem C02_handler_eof_after_all : forall pol ls s h k R1 R2,
  Sys.lrun pol Sys.init ls = Some s -> fault_free ls = true ->
  (forall e, In (EvWrite e) (Client.log (cl s)) -> eid e = fid (h_req k) -> erst e = false) ->
  nth_error (hs (sv s)) h = Some k -> h_unary k = false ->
  recv_results h (Server.log (sv s)) = R1 ++ ORecvEof :: R2 ->
  exists F1 W2, R1 = map recv_res F1 /\
                stream_writes (fid (h_req k)) (cl s) = map f_env F1 ++ close_env (fid (h_req k)) :: W2.
Proof. exact SysC02l.C02_handler_eof_after_all. Qed.
Print Assumptions C02_handler_eof_after_all.

Theorem C02_handler_eof_complete : forall pol ls s h k,
  Sys.lrun pol Sys.init ls = Some s -> fault_free ls = true ->
  (forall e, In (EvWrite e) (Client.log (cl s)) -> eid e = fid (h_req k) -> erst e = false) ->
  Sys.quiescent s = true -> Server.inbox (sv s) = [] -> Client.inbox (cl s) = [] ->
  nth_error (hs (sv s)) h = Some k -> h_unary k = false -> h_pc k = HInRecv ->
  map f_env (takes h (Server.log (sv s))) = stream_writes (fid (h_req k)) (cl s) /\
  recv_results h (Server.log (sv s)) = map recv_res (takes h (Server.log (sv s))).
Proof. exact SysC02l.C02_handler_eof_complete. Qed.
Print Assumptions C02_handler_eof_complete.

Theorem C02_handler_eof_delivered : forall pol ls s h k,
  Sys.lrun pol Sys.init ls = Some s -> fault_free ls = true ->
  (forall e, In (EvWrite e) (Client.log (cl s)) -> eid e = fid (h_req k) -> erst e = false) ->
  Sys.quiescent s = true -> Server.inbox (sv s) = [] -> Client.inbox (cl s) = [] ->
  nth_error (hs (sv s)) h = Some k -> h_unary k = false -> h_pc k = HInRecv ->
  In (close_env (fid (h_req k))) (stream_writes (fid (h_req k)) (cl s)) ->
  In ORecvEof (recv_results h (Server.log (sv s))).
Proof. exact SysC02l.C02_handler_eof_delivered. Qed.
Print Assumptions C02_handler_eof_delivered.

Theorem C02_caller_eof_after_all : forall pol ls s c k,
  Sys.lrun pol Sys.init ls = Some s -> fault_free ls = true ->
  nth_error (calls (cl s)) c = Some k -> k_unary k = false -> k_pc k = POpen ->
  In (EvRecvRet c (RErr EEof)) (Client.log (cl s)) ->
  msgs c (Client.log (cl s)) = pb (accepted (k_id k) (sv s)).
Proof. exact SysC02k.C02_caller_eof_after_all. Qed.
Print Assumptions C02_caller_eof_after_all.

Theorem C02_caller_eof_complete : forall pol ls s c k t,
  Sys.lrun pol Sys.init ls = Some s -> fault_free ls = true ->
  Sys.quiescent s = true -> Server.inbox (sv s) = [] -> Client.inbox (cl s) = [] ->
  nth_error (calls (cl s)) c = Some k -> k_unary k = false -> k_pc k = POpen ->
  ctx_done (k_ctx k) = false -> ~ sendfail c (Client.log (cl s)) ->
  In t (accepted (k_id k) (sv s)) -> final_of t = Some EEof ->
  (exists b, s_loop k = LHand b) \/
  (s_done k = true /\ s_rerr k = Some EEof /\ (s_recv k = RNone \/ s_recv k = RParked) /\
   msgs c (Client.log (cl s)) = pb (accepted (k_id k) (sv s)) /\
   forall e, In (EvRecvRet c (RErr e)) (Client.log (cl s)) -> e = EEof \/ e = EUnmarshal).
Proof. exact SysC02n.C02_caller_eof_complete. Qed.
Print Assumptions C02_caller_eof_complete.

(* Q-form for the messages before the trailer: at quiescence (fault-free, empty wires and inboxes) a stream whose loop waits
   for the next envelope has handed to RecvMsg EVERY message the server's writer accepted under its id *)
Theorem C02_caller_msgs_complete : forall pol ls s c k,
  Sys.lrun pol Sys.init ls = Some s -> fault_free ls = true ->
  Sys.quiescent s = true -> Server.inbox (sv s) = [] -> Client.inbox (cl s) = [] ->
  nth_error (calls (cl s)) c = Some k -> k_unary k = false -> k_pc k = POpen ->
  (s_loop k = LRead -> msgs c (Client.log (cl s)) = pb (accepted (k_id k) (sv s))) /\
  (forall b, s_loop k = LHand b -> is_prefix (msgs c (Client.log (cl s)) ++ handpart k) (pb (accepted (k_id k) (sv s)))).
Proof. exact SysC02n.C02_caller_msgs_complete. Qed.
Print Assumptions C02_caller_msgs_complete.

(* the step lemmas tying the arguments of the API calls to the envelopes *)
Theorem C02_link_send_reach : forall ls s c k b rest s',
  Client.lrun Client.init ls = Some s -> nth_error (calls s) c = Some k -> s_sendq k = Some b :: rest -> r_send c s = Some s' ->
  (exists e, Client.log s' = Client.log s ++ [EvSendRet c (Some e)]) \/
  Client.log s' = Client.log s ++ [EvWrite (body_env (k_id k) b); EvSendRet c None].
Proof. exact SysC02n.C02_link_send_reach. Qed.
Print Assumptions C02_link_send_reach.

Theorem C02_link_send : forall s c k b rest s', nth_error (calls s) c = Some k -> s_sendq k = Some b :: rest -> r_send c s = Some s' ->
  (exists e, Client.log s' = Client.log s ++ [EvSendRet c (Some e)]) \/
  (s_done k = true /\ s_rerr k = None /\ Client.log s' = Client.log s ++ [EvSendRet c None]) \/
  Client.log s' = Client.log s ++ [EvWrite (body_env (k_id k) b); EvSendRet c None].
Proof. exact SysC02k.C02_link_send. Qed.
Print Assumptions C02_link_send.

Theorem C02_link_send_arg : forall s c b k, nth_error (calls s) c = Some k -> k_pc k = POpen -> s_sendq k = [] ->
  exists k', nth_error (calls (Client.ext s (ASend c b))) c = Some k' /\ s_sendq k' = [Some b] /\ k_id k' = k_id k.
Proof. exact SysC02k.C02_link_send_arg. Qed.
Print Assumptions C02_link_send_arg.

Theorem C02_link_hsend : forall s h k b, h_unary k = false ->
  hstep s h k (HSend b) = set_h s h (hset_pc (hset_md k true (h_hdr k) (h_trl k)) (HInSend (msg_frame k b) KMsg)).
Proof. exact SysC02k.C02_link_hsend. Qed.
Print Assumptions C02_link_hsend.

Theorem C02_link_haccept : forall s h k f s', nth_error (hs s) h = Some k -> h_pc k = HInSend f KMsg -> r_h_send h s = Some s' ->
  Server.log s' = Server.log s ++ [SvTaken f; SvOp h OOk].
Proof. exact SysC02k.C02_link_haccept. Qed.
Print Assumptions C02_link_haccept.

Theorem C02_link_msg_frame : forall k b, fid (msg_frame k b) = fid (h_req k) /\ tb (f_env (msg_frame k b)) = if b <? 0 then [] else [b].
Proof. exact SysC02k.C02_link_msg_frame. Qed.
Print Assumptions C02_link_msg_frame.

(* no envelope in the statement: the messages the handler's RecvMsg was given (bodies of the envelopes it took, in order)
   are a PREFIX of the ARGUMENTS of the caller's SendMsg calls that returned nil, in call order ([csent]) *)
Theorem C02_args_prefix_c2h : forall pol ls s h k c kc,
  Sys.lrun pol Sys.init ls = Some s -> fault_free ls = true ->
  (forall e, In (EvWrite e) (Client.log (cl s)) -> eid e = fid (h_req k) -> erst e = false) ->
  nth_error (hs (sv s)) h = Some k -> h_unary k = false ->
  nth_error (calls (cl s)) c = Some kc -> k_unary kc = false -> k_id kc = fid (h_req k) ->
  exists fs, recv_results h (Server.log (sv s)) = map recv_res fs /\
             is_prefix (tbodies (map f_env fs)) (csent c (Client.log (cl s))).
Proof. exact SysC02p.C02_args_prefix_c2h. Qed.
Print Assumptions C02_args_prefix_c2h.

(* ... and towards the caller: the messages RecvMsg returned are a PREFIX of the (decodable, i.e. non-negative) ARGUMENTS of
   the handler's SendMsg calls that returned nil, in call order ([hargs]) *)
Theorem C02_args_prefix_h2c : forall pol ls s h k c kc,
  Sys.lrun pol Sys.init ls = Some s -> fault_free ls = true ->
  nth_error (hs (sv s)) h = Some k -> nth_error (calls (cl s)) c = Some kc -> k_unary kc = false -> k_pc kc = POpen ->
  k_id kc = fid (h_req k) ->
  is_prefix (msgs c (Client.log (cl s))) (filter (fun b => 0 <=? b) (hargs h (Server.log (sv s)))).
Proof. exact SysC02r.C02_args_prefix_h2c. Qed.
Print Assumptions C02_args_prefix_h2c.

(* ====================== all runs: arbitrary faults, cancellation, resets ====================== *)
(* the list-level link, caller -> handler: the body envelopes written under a stream's id, in wire order, are body_env id b
   for the arguments b of the stream's SendMsg calls that returned nil, in call order *)
(* the list-level link, handler -> caller (all runs of the system): the bare messages (a body, no trailer, no reset) the
   server's writer took under the id of an open stream, in order, are exactly the frames of the SendMsg calls of THE handler
   of that stream that returned nil, in call order; server side (arbitrary peer): Proofs/SysC02q.v, invariants FS and SD *)
Theorem C02_args_h2c : forall pol ls s h k c kc,
  Sys.lrun pol Sys.init ls = Some s ->
  nth_error (hs (sv s)) h = Some k -> nth_error (calls (cl s)) c = Some kc -> k_unary kc = false -> k_pc kc = POpen ->
  k_id kc = fid (h_req k) ->
  filter msgk (ServerProto.idf (k_id kc) (ServerProto.tk (Server.log (sv s)))) = hsentF h (Server.log (sv s)).
Proof. exact SysC02r.C02_args_h2c. Qed.
Print Assumptions C02_args_h2c.

Theorem C02_args_c2h : forall ls s c k,
  Client.lrun Client.init ls = Some s -> nth_error (calls s) c = Some k -> k_unary k = false ->
  filter hasb (by_id (k_id k) (cwrites (Client.log s))) = map (body_env (k_id k)) (csent c (Client.log s)).
Proof. exact SysC02o.C02_args_c2h. Qed.
Print Assumptions C02_args_c2h.

Theorem C02_wire_c2s_prefix : forall pol ls s i, Sys.lrun pol Sys.init ls = Some s ->
  is_prefix (by_id i (map f_env (sreads (Server.log (sv s))))) (by_id i (cwrites (Client.log (cl s)))).
Proof. exact wire_c2s_prefix_id. Qed.
Print Assumptions C02_wire_c2s_prefix.

Theorem C02_wire_s2c_prefix : forall pol ls s i, Sys.lrun pol Sys.init ls = Some s ->
  is_prefix (by_id i (creads (Client.log (cl s)))) (by_id i (map f_env (swrites (Server.log (sv s))))).
Proof. exact wire_s2c_prefix_id. Qed.
Print Assumptions C02_wire_s2c_prefix.

Theorem C02_wire_complete : forall pol ls s i, Sys.lrun pol Sys.init ls = Some s ->
  c2s s = [] -> s2c s = [] -> Server.inbox (sv s) = [] -> Client.inbox (cl s) = [] ->
  by_id i (map f_env (sreads (Server.log (sv s)))) = by_id i (cwrites (Client.log (cl s))) /\
  by_id i (creads (Client.log (cl s))) = by_id i (map f_env (swrites (Server.log (sv s)))).
Proof. exact wire_complete_id. Qed.
Print Assumptions C02_wire_complete.

(* the messages RecvMsg returned are a PREFIX of the messages in the envelopes the server wrote under the stream's id *)
Theorem C02_caller_prefix : forall pol ls s c k,
  Sys.lrun pol Sys.init ls = Some s -> nth_error (calls (cl s)) c = Some k -> k_unary k = false -> k_pc k = POpen ->
  is_prefix (msgs c (Client.log (cl s))) (pb (by_id (k_id k) (map f_env (swrites (Server.log (sv s)))))).
Proof. exact SysC02j.C02_caller_prefix. Qed.
Print Assumptions C02_caller_prefix.

(* the handler observes io.EOF only if its caller half-closed the stream: the OK trailer with the stream's id
   is in the client's write log (CloseSend writes it, nothing else does) *)
Theorem C02_handler_eof_sound : forall pol ls s h, Sys.lrun pol Sys.init ls = Some s ->
  In (SvOp h ORecvEof) (Server.log (sv s)) ->
  exists k, nth_error (hs (sv s)) h = Some k /\ In (EvWrite (close_env (fid (h_req k)))) (Client.log (cl s)).
Proof. exact SysC02b.C02_handler_eof_sound. Qed.
Print Assumptions C02_handler_eof_sound.

(* every (non-empty) message a handler received is the body of an envelope the caller wrote with that stream's id *)
Theorem C02_handler_recv_was_sent : forall pol ls s h b, Sys.lrun pol Sys.init ls = Some s ->
  In (SvOp h (ORecvMsg b)) (Server.log (sv s)) -> b <> 0 ->
  exists k e, nth_error (hs (sv s)) h = Some k /\ In (EvWrite e) (Client.log (cl s)) /\ eid e = fid (h_req k) /\ ebody e = Some b.
Proof. exact SysC02b.C02_handler_recv_was_sent. Qed.
Print Assumptions C02_handler_recv_was_sent.

(* the caller observes io.EOF on a stream only if the handler serving that stream returned nil: the envelope the
   caller took is the trailer that SendTrailer built (status OK) from that return *)
Theorem C02_caller_eof_sound : forall pol ls s c k, Sys.lrun pol Sys.init ls = Some s ->
  nth_error (calls (cl s)) c = Some k -> k_unary k = false ->
  In (EvRecvRet c (RErr EEof)) (Client.log (cl s)) ->
  exists h kh fr, nth_error (hs (sv s)) h = Some kh /\ h_unary kh = false /\ fid (h_req kh) = k_id k /\
                  In (SvRet h) (Server.log (sv s)) /\ In (SvTrailer h fr) (Server.log (sv s)) /\
                  (exists k2, fr = trl_frame k2 HNil) /\ In (EvTake c (f_env fr)) (Client.log (cl s)).
Proof. exact SysC02d.C02_caller_eof_sound. Qed.
Print Assumptions C02_caller_eof_sound.

(* order towards the handler: its RecvMsg results, in order, classify a subsequence (same order, no
   duplication) of the envelopes its caller wrote on the stream; a gap is an envelope dropped because the
   handler had gone or had been reset *)
Theorem C02_handler_order : forall pol ls s h k, Sys.lrun pol Sys.init ls = Some s ->
  nth_error (hs (sv s)) h = Some k ->
  exists es, subseq es (by_id (fid (h_req k)) (cwrites (Client.log (cl s)))) /\
             exists fs, map f_env fs = es /\ recv_results h (Server.log (sv s)) = map recv_res fs.
Proof. exact C02_handler_results_order. Qed.
Print Assumptions C02_handler_order.

(* order towards the caller, all bodies (the undecodable ones and those riding on a final envelope included) *)
Theorem C02_caller_order : forall pol ls s c k, Sys.lrun pol Sys.init ls = Some s ->
  nth_error (calls (cl s)) c = Some k ->
  subseq (msgs c (Client.log (cl s))) (tbodies (by_id (k_id k) (map f_env (swrites (Server.log (sv s)))))).
Proof. exact C02_caller_order_id. Qed.
Print Assumptions C02_caller_order.

Example C02_demo :
  match Sys.lrun pol_any Sys.init demo_c02 with
  | Some s =>
      filter (fun e => match e with EvRecvRet _ _ => true | _ => false end) (Client.log (cl s))
        = [EvRecvRet 0 (RMsg 11); EvRecvRet 0 (RMsg 12); EvRecvRet 0 (RErr EEof)]
      /\ filter (fun e => match e with SvOp _ _ => true | _ => false end) (Server.log (sv s))
        = [SvOp 0 (ORecvMsg 11); SvOp 0 OOk; SvOp 0 (ORecvMsg 12); SvOp 0 OOk; SvOp 0 ORecvEof]
      /\ Sys.quiescent s = true /\ c2s s = [] /\ s2c s = []
      /\ In (SvOp 0 ORecvEof) (Server.log (sv s)) /\ In (EvWrite (close_env 1)) (Client.log (cl s))
      /\ recv_results 0 (Server.log (sv s)) = [ORecvMsg 11; ORecvMsg 12; ORecvEof]
      /\ msgs 0 (Client.log (cl s)) = [11; 12]
  | None => False
  end.
Proof. vm_compute. tauto. Qed.

(* the same run ends in the second case of [C02_caller_eof_complete]: its hypotheses hold (quiescent, inboxes empty,
   caller's context live, no failed SendMsg, the OK trailer accepted) and the terminal state is (done, io.EOF) *)
Example C02_demo_complete :
  match Sys.lrun pol_any Sys.init demo_c02 with
  | Some s =>
      Sys.quiescent s = true /\ Server.inbox (sv s) = [] /\ Client.inbox (cl s) = []
      /\ map final_of (accepted 1 (sv s)) = [None; None; Some EEof]
      /\ filter (fun e => match e with EvSendRet _ (Some _) => true | _ => false end) (Client.log (cl s)) = []
      /\ match nth_error (calls (cl s)) 0 with
         | Some k => ctx_done (k_ctx k) = false /\ k_pc k = POpen /\ s_done k = true /\ s_rerr k = Some EEof /\ s_recv k = RNone
         | None => False
         end
      /\ msgs 0 (Client.log (cl s)) = pb (accepted 1 (sv s))
      /\ csent 0 (Client.log (cl s)) = [11; 12]
      /\ hargs 0 (Server.log (sv s)) = [11; 12]
  | None => False
  end.
Proof. vm_compute. repeat split; reflexivity. Qed.

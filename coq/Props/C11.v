(* C11 - an abandoned stream never wedges its connection. Client half on Model/Client.v, server half on
   Model/Server.v. The shape of the statements: liveness as safety - in every QUIESCENT state (no internal rule
   enabled) of every run nothing waits on a dead or departed consumer. *)
From Coq Require Import List ZArith Bool Lia.
Import ListNotations.
From Goat Require Import Model.Client Proofs.ClientBase Proofs.ClientInv Proofs.ClientWedge.
From Goat Require Model.Server Model.Sys.
From Goat Require Import Proofs.ServerCancel Proofs.SysCancel.
Open Scope Z_scope.

(* ---- client ---- *)
(* (Q) the multiplexer's read loop is held (head-of-line) only by genuine back-pressure: the holder is a
   registered, open stream whose context is LIVE and whose loop is offering a message that its user has not asked
   for. Never by a call that has been cancelled, has returned or has torn down (the D-11c shape). *)
Theorem C11_client_hold_live : forall ls s c e,
  lrun init ls = Some s -> quiescent s = true -> rl s = RLHold c e ->
  exists k b, nth_error (calls s) c = Some k /\ k_reg k = true /\ k_pc k = POpen /\ sctx_done k = false /\
              s_loop k = LHand b /\ s_recv k <> RSel.
Proof. exact C11_hold_live_l. Qed.
Print Assumptions C11_client_hold_live.

(* (Q) the probe: a unary call is never stuck behind another call. In a quiescent state it has returned, or the
   environment holds it at its yield point, or it waits for its reply with a LIVE context, an empty queue and its
   registration intact - so once its deadline has expired (or it is cancelled) it has returned, whatever any
   other call does: callers with deadlines get their answer or DeadlineExceeded. *)
Theorem C11_probe : forall ls s c k,
  lrun init ls = Some s -> quiescent s = true -> nth_error (calls s) c = Some k -> k_unary k = true ->
  k_pc k = PRet \/ k_pc k = PParked \/
  (k_pc k = PWait /\ ctx_done (k_ctx k) = false /\ cbuf (k_chan k) = None /\ cclosed (k_chan k) = false).
Proof. exact C11_unary_settles_l. Qed.
Print Assumptions C11_probe.

(* (Q) with the read loop free, every envelope handed to the client's transport has been routed: a probe's
   reply that was delivered is in the probe's queue, and by C11_probe it has been consumed *)
Theorem C11_client_all_routed : forall s, quiescent s = true -> rl s = RLRead -> inbox s = [] /\ inbox_failed s = false.
Proof. exact C11_all_routed_l. Qed.
Print Assumptions C11_client_all_routed.

(* the only state in which a client thread holds one lock while it needs another (the stream teardown) cannot
   deadlock: the step out of it is always enabled, and no quiescent state has a loop inside its deferred block *)
Theorem C11_teardown_never_stuck : forall s c k,
  nth_error (calls s) c = Some k -> s_loop k = LTdUnreg -> exists s', r_loop_unreg c s = Some s'.
Proof. exact C11_teardown_never_stuck_l. Qed.
Print Assumptions C11_teardown_never_stuck.

Theorem C11_no_defer_at_rest : forall ls s c k,
  lrun init ls = Some s -> quiescent s = true -> nth_error (calls s) c = Some k -> in_defer (s_loop k) = false.
Proof. exact C11_no_defer_l. Qed.
Print Assumptions C11_no_defer_at_rest.

(* ---- server ---- *)
(* (Q) the server's read loop, when it is forwarding, is held only by a registered stream whose handler's context
   is LIVE and whose queue is full (back-pressure by a live handler); a handler that has returned or was
   cancelled never holds it (the D-11s shape) *)
Theorem C11_server_held : forall nw ls (s : Server.state) h f,
  Server.lrun (Server.init_n nw) ls = Some s -> Server.quiescent s = true -> Server.rd s = Server.RdFwd h f ->
  exists k, nth_error (Server.hs s) h = Some k /\ Server.h_reg k = true /\ Server.hdone s k = false /\
            Server.h_q k <> None /\ Server.cctx_done s = false /\ Server.hctx_done s = false.
Proof. exact ServerCancel.C11_srv_held_l. Qed.
Print Assumptions C11_server_held.

(* (Q) a stream handler that has returned waits for the registry lock only while the read loop holds it for
   ANOTHER, live stream or for a reset hand-off to the writer: never in a cycle with its own stream *)
Theorem C11_server_returned : forall nw ls (s : Server.state) g kg,
  Server.lrun (Server.init_n nw) ls = Some s -> Server.quiescent s = true ->
  nth_error (Server.hs s) g = Some kg -> Server.h_pc kg = Server.HUnreg ->
  (exists h f k, Server.rd s = Server.RdFwd h f /\ h <> g /\ nth_error (Server.hs s) h = Some k /\
                 Server.hdone s k = false /\ Server.h_q k <> None) \/
  (exists f, Server.rd s = Server.RdRst f).
Proof. exact ServerCancel.C11_srv_returned_l. Qed.
Print Assumptions C11_server_returned.

(* ---- end to end, on the product model Model/Sys.v ---- *)
(* (Q) in every quiescent state of the system (both components quiescent, both wires empty, no handler at its gate) a
   unary call - the probe - has returned, or is held by the environment at its yield point, or waits with a LIVE
   context for a reply that does not exist anywhere (its queue and both wires are empty): whatever abandoned streams
   did before. After its deadline it has returned. *)
Theorem C11_sys_probe : forall pol ls (s : Sys.state) c k,
  Sys.lrun pol Sys.init ls = Some s -> Sys.quiescent s = true ->
  nth_error (calls (Sys.cl s)) c = Some k -> k_unary k = true ->
  k_pc k = PRet \/ k_pc k = PParked \/
  (k_pc k = PWait /\ ctx_done (k_ctx k) = false /\ cbuf (k_chan k) = None /\ cclosed (k_chan k) = false /\
   Sys.s2c s = [] /\ Sys.c2s s = []).
Proof. exact SysCancel.C11_sys_probe_l. Qed.
Print Assumptions C11_sys_probe.

(* ---- the hypotheses are met by non-trivial states ---- *)
(* three responses for a stream nobody reads: one offered by the stream loop, one in the queue, the third holds
   the read loop (back-pressure by a live caller); a probe started then has its request written and waits with a
   live context; after the abandoning caller cancels, the read loop is free again and the probe's reply arrives *)
Definition c11_acts : list act :=
  [ANewStream false;
   ADeliver (mkEnv 1 (Some (MdOk 0)) None (Some 21) None false);
   ADeliver (mkEnv 1 (Some (MdOk 0)) None (Some 22) None false);
   ADeliver (mkEnv 1 (Some (MdOk 0)) None (Some 23) None false);
   ANewUnary 9 false].

Example C11_held_state :
  let (ls, s) := run_trace c11_acts in
  lrun init ls = Some s /\ quiescent s = true /\
  rl s = RLHold 0 (mkEnv 1 (Some (MdOk 0)) None (Some 23) None false) /\
  match nth_error (calls s) 1 with Some k => k_unary k = true /\ k_pc k = PWait | None => False end.
Proof. vm_compute. repeat split; reflexivity. Qed.

Example C11_released_state :
  let (ls, s) := run_trace (c11_acts ++ [ACancel 0; ADeliver (mkEnv 2 (Some (MdOk 0)) None (Some 9) (Some (MdOk 0)) false)]) in
  lrun init ls = Some s /\ quiescent s = true /\ rl s = RLRead /\ inbox s = [] /\
  match nth_error (calls s) 1 with Some k => k_pc k = PRet | None => False end /\
  In (EvUnaryRet 1 (UOk 9)) (log s).
Proof. vm_compute. repeat split; try reflexivity. tauto. Qed.

(* ====================== server side, closed-system form (builder sv; proofs in Proofs/ServerProbeC.v) ======================
   Appended by sv (round 8); cw's theorems above are untouched. Model/Server.v, all label sequences. *)
From Goat Require Proofs.ServerProofs Proofs.ServerInv Proofs.ServerLive Proofs.ServerRoute Proofs.ServerDispatch
  Proofs.ServerServing Proofs.ServerTerm Proofs.ServerClosed Proofs.ServerProbeC.

(* a reply handed back by a unary handler is on the wire wherever a LIVE connection is at rest with a transport that does
   not block writes - NO hypothesis on the other handlers (C12_probe asks that all of them have returned) *)
Theorem C11_server_reply_written : forall ls s, Server.lrun Server.init ls = Some s ->
  Server.quiescent s = true -> Server.wblock s = false -> Server.hctx_done s = false ->
  forall h f, In (Server.SvReply h f) (Server.log s) -> In (Server.SvWrite f) (Server.log s).
Proof. exact (ServerProbeC.srv_reply_written Server.nworkers). Qed.
Print Assumptions C11_server_reply_written.

(* the probe completes. Any run in which only the peer and the handlers acted ([peer_only]: envelopes of any shape, any
   handler operations - handlers that returned with unread messages, that never read, that are parked -, a transport
   that blocks / unblocks writes), continued by the CLOSED system (internal rules and returns of handlers, [crun]; it
   terminates: C10_closed_terminates, and reaches a final state: C10_closed_reaches_final) to a final state. If the read
   loop is not kept there - the transport does not block writes, some worker is not running a handler, no stream handler
   that has NOT returned sits on a full queue (the back-pressure of a live handler, finding D-07r / the hypothesis of
   C11) - then: everything the peer sent has been read, every unary request has been handed to a worker and a handler was
   started for exactly those that decode, and the reply of EVERY unary handler that has returned is on the wire. A
   handler that RETURNED with unread messages does not keep the read loop (its envelope is dropped): it is not in the
   hypothesis. *)
Theorem C11_server_probe_completes : forall ls s, forallb ServerServing.peer_only ls = true -> Server.lrun Server.init ls = Some s ->
  forall ls' s', ServerClosed.crun s ls' = Some s' -> ServerClosed.final s' = true ->
    Server.wblock s' = false ->
    (exists w p, nth_error (Server.wk s') w = Some p /\ forall h, p <> Server.WkRun h) ->
    (forall h k, nth_error (Server.hs s') h = Some k -> Server.h_q k <> None -> Server.h_returned k = true) ->
    Server.rd s' = Server.RdRead /\ Server.inbox s' = []
    /\ ServerRoute.ureads (Server.log s') = ServerRoute.jobs (Server.log s')
    /\ ServerDispatch.ureqs s' = filter ServerDispatch.unary_ok (ServerRoute.ureads (Server.log s'))
    /\ (forall h f, In (Server.SvReply h f) (Server.log s') -> In (Server.SvWrite f) (Server.log s')).
Proof.
  intros ls s Hp H ls' s' Hr F B W Q.
  apply (ServerProbeC.srv_probe_completes Server.nworkers ls s ltac:(unfold Server.nworkers; auto with arith) Hp H ls' s' Hr F).
  unfold ServerClosed.rd_not_kept. auto.
Qed.
Print Assumptions C11_server_probe_completes.

(* non-vacuity: a stream whose handler never reads gets three messages (one queued, the read loop parks on the second),
   the handler returns with them unread; then the probe: its handler returns 77. The closed system runs on to a final
   state: everything read, the probe's reply written. Before the handler returned the read loop WAS kept (C11_server_held_ex; theorem C11_server_held above). *)
Definition sv_frame (id : Z) (k : Server.mkind) (b : option Z) : Server.frame :=
  Server.mkFrame (mkEnv id (Some (MdOk 0)) None b None false) k 2 1.
Definition sv_state (acts : list Server.act) : Server.state :=
  match Server.lrun Server.init (ServerLive.labels_of acts) with Some s => s | None => Server.init end.
Definition sv_closed_end (s : Server.state) : Server.state :=
  match ServerClosed.crun s (ServerClosed.closed_labels 200 s) with Some s' => s' | None => s end.
Definition sv_held : list Server.act :=
  [ Server.ADeliver (sv_frame 1 (Server.MStream 3) None);
    Server.ADeliver (sv_frame 1 (Server.MStream 3) (Some 21)); Server.ADeliver (sv_frame 1 (Server.MStream 3) (Some 22));
    Server.ADeliver (sv_frame 1 (Server.MStream 3) (Some 23)); Server.ADeliver (sv_frame 9 (Server.MUnary 1) (Some 5)) ].
Definition sv_probe_acts : list Server.act :=
  sv_held ++ [ Server.AHandlerStep 0 (Server.HReturn None Server.HNil); Server.AHandlerStep 1 (Server.HReturn (Some 77) Server.HNil) ].

Example C11_server_held_ex :
  exists s, Server.lrun Server.init (ServerLive.labels_of sv_held) = Some s /\ Server.quiescent s = true
    /\ (exists f, Server.rd s = Server.RdFwd 0 f) /\ length (Server.inbox s) = 2%nat /\ length (Server.hs s) = 1%nat.
Proof. exists (sv_state sv_held). vm_compute. repeat split. eexists; reflexivity. Qed.

Example C11_server_probe_ex :
  exists s ls' s', Server.lrun Server.init (ServerLive.labels_of sv_probe_acts) = Some s
    /\ forallb ServerServing.peer_only (ServerLive.labels_of sv_probe_acts) = true
    /\ ls' = ServerClosed.closed_labels 200 s /\ ServerClosed.crun s ls' = Some s' /\ ServerClosed.final s' = true
    /\ Server.wblock s' = false /\ Server.rd s' = Server.RdRead /\ Server.inbox s' = []
    /\ forallb (fun k => match Server.h_q k with None => true | Some _ => Server.h_returned k end) (Server.hs s') = true
    /\ nth_error (Server.wk s') 0 = Some Server.WkIdle
    /\ length (filter (fun e => match e with Server.SvReply _ _ => true | _ => false end) (Server.log s')) = 1%nat
    /\ length (filter (fun e => match e with Server.SvDrop _ _ => true | _ => false end) (Server.log s')) = 2%nat
    /\ existsb (fun e => match e with Server.SvWrite f => match ebody (Server.f_env f) with Some 77 => true | _ => false end | _ => false end) (Server.log s') = true.
Proof.
  exists (sv_state sv_probe_acts), (ServerClosed.closed_labels 200 (sv_state sv_probe_acts)), (sv_closed_end (sv_state sv_probe_acts)).
  vm_compute. repeat split.
Qed.

(* ---------- product level, closed system (sv; Proofs/SysTerm.v): the probe settles, with termination ----------
   Every closed continuation (internal rules of both components, wire transfers, handler returns) of a reachable state of
   the product is bounded by [SysTerm.sys_measure] (Props/C01.v Sys_closed_terminates) and can be extended to a quiescent
   state (Sys_closed_reaches_final); wherever it ends quiescent the probe is settled as in C11_sys_probe - no quiescence
   hypothesis about an unnamed state is left: the state is "where the closed system stops". *)
From Goat Require Proofs.SysTerm.
Theorem C11_sys_probe_closed : forall pol ls (s : Sys.state) ls' s' c k,
  Sys.lrun pol Sys.init ls = Some s -> SysTerm.sys_crun pol s ls' = Some s' -> Sys.quiescent s' = true ->
  nth_error (calls (Sys.cl s')) c = Some k -> k_unary k = true ->
  k_pc k = PRet \/ k_pc k = PParked \/
  (k_pc k = PWait /\ ctx_done (k_ctx k) = false /\ cbuf (k_chan k) = None /\ cclosed (k_chan k) = false /\
   Sys.s2c s' = [] /\ Sys.c2s s' = []).
Proof.
  intros pol ls s ls' s' c k H Hr Q Hn Hu. apply (C11_sys_probe pol (ls ++ ls') s' c k); auto.
  rewrite SysTerm.sys_lrun_app, H. now apply SysTerm.sys_crun_lrun.
Qed.
Print Assumptions C11_sys_probe_closed.

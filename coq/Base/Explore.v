(* Exhaustive exploration of the internal-step graph of a small-step model.
   [explore eqb succs fuel todo seen quiet] visits every state reachable from
   [todo] through [succs] (each state once: [seen] is the visited set) and
   returns the states without successor (the quiescent ones), or [None] when
   the fuel runs out before the worklist is empty. Used only by the
   correspondence checks (Check/*.v); no theorem depends on it. *)
From Coq Require Import List Bool.
Import ListNotations.

Definition mem {A} (eqb : A -> A -> bool) (x : A) (l : list A) : bool := existsb (eqb x) l.

Fixpoint dedup {A} (eqb : A -> A -> bool) (l : list A) : list A :=
  match l with
  | [] => []
  | x :: t => let t' := dedup eqb t in if mem eqb x t' then t' else x :: t'
  end.

Fixpoint explore {St} (eqb : St -> St -> bool) (succs : St -> list St) (fuel : nat)
         (todo seen quiet : list St) : option (list St) :=
  match todo with
  | [] => Some quiet
  | s :: rest =>
      match fuel with
      | O => None
      | S f =>
          match succs s with
          | [] => explore eqb succs f rest seen (if mem eqb s quiet then quiet else s :: quiet)
          | ss =>
              let fresh := filter (fun x => negb (mem eqb x seen)) (dedup eqb ss) in
              explore eqb succs f (fresh ++ rest) (fresh ++ seen) quiet
          end
      end
  end.

Fixpoint filter_map {A B} (f : A -> option B) (l : list A) : list B :=
  match l with
  | [] => []
  | x :: t => match f x with Some y => y :: filter_map f t | None => filter_map f t end
  end.

Fixpoint list_eqb {A} (eqb : A -> A -> bool) (a b : list A) : bool :=
  match a, b with
  | [], [] => true
  | x :: a', y :: b' => eqb x y && list_eqb eqb a' b'
  | _, _ => false
  end.

Definition option_eqb {A} (eqb : A -> A -> bool) (a b : option A) : bool :=
  match a, b with None, None => true | Some x, Some y => eqb x y | _, _ => false end.

(* insertion sort by a boolean "less or equal" *)
Fixpoint insert_by {A} (leb : A -> A -> bool) (x : A) (l : list A) : list A :=
  match l with
  | [] => [x]
  | y :: t => if leb x y then x :: l else y :: insert_by leb x t
  end.
Definition sort_by {A} (leb : A -> A -> bool) (l : list A) : list A := fold_right (insert_by leb) [] l.

(* Byte strings as lists of N (each element is meant to be < 256), plus the
   few string operations of Go's [strings] package that the models use. *)
From Coq Require Export Ascii String.
From Coq Require Export List NArith ZArith Bool Lia.
Export ListNotations.
Open Scope N_scope.

Definition bytes := list N.

Definition bytes_of_string (s : string) : bytes :=
  map N_of_ascii (list_ascii_of_string s).

Definition bz (l : list Z) : bytes := map Z.to_N l.

Notation "'B' s" := (bytes_of_string s%string) (at level 0, s at level 0, only parsing).

Fixpoint bytes_eqb (a b : bytes) : bool :=
  match a, b with
  | [], [] => true
  | x :: a', y :: b' => N.eqb x y && bytes_eqb a' b'
  | _, _ => false
  end.

Lemma bytes_eqb_eq a b : bytes_eqb a b = true <-> a = b.
Proof.
  revert b; induction a as [|x a IH]; intros [|y b]; cbn; split; intro H;
    try reflexivity; try discriminate.
  - apply andb_true_iff in H as [H1 H2]. apply N.eqb_eq in H1. apply IH in H2. congruence.
  - inversion H; subst. rewrite N.eqb_refl. cbn. apply IH. reflexivity.
Qed.

Lemma bytes_eqb_refl a : bytes_eqb a a = true.
Proof. apply bytes_eqb_eq. reflexivity. Qed.

(* strings.ToLower restricted to ASCII: 'A'..'Z' -> 'a'..'z'. *)
Definition lower_byte (c : N) : N :=
  if (65 <=? c) && (c <=? 90) then c + 32 else c.

Definition lower (s : bytes) : bytes := map lower_byte s.

Lemma lower_byte_idem c : lower_byte (lower_byte c) = lower_byte c.
Proof.
  unfold lower_byte.
  destruct ((65 <=? c) && (c <=? 90)) eqn:E.
  - apply andb_true_iff in E as [E1 E2]. apply N.leb_le in E1, E2.
    replace ((65 <=? c + 32) && (c + 32 <=? 90)) with false; [reflexivity|].
    symmetry. apply andb_false_iff. right. apply N.leb_gt. lia.
  - rewrite E. reflexivity.
Qed.

Lemma lower_idem s : lower (lower s) = lower s.
Proof. unfold lower. rewrite map_map. apply map_ext. apply lower_byte_idem. Qed.

(* strings.HasSuffix *)
Definition has_suffix (s suf : bytes) : bool :=
  let n := length s in let m := length suf in
  Nat.leb m n && bytes_eqb (skipn (n - m) s) suf.

Definition is_digit (c : N) : bool := (48 <=? c) && (c <=? 57).

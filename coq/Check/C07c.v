(* ./check C07: the cases of harness/cw_test.go judged by the lock-step agreement with
   Model/Client.v (reason 1) and by the predicates of property C07 on the real history
   (reasons >= 2, see Check/CwC.v). *)
From Coq Require Import List ZArith Bool.
Import ListNotations.
From Goat Require Import Model.Client Check.ClientC Model.Protocol Check.CwC.

Definition find_bad_from : nat -> list cwcase -> list (nat * list nat) := find_bad_with spec_c07.

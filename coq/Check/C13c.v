(* C13 cases: lock-step scenarios with arbitrary inbound envelope sequences;
   model agreement + the no-panic / settle / honesty predicates on the observed
   history. *)
From Coq Require Import List ZArith Bool Lia.
Import ListNotations.
From Goat Require Import Base.Explore Model.Client Check.ClientC Check.ClientSpec.
Open Scope Z_scope.

Inductive c13case := C13Step (c : ccase).

Definition check_c13 (c : c13case) : list nat :=
  match c with C13Step cc => (if agrees cc then [] else [1%nat]) ++ reasons_in [3; 4; 5; 6; 7; 8]%nat cc end.

Fixpoint find_bad_from (i : nat) (cs : list c13case) : list (nat * list nat) :=
  match cs with
  | [] => []
  | c :: rest => match check_c13 c with [] => find_bad_from (S i) rest | rs => (i, rs) :: find_bad_from (S i) rest end
  end.

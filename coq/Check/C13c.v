(* C13 cases: lock-step scenarios with arbitrary inbound envelope sequences;
   model agreement + the no-panic / settle / honesty predicates on the observed
   history. *)
From Coq Require Import List ZArith Bool Lia.
Import ListNotations.
From Goat Require Import Base.Explore Model.Client Check.ClientC Check.ClientSpec.
Open Scope Z_scope.

Inductive c13case :=
| C13Step (c : ccase)
(* surplus replies to one unary call, then later calls: per call (the token it must report if it reports success,
   what it got: a token, -3 = an error, -2 = still pending after the read failure, answered by the peer: 1 / 0) *)
| C13Surplus (results : list (Z * Z * Z)).

Definition check_c13 (c : c13case) : list nat :=
  match c with
  | C13Step cc => (if agrees cc then [] else [1%nat]) ++ reasons_in [3; 4; 5; 6; 7; 8; 10; 12; 13]%nat cc ++
                  (* reason 11: the scenario could not be run to its end: a goroutine of the client waits for a lock for ever
                     (self-deadlock under a peer-chosen envelope sequence): every later operation on that call hangs *)
                  (match cc with CClientWedged _ _ _ => [11%nat] | _ => [] end)
  | C13Surplus results =>
      (* an answered call reports exactly the data addressed to it; an unanswered one never reports success *)
      (if forallb (fun r => match r with (own, got, ans) => if 0 <=? got then (ans =? 1) && (got =? own) else true end) results then [] else [5%nat]) ++
      (if forallb (fun r => match r with (_, got, ans) => negb (got =? -2) && (if ans =? 1 then true else got =? -3) end) results then [] else [6%nat]) ++
      (if forallb (fun r => match r with (own, got, ans) => if ans =? 1 then got =? own else true end) results then [] else [3%nat])
  end.

Fixpoint find_bad_from (i : nat) (cs : list c13case) : list (nat * list nat) :=
  match cs with
  | [] => []
  | c :: rest => match check_c13 c with [] => find_bad_from (S i) rest | rs => (i, rs) :: find_bad_from (S i) rest end
  end.

Example wedged_is_bad : check_c13 (C13Step (CClientWedged [ANewStream false] [] [(0, 0)])) = [1%nat; 11%nat].
Proof. vm_compute. reflexivity. Qed.

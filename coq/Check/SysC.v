(* Shared vocabulary of the end-to-end checks C01 / C02: the history recorded by
   the end-to-end rig (harness/sy_rig.go: real client connection - in-memory
   FIFO wires - real server, optionally through the real Proxy / Demux) and the
   list utilities the property predicates need (merge sort on keyed lists, so
   that histories of 10^4 calls are judged in n log n).

   Payloads are tokens: the rig hashes every byte string it sends or sees
   (0 = the empty message) at the moment of the observation, so that a buffer
   mutated later (aliasing) yields a different token. *)
From Coq Require Import List ZArith Bool Lia.
Import ListNotations.
Open Scope Z_scope.

(* result of a receive / of a unary call.  Error classes: 1 io.EOF, 2 status
   Canceled, 3 status DeadlineExceeded, 4 raw context.Canceled, 5 raw
   context.DeadlineExceeded, 100+c status with another code c, 9 anything else *)
Inductive res := ROk (tok : Z) | RErr (cls : Z).

Definition res_eqb (a b : res) : bool :=
  match a, b with ROk x, ROk y => x =? y | RErr x, RErr y => x =? y | _, _ => false end.

(* one envelope seen by the tap on the client's transport *)
Record wenv := mkW {
  w_id : Z;
  w_body : option Z;          (* payload token of the body, if any *)
  w_status : option Z;        (* status code, if a status is present *)
  w_trl : bool;               (* trailer present *)
  w_rst : bool }.

Inductive hev :=
(* unary calls: c = index of the call (carried to the handler as request metadata) *)
| CInvS (c req expect : Z)          (* Invoke starts; expect = token of mix(request bytes) *)
| CInvR (c : Z) (r : res)           (* Invoke returned *)
| HUnS (c req : Z)                  (* unary handler entered for call c with this request *)
| HUnR (c req2 rep : Z)             (* ... returns rep; req2 = its request re-read just before returning *)
(* streams: k = index of the stream *)
| COpenS (k kind : Z) | COpenR (k err : Z)        (* err: 0 = nil, else an error class *)
| CSendS (k tok : Z) | CSendR (k err : Z)
| CCloseS (k : Z) | CCloseR (k err : Z)
| CRecvS (k : Z) | CRecvR (k : Z) (r : res)
| HStS (k : Z)                                     (* stream handler entered *)
| HRecvS (k : Z) | HRecvR (k : Z) (r : res)
| HSendS (k tok : Z) | HSendR (k err : Z)
| HRet (k code : Z)                                (* stream handler returned; 0 = nil *)
(* wire tap on the client's transport *)
| WC2S (e : wenv) | WS2C (e : wenv).

(* schedule actions of the rig (= external actions of the system model) *)
Inductive sact :=
| SUStep (t : Z)        (* user thread t issues its next operation *)
| SHStep (h : Z)        (* the handler serving call / stream h performs its next gated operation *)
| SC2S | SS2C           (* the oldest in-flight envelope of that direction reaches its reader *)
| SRelease (t : Z)      (* release user thread t parked at a yield point *)
| SFailRead             (* the client's transport fails (after the envelopes it has already queued) *)
| SBlockWrites (b : bool)  (* the client's transport stops / resumes accepting writes (back-pressure) *)
| STick (ms : Z)        (* the virtual clock advances by ms milliseconds while everything is at rest *)
| SFree.                (* free-running: no gating, the whole history in one step *)

Definition events (steps : list (sact * list hev)) : list hev := flat_map snd steps.

(* ---------- merge sort on lists keyed by Z ---------- *)
Fixpoint merge {A} (l1 : list (Z * A)) : list (Z * A) -> list (Z * A) :=
  fix inner (l2 : list (Z * A)) : list (Z * A) :=
    match l1, l2 with
    | [], _ => l2
    | _, [] => l1
    | (k1, a1) :: t1, (k2, a2) :: t2 =>
        if k1 <=? k2 then (k1, a1) :: merge t1 l2 else (k2, a2) :: inner t2
    end.

Fixpoint push_stack {A} (stack : list (option (list (Z * A)))) (l : list (Z * A)) : list (option (list (Z * A))) :=
  match stack with
  | [] => [Some l]
  | None :: s => Some l :: s
  | Some l' :: s => None :: push_stack s (merge l' l)
  end.

Fixpoint merge_stack {A} (stack : list (option (list (Z * A)))) : list (Z * A) :=
  match stack with
  | [] => []
  | None :: s => merge_stack s
  | Some l :: s => merge (merge_stack s) l
  end.

Fixpoint iter_merge {A} (stack : list (option (list (Z * A)))) (l : list (Z * A)) : list (Z * A) :=
  match l with
  | [] => merge_stack stack
  | a :: l' => iter_merge (push_stack stack [a]) l'
  end.

Definition msort {A} (l : list (Z * A)) : list (Z * A) := iter_merge [] l.

Definition keys {A} (l : list (Z * A)) : list Z := map fst l.

Fixpoint zlist_eqb (a b : list Z) : bool :=
  match a, b with
  | [], [] => true
  | x :: a', y :: b' => (x =? y) && zlist_eqb a' b'
  | _, _ => false
  end.

Fixpoint strictly_increasing (l : list Z) : bool :=
  match l with
  | x :: ((y :: _) as t) => (x <? y) && strictly_increasing t
  | _ => true
  end.

(* pointwise predicate on two lists of the same length *)
Fixpoint zipb {A B} (p : A -> B -> bool) (l1 : list A) (l2 : list B) : bool :=
  match l1, l2 with
  | [], [] => true
  | x :: t1, y :: t2 => p x y && zipb p t1 t2
  | _, _ => false
  end.

(* lenient join of two key-sorted lists: the predicate must hold for every pair
   of entries with the same key; entries without partner are skipped (their
   absence is judged elsewhere) *)
Fixpoint join_ok {A B} (fuel : nat) (p : A -> B -> bool) (l1 : list (Z * A)) (l2 : list (Z * B)) : bool :=
  match fuel with
  | O => false
  | S f =>
      match l1, l2 with
      | [], _ | _, [] => true
      | (k1, a) :: t1, (k2, b) :: t2 =>
          if k2 <? k1 then join_ok f p l1 t2
          else if k1 <? k2 then join_ok f p t1 l2
          else p a b && join_ok f p l1 t2     (* keep the left entry: a duplicate on the right is compared too *)
      end
  end.

Definition join_all {A B} (p : A -> B -> bool) (l1 : list (Z * A)) (l2 : list (Z * B)) : bool :=
  join_ok (S (length l1 + length l2)) p l1 l2.

Definition optZ_eqb (a b : option Z) : bool :=
  match a, b with None, None => true | Some x, Some y => x =? y | _, _ => false end.

Fixpoint filter_map' {A B} (f : A -> option B) (l : list A) : list B :=
  match l with
  | [] => []
  | x :: t => match f x with Some y => y :: filter_map' f t | None => filter_map' f t end
  end.

(* generic checker plumbing: [judge] gives the reason codes of one case *)
Fixpoint find_bad_with {C} (judge : C -> list nat) (i : nat) (cs : list C) : list (nat * list nat) :=
  match cs with
  | [] => []
  | c :: rest =>
      match judge c with
      | [] => find_bad_with judge (S i) rest
      | rs => (i, rs) :: find_bad_with judge (S i) rest
      end
  end.

(* C01: [agrees] THROUGH the system model, on the small lock-step cases (at most [agree_max] calls, only the actions
   user step / handler step / deliver c2s / deliver s2c): the recorded schedule is replayed on Model/Sys.v - one external
   action, then every order of the internal rules of the component concerned (Check/ClientC.react_all,
   Check/ServerC.react_all), the wires of Model/Sys.v in between - and at every step some model outcome must predict
   exactly the events recorded on the real client connection + server (reason 1 otherwise; the second number is
   100 + the index of the first disagreeing step). Bigger cases and the free-running ones are not replayed. *)
From Coq Require Import List ZArith Bool Lia.
Import ListNotations.
From Goat Require Import Base.Explore Model.Client Model.Server Model.Sys Check.SysC Check.C01c.
From Goat Require Check.ClientC Check.ServerC.
Open Scope Z_scope.

(* ---- the observable events of a model reaction, in the vocabulary of the rig ---- *)
Definition wenv_of (e : env) : wenv :=
  mkW (eid e) (ebody e) (match estatus e with Some st => Some (st_code st) | None => None end)
      (match etrl e with Some _ => true | None => false end) (erst e).

Definition norm_res (r : res) : res := match r with RErr _ => RErr 0 | _ => r end.

Definition of_cev (e : cev) : list hev :=
  match e with
  | EvWrite w => [WC2S (wenv_of w)]
  | EvUnaryRet c (UOk b) => [CInvR (Z.of_nat c) (ROk b)]
  | EvUnaryRet c (UErr _) => [CInvR (Z.of_nat c) (RErr 0)]
  | _ => []
  end.

(* the request token of handler h *)
Definition hreq_tok (v : Server.state) (h : nat) : Z :=
  match nth_error (hs v) h with Some k => body_tok (h_req k) | None => -1 end.

Definition of_sev (v : Server.state) (e : sev) : list hev :=
  match e with
  | SvInvoke h true id _ payload _ => [HUnS (id - 1) payload]
  | SvWrite f => [WS2C (wenv_of (f_env f))]
  | _ => []
  end.

(* ---- comparison: multisets of coded events ---- *)
Definition optZ_c (o : option Z) : list Z := match o with None => [0] | Some x => [1; x] end.
Definition wenv_c (w : wenv) : list Z :=
  w_id w :: optZ_c (w_body w) ++ optZ_c (w_status w) ++ [if w_trl w then 1 else 0; if w_rst w then 1 else 0].
Definition hev_c (e : hev) : list Z :=
  match e with
  | CInvR c (ROk b) => [1; c; 1; b]
  | CInvR c (RErr _) => [1; c; 0]
  | HUnS c q => [2; c; q]
  | HUnR c q r => [3; c; q; r]
  | WC2S w => 4 :: wenv_c w
  | WS2C w => 5 :: wenv_c w
  | _ => [0]
  end.
Fixpoint zl_eqb (a b : list Z) : bool :=
  match a, b with [], [] => true | x :: a', y :: b' => (x =? y) && zl_eqb a' b' | _, _ => false end.
Definition hevs_match (pred obs : list hev) : bool :=
  ClientC.multiset_eqb zl_eqb (map hev_c pred) (map hev_c obs).

(* what the spec sees of a step: everything except the start marker of a call *)
Definition observed_of (evs : list hev) : list hev :=
  filter (fun e => match e with CInvS _ _ _ => false | _ => true end) evs.

(* ---- one candidate of the replay ---- *)
Record cand := mkCand { c_cl : Client.state; c_sv : Server.state; c_c2s : list frame; c_s2c : list env }.

Definition delta {A} (old : list A) (new : list A) : list A := skipn (length old) new.

(* client reaction to [a]: all outcomes, with the events predicted and the frames put on the wire *)
Definition cl_react (k : cand) (a : Client.act) (extra : list hev) : list (cand * list hev) :=
  match ClientC.react_all (c_cl k) a with
  | Some qs =>
      map (fun cl' =>
             let d := delta (Client.log (c_cl k)) (Client.log cl') in
             (mkCand cl' (c_sv k) (c_c2s k ++ map (frame_of cl') (cwrites d)) (c_s2c k),
              extra ++ flat_map of_cev d)) qs
  | None => []
  end.

Definition sv_react (k : cand) (a : Server.act) (extra : Server.state -> list hev) : list (cand * list hev) :=
  match ServerC.react_all (c_sv k) a with
  | Some qs =>
      map (fun sv' =>
             (mkCand (c_cl k) sv' (c_c2s k) (c_s2c k ++ map f_env (ServerC.writes_of (Server.log sv'))),
              extra sv' ++ flat_map (of_sev sv') (Server.log sv'))) qs
  | None => []
  end.

(* the handler serving call c: the unary handler whose request carries id c + 1 *)
Fixpoint find_h (id : Z) (l : list hnd) (n : nat) : option nat :=
  match l with
  | [] => None
  | k :: t => if h_unary k && (fid (h_req k) =? id) then Some n else find_h id t (S n)
  end.

Definition first_call (evs : list hev) : option (Z * Z) :=
  match filter_map' (fun e => match e with CInvS c q _ => Some (c, q) | _ => None end) evs with
  | x :: _ => Some x
  | [] => None
  end.
Definition first_hret (evs : list hev) : option (Z * (Z * Z)) :=
  match filter_map' (fun e => match e with HUnR c q r => Some (c, (q, r)) | _ => None end) evs with
  | x :: _ => Some x
  | [] => None
  end.

(* None: the step is outside the replayed fragment *)
Definition step_cands (k : cand) (a : sact) (evs : list hev) : option (list (cand * list hev)) :=
  match a with
  | SUStep _ =>
      match first_call evs with
      | Some (_, q) => Some (cl_react k (ANewUnary q false) [])
      | None => None
      end
  | SC2S =>
      match c_c2s k with
      | f :: rest => Some (sv_react (mkCand (c_cl k) (c_sv k) rest (c_s2c k)) (Server.ADeliver f) (fun _ => []))
      | [] => Some []
      end
  | SS2C =>
      match c_s2c k with
      | e :: rest => Some (cl_react (mkCand (c_cl k) (c_sv k) (c_c2s k) rest) (Client.ADeliver e) [])
      | [] => Some []
      end
  | SHStep c =>
      match first_hret evs with
      | Some (_, (q, r)) =>
          match find_h (c + 1) (hs (c_sv k)) 0 with
          | Some h => Some (sv_react k (AHandlerStep h (HReturn (Some r) HNil)) (fun _ => [HUnR c (hreq_tok (c_sv k) h) r]))
          | None => Some []
          end
      | None => None
      end
  | _ => None
  end.

Definition cand_eqb (a b : cand) : bool :=
  ClientC.state_eqb (c_cl a) (c_cl b) && ServerC.state_eqb (c_sv a) (c_sv b)
  && list_eqb ServerC.frame_eqb (c_c2s a) (c_c2s b) && list_eqb ClientC.env_eqb (c_s2c a) (c_s2c b).

(* Some (Some i): first disagreeing step; Some None: agreement; None: outside the fragment *)
Fixpoint replay (i : nat) (cands : list cand) (steps : list (sact * list hev)) : option (option nat) :=
  match steps with
  | [] => Some None
  | (a, evs) :: rest =>
      let nexts := map (fun k => step_cands k a evs) cands in
      if existsb (fun o => match o with None => true | Some _ => false end) nexts then None
      else
        let ok := flat_map (fun o => match o with
                                     | Some l => map fst (filter (fun p => hevs_match (snd p) (observed_of evs)) l)
                                     | None => []
                                     end) nexts in
        match dedup cand_eqb ok with
        | [] => Some (Some i)
        | ns => replay (S i) ns rest
        end
  end.

Definition agree_max : nat := 24.

Definition ncalls (steps : list (sact * list hev)) : nat :=
  length (filter (fun e => match e with CInvS _ _ _ => true | _ => false end) (events steps)).

Definition check_agree (c : c01case) : list nat :=
  match c with
  | C01Run steps =>
      if Nat.leb (ncalls steps) agree_max then
        match replay 0 [mkCand Client.init Server.init [] []] steps with
        | Some (Some i) => [1%nat; (100 + i)%nat]
        | _ => []
        end
      else []
  end.

(* how many cases are replayed (evidence) *)
Definition replayed (c : c01case) : bool :=
  match c with
  | C01Run steps => Nat.leb (ncalls steps) agree_max
                    && match replay 0 [mkCand Client.init Server.init [] []] steps with Some _ => true | None => false end
  end.

Definition judge_a (c : c01case) : list nat := check_agree c ++ judge c.
Definition find_bad_from_a (i : nat) (cs : list c01case) : list (nat * list nat) := find_bad_with judge_a i cs.

(* Executable correspondence / specification checks for C19 (shipped
   transports). Lock-step cases: after every step (a group of environment
   actions) the real code was run to quiescence and observed; the model applies
   the same actions, explores every order of its internal rules ([explore]) and
   must contain a quiescent state predicting the observation. The [spec_*]
   predicates are evaluated on the observed history alone. *)
From Coq Require Import List ZArith Bool Lia.
Import ListNotations.
From Goat Require Import Base.Bytes Base.Explore Model.WireFormat Model.Transports Model.HttpLink Model.WsFrag.
Open Scope Z_scope.

(* ---------- equality on envelopes ---------- *)
Definition opt_eqb {A} (f : A -> A -> bool) (a b : option A) : bool :=
  match a, b with None, None => true | Some x, Some y => f x y | _, _ => false end.
Definition kv_eqb (a b : kv) : bool := bytes_eqb (kv_key a) (kv_key b) && bytes_eqb (kv_val a) (kv_val b).
Definition any_eqb (a b : any) : bool := bytes_eqb (any_url a) (any_url b) && bytes_eqb (any_val a) (any_val b).
Definition header_eqb (a b : header) : bool :=
  bytes_eqb (h_method a) (h_method b) && list_eqb kv_eqb (h_headers a) (h_headers b)
  && bytes_eqb (h_source a) (h_source b) && bytes_eqb (h_dest a) (h_dest b)
  && list_eqb bytes_eqb (h_record a) (h_record b) && list_eqb bytes_eqb (h_next a) (h_next b).
Definition status_eqb (a b : rstatus) : bool :=
  (s_code a =? s_code b) && bytes_eqb (s_msg a) (s_msg b) && list_eqb any_eqb (s_details a) (s_details b).
Definition rpc_eqb (a b : rpc) : bool :=
  N.eqb (r_id a) (r_id b) && opt_eqb header_eqb (r_header a) (r_header b)
  && opt_eqb status_eqb (r_status a) (r_status b) && opt_eqb bytes_eqb (r_body a) (r_body b)
  && opt_eqb (list_eqb kv_eqb) (r_trailer a) (r_trailer b) && opt_eqb bytes_eqb (r_reset a) (r_reset b).

Definition count {A} (f : A -> A -> bool) (x : A) (l : list A) : nat := length (filter (f x) l).
Definition multiset_eqb {A} (f : A -> A -> bool) (a b : list A) : bool :=
  Nat.eqb (length a) (length b) && forallb (fun x => Nat.eqb (count f x a) (count f x b)) a.

(* ====================================================================== *)
(* big bodies                                                              *)
(* ====================================================================== *)
(* A body of the upper end of the quantified range (1 MiB and just below) is
   not spelt out in a case: both sides build it from (seed, length) as the 251
   bytes [lcg_body seed 251] repeated (251 is prime: a shift, a truncation or a
   4096-byte block lost or repeated changes the bytes that follow). Purely
   structural, so a megabyte costs a fraction of a second where [lcg_body]
   itself (one N division per byte) costs ~20 s. harness/tr_gen.go: cycBody. *)
Fixpoint cyc_bytes (pat cur : bytes) (n : nat) : bytes :=
  match n with
  | O => []
  | S m =>
      match cur with
      | c :: cs => c :: cyc_bytes pat cs m
      | [] => match pat with
              | [] => []
              | p :: ps => p :: cyc_bytes pat ps m
              end
      end
  end.
Definition cyc_body (seed len : Z) : bytes := let pat := lcg_body seed 251 in cyc_bytes pat pat (Z.to_nat len).

(* ====================================================================== *)
(* wire format                                                             *)
(* ====================================================================== *)
(* proto.Marshal refuses what is not canonical (invalid UTF-8) *)
Definition marshal (e : rpc) : option bytes := if wf e then Some (encode e) else None.

(* ====================================================================== *)
(* channel transport (payloads are tokens)                                 *)
(* ====================================================================== *)
Record chobs := mkChObs {
  co_events : list (cev Z);     (* returns since the previous step, any order *)
  co_pw : list Z;               (* Write calls still blocked *)
  co_pr : list Z }.             (* Read calls still blocked *)

Definition cwres_eqb (a b : cwres) : bool := match a, b with CWOk, CWOk | CWCtx, CWCtx => true | _, _ => false end.
Definition crres_eqb (a b : crres Z) : bool :=
  match a, b with CROk x, CROk y => x =? y | CRCtx, CRCtx | CRClosed, CRClosed => true | _, _ => false end.
Definition cev_eqb (a b : cev Z) : bool :=
  match a, b with
  | CEvWrite i v r, CEvWrite i' v' r' => Nat.eqb i i' && (v =? v') && cwres_eqb r r'
  | CEvRead j r, CEvRead j' r' => Nat.eqb j j' && crres_eqb r r'
  | _, _ => false
  end.
Definition cwriter_eqb (a b : cwriter Z) : bool :=
  (cw_val a =? cw_val b) && Bool.eqb (cw_done a) (cw_done b) && Bool.eqb (cw_pend a) (cw_pend b).
Definition creader_eqb (a b : creader) : bool := Bool.eqb (cr_done a) (cr_done b) && Bool.eqb (cr_pend a) (cr_pend b).

(* the log is compared as the multiset of the events of the current step: canonical order *)
Definition cev_code (e : cev Z) : list Z :=
  match e with
  | CEvWrite i v r => [0; Z.of_nat i; v; match r with CWOk => 0 | CWCtx => 1 end]
  | CEvRead j r => 1 :: Z.of_nat j :: match r with CROk v => [0; v] | CRCtx => [1] | CRClosed => [2] end
  end.
Fixpoint lex_leb (a b : list Z) : bool :=
  match a, b with
  | [], _ => true
  | _ :: _, [] => false
  | x :: a', y :: b' => if x <? y then true else if y <? x then false else lex_leb a' b'
  end.
Definition canon_log {Ev} (code : Ev -> list Z) (base : nat) (log : list Ev) : list Ev :=
  firstn base log ++ sort_by (fun a b => lex_leb (code a) (code b)) (skipn base log).

Definition ch_canon (base : nat) (s : chst Z) : chst Z :=
  mkCh (ch_cap s) (ch_buf s) (ch_closed s) (ch_ws s) (ch_rs s) (canon_log cev_code base (ch_log s)).
Definition chst_eqb (a b : chst Z) : bool :=
  Nat.eqb (ch_cap a) (ch_cap b) && list_eqb Z.eqb (ch_buf a) (ch_buf b) && Bool.eqb (ch_closed a) (ch_closed b)
  && list_eqb cwriter_eqb (ch_ws a) (ch_ws b) && list_eqb creader_eqb (ch_rs a) (ch_rs b)
  && list_eqb cev_eqb (ch_log a) (ch_log b).

Definition succs_of {St} (rules : St -> list (St -> option St)) (canon : St -> St) (s : St) : list St :=
  map canon (filter_map (fun r => r s) (rules s)).

Definition ch_react_all (s : chst Z) (acts : list (cact Z)) : option (list (chst Z)) :=
  let s1 := fold_left ch_ext acts s in
  explore chst_eqb (succs_of ch_rules (ch_canon (length (ch_log s)))) 20000 [s1] [s1] [].

Fixpoint pend_idx {A} (p : A -> bool) (n : nat) (l : list A) : list Z :=
  match l with
  | [] => []
  | x :: t => (if p x then [Z.of_nat n] else []) ++ pend_idx p (S n) t
  end.

Definition ch_predict (prev s : chst Z) : chobs :=
  mkChObs (skipn (length (ch_log prev)) (ch_log s)) (pend_idx cw_pend 0 (ch_ws s)) (pend_idx cr_pend 0 (ch_rs s)).
Definition chobs_eqb (a b : chobs) : bool :=
  multiset_eqb cev_eqb (co_events a) (co_events b) && list_eqb Z.eqb (co_pw a) (co_pw b) && list_eqb Z.eqb (co_pr a) (co_pr b).

(* generic lock-step agreement: index of the first step without a matching prediction *)
Fixpoint agree_from {St Act Obs} (react : St -> list Act -> option (list St)) (predict : St -> St -> Obs)
         (oeqb : Obs -> Obs -> bool) (seqb : St -> St -> bool)
         (i : nat) (cands : list St) (steps : list (list Act * Obs)) : option nat :=
  match steps with
  | [] => None
  | (acts, o) :: rest =>
      let nexts := flat_map (fun s => match react s acts with
                                      | Some qs => filter (fun s' => oeqb (predict s s') o) qs
                                      | None => []
                                      end) cands in
      match dedup seqb nexts with
      | [] => Some i
      | ns => agree_from react predict oeqb seqb (S i) ns rest
      end
  end.

(* property on the observed history alone: the values returned by successful
   Reads, in return order, are a prefix of the values of the successful Writes
   in return order whenever Writes are sequential; in general (concurrent
   Writes return in the same step) the multiset of values read is included in
   the values written and nothing is read twice. The rig's tokens are distinct. *)
Definition ch_obs_events (steps : list (list (cact Z) * chobs)) : list (cev Z) := flat_map (fun p => co_events (snd p)) steps.
Definition spec_chan (steps : list (list (cact Z) * chobs)) : bool :=
  let evs := ch_obs_events steps in
  let written := ch_written evs in
  let read := ch_read evs in
  (* every value read was written, and at most as often *)
  forallb (fun v => Nat.leb (count Z.eqb v read) (count Z.eqb v written)) read
  (* each call returns at most once *)
  && forallb (fun e => match e with
                       | CEvWrite i _ _ => Nat.eqb (ch_wevents i evs) 1
                       | CEvRead j _ => Nat.eqb (ch_revents j evs) 1
                       end) evs.

(* with one writer at a time the order is observable: reads are a prefix of the writes *)
Fixpoint is_prefix (a b : list Z) : bool :=
  match a, b with
  | [], _ => true
  | x :: a', y :: b' => (x =? y) && is_prefix a' b'
  | _, _ => false
  end.
Definition ch_sequential (steps : list (list (cact Z) * chobs)) : bool :=
  forallb (fun p => Nat.leb (length (ch_written (co_events (snd p)))) 1 && Nat.leb (length (ch_read (co_events (snd p)))) 1) steps.
Definition spec_chan_seq (steps : list (list (cact Z) * chobs)) : bool :=
  let evs := ch_obs_events steps in is_prefix (ch_read evs) (ch_written evs).

(* a call whose context is done is not left pending *)
Fixpoint ch_done_calls (acts : list (cact Z)) (nw nr : nat) (dw dr : list Z) : list Z * list Z :=
  match acts with
  | [] => (dw, dr)
  | CWrite _ d :: t => ch_done_calls t (S nw) nr (if d then Z.of_nat nw :: dw else dw) dr
  | CRead d :: t => ch_done_calls t nw (S nr) dw (if d then Z.of_nat nr :: dr else dr)
  | CCancelW i :: t => ch_done_calls t nw nr (Z.of_nat i :: dw) dr
  | CCancelR j :: t => ch_done_calls t nw nr dw (Z.of_nat j :: dr)
  | CClose :: t => ch_done_calls t nw nr dw dr
  end.
(* ... at EVERY quiescent point, not only the last one (a call that ignores its context may be released later by
   something else: it must not have been parked meanwhile) *)
Fixpoint spec_chan_ctx_from (nw nr : nat) (dw dr : list Z) (steps : list (list (cact Z) * chobs)) : bool :=
  match steps with
  | [] => true
  | (acts, o) :: rest =>
      let '(dw1, dr1) := ch_done_calls acts nw nr dw dr in
      let nw1 := (nw + length (filter (fun a => match a with CWrite _ _ => true | _ => false end) acts))%nat in
      let nr1 := (nr + length (filter (fun a => match a with CRead _ => true | _ => false end) acts))%nat in
      forallb (fun i => negb (existsb (Z.eqb i) dw1)) (co_pw o)
      && forallb (fun j => negb (existsb (Z.eqb j) dr1)) (co_pr o)
      && spec_chan_ctx_from nw1 nr1 dw1 dr1 rest
  end.
Definition spec_chan_ctx (steps : list (list (cact Z) * chobs)) : bool := spec_chan_ctx_from 0 0 [] [] steps.

(* ====================================================================== *)
(* WebSocket                                                               *)
(* ====================================================================== *)
Record wsobs := mkWsObs {
  wo_events : list (wsev rpc);
  wo_rd : bool }.               (* a Read is still blocked *)

(* error kinds that the observation distinguishes: non-binary | decode | anything else *)
Definition wsres_eqb (a b : wsres rpc) : bool :=
  match a, b with
  | WsMsg x, WsMsg y => rpc_eqb x y
  | WsNonBinary, WsNonBinary | WsDecode, WsDecode => true
  | (WsCtx | WsConn), (WsCtx | WsConn) => true
  | _, _ => false
  end.
Definition wsev_eqb (a b : wsev rpc) : bool :=
  match a, b with
  | WsEvWrite x ok, WsEvWrite y ok' => rpc_eqb x y && Bool.eqb ok ok'
  | WsEvRead x, WsEvRead y => wsres_eqb x y
  | _, _ => false
  end.
Definition frame_eqb (a b : frame bytes) : bool := Bool.eqb (f_bin a) (f_bin b) && bytes_eqb (f_data a) (f_data b).
Definition wsst_eqb (a b : wsst rpc bytes) : bool :=
  list_eqb frame_eqb (ws_wire a) (ws_wire b) && opt_eqb Bool.eqb (ws_rd a) (ws_rd b)
  && Bool.eqb (ws_rclosed a) (ws_rclosed b) && Bool.eqb (ws_wclosed a) (ws_wclosed b) && Nat.eqb (length (ws_sent a)) (length (ws_sent b))
  && list_eqb wsev_eqb (ws_log a) (ws_log b).

Definition ws_react_all (s : wsst rpc bytes) (acts : list (wsact rpc bytes)) : option (list (wsst rpc bytes)) :=
  let s1 := fold_left (ws_ext encode) acts s in
  explore wsst_eqb (succs_of (ws_rules decode) (fun x => x)) 2000 [s1] [s1] [].
Definition ws_predict (prev s : wsst rpc bytes) : wsobs :=
  mkWsObs (skipn (length (ws_log prev)) (ws_log s)) (match ws_rd s with Some _ => true | None => false end).
Definition wsobs_eqb (a b : wsobs) : bool :=
  multiset_eqb wsev_eqb (wo_events a) (wo_events b) && Bool.eqb (wo_rd a) (wo_rd b).

(* property on the observed history: the frames put on the wire (written
   envelopes and injected raw frames, in action order) and the results of the
   Reads that consumed a frame correspond one to one, in order: an envelope
   written arrives equal; a text frame is an error; an injected binary frame is
   delivered iff it is an envelope according to the wire format, as that
   envelope; nothing else is ever delivered *)
Inductive sentk := SEnv (e : rpc) | SText | SBin (bs : bytes).
Fixpoint ws_sent_of (acts : list (wsact rpc bytes)) (evs : list (wsev rpc)) : list sentk :=
  match acts with
  | [] => []
  | WsWrite e :: t =>
      (* successful Writes only: pair with the write events in order *)
      match evs with
      | WsEvWrite _ ok :: evs' => (if ok then [SEnv e] else []) ++ ws_sent_of t evs'
      | _ => ws_sent_of t evs
      end
  | WsInject f :: t => (if f_bin f then SBin (f_data f) else SText) :: ws_sent_of t evs
  | _ :: t => ws_sent_of t evs
  end.
Fixpoint ws_match (sent : list sentk) (res : list (wsres rpc)) : bool :=
  match res, sent with
  | [], _ => true
  | r :: res', k :: sent' =>
      (match k, r with
       | SEnv e, WsMsg e' => rpc_eqb e e'
       | SText, WsNonBinary => true
       (* "undecodable bytes" is what the wire format says: Model/WireFormat.decode *)
       | SBin bs, WsMsg e' => opt_eqb rpc_eqb (decode bs) (Some e')
       | SBin bs, WsDecode => match decode bs with None => true | Some _ => false end
       | _, _ => false
       end) && ws_match sent' res'
  | _ :: _, [] => false
  end.
Definition ws_write_events (evs : list (wsev rpc)) : list (wsev rpc) :=
  filter (fun e => match e with WsEvWrite _ _ => true | _ => false end) evs.
(* a Read fails with a connection error only after the connection was broken or a Read was cancelled *)
Definition spec_ws_noerr (acts : list (wsact rpc bytes)) (evs : list (wsev rpc)) : bool :=
  existsb (fun a => match a with WsBreak | WsCancelRead => true | _ => false end) acts
  || forallb (fun e => match e with WsEvRead WsCtx | WsEvRead WsConn | WsEvWrite _ false => false | _ => true end) evs.
(* a Read whose context is done is not left parked: at the quiescent point after a cancel no Read is blocked *)
Definition spec_ws_ctx (steps : list (list (wsact rpc bytes) * wsobs)) : bool :=
  forallb (fun p => negb (existsb (fun a => match a with WsCancelRead => true | _ => false end) (fst p)) || negb (wo_rd (snd p))) steps.

Definition spec_ws (steps : list (list (wsact rpc bytes) * wsobs)) : bool :=
  let evs := flat_map (fun p => wo_events (snd p)) steps in
  ws_match (ws_sent_of (flat_map fst steps) (ws_write_events evs)) (ws_frame_results evs)
  && spec_ws_noerr (flat_map fst steps) evs.

(* ---------- WebSocket at fragment level (Model/WsFrag.v): blocked Writes ---------- *)
Record fobs := mkFObs {
  fo_rets : list (Z * bool);    (* Write calls that returned during this step: (call, nil?) *)
  fo_pend : list Z }.           (* Write calls still parked *)
Definition fwst_eqb (a b : fwst) : bool :=
  match a, b with FWait, FWait | FSend, FSend => true | FDone x, FDone y => Bool.eqb x y | _, _ => false end.
Definition fwrite_eqb (a b : fwrite Z) : bool :=
  (fw_env a =? fw_env b) && Nat.eqb (fw_left a) (fw_left b) && Bool.eqb (fw_ctx a) (fw_ctx b) && fwst_eqb (fw_st a) (fw_st b).
Definition fev_eqb (a b : fev) : bool :=
  match a, b with
  | FEvFrag x, FEvFrag y | FEvLast x, FEvLast y | FEvRead x, FEvRead y => Nat.eqb x y
  | FEvWRet x o, FEvWRet y p => Nat.eqb x y && Bool.eqb o p
  | FEvReadErr, FEvReadErr => true
  | _, _ => false
  end.
Definition fstate_eqb (a b : fstate Z) : bool :=
  list_eqb fwrite_eqb (f_ws a) (f_ws b) && opt_eqb Nat.eqb (f_lock a) (f_lock b)
  && list_eqb (fun x y => Nat.eqb (fst x) (fst y) && Bool.eqb (snd x) (snd y)) (f_wire a) (f_wire b)
  && Nat.eqb (f_room a) (f_room b) && Bool.eqb (f_rd a) (f_rd b) && Bool.eqb (f_closed a) (f_closed b)
  && list_eqb fev_eqb (f_log a) (f_log b).
Definition fr_react_all (s : fstate Z) (acts : list (fact Z)) : option (list (fstate Z)) :=
  let s1 := fold_left f_ext acts s in
  explore fstate_eqb (succs_of f_rules (fun x => x)) 4000 [s1] [s1] [].
Definition fr_predict (prev s : fstate Z) : fobs :=
  mkFObs (flat_map (fun e => match e with FEvWRet w ok => [(Z.of_nat w, ok)] | _ => [] end) (skipn (length (f_log prev)) (f_log s)))
         (pend_idx (fun x => match fw_st x with FDone _ => false | _ => true end) 0 (f_ws s)).
Definition fobs_eqb (a b : fobs) : bool :=
  multiset_eqb (fun x y => (fst x =? fst y) && Bool.eqb (snd x) (snd y)) (fo_rets a) (fo_rets b)
  && list_eqb Z.eqb (fo_pend a) (fo_pend b).

(* ====================================================================== *)
(* HTTP                                                                    *)
(* ====================================================================== *)
(* the rig's SourceToAddress: "a" "b" "c" -> addresses 0 1 2, "d" -> 0, anything else is an error *)
Definition rig_route (e : rpc) : route :=
  match r_header e with
  | None => RtNoHeader
  | Some h =>
      match h_source h with
      | [] => RtEmptySource
      | [97%N] => RtAddr 0
      | [98%N] => RtAddr 1
      | [99%N] => RtAddr 2
      | [100%N] => RtAddr 0
      | _ => RtMapErr
      end
  end.

(* the end-to-end rig's SourceToAddress: every non-empty source is at address 0 *)
Definition e2e_route (e : rpc) : route :=
  match r_header e with
  | None => RtNoHeader
  | Some h => match h_source h with [] => RtEmptySource | _ => RtAddr 0 end
  end.

(* The end-to-end rig's exchange, replayed on the LINK model (Model/HttpLink.v) with the model's own rules: for every
   envelope Write (the POST reaches the peer: LWrite), a Read of the far connection (LPeer (HRead 0)), the hand-off
   (h_handoff lifted by l_peer), the answer seen by Write (l_answer). What the model then says the Writes returned and
   the far end read is compared with what the two real GoatOverHttp instances did (reason 1). *)
Fixpoint link_exchange (k : link rpc bytes) (es : list rpc) : link rpc bytes :=
  match es with
  | [] => k
  | e :: t =>
      let w := length (lk_ws k) in
      let q := length (hs_reqs (lk_peer k)) in
      let k1 := lk_ext encode decode e2e_route k (LWrite e) in
      let r := length (hs_rds (lk_peer k1)) in
      let k2 := lk_ext encode decode e2e_route k1 (LPeer (HRead 0%nat false)) in
      match l_peer (h_handoff q r) k2 with
      | Some k3 => match l_answer w k3 with Some k4 => link_exchange k4 t | None => link_exchange k3 t end
      | None => link_exchange k2 t
      end
  end.
Definition link_oks (k : link rpc bytes) : list bool :=
  map (fun x => match sw_res x with Some true => true | _ => false end) (lk_ws k).
Definition link_reads (k : link rpc bytes) : list (option rpc) :=
  flat_map (fun ev => match ev with HEvRead _ (HROk e) => [Some e] | _ => [] end) (hs_log (lk_peer k)).

Record hobs := mkHObs {
  ho_resps : list (Z * Z);           (* (request, status code) answered in this step *)
  ho_announced : list (Z * Z);       (* (address, connection) announced in this step *)
  ho_reads : list (Z * hrres rpc);   (* Read calls that returned *)
  ho_writes : list (Z * bool);       (* Write calls that returned *)
  ho_table : list Z;                 (* registered addresses, sorted *)
  ho_pq : list Z; ho_pr : list Z; ho_pw : list Z;   (* requests / reads / writes still blocked *)
  ho_crashed : bool }.               (* a panic was recovered around ServeHTTP or elsewhere *)

Definition hrres_eqb (a b : hrres rpc) : bool :=
  match a, b with HROk x, HROk y => rpc_eqb x y | HRClosed, HRClosed | HRCtx, HRCtx => true | _, _ => false end.
Definition hbody_eqb (a b : hbody bytes) : bool :=
  match a, b with BNil, BNil | BUnreadable, BUnreadable => true | BBytes x, BBytes y => bytes_eqb x y | _, _ => false end.
Definition hev_eqb (a b : hev rpc bytes) : bool :=
  match a, b with
  | HEvReq q x, HEvReq q' y => Nat.eqb q q' && hbody_eqb x y
  | HEvResp q c, HEvResp q' c' => Nat.eqb q q' && (c =? c')
  | HEvAnnounce x c, HEvAnnounce y c' => (x =? y) && Nat.eqb c c'
  | HEvDeliver q c r, HEvDeliver q' c' r' => Nat.eqb q q' && Nat.eqb c c' && Nat.eqb r r'
  | HEvRead r x, HEvRead r' y => Nat.eqb r r' && hrres_eqb x y
  | HEvWrite w x, HEvWrite w' y => Nat.eqb w w' && Bool.eqb x y
  | HEvRemoved c, HEvRemoved c' => Nat.eqb c c'
  | _, _ => false
  end.
Definition hev_code (e : hev rpc bytes) : list Z :=
  match e with
  | HEvReq q _ => [0; Z.of_nat q]
  | HEvResp q c => [1; Z.of_nat q; c]
  | HEvAnnounce a c => [2; a; Z.of_nat c]
  | HEvDeliver q c r => [3; Z.of_nat q; Z.of_nat c; Z.of_nat r]
  | HEvRead r x => [4; Z.of_nat r; match x with HROk _ => 0 | HRClosed => 1 | HRCtx => 2 end]
  | HEvWrite w ok => [5; Z.of_nat w; if ok then 1 else 0]
  | HEvRemoved c => [6; Z.of_nat c]
  end.
Definition hconn_eqb (a b : hconn) : bool := (c_addr a =? c_addr b) && (c_last a =? c_last b) && Bool.eqb (c_closed a) (c_closed b).
Definition qstate_eqb (a b : qstate rpc) : bool :=
  match a, b with QDone, QDone => true | QHandoff c e, QHandoff c' e' => Nat.eqb c c' && rpc_eqb e e' | _, _ => false end.
Definition hreader_eqb (a b : hreader) : bool :=
  Nat.eqb (hr_conn a) (hr_conn b) && Bool.eqb (hr_done a) (hr_done b) && Bool.eqb (hr_pend a) (hr_pend b).
Definition hwriter_eqb (a b : hwriter) : bool :=
  Nat.eqb (hw_conn a) (hw_conn b) && Bool.eqb (hw_done a) (hw_done b) && Bool.eqb (hw_pend a) (hw_pend b).
Definition cleaner_eqb (a b : cleaner) : bool :=
  match a, b with ClRunning, ClRunning | ClStopping, ClStopping | ClDead, ClDead => true | _, _ => false end.
Definition pairZn_eqb (a b : Z * nat) : bool := (fst a =? fst b) && Nat.eqb (snd a) (snd b).
Definition hst_eqb (a b : hst rpc bytes) : bool :=
  (hs_now a =? hs_now b) && (hs_next a =? hs_next b) && Bool.eqb (hs_tick a) (hs_tick b) && cleaner_eqb (hs_cl a) (hs_cl b)
  && list_eqb hconn_eqb (hs_conns a) (hs_conns b) && list_eqb pairZn_eqb (hs_tbl a) (hs_tbl b)
  && list_eqb qstate_eqb (hs_reqs a) (hs_reqs b) && list_eqb hreader_eqb (hs_rds a) (hs_rds b)
  && list_eqb hwriter_eqb (hs_wrs a) (hs_wrs b) && Bool.eqb (hs_crashed a) (hs_crashed b)
  && list_eqb hev_eqb (hs_log a) (hs_log b).
Definition h_canon (base : nat) (s : hst rpc bytes) : hst rpc bytes :=
  mkH (hs_interval s) (hs_timeout s) (hs_now s) (hs_next s) (hs_tick s) (hs_cl s) (hs_conns s) (hs_tbl s)
      (hs_reqs s) (hs_rds s) (hs_wrs s) (hs_crashed s) (canon_log hev_code base (hs_log s)).

Definition h_react_all (s : hst rpc bytes) (acts : list (hact bytes)) : option (list (hst rpc bytes)) :=
  let s1 := fold_left (h_ext decode rig_route) acts s in
  explore hst_eqb (succs_of h_rules (h_canon (length (hs_log s)))) 20000 [s1] [s1] [].

Definition pairZZ_eqb (a b : Z * Z) : bool := (fst a =? fst b) && (snd a =? snd b).
Definition h_predict (prev s : hst rpc bytes) : hobs :=
  let evs := skipn (length (hs_log prev)) (hs_log s) in
  mkHObs (flat_map (fun e => match e with HEvResp q c => [(Z.of_nat q, c)] | _ => [] end) evs)
         (flat_map (fun e => match e with HEvAnnounce a c => [(a, Z.of_nat c)] | _ => [] end) evs)
         (flat_map (fun e => match e with HEvRead r x => [(Z.of_nat r, x)] | _ => [] end) evs)
         (flat_map (fun e => match e with HEvWrite w ok => [(Z.of_nat w, ok)] | _ => [] end) evs)
         (sort_by Z.leb (map fst (hs_tbl s)))
         (pend_idx (fun q => match q with QHandoff _ _ => true | QDone => false end) 0 (hs_reqs s))
         (pend_idx hr_pend 0 (hs_rds s)) (pend_idx hw_pend 0 (hs_wrs s))
         (hs_crashed s).
Definition hobs_eqb (a b : hobs) : bool :=
  multiset_eqb pairZZ_eqb (ho_resps a) (ho_resps b)
  && multiset_eqb pairZZ_eqb (ho_announced a) (ho_announced b)
  && multiset_eqb (fun x y => (fst x =? fst y) && hrres_eqb (snd x) (snd y)) (ho_reads a) (ho_reads b)
  && multiset_eqb (fun x y => (fst x =? fst y) && Bool.eqb (snd x) (snd y)) (ho_writes a) (ho_writes b)
  && list_eqb Z.eqb (ho_table a) (ho_table b)
  && list_eqb Z.eqb (ho_pq a) (ho_pq b) && list_eqb Z.eqb (ho_pr a) (ho_pr b) && list_eqb Z.eqb (ho_pw a) (ho_pw b)
  && Bool.eqb (ho_crashed a) (ho_crashed b).

(* property on the observed history: (a) no crash; (b) a request is answered
   400 iff its body is absent / unreadable / undecodable / without header /
   without source / with an unmappable source - the classification is
   recomputed from the request bytes; (c) every envelope returned by a Read is
   the decoded body of a distinct accepted request that was answered 200, on a
   connection of the mapped address; an accepted request is answered 200 or 503
   or is still parked; (d) a connection is announced at most once and only for
   an address that an accepted request mapped to *)
Fixpoint posts_of (acts : list (hact bytes)) : list (hbody bytes) :=
  match acts with
  | [] => []
  | HPost b :: t => b :: posts_of t
  | _ :: t => posts_of t
  end.
Definition resp_of (q : nat) (resps : list (Z * Z)) : list Z :=
  flat_map (fun p => if fst p =? Z.of_nat q then [snd p] else []) resps.
Fixpoint spec_http_reqs (q : nat) (posts : list (hbody bytes)) (resps : list (Z * Z)) (pending : list Z) : bool :=
  match posts with
  | [] => true
  | b :: rest =>
      (match http_classify decode rig_route b, resp_of q resps with
       | V400 _, [400] => true
       | VDeliver _ _, [200] | VDeliver _ _, [503] => true
       | VDeliver _ _, [] => existsb (Z.eqb (Z.of_nat q)) pending
       | _, _ => false
       end) && spec_http_reqs (S q) rest resps pending
  end.
Definition accepted_envs (posts : list (hbody bytes)) (resps : list (Z * Z)) : list rpc :=
  flat_map (fun p => match http_classify decode rig_route (snd p), resp_of (fst p) resps with
                     | VDeliver _ e, [200] => [e]
                     | _, _ => []
                     end) (combine (seq 0 (length posts)) posts).
Definition spec_http (steps : list (list (hact bytes) * hobs)) : bool :=
  let acts := flat_map fst steps in
  let posts := posts_of acts in
  let resps := flat_map (fun p => ho_resps (snd p)) steps in
  let reads := flat_map (fun p => ho_reads (snd p)) steps in
  let ann := flat_map (fun p => ho_announced (snd p)) steps in
  let pending := match rev steps with [] => [] | (_, o) :: _ => ho_pq o end in
  let delivered := flat_map (fun p => match snd p with HROk e => [e] | _ => [] end) reads in
  negb (existsb (fun p => ho_crashed (snd p)) steps)
  && spec_http_reqs 0 posts resps pending
  && multiset_eqb rpc_eqb delivered (accepted_envs posts resps)
  && Nat.eqb (length (dedup Z.eqb (map snd ann))) (length ann)
  && forallb (fun a => existsb (fun b => match http_classify decode rig_route b with
                                         | VDeliver a' _ => a' =? fst a | _ => false end) posts) ann.

(* a Read / Write whose context is done (issued with a done context, or cancelled later) is not parked at any
   quiescent point from then on *)
Fixpoint spec_http_ctx_from (nr nw : nat) (dr dw : list Z) (steps : list (list (hact bytes) * hobs)) : bool :=
  match steps with
  | [] => true
  | (acts, o) :: rest =>
      let '(nr1, nw1, dr1, dw1) :=
        fold_left (fun st a => let '(nr, nw, dr, dw) := st in
                     match a with
                     | HRead _ d => (S nr, nw, (if d then Z.of_nat nr :: dr else dr), dw)
                     | HWrite _ d => (nr, S nw, dr, (if d then Z.of_nat nw :: dw else dw))
                     | HCancelRead r => (nr, nw, Z.of_nat r :: dr, dw)
                     | _ => st
                     end) acts (nr, nw, dr, dw) in
      forallb (fun j => negb (existsb (Z.eqb j) dr1)) (ho_pr o)
      && forallb (fun i => negb (existsb (Z.eqb i) dw1)) (ho_pw o)
      && spec_http_ctx_from nr1 nw1 dr1 dw1 rest
  end.

(* "a connection that has been idle past its timeout fails its readers", on the observed history, in its plainest form: a
   Read that is still parked at the end, on a connection that never saw any activity in the whole scenario (no delivery to one
   of its Reads, no Write on it), although the cleaner was never stopped and the clock has advanced by at least timeout +
   interval since the Read was issued (so a tick has come at which the connection had been idle for the timeout) *)
Fixpoint http_idle_scan (T : Z) (reads : list (nat * Z)) (active : list nat) (stopped : bool)
         (steps : list (list (hact bytes) * hobs)) : Z * list (nat * Z) * list nat * bool * list Z :=
  match steps with
  | [] => (T, reads, active, stopped, [])
  | (acts, o) :: rest =>
      let '(T1, reads1, active1, stopped1) :=
        fold_left (fun st a => let '(T, rs, ac, sp) := st in
                     match a with
                     | HAdvance d => ((if d <? 0 then T else T + d), rs, ac, sp)
                     | HRead c _ => (T, rs ++ [(c, T)], ac, sp)
                     | HWrite c _ => (T, rs, c :: ac, sp)
                     | HStop => (T, rs, ac, true)
                     | _ => st
                     end) acts (T, reads, active, stopped) in
      let delivered := flat_map (fun p => match snd p with
                                          | HROk _ => match nth_error reads1 (Z.to_nat (fst p)) with Some (c, _) => [c] | None => [] end
                                          | _ => [] end) (ho_reads o) in
      match rest with
      | [] => (T1, reads1, delivered ++ active1, stopped1, ho_pr o)
      | _ => http_idle_scan T1 reads1 (delivered ++ active1) stopped1 rest
      end
  end.
Definition spec_http_idle (interval timeout : Z) (steps : list (list (hact bytes) * hobs)) : bool :=
  let '(T, reads, active, stopped, pending) := http_idle_scan 0 [] [] false steps in
  stopped || (interval <=? 0) ||
  forallb (fun j => match nth_error reads (Z.to_nat j) with
                    | Some (c, t0) => existsb (Nat.eqb c) active || (T - t0 <? timeout + interval)
                    | None => true
                    end) pending.

(* an idle connection: after the last step no Read is parked on a connection
   that is not registered any more, and no context-done call is parked *)

(* ====================================================================== *)
(* cases                                                                   *)
(* ====================================================================== *)
Inductive c19case :=
(* proto.Marshal(e) -> bytes (None: refused); proto.Unmarshal of those bytes -> value *)
| CWireRT (e : rpc) (obs_bytes : option bytes) (obs_back : option rpc)
(* proto.Unmarshal on arbitrary bytes: known-field projection of the result, None = rejected *)
| CWireDec (bs : bytes) (obs : option rpc)
| CChan (cap : nat) (steps : list (list (cact Z) * chobs))
| CWs (steps : list (list (wsact rpc bytes) * wsobs))
| CHttp (interval timeout now : Z) (steps : list (list (hact bytes) * hobs))
(* two GoatOverHttp instances over real HTTP: envelopes written on one end, envelopes read on the other *)
| CHttpE2E (written : list rpc) (write_ok : list bool) (read : list (option rpc))
(* the same without the replay on the link model: the quick tier uses it for the 1 MiB cases except one (the replay of a
   megabyte costs seconds; the thorough tier replays all of them) *)
| CHttpE2EQ (written : list rpc) (write_ok : list bool) (read : list (option rpc))
(* one raw HTTP request against a GoatOverHttp behind a real listener, with a reader waiting on the
   connection of every address: what ServeHTTP was given to read (after net/http's framing: chunked or
   unknown length, a Content-Length that is larger / smaller than what is sent), the status it
   answered, what the reader obtained. The rig's SourceToAddress maps every non-empty source. *)
| CHttpRaw (b : hbody bytes) (status : Z) (delivered : option rpc)
(* end to end with a FAULT between the delivery and its answer: the far end hands the envelope to its reader and the
   TCP connection then drops before the 200 gets back, so the sender's Write fails (or, if it repeats the POST, is told
   200 for the second one). Whatever Write returned: the receiver reads every envelope AT MOST once, in write order,
   and at least the ones whose Write returned nil. [written] in write order, [read] what arrived before the marker. *)
| CHttpE2EFault (written : list rpc) (write_ok : list bool) (read : list rpc)
(* blocked WebSocket Writes (bounded relay, nobody reads), step by step against the fragment-level model
   (Model/WsFrag.v: [room] fragments fit the wire); [holds]: both calls were parked and have returned an error at the
   quiescent point after their contexts ended *)
| CWsFrag (room : nat) (steps : list (list (fact Z) * fobs)) (holds : bool)
(* a direct observation that the property requires to hold (code: see lib/props/C19.py).
   Code 3 is the sender's half of "written without error => read": the model of one GoatOverHttp has the far end
   as the environment of a Write ([HPostResult w ok]); since /repo 2aacfa6 [ok] reads "the POST was answered 200"
   (Write returns an error for every other status), and in the model 200 is only ever answered by the delivery
   rule (log [HEvDeliver q c r; HEvResp q 200; HEvRead r (HROk e)]; [spec_http] checks "answered 200 <=> delivered"
   on every observed history), so with C19_http_delivery_correct / C19_http_end_to_end: a Write that returned nil
   was read on the other end as the envelope written. *)
| CAssert (code : Z) (holds : bool).

Definition check (c : c19case) : list nat :=
  match c with
  | CWireRT e ob back =>
      (if opt_eqb bytes_eqb (marshal e) ob then [] else [1%nat]) ++
      (match ob with
       | Some bs => (if opt_eqb rpc_eqb (decode bs) back then [] else [1%nat]) ++
                    (* the property: what was marshalled unmarshals to the same envelope *)
                    (if opt_eqb rpc_eqb back (Some e) then [] else [2%nat])
       | None => []
       end)
  | CWireDec bs ob => if opt_eqb rpc_eqb (decode bs) ob then [] else [1%nat]
  | CChan cap steps =>
      (match agree_from ch_react_all ch_predict chobs_eqb chst_eqb 0 [ch_init cap] steps with
       | None => [] | Some _ => [1%nat] end) ++
      (if spec_chan steps && (negb (ch_sequential steps) || spec_chan_seq steps) then [] else [2%nat]) ++
      (if spec_chan_ctx steps then [] else [3%nat])
  | CWs steps =>
      (match agree_from ws_react_all ws_predict wsobs_eqb wsst_eqb 0 [ws_init] steps with
       | None => [] | Some _ => [1%nat] end) ++
      (if spec_ws steps then [] else [2%nat]) ++
      (if spec_ws_ctx steps then [] else [3%nat])
  | CHttp iv tmo now steps =>
      (match agree_from h_react_all h_predict hobs_eqb hst_eqb 0 [h_init iv tmo now] steps with
       | None => [] | Some _ => [1%nat] end) ++
      (if spec_http steps && spec_http_idle iv tmo steps then [] else [2%nat]) ++
      (if spec_http_ctx_from 0 0 [] [] steps then [] else [3%nat])
  | CWsFrag room steps holds =>
      (match agree_from fr_react_all fr_predict fobs_eqb fstate_eqb 0 [f_init room] steps with
       | None => [] | Some _ => [1%nat] end) ++
      (if holds then [] else [2%nat])
  | CAssert _ b => if b then [] else [2%nat]
  | CHttpRaw b status delivered =>
      (* the classification IS the property (400 iff absent / unreadable / undecodable / no header /
         no source; otherwise delivered, as the decoded value): a difference is both a disagreement
         with the model and a failing input *)
      let ok := match http_classify decode e2e_route b with
                | V400 _ => (status =? 400) && match delivered with None => true | Some _ => false end
                | VDeliver _ e => (status =? 200) && opt_eqb rpc_eqb delivered (Some e)
                end in
      if ok then [] else [1%nat; 2%nat]
  | CHttpE2EFault written oks read =>
      let nodup := Nat.eqb (length (dedup rpc_eqb read)) (length read) in
      let inorder := (fix sub (r w : list rpc) : bool :=
                        match r with
                        | [] => true
                        | x :: r' => (fix skip (w : list rpc) : bool :=
                                        match w with
                                        | [] => false
                                        | y :: w' => if rpc_eqb x y then sub r' w' else skip w'
                                        end) w
                        end) read written in
      let acked := forallb (fun p => negb (snd p) || existsb (rpc_eqb (fst p)) read) (combine written oks) in
      (* the model delivers a request at most once (C19_http_at_most_once) as the decoded envelope: a duplicate or a
         foreign envelope is a disagreement as well as a failing input *)
      (if nodup && inorder then [] else [1%nat]) ++ (if nodup && inorder && acked then [] else [2%nat])
  | CHttpE2EQ written oks read =>
      (if list_eqb (opt_eqb rpc_eqb) (map (fun e => decode (encode e)) written) read then [] else [1%nat]) ++
      (if forallb (fun b => b) oks && list_eqb (opt_eqb rpc_eqb) read (map Some written) then [] else [2%nat])
  | CHttpE2E written oks read =>
      (if list_eqb (opt_eqb rpc_eqb) (map (fun e => decode (encode e)) written) read then [] else [1%nat]) ++
      (let k := link_exchange (lk_init 60 90 0) written in
       if list_eqb Bool.eqb (link_oks k) oks && list_eqb (opt_eqb rpc_eqb) (link_reads k) read then [] else [1%nat]) ++
      (if forallb (fun b => b) oks && list_eqb (opt_eqb rpc_eqb) read (map Some written) then [] else [2%nat])
  end.

(* model and implementation agree on the case (no reason 1) *)
Definition agrees (c : c19case) : bool := negb (existsb (Nat.eqb 1) (check c)).
(* the property predicates hold on the observed history (no reason >= 2) *)
Definition spec_ok (c : c19case) : bool := negb (existsb (fun r => Nat.leb 2 r) (check c)).

Fixpoint find_bad_from (i : nat) (cs : list c19case) : list (nat * list nat) :=
  match cs with
  | [] => []
  | c :: rest =>
      match check c with
      | [] => find_bad_from (S i) rest
      | rs => (i, rs) :: find_bad_from (S i) rest
      end
  end.

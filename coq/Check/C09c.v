(* C09 cases: lock-step scenarios with a read failure; model agreement + the
   settle / fail-fast / no-fabrication predicates on the observed history. *)
From Coq Require Import List ZArith Bool Lia.
Import ListNotations.
From Goat Require Import Base.Explore Model.Client Check.ClientC Check.ClientSpec.
Open Scope Z_scope.

Inductive c09case :=
| C09Step (c : ccase)
(* retry storm: calls in flight when the read failed, each retried once by its caller as soon as it failed *)
| C09Storm (calls pending_at_quiescence successes : Z)
(* a stream (and a unary call) in flight, the transport's Read fails with error value number [variant] after
   [prefix] response envelopes and no trailer; [results]: what each later operation returned:
   0 = a message / nil, 1 = io.EOF (the stream completed with status OK), 2 = an error, 3 = still pending,
   4 = Header() returned the metadata that had arrived before the failure *)
| C09Err (variant prefix : Z) (results : list Z).

Definition check_c09 (c : c09case) : list nat :=
  match c with
  | C09Step cc => (if agrees cc then [] else [1%nat]) ++ reasons_in [3; 5; 6; 7; 8]%nat cc
  | C09Storm n pending succ => (if pending =? 0 then [] else [6%nat]) ++ (if succ =? 0 then [] else [5%nat])
  | C09Err _ _ results =>
      (if existsb (fun r => (r =? 0) || (r =? 1)) results then [5%nat] else []) ++
      (if existsb (fun r => r =? 3) results then [6%nat] else [])
  end.

Fixpoint find_bad_from (i : nat) (cs : list c09case) : list (nat * list nat) :=
  match cs with
  | [] => []
  | c :: rest => match check_c09 c with [] => find_bad_from (S i) rest | rs => (i, rs) :: find_bad_from (S i) rest end
  end.

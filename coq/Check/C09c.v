(* C09 cases: lock-step scenarios with a read failure; model agreement + the
   settle / fail-fast / no-fabrication predicates on the observed history. *)
From Coq Require Import List ZArith Bool Lia.
Import ListNotations.
From Goat Require Import Base.Explore Model.Client Check.ClientC Check.ClientSpec.
Open Scope Z_scope.

Inductive c09case := C09Step (c : ccase).

Definition check_c09 (c : c09case) : list nat :=
  match c with C09Step cc => (if agrees cc then [] else [1%nat]) ++ reasons_in [3; 5; 6; 7; 8]%nat cc end.

Fixpoint find_bad_from (i : nat) (cs : list c09case) : list (nat * list nat) :=
  match cs with
  | [] => []
  | c :: rest => match check_c09 c with [] => find_bad_from (S i) rest | rs => (i, rs) :: find_bad_from (S i) rest end
  end.

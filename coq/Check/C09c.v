(* C09 cases: lock-step scenarios with a read failure; model agreement + the
   settle / fail-fast / no-fabrication predicates on the observed history. *)
From Coq Require Import List ZArith Bool Lia.
Import ListNotations.
From Goat Require Import Base.Explore Model.Client Check.ClientC Check.ClientSpec.
Open Scope Z_scope.

Inductive c09case :=
| C09Step (c : ccase)
(* retry storm: calls in flight when the read failed, each retried once by its caller as soon as it failed *)
| C09Storm (calls pending_at_quiescence successes : Z)
(* a stream (and a unary call) in flight, the transport's Read fails with error value number [variant] after
   [prefix] response envelopes and no trailer; [results]: what each later operation returned:
   0 = a message / nil, 1 = io.EOF (the stream completed with status OK), 2 = an error, 3 = still pending,
   4 = Header() returned the metadata that had arrived before the failure *)
| C09Err (variant prefix : Z) (results : list Z).

(* ---- the model's prediction for the C09Err scenario (it is the same for every error VALUE: the model is
   parametric in it) ---- *)
Definition err_msg (i : Z) : env := mkEnv 1 (Some (MdOk 0)) None (Some (100 + i)) None false.

Fixpoint err_prefix (n : nat) (i : Z) : list act :=
  match n with O => [] | S m => ADeliver (err_msg i) :: ARecv 0 false :: err_prefix m (i + 1) end.

Definition err_acts (prefix : nat) : list act :=
  [ANewStream false; ANewUnary 7 false] ++ err_prefix prefix 0 ++
  [AFailRead; ARecv 0 false; ARecv 0 false; AHeader 0; ANewUnary 8 false; ANewStream false; ARecv 3 false].

Definition recv_code (r : rres) : Z := match r with RMsg _ => 0 | RErr EEof => 1 | RErr _ => 2 end.

(* result codes of: RecvMsg, RecvMsg, Header on the stream; the unary call in flight; Invoke after; NewStream(+RecvMsg) after *)
Definition err_model_codes (prefix : nat) : list Z :=
  let s := run (err_acts prefix) in
  let recvs := flat_map (fun ev => match ev with EvRecvRet 0%nat r => [recv_code r] | _ => [] end) (log s) in
  let after := skipn prefix recvs in
  let nth_or3 (l : list Z) (n : nat) := nth n l 3 in
  let hdr := match flat_map (fun ev => match ev with EvHeaderRet 0%nat v => [match v with inl _ => if Nat.eqb prefix 0 then 0 else 4 | inr _ => 2 end] | _ => [] end) (log s) with
             | x :: _ => x | [] => 3 end in
  let unary (c : nat) := match flat_map (fun ev => match ev with EvUnaryRet c' r => if Nat.eqb c' c then [match r with UOk _ => 0 | UErr _ => 2 end] else [] | _ => [] end) (log s) with
                         | x :: _ => x | [] => 3 end in
  let opened := match flat_map (fun ev => match ev with EvOpenRet 3%nat r => [r] | _ => [] end) (log s) with
                | Some _ :: _ => 2
                | None :: _ => match flat_map (fun ev => match ev with EvRecvRet 3%nat r => [recv_code r] | _ => [] end) (log s) with x :: _ => x | [] => 3 end
                | [] => 3
                end in
  [nth_or3 after 0%nat; nth_or3 after 1%nat; hdr; unary 1%nat; unary 2%nat; opened].

Definition check_c09 (c : c09case) : list nat :=
  match c with
  | C09Step cc => (if agrees cc then [] else [1%nat]) ++ reasons_in [3; 5; 6; 7; 8; 10; 12; 13]%nat cc ++
                  (* reason 11: the scenario could not be run to its end: a goroutine waits for a lock for ever; every call behind it hangs *)
                  (match cc with CClientWedged _ _ _ => [11%nat] | _ => [] end)
  | C09Storm n pending succ => (if pending =? 0 then [] else [6%nat]) ++ (if succ =? 0 then [] else [5%nat])
  | C09Err _ prefix results =>
      (* reason 1: for every error value the real client's results equal the model's (value-independence) *)
      (if list_eqb Z.eqb results (err_model_codes (Z.to_nat prefix)) then [] else [1%nat]) ++
      (if existsb (fun r => (r =? 0) || (r =? 1)) results then [5%nat] else []) ++
      (if existsb (fun r => r =? 3) results then [6%nat] else [])
  end.

Fixpoint find_bad_from (i : nat) (cs : list c09case) : list (nat * list nat) :=
  match cs with
  | [] => []
  | c :: rest => match check_c09 c with [] => find_bad_from (S i) rest | rs => (i, rs) :: find_bad_from (S i) rest end
  end.

(* C14 cases: lock-step client scenarios (model agreement + the release/bound
   predicates on the observed history) and long free histories of RPCs against a
   real server, sampled at quiescent points. *)
From Coq Require Import List ZArith Bool Lia.
Import ListNotations.
From Goat Require Import Base.Explore Model.Client Check.ClientC.
From Goat Require Check.ServerC Check.SrvSpec.   (* server-side cases (builder sv), by qualified names only *)
Open Scope Z_scope.

Inductive c14case :=
| C14Step (c : ccase)
(* a lock-step conversation on the real SERVER connection (rig harness/sv_c05_test.go): when every started handler has
   returned nothing is held for them (Check/SrvSpec.v, reason 8); with_model = false: request deadlines, outside Model/Server.v *)
| C14Srv (with_model : bool) (c : ServerC.svcase)
(* goroutines that have a frame of the library on their stack (or as creator), counted at the idle points of a long
   history (no RPC in flight), in order: whatever else a call starts besides the two kinds of goroutines of the model *)
| C14Gor (idle_counts : list Z)
| C14Long (samples : list (Z * Z * Z * Z * Z)).   (* client registry, stream loops, RPCs in flight, streams in flight, server stream registry (-1 = not read) *)

Definition act_list (c : ccase) : list act := match c with CClient a _ => a | CClientWedged a _ _ => a end.
Definition obs_list (c : ccase) : list obs := match c with CClient _ o => o | CClientWedged _ o _ => o end.

Definition opened_in (evs : list cev) : list nat :=
  flat_map (fun e => match e with EvOpenRet c None => [c] | _ => [] end) evs.
Definition calls_pending (o : obs) : Z := Z.of_nat (length (filter (fun p => snd p =? 0) (o_pending o))).
Definition memn (x : nat) (l : list nat) : bool := existsb (Nat.eqb x) l.
(* a RecvMsg of the stream returned its terminal error (anything but a message that does not unmarshal) *)
Definition ended_in (evs : list cev) : list nat :=
  flat_map (fun e => match e with
                     | EvRecvRet c (RErr EUnmarshal) => []
                     | EvRecvRet c (RErr _) => [c]
                     | _ => []
                     end) evs.

(* walk: [opened] = streams whose open succeeded so far, [gone] = calls whose context the environment ended *)
Fixpoint c14_walk (acts : list act) (observed : list obs) (opened gone : list nat) : list nat :=
  match acts, observed with
  | a :: acts', o :: obs' =>
      let opened' := opened ++ opened_in (o_events o) in
      let gone' := match a with ACancel c | AExpire c => c :: gone | _ => gone end ++ ended_in (o_events o) in
      let bound_ok := match o_reg o with
                      | Some r => (r <=? calls_pending o + o_loops o) && (0 <=? o_loops o)
                      | None => true
                      end in
      let all_ended := (calls_pending o =? 0) && ((o_mux o =? 0) || forallb (fun c => memn c gone') opened') in
      let idle_ok := negb all_ended || (opt_eqb Z.eqb (o_reg o) (Some 0) && (o_loops o =? 0)) in
      (if bound_ok then [] else [2%nat]) ++ (if idle_ok then [] else [3%nat]) ++ c14_walk acts' obs' opened' gone'
  | _, _ => []
  end.

(* ---- reason 7: releasing the PEER's state. A stream whose open succeeded and whose own context ended (ACancel / AExpire:
   cancellation or the caller's deadline) before any final envelope (status, trailer, reset) for its id was even delivered
   has nothing from the server that ends the RPC there: the client must tell it - exactly one RST_STREAM with the stream's
   id on the wire by the next quiescent point (none: the server keeps the handler and its registration until its own timer,
   if it has one, or the end of the connection; two: the second may hit a reused id). Judged only in scenarios without a
   read failure and without write faults (there the reset may legitimately be lost), for streams opened without a park
   whose id was seen on the wire at the step of the open. ---- *)
Fixpoint lookupZ (c : nat) (m : list (nat * Z)) : option Z :=
  match m with [] => None | (c', i) :: t => if Nat.eqb c c' then Some i else lookupZ c t end.
Definition first_open_write (evs : list cev) : option Z :=
  match flat_map (fun e => match e with EvWrite w => if erst w then [] else [eid w] | _ => [] end) evs with
  | i :: _ => Some i
  | [] => None
  end.
Definition finalish (e : env) : bool :=
  match estatus e, etrl e with None, None => erst e | _, _ => true end.

Fixpoint rst_walk (acts : list act) (observed : list obs) (n : nat) (streams judged : list (nat * Z)) (finals : list Z)
  : list (nat * Z) :=
  match acts, observed with
  | a :: acts', o :: obs' =>
      match a with
      | ANewStream false =>
          let streams' := match first_open_write (o_events o) with
                          | Some i => if memn n (opened_in (o_events o)) then (n, i) :: streams else streams
                          | None => streams
                          end in
          rst_walk acts' obs' (S n) streams' judged finals
      | ANewStream true | ANewUnary _ _ => rst_walk acts' obs' (S n) streams judged finals
      | ADeliver e => rst_walk acts' obs' n streams judged (if finalish e then eid e :: finals else finals)
      | ACancel c | AExpire c =>
          let judged' := match lookupZ c streams with
                         | Some i => if existsb (Z.eqb i) finals || memn c (map fst judged) then judged else (c, i) :: judged
                         | None => judged
                         end in
          rst_walk acts' obs' n streams judged' finals
      | _ => rst_walk acts' obs' n streams judged finals
      end
  | _, _ => judged
  end.

Definition rst_count (i : Z) (observed : list obs) : nat :=
  length (filter (fun e => match e with EvWrite w => erst w && (eid w =? i) | _ => false end) (flat_map o_events observed)).
Definition no_faults (acts : list act) : bool :=
  forallb (fun a => match a with AFailRead | ASetWriteFail true => false | _ => true end) acts.
Definition rst_bad (acts : list act) (observed : list obs) : list nat :=
  if no_faults acts && (length acts =? length observed)%nat then
    if forallb (fun ci => Nat.eqb (rst_count (snd ci) observed) 1) (rst_walk acts observed 0 [] [] []) then [] else [7%nat]
  else [].

(* the predicate can fail, and holds of the behaviour it asks for *)
Definition ex_open := mkObs [EvWrite (mkEnv 1 (Some (MdOk 0)) None None None false); EvOpenRet 0 None] (Some 1) [] 1 1.
Definition ex_rst := mkObs [EvWrite (mkEnv 1 (Some (MdOk 0)) None None None true)] (Some 0) [] 0 1.
Definition ex_quiet := mkObs [] (Some 0) [] 0 1.
Example rst_ok : rst_bad [ANewStream false; AExpire 0] [ex_open; ex_rst] = []. Proof. reflexivity. Qed.
Example rst_missing : rst_bad [ANewStream false; AExpire 0] [ex_open; ex_quiet] = [7%nat]. Proof. reflexivity. Qed.
Example rst_twice : rst_bad [ANewStream false; ACancel 0; AExpire 0] [ex_open; ex_rst; ex_rst] = [7%nat]. Proof. reflexivity. Qed.
(* not judged: the server's final envelope was delivered before the context ended; a read failure in the scenario *)
Example rst_after_final : rst_bad [ANewStream false; ADeliver (mkEnv 1 (Some (MdOk 0)) (Some (mkSt 0 0)) None (Some (MdOk 0)) false); ACancel 0]
                                  [ex_open; ex_quiet; ex_quiet] = []. Proof. reflexivity. Qed.
Example rst_faulty : rst_bad [ANewStream false; AFailRead; AExpire 0] [ex_open; ex_quiet; ex_quiet] = []. Proof. reflexivity. Qed.

Definition long_bad (smp : Z * Z * Z * Z * Z) : list nat :=
  match smp with
  | (reg, loops, inflight, streams, srv) =>
      (* loops = -1: the goroutine census was not taken at this sample (thorough tier samples it every 4th step) *)
      (if (0 <=? reg) && (reg <=? inflight) && ((loops =? -1) || ((0 <=? loops) && (loops <=? streams))) then [] else [4%nat]) ++
      (if negb (inflight =? 0) || ((reg =? 0) && ((loops =? 0) || (loops =? -1))) then [] else [5%nat]) ++
      (* what the SERVER holds for the client's RPCs: nothing once the client has none in flight (the client must have
         told it: trailer, reset) *)
      (if negb (inflight =? 0) || (srv <=? 0) then [] else [6%nat])
  end.

Definition spec_c14 (c : c14case) : list nat :=
  match c with
  | C14Step cc => dedup Nat.eqb (c14_walk (act_list cc) (obs_list cc) [] [] ++ rst_bad (act_list cc) (obs_list cc))
  | C14Long samples => dedup Nat.eqb (flat_map long_bad samples)
  | C14Gor counts => match counts with
                     | [] => []
                     | base :: rest => if forallb (fun c => c <=? base) rest then [] else [9%nat]
                     end
  | C14Srv _ _ => []
  end.

Definition check_c14 (c : c14case) : list nat :=
  match c with
  | C14Step cc => (if agrees cc then [] else [1%nat]) ++ spec_c14 c ++ (match cc with CClientWedged _ _ _ => [11%nat] | _ => [] end)
  | C14Long _ => spec_c14 c
  | C14Gor _ => spec_c14 c
  | C14Srv m sc => SrvSpec.check_c14srv m sc
  end.

Fixpoint find_bad_from (i : nat) (cs : list c14case) : list (nat * list nat) :=
  match cs with
  | [] => []
  | c :: rest =>
      match check_c14 c with
      | [] => find_bad_from (S i) rest
      | rs => (i, rs) :: find_bad_from (S i) rest
      end
  end.

(* the predicates of the long histories can fail: a registration surviving its RPC, a stream loop surviving, a server
   registration surviving *)
Example long_bad_4 : long_bad (3, 1, 2, 1, 0) = [4%nat]. Proof. reflexivity. Qed.
Example long_bad_4_loops : long_bad (1, 2, 1, 1, 0) = [4%nat]. Proof. reflexivity. Qed.
Example long_bad_5 : long_bad (1, 0, 0, 0, 0) = [4%nat; 5%nat]. Proof. reflexivity. Qed.
Example long_bad_5_loop : long_bad (0, 1, 0, 0, 0) = [4%nat; 5%nat]. Proof. reflexivity. Qed.
Example long_bad_6 : long_bad (0, 0, 0, 0, 1) = [6%nat]. Proof. reflexivity. Qed.
Example long_ok : long_bad (2, -1, 3, 1, 4) = []. Proof. reflexivity. Qed.

Example gor_ok : check_c14 (C14Gor [12; 12; 11; 12]) = []. Proof. reflexivity. Qed.
Example gor_bad : check_c14 (C14Gor [12; 13; 15; 40]) = [9%nat]. Proof. reflexivity. Qed.
